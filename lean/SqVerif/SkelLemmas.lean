import SqVerif.Skel
/-!
# Soundness of the skeleton analyses

`outs_sound`: for every monitor `M`, every path of a statement (`Sem`) ends in one of the outcomes computed by
the abstract interpreter `outs` — with the monitor state obtained by folding `M` over the path's trace.
The analyses of `Skel.lean` are monitors, so each soundness theorem is this one theorem plus a fact about folding
the monitor over a list of events.
-/
namespace SqVerif.Skel

/-! ### lists as sets -/

theorem mem_addNew {α : Type} [DecidableEq α] (x y : α) (l : List α) : y ∈ addNew x l ↔ y = x ∨ y ∈ l := by
  unfold addNew
  split
  · rename_i h
    constructor
    · intro hy; exact Or.inr hy
    · rintro (rfl | hy)
      · exact h
      · exact hy
  · simp only [List.mem_append, List.mem_singleton]
    constructor
    · rintro (h | h)
      · exact Or.inr h
      · exact Or.inl h
    · rintro (h | h)
      · exact Or.inr h
      · exact Or.inl h

theorem mem_union {α : Type} [DecidableEq α] (y : α) (l1 l2 : List α) : y ∈ union l1 l2 ↔ y ∈ l1 ∨ y ∈ l2 := by
  unfold union
  induction l2 generalizing l1 with
  | nil => simp
  | cons x xs ih =>
    simp only [List.foldl_cons]
    rw [ih, mem_addNew]
    simp only [List.mem_cons]
    constructor
    · rintro ((rfl | h) | h)
      · exact Or.inr (Or.inl rfl)
      · exact Or.inl h
      · exact Or.inr (Or.inr h)
    · rintro (h | rfl | h)
      · exact Or.inl (Or.inr h)
      · exact Or.inl (Or.inl rfl)
      · exact Or.inr h

theorem mem_union_nil {α : Type} [DecidableEq α] (y : α) (l : List α) : y ∈ union [] l ↔ y ∈ l := by
  rw [mem_union]; simp

section Outs
variable {A : Type} [DecidableEq A]

theorem thenOn_sound (sel : Exit → Bool) (k : Exit → Cfg A → Option (List (Out A))) :
    ∀ (O R : List (Out A)), thenOn sel k O = some R → ∀ o, o ∈ O →
      (sel o.1 = false → o ∈ R) ∧
      (sel o.1 = true → ∃ K, k o.1 o.2 = some K ∧ ∀ y, y ∈ K → y ∈ R) := by
  intro O
  induction O with
  | nil => intro R _ o ho; cases ho
  | cons o' rest ih =>
    intro R h o ho
    simp only [thenOn] at h
    cases hrest : thenOn sel k rest with
    | none => rw [hrest] at h; cases h
    | some R' =>
      rw [hrest] at h
      simp only at h
      by_cases hsel : sel o'.1 = true
      · rw [if_pos hsel] at h
        cases hk : k o'.1 o'.2 with
        | none => rw [hk] at h; cases h
        | some K =>
          rw [hk] at h
          simp only [Option.some.injEq] at h
          subst h
          rcases List.mem_cons.1 ho with rfl | ho
          · constructor
            · intro hf; rw [hsel] at hf; cases hf
            · intro _; exact ⟨K, hk, fun y hy => (mem_union y R' K).2 (Or.inr hy)⟩
          · obtain ⟨h1, h2⟩ := ih R' hrest o ho
            constructor
            · intro hf; exact (mem_union o R' K).2 (Or.inl (h1 hf))
            · intro ht
              obtain ⟨K2, hk2, hsub⟩ := h2 ht
              exact ⟨K2, hk2, fun y hy => (mem_union y R' K).2 (Or.inl (hsub y hy))⟩
      · rw [if_neg hsel] at h
        simp only [Option.some.injEq] at h
        subst h
        have hself : sel o'.1 = false := by simpa using hsel
        rcases List.mem_cons.1 ho with rfl | ho
        · constructor
          · intro _; exact (mem_addNew o o R').2 (Or.inl rfl)
          · intro ht; rw [hself] at ht; cases ht
        · obtain ⟨h1, h2⟩ := ih R' hrest o ho
          constructor
          · intro hf; exact (mem_addNew o' o R').2 (Or.inr (h1 hf))
          · intro ht
            obtain ⟨K2, hk2, hsub⟩ := h2 ht
            exact ⟨K2, hk2, fun y hy => (mem_addNew o' y R').2 (Or.inr (hsub y hy))⟩

theorem closedHeads_spec (f : Cfg A → Option (List (Out A))) (R : List (Cfg A)) (h : closedHeads f R = true)
    (r : Cfg A) (hr : r ∈ R) : ∃ O, f r = some O ∧ ∀ y, (Exit.cont, y) ∈ O → y ∈ R := by
  unfold closedHeads at h
  have := (List.all_eq_true.1 h) r hr
  cases hf : f r with
  | none => rw [hf] at this; cases this
  | some O =>
    rw [hf] at this
    simp only at this
    refine ⟨O, rfl, ?_⟩
    intro y hy
    have hy' : y ∈ contsOf O := by
      unfold contsOf
      exact List.mem_filterMap.2 ⟨(Exit.cont, y), hy, by simp⟩
    have := (List.all_eq_true.1 this) y hy'
    simpa using this

/-- iterating a body whose paths are covered by `f` stays inside a closed set of loop heads -/
theorem loop_sound (M : A → Ev → A) (f : Cfg A → Option (List (Out A))) (B : Rel)
    (hB : ∀ φ tr e φ', B φ tr e φ' → ∀ a O, f (a, φ) = some O → (e, (tr.foldl M a, φ')) ∈ O)
    (R : List (Cfg A)) (hcl : closedHeads f R = true) :
    ∀ φ tr e φ', Iter B φ tr e φ' → ∀ a, (a, φ) ∈ R →
      (e.unloop, (tr.foldl M a, φ')) ∈ R.flatMap (fun r => exitsOf (getOuts f r)) := by
  intro φ tr e φ' hit
  induction hit with
  | @done φ tr e φ' hb hne =>
    intro a ha
    obtain ⟨O, hO, _⟩ := closedHeads_spec f R hcl (a, φ) ha
    have hmem := hB _ _ _ _ hb a O hO
    refine List.mem_flatMap.2 ⟨(a, φ), ha, ?_⟩
    unfold getOuts exitsOf
    rw [hO]
    refine List.mem_map.2 ⟨(e, (tr.foldl M a, φ')), ?_, rfl⟩
    exact List.mem_filter.2 ⟨hmem, by simpa using hne⟩
  | @again φ tr1 φ1 tr2 e φ2 hb _ ih =>
    intro a ha
    obtain ⟨O, hO, hcont⟩ := closedHeads_spec f R hcl (a, φ) ha
    have hmem := hB _ _ _ _ hb a O hO
    have := ih (tr1.foldl M a) (hcont _ hmem)
    rw [List.foldl_append]
    exact this

/-- **soundness of the abstract interpreter**: every path ends in a computed outcome -/
theorem outs_sound (M : A → Ev → A) : ∀ (s : Stmt) (φ : Flags) (tr : List Ev) (e : Exit) (φ' : Flags),
    Sem s φ tr e φ' → ∀ (a : A) (O : List (Out A)), outs M s (a, φ) = some O →
      (e, (tr.foldl M a, φ')) ∈ O := by
  intro s
  induction s with
  | skip =>
    intro φ tr e φ' h a O hO
    obtain ⟨rfl, rfl, rfl⟩ := h
    simp only [outs, Option.some.injEq] at hO; subst hO; simp
  | acquire l b =>
    intro φ tr e φ' h a O hO
    obtain ⟨rfl, rfl, rfl⟩ := h
    simp only [outs, emit, Option.some.injEq] at hO; subst hO; simp
  | release l =>
    intro φ tr e φ' h a O hO
    obtain ⟨rfl, rfl, rfl⟩ := h
    simp only [outs, emit, Option.some.injEq] at hO; subst hO; simp
  | qlock q =>
    intro φ tr e φ' h a O hO
    obtain ⟨rfl, rfl, rfl⟩ := h
    simp only [outs, emit, Option.some.injEq] at hO; subst hO; simp
  | qunlock q =>
    intro φ tr e φ' h a O hO
    obtain ⟨rfl, rfl, rfl⟩ := h
    simp only [outs, emit, Option.some.injEq] at hO; subst hO; simp
  | cancel l =>
    intro φ tr e φ' h a O hO
    obtain ⟨rfl, rfl, rfl⟩ := h
    simp only [outs, emit, Option.some.injEq] at hO; subst hO; simp
  | alias x y =>
    intro φ tr e φ' h a O hO
    obtain ⟨rfl, rfl, rfl⟩ := h
    simp only [outs, emit, Option.some.injEq] at hO; subst hO; simp
  | requires l =>
    intro φ tr e φ' h a O hO
    obtain ⟨rfl, rfl, rfl⟩ := h
    simp only [outs, emit, Option.some.injEq] at hO; subst hO; simp
  | call r m q =>
    intro φ tr e φ' h a O hO
    obtain ⟨rfl, he, rfl⟩ := h
    simp only [outs, Option.some.injEq] at hO; subst hO
    rcases he with rfl | rfl <;> simp
  | mutate r f =>
    intro φ tr e φ' h a O hO
    obtain ⟨rfl, rfl, rfl⟩ := h
    simp only [outs, emit, Option.some.injEq] at hO; subst hO; simp
  | check k =>
    intro φ tr e φ' h a O hO
    obtain ⟨rfl, rfl, rfl⟩ := h
    simp only [outs, emit, Option.some.injEq] at hO; subst hO; simp
  | raise k =>
    intro φ tr e φ' h a O hO
    obtain ⟨rfl, rfl, rfl⟩ := h
    simp only [outs, Option.some.injEq] at hO; subst hO; simp
  | ret =>
    intro φ tr e φ' h a O hO
    obtain ⟨rfl, rfl, rfl⟩ := h
    simp only [outs, Option.some.injEq] at hO; subst hO; simp
  | brk =>
    intro φ tr e φ' h a O hO
    obtain ⟨rfl, rfl, rfl⟩ := h
    simp only [outs, Option.some.injEq] at hO; subst hO; simp
  | cont =>
    intro φ tr e φ' h a O hO
    obtain ⟨rfl, rfl, rfl⟩ := h
    simp only [outs, Option.some.injEq] at hO; subst hO; simp
  | setFlag i v =>
    intro φ tr e φ' h a O hO
    obtain ⟨rfl, rfl, rfl⟩ := h
    simp only [outs, Option.some.injEq] at hO; subst hO; simp
  | seq s1 s2 ih1 ih2 =>
    intro φ tr e φ' h a O hO
    simp only [outs] at hO
    cases h1 : outs M s1 (a, φ) with
    | none => rw [h1] at hO; cases hO
    | some O1 =>
      rw [h1] at hO
      simp only at hO
      rcases h with ⟨hs, hne⟩ | ⟨tr1, φ1, tr2, hs1, hs2, rfl⟩
      · have hm := ih1 _ _ _ _ hs a O1 h1
        have := (thenOn_sound _ _ O1 O hO _ hm).1
        apply this
        cases e <;> simp at hne ⊢
      · have hm := ih1 _ _ _ _ hs1 a O1 h1
        obtain ⟨K, hK, hsub⟩ := (thenOn_sound _ _ O1 O hO _ hm).2 (by simp)
        have := ih2 _ _ _ _ hs2 (tr1.foldl M a) K hK
        rw [List.foldl_append]
        exact hsub _ this
  | ite c s1 s2 ih1 ih2 =>
    intro φ tr e φ' h a O hO
    simp only [outs] at hO
    generalize hA : (if c.canThen φ = true then outs M s1 (a, φ) else some []) = o1 at hO
    generalize hBB : (if c.canElse φ = true then outs M s2 (a, φ) else some []) = o2 at hO
    cases o1 with
    | none => cases o2 <;> cases hO
    | some O1 =>
      cases o2 with
      | none => cases hO
      | some O2 =>
        simp only [Option.some.injEq] at hO
        subst hO
        rcases h with ⟨hc, hs⟩ | ⟨hc, hs⟩
        · rw [if_pos hc] at hA
          exact (mem_union _ _ _).2 (Or.inl (ih1 _ _ _ _ hs a O1 hA))
        · rw [if_pos hc] at hBB
          exact (mem_union _ _ _).2 (Or.inr (ih2 _ _ _ _ hs a O2 hBB))
  | loop b ih =>
    intro φ tr e φ' h a O hO
    obtain ⟨e0, hit, rfl⟩ := h
    simp only [outs, loopOuts] at hO
    split at hO
    · rename_i hcond
      simp only [Option.some.injEq] at hO
      subst hO
      simp only [Bool.and_eq_true, decide_eq_true_eq] at hcond
      rw [mem_union_nil]
      exact loop_sound M (outs M b) (Sem b) (fun φ tr e φ' hs a O hO => ih φ tr e φ' hs a O hO) _ hcond.2
        _ _ _ _ hit a hcond.1
    · cases hO
  | scope b ih =>
    intro φ tr e φ' h a O hO
    obtain ⟨e0, hs, rfl⟩ := h
    simp only [outs] at hO
    cases h1 : outs M b (a, φ) with
    | none => rw [h1] at hO; cases hO
    | some O1 =>
      rw [h1] at hO
      simp only [Option.some.injEq] at hO
      subst hO
      rw [mem_union_nil]
      exact List.mem_map.2 ⟨_, ih _ _ _ _ hs a O1 h1, rfl⟩
  | tryFinally b f ihb ihf =>
    intro φ tr e φ' h a O hO
    obtain ⟨tr1, e1, φ1, tr2, e2, hb, hf, rfl, rfl⟩ := h
    simp only [outs] at hO
    cases h1 : outs M b (a, φ) with
    | none => rw [h1] at hO; cases hO
    | some O1 =>
      rw [h1] at hO
      simp only at hO
      have hm := ihb _ _ _ _ hb a O1 h1
      obtain ⟨K, hK, hsub⟩ := (thenOn_sound _ _ O1 O hO _ hm).2 rfl
      simp only at hK
      cases h2 : outs M f (tr1.foldl M a, φ1) with
      | none => rw [h2] at hK; cases hK
      | some K2 =>
        rw [h2] at hK
        simp only [Option.some.injEq] at hK
        subst hK
        have := ihf _ _ _ _ hf (tr1.foldl M a) K2 h2
        rw [List.foldl_append]
        apply hsub
        exact List.mem_map.2 ⟨_, this, rfl⟩
  | tryExcept b hd ihb ihh =>
    intro φ tr e φ' h a O hO
    simp only [outs] at hO
    cases h1 : outs M b (a, φ) with
    | none => rw [h1] at hO; cases hO
    | some O1 =>
      rw [h1] at hO
      simp only at hO
      rcases h with hs | ⟨tr1, φ1, tr2, hs1, hs2, rfl⟩
      · have hm := ihb _ _ _ _ hs a O1 h1
        by_cases hexc : e = Exit.exc
        · subst hexc
          obtain ⟨K, hK, hsub⟩ := (thenOn_sound _ _ O1 O hO _ hm).2 (by simp)
          simp only at hK
          cases h2 : outs M hd (tr.foldl M a, φ') with
          | none => rw [h2] at hK; cases hK
          | some K2 =>
            rw [h2] at hK
            simp only [Option.some.injEq] at hK
            subst hK
            exact hsub _ (by simp)
        · apply (thenOn_sound _ _ O1 O hO _ hm).1
          cases e <;> simp at hexc ⊢
      · have hm := ihb _ _ _ _ hs1 a O1 h1
        obtain ⟨K, hK, hsub⟩ := (thenOn_sound _ _ O1 O hO _ hm).2 (by simp)
        simp only at hK
        cases h2 : outs M hd (tr1.foldl M a, φ1) with
        | none => rw [h2] at hK; cases hK
        | some K2 =>
          rw [h2] at hK
          simp only [Option.some.injEq] at hK
          subst hK
          have := ihh _ _ _ _ hs2 (tr1.foldl M a) K2 h2
          rw [List.foldl_append]
          exact hsub _ (List.mem_cons_of_mem _ this)
  | tryCatch b hd ihb ihh =>
    intro φ tr e φ' h a O hO
    simp only [outs] at hO
    cases h1 : outs M b (a, φ) with
    | none => rw [h1] at hO; cases hO
    | some O1 =>
      rw [h1] at hO
      simp only at hO
      rcases h with ⟨hs, hne⟩ | ⟨tr1, φ1, tr2, hs1, hs2, rfl⟩
      · have hm := ihb _ _ _ _ hs a O1 h1
        apply (thenOn_sound _ _ O1 O hO _ hm).1
        cases e <;> simp at hne ⊢
      · have hm := ihb _ _ _ _ hs1 a O1 h1
        obtain ⟨K, hK, hsub⟩ := (thenOn_sound _ _ O1 O hO _ hm).2 (by simp)
        have := ihh _ _ _ _ hs2 (tr1.foldl M a) K hK
        rw [List.foldl_append]
        exact hsub _ this
  | «opaque» w =>
    intro φ tr e φ' _ a O hO
    simp only [outs] at hO
    cases hO

theorem allOuts_sound (M : A → Ev → A) (a0 : A) (p : A → Bool) (s : Stmt) (h : allOuts M a0 p s = true)
    (tr : List Ev) (e : Exit) (hp : paths s tr e) : p (tr.foldl M a0) = true := by
  obtain ⟨φ', hs⟩ := hp
  unfold allOuts at h
  cases hO : outs M s (a0, []) with
  | none => rw [hO] at h; cases h
  | some O =>
    rw [hO] at h
    have := (List.all_eq_true.1 h) _ (outs_sound M s _ _ _ _ hs a0 O hO)
    exact this

theorem finals_sound (M : A → Ev → A) (a0 : A) (s : Stmt) (F : List A) (h : finals M a0 s = some F)
    (tr : List Ev) (e : Exit) (hp : paths s tr e) : tr.foldl M a0 ∈ F := by
  obtain ⟨φ', hs⟩ := hp
  unfold finals at h
  cases hO : outs M s (a0, []) with
  | none => rw [hO] at h; cases h
  | some O =>
    rw [hO] at h
    simp only [Option.some.injEq] at h
    subst h
    rw [mem_union_nil]
    exact List.mem_map.2 ⟨_, outs_sound M s _ _ _ _ hs a0 O hO, rfl⟩

end Outs

/-- an `opaque` anywhere makes every analysis fail -/
theorem outs_none_of_hasOpaque {A : Type} [DecidableEq A] (M : A → Ev → A) (a0 : A) (p : A → Bool) (why : String) :
    allOuts M a0 p (.opaque why) = false := rfl

/-! ### lock accounting -/

/-- **`locksBalanced` is sound**: every path of `s` — normal, return or exceptional — ends holding exactly the
    locks it started with (none: per-operation accounting) and never released a lock it did not hold.
    (`ign` selects locks left out of the account; `locksBalanced` leaves out none.) -/
theorem locksBalancedExcept_sound (ign : Lk → Bool) (s : Stmt) (h : locksBalancedExcept ign s = true)
    (tr : List Ev) (e : Exit) (hp : paths s tr e) :
    (netLocks ign tr).held = [] ∧ (netLocks ign tr).bad = false := by
  have := allOuts_sound (balStep ign) balInit BalSt.ok s h tr e hp
  unfold BalSt.ok at this
  simp only [Bool.and_eq_true, List.isEmpty_iff, Bool.not_eq_true'] at this
  exact this

theorem locksBalanced_sound (s : Stmt) (h : locksBalanced s = true) (tr : List Ev) (e : Exit) (hp : paths s tr e) :
    (netLocks ignNone tr).held = [] ∧ (netLocks ignNone tr).bad = false :=
  locksBalancedExcept_sound ignNone s h tr e hp

theorem nodeLocksBalanced_sound (s : Stmt) (h : nodeLocksBalanced s = true) (tr : List Ev) (e : Exit)
    (hp : paths s tr e) : (netLocks ignQubits tr).held = [] ∧ (netLocks ignQubits tr).bad = false :=
  locksBalancedExcept_sound ignQubits s h tr e hp

theorem netEffects_sound (s : Stmt) (E : List (List Lk × Bool)) (h : netEffects s = some E) (tr : List Ev) (e : Exit)
    (hp : paths s tr e) : ((netLocks ignNone tr).held, (netLocks ignNone tr).bad) ∈ E := by
  unfold netEffects at h
  cases hF : finals (balStep ignNone) balInit s with
  | none => rw [hF] at h; cases h
  | some F =>
    rw [hF] at h
    simp only [Option.some.injEq] at h
    subst h
    rw [mem_union_nil]
    exact List.mem_map.2 ⟨_, finals_sound _ _ s F hF tr e hp, rfl⟩

/-! ### checks precede mutations -/

theorem cpm_viol_mono (st : CpmSt) (ev : Ev) (h : (cpmStep st ev).viol = false) : st.viol = false := by
  unfold cpmStep at h
  split at h
  · exact h
  · split at h
    · cases h
    · exact h

theorem cpm_mutSeen_mono (st : CpmSt) (ev : Ev) (h : (cpmStep st ev).mutSeen = false) :
    st.mutSeen = false ∧ ev.isMut = false := by
  unfold cpmStep at h
  split at h
  · cases h
  · rename_i hm
    refine ⟨?_, by simpa using hm⟩
    split at h <;> exact h

theorem cpm_fold (tr : List Ev) : ∀ st : CpmSt, (tr.foldl cpmStep st).viol = false →
    st.viol = false ∧ ∀ a x b, tr = a ++ x :: b → x.isRefusal = true →
      st.mutSeen = false ∧ ∀ y, y ∈ a → y.isMut = false := by
  induction tr with
  | nil =>
    intro st h
    refine ⟨h, ?_⟩
    intro a x b hab
    cases a <;> cases hab
  | cons ev rest ih =>
    intro st h
    simp only [List.foldl_cons] at h
    obtain ⟨hv1, hsplit⟩ := ih (cpmStep st ev) h
    refine ⟨cpm_viol_mono st ev hv1, ?_⟩
    intro a x b hab hx
    cases a with
    | nil =>
      simp only [List.nil_append, List.cons.injEq] at hab
      obtain ⟨rfl, rfl⟩ := hab
      refine ⟨?_, by intro y hy; cases hy⟩
      -- a refusal while `mutSeen` would set `viol`
      cases hm : st.mutSeen with
      | false => rfl
      | true =>
        exfalso
        have hnm : ev.isMut = false := by
          cases ev <;> simp [Ev.isRefusal, Ev.isMut] at hx ⊢
        have : (cpmStep st ev).viol = true := by
          unfold cpmStep
          simp [hnm, hx, hm]
        rw [this] at hv1; cases hv1
    | cons y a' =>
      simp only [List.cons_append, List.cons.injEq] at hab
      obtain ⟨hey, rfl⟩ := hab
      subst hey
      obtain ⟨hms, hall⟩ := hsplit a' x b rfl hx
      obtain ⟨h0, hy⟩ := cpm_mutSeen_mono st ev hms
      refine ⟨h0, ?_⟩
      intro z hz
      rcases List.mem_cons.1 hz with rfl | hz
      · exact hy
      · exact hall z hz

/-- **`checksPrecedeMuts` is sound**: on every path no mutation comes before a refusal (a `check` or `raise`
    of a refusal kind) -/
theorem checksPrecedeMuts_sound (s : Stmt) (h : checksPrecedeMuts s = true) (tr : List Ev) (e : Exit)
    (hp : paths s tr e) (a : List Ev) (x : Ev) (b : List Ev) (hsplit : tr = a ++ x :: b)
    (hx : x.isRefusal = true) : ∀ y, y ∈ a → y.isMut = false := by
  have := allOuts_sound cpmStep ⟨false, false⟩ (fun a => !a.viol) s h tr e hp
  simp only [Bool.not_eq_true'] at this
  exact ((cpm_fold tr _ this).2 a x b hsplit hx).2

/-! ### active guard first -/

theorem ag_bad_absorbing (tr : List Ev) : tr.foldl agStep .bad = .bad := by
  induction tr with
  | nil => rfl
  | cons ev rest ih => simpa [agStep] using ih

theorem ag_fold (tr : List Ev) : tr.foldl agStep .fresh ≠ .bad →
    ∀ a x b, tr = a ++ x :: b → x.isAction = true → ∃ y, y ∈ a ∧ y.isActiveChk = true := by
  induction tr with
  | nil =>
    intro _ a x b hab
    cases a <;> cases hab
  | cons ev rest ih =>
    intro h a x b hab hx
    simp only [List.foldl_cons] at h
    by_cases hchk : ev.isActiveChk = true
    · cases a with
      | nil =>
        simp only [List.nil_append, List.cons.injEq] at hab
        obtain ⟨rfl, rfl⟩ := hab
        exfalso
        cases ev <;> simp [Ev.isActiveChk, Ev.isAction] at hchk hx
      | cons y a' =>
        simp only [List.cons_append, List.cons.injEq] at hab
        obtain ⟨hey, rfl⟩ := hab
        subst hey
        exact ⟨ev, by simp, hchk⟩
    · have hchk' : ev.isActiveChk = false := by simpa using hchk
      by_cases hact : ev.isAction = true
      · exfalso
        have : agStep .fresh ev = .bad := by simp [agStep, hchk', hact]
        rw [this, ag_bad_absorbing] at h
        exact h rfl
      · have hact' : ev.isAction = false := by simpa using hact
        have hst : agStep .fresh ev = .fresh := by simp [agStep, hchk', hact']
        rw [hst] at h
        cases a with
        | nil =>
          simp only [List.nil_append, List.cons.injEq] at hab
          obtain ⟨rfl, rfl⟩ := hab
          rw [hx] at hact'; cases hact'
        | cons y a' =>
          simp only [List.cons_append, List.cons.injEq] at hab
          obtain ⟨hey, rfl⟩ := hab
          subst hey
          obtain ⟨z, hz, hzc⟩ := ih h a' x b rfl hx
          exact ⟨z, List.mem_cons_of_mem _ hz, hzc⟩

/-- **`activeGuardFirst` is sound**: on every path, every lock operation, mutation or call is preceded by the
    `active` test -/
theorem activeGuardFirst_sound (s : Stmt) (h : activeGuardFirst s = true) (tr : List Ev) (e : Exit)
    (hp : paths s tr e) (a : List Ev) (x : Ev) (b : List Ev) (hsplit : tr = a ++ x :: b)
    (hx : x.isAction = true) : ∃ y, y ∈ a ∧ y.isActiveChk = true := by
  have := allOuts_sound agStep .fresh (fun a => a != .bad) s h tr e hp
  simp only [bne_iff_ne, ne_eq] at this
  exact ag_fold tr this a x b hsplit hx

/-! ### hold and wait -/

/-- node locks held (by role) after the events `a` -/
def heldNodes (aw : Role → String → List Role) (a : List Ev) : List Role := (a.foldl (hwStep aw) hwInit).h.held

theorem hw_edges_step (aw : Role → String → List Role) (st : HwSt) (ev : Ev) (x : Edge) (hx : x ∈ st.edges) :
    x ∈ (hwStep aw st ev).edges := by
  cases ev with
  | acq r b => simp only [hwStep]; exact (mem_union _ _ _).2 (Or.inl hx)
  | call r m q =>
    cases q with
    | false => simp only [hwStep]; exact (mem_union _ _ _).2 (Or.inl hx)
    | true => simpa [hwStep] using hx
  | rel r => simpa [hwStep] using hx
  | alias a b => simpa [hwStep] using hx
  | qacq q => simpa [hwStep] using hx
  | qrel q => simpa [hwStep] using hx
  | cancel r => simpa [hwStep] using hx
  | req r => simpa [hwStep] using hx
  | «mut» r f => simpa [hwStep] using hx
  | chk k => simpa [hwStep] using hx
  | rais k => simpa [hwStep] using hx

theorem hw_edges_mono (aw : Role → String → List Role) (tr : List Ev) :
    ∀ (st : HwSt) (x : Edge), x ∈ st.edges → x ∈ (tr.foldl (hwStep aw) st).edges := by
  induction tr with
  | nil => intro st x hx; exact hx
  | cons ev rest ih =>
    intro st x hx
    simp only [List.foldl_cons]
    exact ih _ x (hw_edges_step aw st ev x hx)

/-- **`holdAndWait` is sound**: whenever a path waits for node lock `r` (directly, or inside a call whose callee
    waits for it) while it holds node lock `h`, the edge `(h, r, hasTimeout)` is in the computed list -/
theorem holdAndWait_sound (aw : Role → String → List Role) (s : Stmt) (E : List Edge)
    (hE : holdAndWait aw s = some E) (tr : List Ev) (e : Exit) (hp : paths s tr e) :
    (∀ a r b rest, tr = a ++ Ev.acq r b :: rest → ∀ h, h ∈ heldNodes aw a → (h, r, b) ∈ E) ∧
    (∀ a r m rest, tr = a ++ Ev.call r m false :: rest → ∀ w, w ∈ aw r m → ∀ h, h ∈ heldNodes aw a →
      (h, w, false) ∈ E) := by
  unfold holdAndWait at hE
  cases hF : finals (hwStep aw) hwInit s with
  | none => rw [hF] at hE; cases hE
  | some F =>
    rw [hF] at hE
    simp only [Option.some.injEq] at hE
    subst hE
    have hfin := finals_sound _ _ s F hF tr e hp
    have key : ∀ x, x ∈ (tr.foldl (hwStep aw) hwInit).edges →
        x ∈ union [] (F.flatMap (fun a => a.edges)) := by
      intro x hx
      rw [mem_union_nil]
      exact List.mem_flatMap.2 ⟨_, hfin, hx⟩
    constructor
    · intro a r b rest hsplit h hh
      apply key
      rw [hsplit, List.foldl_append, List.foldl_cons]
      apply hw_edges_mono
      simp only [hwStep]
      exact (mem_union _ _ _).2 (Or.inr (List.mem_map.2 ⟨h, hh, rfl⟩))
    · intro a r m rest hsplit w hw h hh
      apply key
      rw [hsplit, List.foldl_append, List.foldl_cons]
      apply hw_edges_mono
      simp only [hwStep]
      exact (mem_union _ _ _).2 (Or.inr (List.mem_flatMap.2 ⟨w, hw, List.mem_map.2 ⟨h, hh, rfl⟩⟩))

/-! ### two-phase, guards -/

/-- **`twoPhase` is sound**: the trace of every path is accepted by the two-phase monitor -/
theorem twoPhase_sound (s : Stmt) (h : twoPhase s = true) (tr : List Ev) (e : Exit) (hp : paths s tr e) :
    (tr.foldl tpStep tpInit).viol = false := by
  have := allOuts_sound tpStep tpInit (fun a => !a.viol) s h tr e hp
  simpa using this

theorem gd_viol_step (needs exempt : String → Bool) (st : GdSt) (ev : Ev)
    (h : (gdStep needs exempt st ev).viol = false) : st.viol = false := by
  cases ev with
  | «mut» r f =>
    simp only [gdStep] at h
    split at h
    · exact h
    · cases h
  | call r m q =>
    simp only [gdStep] at h
    split at h
    · cases h
    · exact h
  | acq r b => simpa [gdStep] using h
  | rel r => simpa [gdStep] using h
  | alias a b => simpa [gdStep] using h
  | req r => simpa [gdStep] using h
  | qacq q => simpa [gdStep] using h
  | qrel q => simpa [gdStep] using h
  | cancel r => simpa [gdStep] using h
  | chk k => simpa [gdStep] using h
  | rais k => simpa [gdStep] using h

theorem gd_viol_mono (needs exempt : String → Bool) (tr : List Ev) :
    ∀ st : GdSt, (tr.foldl (gdStep needs exempt) st).viol = false → st.viol = false := by
  induction tr with
  | nil => intro st h; exact h
  | cons ev rest ih =>
    intro st h
    simp only [List.foldl_cons] at h
    exact gd_viol_step needs exempt st ev (ih _ h)

/-- node locks held (by role, with the validated aliases) after the events `a`, starting from the locks `pre`
    held by contract -/
def guardState (needs exempt : String → Bool) (pre : List Role) (a : List Ev) : Held :=
  (a.foldl (gdStep needs exempt) (gdInit pre)).h

/-- **`guarded` is sound**: on every path, every mutation of role `r`'s state happens while `r`'s node lock is
    held, and so does every call on a simulated qubit at `r` (except the exempt getters) and every call of a
    node method of `r` that relies on the lock -/
theorem guardedFrom_sound (needs exempt : String → Bool) (pre : List Role) (s : Stmt)
    (h : guardedFrom needs exempt pre s = true) (tr : List Ev) (e : Exit) (hp : paths s tr e) :
    (∀ a r f rest, tr = a ++ Ev.mut r f :: rest →
      covers (guardState needs exempt pre a).held ((guardState needs exempt pre a).al.resolve r) = true) ∧
    (∀ a r m q rest, tr = a ++ Ev.call r m q :: rest → ((q && !exempt m) || (!q && needs m)) = true →
      covers (guardState needs exempt pre a).held ((guardState needs exempt pre a).al.resolve r) = true) := by
  have hfin := allOuts_sound (gdStep needs exempt) (gdInit pre) (fun a => !a.viol) s h tr e hp
  simp only [Bool.not_eq_true'] at hfin
  constructor
  · intro a r f rest hsplit
    rw [hsplit, List.foldl_append, List.foldl_cons] at hfin
    have := gd_viol_mono needs exempt rest _ hfin
    simp only [gdStep] at this
    unfold guardState
    split at this
    · assumption
    · cases this
  · intro a r m q rest hsplit hq
    rw [hsplit, List.foldl_append, List.foldl_cons] at hfin
    have := gd_viol_mono needs exempt rest _ hfin
    simp only [gdStep] at this
    unfold guardState
    split at this
    · cases this
    · rename_i hc
      rw [hq] at hc
      simpa using hc

theorem activeTestLocked_sound (s : Stmt) (h : activeTestLocked s = true) (tr : List Ev) (e : Exit)
    (hp : paths s tr e) : (tr.foldl atStep (gdInit [])).viol = false := by
  have := allOuts_sound atStep (gdInit []) (fun a => !a.viol) s h tr e hp
  simpa using this

end SqVerif.Skel

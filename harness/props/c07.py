"""C07 -- per-node qubit capacity is enforced exactly
(simulaqron/virtual_node/virtual.py, quantum.py).

Thin module: program generation, execution of the REAL virtual-node code on
harness/simnet.py, the tie against the Lean model `VNet` (driver `vnet`:
result, engine-call trace and object-graph snapshot after EVERY op) and all
oracles live in harness/vnetcase.py.  This check owns the oracle
"plain counter model of held qubits / registers";
failures of the other L2 oracles (owned by C01/C02/C05/C06/C07) are listed as
notes in the evidence.

Extra stage "client registers" (harness/vnet_regcap.py, executor and model tie
of harness/vnetx_cases.py): registers of size 1..3 (and the default 10) made by
new_register / add_register, in-register creates that are refused by the
REGISTER limit (a reason other than node capacity), then creates / arrivals
that fill the node exactly to its maximum, one slot freed and re-created; the
plain counter of held qubits is the oracle (a refused create never consumes a
slot; kind `capacity`), every op is tied to the Lean model VNetX."""
from .. import core
from .. import vnetcase
from .. import vnetx_cases
from .. import vnet_regcap

LEAN_TARGETS = ["SqVerif.Props.C07"]
PROPS_FILE = "SqVerif/Props/C07.lean"
DRIVE_TARGETS = ["SqVerif.Drive.VNet", "SqVerif.Drive.VNetX"]
TRUSTED = [
    "model VNet.lean hand-written from virtual.py / quantum.py (after the repairs F1 F2 F3); tied by differential execution "
    "after every op: result, engine-call trace, object-graph snapshot (this check)",
    "harness/simnet.py: real virtualNode objects over real Perspective Broker on in-memory pipes, FIFO delivery, fake clock",
    "creation-order identities and the engine-call trace are taken by wrapping constructors / engine methods of the scratch "
    "copy from outside",
    "NumPy state-vector reference (complex128, tolerance 1e-8) and the conventions qubit 0 = leftmost factor, "
    "K = [[1,-i],[i,-1]]/sqrt2 (validated against the stabilizer code by C13/C14)",
    "client-register stage: model VNetX.lean (theorems in Props/C02X.lean, audited by C02) tied after every op through the "
    "driver `vnetx`; the capacity oracle itself (plain counter of held qubits) is independent of the model",
]
ASSUMPTIONS = [
    "operations are issued one after the other, each to completion (interleavings are C03/C04)",
    "stabilizer backend, noise off; two-qubit gates only between handles held by the same node (the API cannot express more)",
    "no send addressed to the issuing node (deadlocks: known finding under C04)",
]


def run(ctx):
    rp = getattr(ctx, "replay", None)
    if rp and vnetx_cases.is_x(rp):
        core.scratch_repo()
        return vnet_regcap.stage(ctx, core.Result())
    res = vnetcase.run_check(ctx, "C07")
    if not rp:
        vnet_regcap.stage(ctx, res)
    return res


def search(ctx, res, broken):
    return vnetcase.search(ctx, res, broken, "C07")

import SqVerif.Drive.Util
import SqVerif.Drive.Topo

/- GENERATED on every run by harness/gen/noise_calls.py from simulaqron/virtual_node/quantum.py — do not edit.
   Facts read off the Python AST; the obligations over them are in Props/C19.lean. -/
namespace SqVerif.Gen.NoiseCalls

/-- a method of `simulatedQubit` that calls `self.register.apply_*` / `measure_*` -/
structure OpMethod where
  name : String
  line : Nat
  /-- `self._apply_random_pauli_noise()` is an unconditional statement before every engine call, and no
  statement in front of it can leave the method (no return / raise / yield / loop / try): reached on every path -/
  noiseFirst : Bool
  /-- number of call sites of `_apply_random_pauli_noise` in the method -/
  noiseCalls : Nat
  /-- (engine method, its first argument is `self.num`) -/
  engineCalls : List (String × Bool)
  /-- `self.register` is used in a way the translator does not understand -/
  unrecognised : Bool

def opMethods : List OpMethod := [
  { name := "remote_apply_X", line := 129, noiseFirst := true, noiseCalls := 1,
    engineCalls := [("apply_X", true)], unrecognised := false },
  { name := "remote_apply_K", line := 137, noiseFirst := true, noiseCalls := 1,
    engineCalls := [("apply_K", true)], unrecognised := false },
  { name := "remote_apply_S", line := 145, noiseFirst := true, noiseCalls := 1,
    engineCalls := [("apply_S", true)], unrecognised := false },
  { name := "remote_apply_Y", line := 153, noiseFirst := true, noiseCalls := 1,
    engineCalls := [("apply_Y", true)], unrecognised := false },
  { name := "remote_apply_Z", line := 161, noiseFirst := true, noiseCalls := 1,
    engineCalls := [("apply_Z", true)], unrecognised := false },
  { name := "remote_apply_H", line := 169, noiseFirst := true, noiseCalls := 1,
    engineCalls := [("apply_H", true)], unrecognised := false },
  { name := "remote_apply_T", line := 177, noiseFirst := true, noiseCalls := 1,
    engineCalls := [("apply_T", true)], unrecognised := false },
  { name := "remote_apply_rotation", line := 185, noiseFirst := true, noiseCalls := 1,
    engineCalls := [("apply_rotation", true)], unrecognised := false },
  { name := "remote_measure_inplace", line := 204, noiseFirst := true, noiseCalls := 1,
    engineCalls := [("measure_qubit_inplace", true)], unrecognised := false },
  { name := "remote_measure", line := 215, noiseFirst := true, noiseCalls := 1,
    engineCalls := [("measure_qubit", true)], unrecognised := false },
  { name := "remote_cnot_onto", line := 227, noiseFirst := true, noiseCalls := 1,
    engineCalls := [("apply_CNOT", true)], unrecognised := false },
  { name := "remote_cphase_onto", line := 239, noiseFirst := true, noiseCalls := 1,
    engineCalls := [("apply_CPHASE", true)], unrecognised := false }
]

/-- `_apply_random_pauli_noise` itself -/
structure NoiseMethod where
  present : Bool
  /-- its first statement is `if not self.noisy: return` -/
  guardFirst : Bool
  /-- (engine method, the argument list is exactly `(self.num)`) -/
  engineCalls : List (String × Bool)
  /-- attributes of `self` it assigns -/
  assigns : List String
  unrecognised : Bool

def noiseMethod : NoiseMethod :=
  { present := true, guardFirst := true, engineCalls := [("apply_X", true), ("apply_Y", true), ("apply_Z", true)],
    assigns := ["last_accessed"], unrecognised := false }

end SqVerif.Gen.NoiseCalls

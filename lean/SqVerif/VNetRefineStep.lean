import SqVerif.VNetRefineGate2
/-
L2 — token-level reading of `new`, `send`, `measure` (behind C01.5/8/9/10/11).
-/
namespace SqVerif.VNet

theorem allToks_eq_of_regs {s s' : Net} (h : s'.nodes.map (·.regs) = s.nodes.map (·.regs)) :
    allToks s' = allToks s := by
  have e : ∀ l : List Node, l.flatMap (fun n => n.regs.flatMap (·.toks))
      = (l.map (·.regs)).flatMap (fun rs => rs.flatMap (·.toks)) := by
    intro l; induction l <;> simp_all
  unfold allToks; rw [e, e, h]

/-! ### `new` -/

/-- the issuing node after a successful `new` -/
def newNodeF (s : Net) (na : Node) (n : Node) : Node :=
  { ((addRegF n).modReg na.nextReg fun r => { r with toks := r.toks ++ [s.nextTok] }) with
    sim := n.sim ++ [s.sqs.length], virt := n.virt ++ [s.vqs.length] }

/-- the state after a successful `new` at node `a` -/
def newNet (s : Net) (a : Nat) (na : Node) : Net :=
  { nodes := s.nodes.modify a (newNodeF s na),
    sqs := s.sqs ++ [{ node := a, simNum := firstFree (simNums s na), reg := na.nextReg, pos := 0, active := true }],
    vqs := s.vqs ++ [{ virtNode := a, num := firstFree (virtNums s na), simNode := a, simObj := s.sqs.length, active := true }],
    nextTok := s.nextTok + 1 }

section new
variable {s : Net} {a : Nat} {na : Node}

theorem stepNew_ok (hna : s.nodes[a]? = some na) (hq : na.virt.length < na.maxQubits)
    (hr : na.numRegs < na.maxRegs) :
    stepNew s a = (newNet s a na, .handle s.vqs.length, [.newReg a na.nextReg, .addFresh a na.nextReg]) := by
  have h1 : ¬ na.virt.length ≥ na.maxQubits := by omega
  simp only [stepNew, hna, h1, if_false, addRegister_eq hna hr]
  congr 1
  apply Net.ext'
  · simp only [modNode_nodes, modNode_sqs, modNode_vqs]
    rw [modify_modify']; rfl
  · rfl
  · rfl
  · rfl

theorem newNet_nodes_get (hna : s.nodes[a]? = some na) (j : Nat) :
    (newNet s a na).nodes[j]? = if j = a then some (newNodeF s na na) else s.nodes[j]? := by
  simp only [newNet, getElem?_modify']
  by_cases e : j = a
  · subst e; simp [hna]
  · simp [e, Ne.symm e]

theorem newNodeF_reg? (hfresh : ∀ r, r ∈ na.regs → r.num < na.nextReg) (r : Nat) :
    (newNodeF s na na).reg? r =
      if r = na.nextReg then some { num := na.nextReg, max := 10, toks := [s.nextTok] } else na.reg? r := by
  unfold newNodeF
  show Node.reg? ((addRegF na).modReg na.nextReg _) r = _
  rw [reg?_modReg (addRegF na) na.nextReg r (fun r => { r with toks := r.toks ++ [s.nextTok] }) (fun _ => rfl)]
  by_cases e : r = na.nextReg
  · subst e; simp [addReg_reg? hfresh]
  · simp only [e, if_false]
    unfold addRegF Node.reg?
    simp only [List.find?_append]
    have : ([{ num := na.nextReg, max := 10, toks := [] }] : List Reg).find? (fun x => x.num == r) = none := by
      have : ¬ (na.nextReg = r) := fun h => e h.symm
      simp [this]
    rw [this]; simp

theorem new_den_old (hna : s.nodes[a]? = some na) (hfresh : ∀ r, r ∈ na.regs → r.num < na.nextReg)
    {h o n r p t : Nat} (d : Den s h o n r p t) : Den (newNet s a na) h o n r p t := by
  obtain ⟨vq, sq, nd, rg, hv, rfl, rfl, hs, hsnode, rfl, rfl, hn, hr, ht⟩ := d
  have hv' : (newNet s a na).vqs[h]? = some vq := by
    show (s.vqs ++ _)[h]? = _
    rw [List.getElem?_append_left (List.getElem?_eq_some_iff.1 hv).1]; exact hv
  have hs' : (newNet s a na).sqs[vq.simObj]? = some sq := by
    show (s.sqs ++ _)[vq.simObj]? = _
    rw [List.getElem?_append_left (List.getElem?_eq_some_iff.1 hs).1]; exact hs
  by_cases e : vq.simNode = a
  · rw [e, hna] at hn; cases hn
    refine ⟨vq, sq, newNodeF s na na, rg, hv', rfl, rfl, hs', hsnode, rfl, rfl, ?_, ?_, ht⟩
    · rw [newNet_nodes_get hna, if_pos e]
    · rw [newNodeF_reg? hfresh]
      have : sq.reg ≠ na.nextReg := by
        have := hfresh rg (reg?_mem hr); rw [reg?_num hr] at this; omega
      rw [if_neg this]; exact hr
  · refine ⟨vq, sq, nd, rg, hv', rfl, rfl, hs', hsnode, rfl, rfl, ?_, hr, ht⟩
    rw [newNet_nodes_get hna, if_neg e]; exact hn

theorem new_den_new (hna : s.nodes[a]? = some na) (hfresh : ∀ r, r ∈ na.regs → r.num < na.nextReg) :
    Den (newNet s a na) s.vqs.length s.sqs.length a na.nextReg 0 s.nextTok := by
  refine ⟨⟨a, firstFree (virtNums s na), a, s.sqs.length, true⟩, ⟨a, firstFree (simNums s na), na.nextReg, 0, true⟩,
    newNodeF s na na, { num := na.nextReg, max := 10, toks := [s.nextTok] }, ?_, rfl, rfl, ?_, rfl, rfl, rfl, ?_, ?_, rfl⟩
  · show (s.vqs ++ [_])[s.vqs.length]? = some ⟨a, firstFree (virtNums s na), a, s.sqs.length, true⟩
    simp
  · show (s.sqs ++ [_])[s.sqs.length]? = some ⟨a, firstFree (simNums s na), na.nextReg, 0, true⟩
    simp
  · rw [newNet_nodes_get hna, if_pos rfl]
  · rw [newNodeF_reg? hfresh, if_pos rfl]

theorem new_count (hna : s.nodes[a]? = some na) (hfresh : ∀ r, r ∈ na.regs → r.num < na.nextReg)
    (hnd : (na.regs.map (·.num)).Nodup) (x : Nat) :
    (allToks (newNet s a na)).count x = (allToks s).count x + (if x = s.nextTok then 1 else 0) := by
  have c1 : (allToks (newNet s a na)).count x + (nodeToks na).count x
      = (allToks s).count x + (nodeToks (newNodeF s na na)).count x :=
    count_allToks_modNode s a (newNodeF s na) na x hna
  have hnd' : ((addRegF na).regs.map (·.num)).Nodup := by
    unfold addRegF
    simp only [List.map_append, List.map_cons, List.map_nil]
    rw [List.nodup_append]
    refine ⟨hnd, by simp, ?_⟩
    intro y hy z hz
    simp only [List.mem_singleton] at hz; subst hz
    obtain ⟨r, hr, rfl⟩ := List.mem_map.1 hy
    have := hfresh r hr; omega
  have c2 : (nodeToks ((addRegF na).modReg na.nextReg fun r => { r with toks := r.toks ++ [s.nextTok] })).count x
        + ([] : List Nat).count x
      = (nodeToks (addRegF na)).count x + ([] ++ [s.nextTok]).count x :=
    count_nodeToks_modReg (addRegF na) na.nextReg _ { num := na.nextReg, max := 10, toks := [] } x hnd'
      (addReg_reg? hfresh)
  have c3 : nodeToks (addRegF na) = nodeToks na := by unfold nodeToks addRegF; simp
  have c4 : nodeToks (newNodeF s na na)
      = nodeToks ((addRegF na).modReg na.nextReg fun r => { r with toks := r.toks ++ [s.nextTok] }) := rfl
  rw [c4] at c1; rw [c3] at c2
  simp only [List.count_nil, List.nil_append, List.count_cons, beq_iff_eq] at c2
  by_cases e : x = s.nextTok
  · subst e; simp only [if_true] at c2 ⊢; omega
  · have e' : ¬ s.nextTok = x := fun h => e h.symm
    simp only [e, e', if_false] at c2 ⊢; omega

theorem new_virt_get (hna : s.nodes[a]? = some na) (j : Nat) :
    ((newNet s a na).nodes[j]?).map (·.virt) =
      if j = a then some (na.virt ++ [s.vqs.length]) else (s.nodes[j]?).map (·.virt) := by
  rw [newNet_nodes_get hna]
  by_cases e : j = a
  · simp [e, newNodeF]
  · simp [e]

end new

/-! ### `send` -/

/-- the state after a successful `send h b` -/
def sendNet (s : Net) (h b : Nat) (vq : VQ) (nb : Node) : Net :=
  { nodes := (s.nodes.modify b fun n => { n with virt := n.virt ++ [s.vqs.length] }).modify vq.virtNode
      fun n => { n with virt := n.virt.erase h },
    sqs := s.sqs,
    vqs := List.modify (s.vqs ++ [VQ.mk b (firstFree (virtNums s nb)) vq.simNode vq.simObj true]) h
      (fun v => { v with active := false }),
    nextTok := s.nextTok }

section send
variable {s : Net} {h b : Nat} {vq : VQ} {nb : Node}

theorem stepSend_ok (hv : s.vqs[h]? = some vq) (ha : vq.active = true) (hb : s.nodes[b]? = some nb)
    (hne : b ≠ vq.virtNode) (hcap : nb.virt.length < nb.maxQubits) :
    stepSend s h b = (sendNet s h b vq nb, .num (firstFree (virtNums s nb)), []) := by
  have h1 : ¬ b ≥ s.nodes.length := by
    have := (List.getElem?_eq_some_iff.1 hb).1; omega
  have h2 : (b == vq.virtNode) = false := by simp [hne]
  have h3 : ¬ nb.virt.length ≥ nb.maxQubits := by omega
  simp only [stepSend, hv, ha, Bool.not_true, Bool.false_eq_true, if_false, h1, h2, addQubitAt, hb, h3]
  rfl

theorem send_regs : (sendNet s h b vq nb).nodes.map (·.regs) = s.nodes.map (·.regs) := by
  simp only [sendNet]
  rw [map_modify_of_eq _ vq.virtNode (fun n : Node => { n with virt := n.virt.erase h }) (·.regs) (fun _ => rfl),
    map_modify_of_eq _ b (fun n : Node => { n with virt := n.virt ++ [s.vqs.length] }) (·.regs) (fun _ => rfl)]

theorem send_nodes_get (j : Nat) : ∃ f : Node → Node, (∀ n, (f n).regs = n.regs) ∧
    (sendNet s h b vq nb).nodes[j]? = (s.nodes[j]?).map f := by
  simp only [sendNet, getElem?_modify']
  by_cases e1 : vq.virtNode = j <;> by_cases e2 : b = j
  · exact ⟨(fun n : Node => { n with virt := n.virt.erase h }) ∘ (fun n : Node => { n with virt := n.virt ++ [s.vqs.length] }),
      fun _ => rfl, by simp [e1, e2]⟩
  · exact ⟨fun n => { n with virt := n.virt.erase h }, fun _ => rfl, by simp [e1, e2]⟩
  · exact ⟨fun n => { n with virt := n.virt ++ [s.vqs.length] }, fun _ => rfl, by simp [e1, e2]⟩
  · exact ⟨id, fun _ => rfl, by simp [e1, e2]⟩

/-- every handle (the sent one too) keeps its denotation: a send moves no token -/
theorem send_den_old {h' o n r p t : Nat} (d : Den s h' o n r p t) :
    Den (sendNet s h b vq nb) h' o n r p t := by
  obtain ⟨vq', sq, nd, rg, hv', rfl, rfl, hs, hsnode, rfl, rfl, hn, hr, ht⟩ := d
  obtain ⟨f, hf, hget⟩ := send_nodes_get (s := s) (h := h) (b := b) (vq := vq) (nb := nb) vq'.simNode
  have hlt : h' < s.vqs.length := (List.getElem?_eq_some_iff.1 hv').1
  have hvq : ∃ v, (sendNet s h b vq nb).vqs[h']? = some v ∧ v.simObj = vq'.simObj ∧ v.simNode = vq'.simNode := by
    simp only [sendNet, getElem?_modify']
    rw [List.getElem?_append_left hlt, hv']
    by_cases e : h = h'
    · exact ⟨{ vq' with active := false }, by simp [e], rfl, rfl⟩
    · exact ⟨vq', by simp [e], rfl, rfl⟩
  obtain ⟨v, hv1, hv2, hv3⟩ := hvq
  refine ⟨v, sq, f nd, rg, hv1, hv2, hv3, hs, hsnode, rfl, rfl, ?_, ?_, ht⟩
  · rw [hget, hn]; rfl
  · unfold Node.reg?; rw [hf]; exact hr

/-- the receiver's new handle denotes what the sent handle denoted -/
theorem send_den_new (hv : s.vqs[h]? = some vq) {o n r p t : Nat} (d : Den s h o n r p t) :
    Den (sendNet s h b vq nb) s.vqs.length o n r p t := by
  obtain ⟨vq', sq, nd, rg, hv', rfl, rfl, hs, hsnode, rfl, rfl, hn, hr, ht⟩ := d
  rw [hv] at hv'; cases hv'
  obtain ⟨f, hf, hget⟩ := send_nodes_get (s := s) (h := h) (b := b) (vq := vq) (nb := nb) vq.simNode
  have hlt : h < s.vqs.length := (List.getElem?_eq_some_iff.1 hv).1
  refine ⟨⟨b, firstFree (virtNums s nb), vq.simNode, vq.simObj, true⟩, sq, f nd, rg, ?_, rfl, rfl, hs, hsnode, rfl, rfl, ?_, ?_, ht⟩
  · simp only [sendNet, getElem?_modify']
    rw [if_neg (by omega)]
    simp
  · rw [hget, hn]; rfl
  · unfold Node.reg?; rw [hf]; exact hr

theorem send_allToks : allToks (sendNet s h b vq nb) = allToks s :=
  allToks_eq_of_regs send_regs

theorem send_virt_get (hne : b ≠ vq.virtNode) (j : Nat) :
    ((sendNet s h b vq nb).nodes[j]?).map (·.virt) =
      if j = vq.virtNode then (s.nodes[j]?).map (fun n => n.virt.erase h)
      else if j = b then (s.nodes[j]?).map (fun n => n.virt ++ [s.vqs.length])
      else (s.nodes[j]?).map (·.virt) := by
  simp only [sendNet, getElem?_modify']
  by_cases e1 : j = vq.virtNode
  · subst e1; cases s.nodes[vq.virtNode]? <;> simp [hne]
  · by_cases e2 : j = b
    · subst e2; cases s.nodes[j]? <;> simp [Ne.symm e1, e1]
    · cases s.nodes[j]? <;> simp [e1, e2, Ne.symm e1, Ne.symm e2]

end send

/-! ### destructive `measure` -/

theorem count_eraseIdx' (x : Nat) : ∀ (l : List Nat) (i : Nat) (hi : i < l.length),
    (l.eraseIdx i).count x + (if l[i] = x then 1 else 0) = l.count x
  | [], i, hi => by simp at hi
  | a :: l, 0, _ => by
    simp only [List.eraseIdx_cons_zero, List.getElem_cons_zero, List.count_cons, beq_iff_eq]
  | a :: l, i + 1, hi => by
    have := count_eraseIdx' x l i (by simpa using hi)
    simp only [List.eraseIdx_cons_succ, List.getElem_cons_succ, List.count_cons, beq_iff_eq]
    omega

theorem reg?_congr {n1 n2 : Node} (h : n1.regs = n2.regs) (r : Nat) : n1.reg? r = n2.reg? r := by
  unfold Node.reg?; rw [h]

/-- the simulating node after `_remove_sim_qubit` -/
def rmNode (q : SQ) (o : Nat) (toks' : List Nat) (nd : Node) : Node :=
  let nd1 := if toks'.isEmpty then nd.delReg q.reg else nd.modReg q.reg fun r => { r with toks := toks' }
  { nd1 with sim := nd1.sim.erase o }

def rmSQ (nd : Node) (q : SQ) (o : Nat) (toks' : List Nat) (o' : Nat) (q' : SQ) : SQ :=
  if o' == o then { q' with active := false }
  else if (!toks'.isEmpty && nd.sim.contains o' && q'.reg == q.reg && decide (q'.pos > q.pos)) then
    { q' with pos := q'.pos - 1 }
  else q'

theorem removeSim_eq {s : Net} {sn o : Nat} {q : SQ} {nd : Node} {r : Reg} (hq : s.sqs[o]? = some q)
    (hnd : s.nodes[sn]? = some nd) (hr : nd.reg? q.reg = some r) :
    removeSim s sn o =
      ({ nodes := s.nodes.modify sn (rmNode q o (r.toks.eraseIdx q.pos)),
         sqs := s.sqs.mapIdx (rmSQ nd q o (r.toks.eraseIdx q.pos)), vqs := s.vqs, nextTok := s.nextTok },
       [.remove sn q.reg q.pos] ++ (if (r.toks.eraseIdx q.pos).isEmpty then [.delReg sn q.reg] else [])) := by
  simp only [removeSim, hq, hnd, hr]
  rfl

/-- the state after a destructive measurement through `h` -/
def measNet (s : Net) (h : Nat) (vq : VQ) (sq : SQ) (nd : Node) (rg : Reg) : Net :=
  { nodes := (s.nodes.modify vq.simNode (rmNode sq vq.simObj (rg.toks.eraseIdx sq.pos))).modify vq.virtNode
      (fun n => { n with virt := n.virt.erase h }),
    sqs := s.sqs.mapIdx (rmSQ nd sq vq.simObj (rg.toks.eraseIdx sq.pos)),
    vqs := s.vqs.modify h (fun v => { v with active := false }),
    nextTok := s.nextTok }

section measure
variable {s : Net} {h : Nat} {vq : VQ} {sq : SQ} {nd : Node} {rg : Reg}

theorem stepMeasure_destr (i : HInfo s h vq sq nd rg) (oc : Bool) :
    stepMeasure s h false oc =
      (measNet s h vq sq nd rg, .outcome oc,
        [.measInplace vq.simNode sq.reg sq.pos oc, .remove vq.simNode sq.reg sq.pos] ++
          (if (rg.toks.eraseIdx sq.pos).isEmpty then [.delReg vq.simNode sq.reg] else [])) := by
  simp only [stepMeasure, i.hv, i.act, i.hs, i.sact, Bool.not_true, Bool.false_eq_true, if_false,
    removeSim_eq i.hs i.hn i.hr]
  rfl

theorem stepMeasure_inplace (i : HInfo s h vq sq nd rg) (oc : Bool) :
    stepMeasure s h true oc = (s, .outcome oc, [.measInplace vq.simNode sq.reg sq.pos oc]) := by
  simp only [stepMeasure, i.hv, i.act, i.hs, i.sact, Bool.not_true, Bool.false_eq_true, if_false, if_true]

theorem measNet_nodes_get (j : Nat) : ∃ f : Node → Node, (∀ n, (f n).regs = n.regs) ∧
    (measNet s h vq sq nd rg).nodes[j]? =
      ((if vq.simNode = j then (s.nodes[j]?).map (rmNode sq vq.simObj (rg.toks.eraseIdx sq.pos)) else s.nodes[j]?)).map f := by
  simp only [measNet, getElem?_modify']
  by_cases e : vq.virtNode = j
  · exact ⟨fun n => { n with virt := n.virt.erase h }, fun _ => rfl, by simp [e]⟩
  · exact ⟨id, fun _ => rfl, by simp [e]⟩

theorem rmNode_reg? (q : SQ) (o : Nat) (toks' : List Nat) (n : Node) (r : Nat) :
    (rmNode q o toks' n).reg? r =
      if toks'.isEmpty then (if r = q.reg then none else n.reg? r)
      else (if r = q.reg then (n.reg? r).map (fun x => { x with toks := toks' }) else n.reg? r) := by
  unfold rmNode
  by_cases e : toks'.isEmpty
  · simp only [e, if_true]
    exact reg?_delReg n q.reg r
  · simp only [e]
    exact reg?_modReg n q.reg r _ (fun _ => rfl)

variable (hwf : WF s)
include hwf

/-- every other held handle keeps its token; positions behind the removed one shift down -/
theorem meas_den_other (i : HInfo s h vq sq nd rg) {h' : Nat} {vq' : VQ} {sq' : SQ} {nd' : Node} {rg' : Reg}
    (i' : HInfo s h' vq' sq' nd' rg') (hh : h ∈ allHeld s) (hh' : h' ∈ allHeld s) (hne : h' ≠ h) :
    Den (measNet s h vq sq nd rg) h' vq'.simObj vq'.simNode sq'.reg
      (if vq'.simNode = vq.simNode ∧ sq'.reg = sq.reg ∧ sq'.pos > sq.pos then sq'.pos - 1 else sq'.pos)
      (rg'.toks[sq'.pos]'i'.pos) := by
  have hobj : vq'.simObj ≠ vq.simObj := fun e => hne (hwf.back_unique hh' hh i'.hv i.hv e)
  have htok : rg'.toks[sq'.pos]'i'.pos ≠ rg.toks[sq.pos]'i.pos := by
    intro e; exact hne (tokOf_inj hwf hh' hh i'.den.tokOf (e ▸ i.den.tokOf))
  have hv' : (measNet s h vq sq nd rg).vqs[h']? = some vq' := by
    simp only [measNet, getElem?_modify', if_neg (Ne.symm hne)]; exact i'.hv
  obtain ⟨f, hf, hget⟩ := measNet_nodes_get (s := s) (h := h) (vq := vq) (sq := sq) (nd := nd) (rg := rg) vq'.simNode
  by_cases hA : vq'.simNode = vq.simNode ∧ sq'.reg = sq.reg
  · obtain ⟨hA1, hA2⟩ := hA
    have e1 := i'.hn; rw [hA1, i.hn] at e1; cases e1
    have e2 := i'.hr; rw [hA2, i.hr] at e2; cases e2
    have hpos : sq'.pos ≠ sq.pos := by
      intro e; apply htok; simp only [e]
    have hlen : 2 ≤ rg.toks.length := by have := i.pos; have := i'.pos; omega
    have hne' : (rg.toks.eraseIdx sq.pos).isEmpty = false := by
      rw [List.isEmpty_eq_false_iff]; intro e
      have := congrArg List.length e
      rw [List.length_eraseIdx, if_pos i.pos] at this; simp at this; omega
    have hsq : (measNet s h vq sq nd rg).sqs[vq'.simObj]? =
        some { sq' with pos := if sq'.pos > sq.pos then sq'.pos - 1 else sq'.pos } := by
      simp only [measNet, List.getElem?_mapIdx, i'.hs, Option.map_some, rmSQ]
      have : (vq'.simObj == vq.simObj) = false := by simp [hobj]
      have hc : nd.sim.contains vq'.simObj = true := by simp [i'.insim]
      have hb : (sq'.reg == sq.reg) = true := by simp [hA2]
      simp only [this, hne', hc, hb, Bool.false_eq_true, if_false, Bool.not_false, Bool.true_and]
      by_cases hgt : sq'.pos > sq.pos <;> simp [hgt]
    have hreg : (rmNode sq vq.simObj (rg.toks.eraseIdx sq.pos) nd).reg? sq.reg
        = some { rg with toks := rg.toks.eraseIdx sq.pos } := by
      rw [rmNode_reg?, hne']; simp [i.hr]
    simp only [hA1, hA2, true_and]
    refine ⟨vq', _, f (rmNode sq vq.simObj (rg.toks.eraseIdx sq.pos) nd), { rg with toks := rg.toks.eraseIdx sq.pos },
      hv', rfl, hA1, hsq, ?_, hA2, rfl, ?_, ?_, ?_⟩
    · show sq'.node = vq.simNode
      rw [← hA1]; exact i'.snode
    · rw [← hA1, hget, hA1]; simp [i.hn]
    · rw [reg?_congr (hf _)]; exact hreg
    · show (rg.toks.eraseIdx sq.pos)[_]? = _
      rw [List.getElem?_eraseIdx]
      by_cases hgt : sq'.pos > sq.pos
      · simp only [hgt, if_true]
        rw [if_neg (by omega)]
        have : sq'.pos - 1 + 1 = sq'.pos := by omega
        rw [this]; exact List.getElem?_eq_getElem i'.pos
      · simp only [hgt, if_false]
        rw [if_pos (by omega)]; exact List.getElem?_eq_getElem i'.pos
  · have hif : ¬ (vq'.simNode = vq.simNode ∧ sq'.reg = sq.reg ∧ sq'.pos > sq.pos) := fun h => hA ⟨h.1, h.2.1⟩
    rw [if_neg hif]
    have hsq : (measNet s h vq sq nd rg).sqs[vq'.simObj]? = some sq' := by
      simp only [measNet, List.getElem?_mapIdx, i'.hs, Option.map_some, rmSQ]
      have : (vq'.simObj == vq.simObj) = false := by simp [hobj]
      simp only [this, Bool.false_eq_true, if_false]
      rw [if_neg]
      intro hc
      simp only [Bool.and_eq_true, beq_iff_eq, List.contains_iff_mem, decide_eq_true_eq] at hc
      obtain ⟨sq'', hs'', hnode, _⟩ := (hwf.nodes _ _ i.hn).simOK _ hc.1.1.2
      rw [i'.hs] at hs''; cases hs''
      exact hA ⟨i'.snode.symm.trans hnode, hc.1.2⟩
    by_cases hB : vq'.simNode = vq.simNode
    · have e1 := i'.hn; rw [hB, i.hn] at e1; cases e1
      have hrne : sq'.reg ≠ sq.reg := fun e => hA ⟨hB, e⟩
      refine ⟨vq', sq', f (rmNode sq vq.simObj (rg.toks.eraseIdx sq.pos) nd), rg', hv', rfl, rfl, hsq, i'.snode, rfl, rfl,
        ?_, ?_, List.getElem?_eq_getElem i'.pos⟩
      · rw [hget, if_pos hB.symm, i'.hn]; rfl
      · rw [reg?_congr (hf _), rmNode_reg?]
        by_cases e : (rg.toks.eraseIdx sq.pos).isEmpty <;> simp [e, hrne, i'.hr]
    · refine ⟨vq', sq', f nd', rg', hv', rfl, rfl, hsq, i'.snode, rfl, rfl, ?_, ?_, List.getElem?_eq_getElem i'.pos⟩
      · rw [hget, if_neg (Ne.symm hB), i'.hn]; rfl
      · rw [reg?_congr (hf _)]; exact i'.hr

omit hwf in
/-- exactly the measured token leaves the registers -/
theorem meas_count (i : HInfo s h vq sq nd rg) (hnd : (nd.regs.map (·.num)).Nodup) (x : Nat) :
    (allToks (measNet s h vq sq nd rg)).count x + (if rg.toks[sq.pos]'i.pos = x then 1 else 0)
      = (allToks s).count x := by
  have e : allToks (measNet s h vq sq nd rg)
      = allToks (modNode s vq.simNode (rmNode sq vq.simObj (rg.toks.eraseIdx sq.pos))) := by
    apply allToks_eq_of_regs
    simp only [measNet, modNode_nodes]
    exact map_modify_of_eq _ vq.virtNode (fun n : Node => { n with virt := n.virt.erase h }) (·.regs) (fun _ => rfl)
  rw [e]
  have c1 := count_allToks_modNode s vq.simNode (rmNode sq vq.simObj (rg.toks.eraseIdx sq.pos)) nd x i.hn
  have c2 := count_eraseIdx' x rg.toks sq.pos i.pos
  have c3 : (nodeToks (rmNode sq vq.simObj (rg.toks.eraseIdx sq.pos) nd)).count x + rg.toks.count x
      = (nodeToks nd).count x + (rg.toks.eraseIdx sq.pos).count x := by
    by_cases hemp : (rg.toks.eraseIdx sq.pos).isEmpty
    · have h0 : rg.toks.eraseIdx sq.pos = [] := List.isEmpty_iff.1 hemp
      have : nodeToks (rmNode sq vq.simObj (rg.toks.eraseIdx sq.pos) nd) = nodeToks (nd.delReg sq.reg) := by
        unfold rmNode; simp only [hemp, if_true]; rfl
      rw [this, h0]
      have := count_nodeToks_delReg nd sq.reg rg x hnd i.hr
      simp only [List.count_nil]; omega
    · have : nodeToks (rmNode sq vq.simObj (rg.toks.eraseIdx sq.pos) nd)
          = nodeToks (nd.modReg sq.reg fun r => { r with toks := rg.toks.eraseIdx sq.pos }) := by
        unfold rmNode; simp only [hemp]; rfl
      rw [this]
      exact count_nodeToks_modReg nd sq.reg _ rg x hnd i.hr
  omega

omit hwf in
theorem meas_virt_get (j : Nat) :
    ((measNet s h vq sq nd rg).nodes[j]?).map (·.virt) =
      if j = vq.virtNode then (s.nodes[j]?).map (fun n => n.virt.erase h) else (s.nodes[j]?).map (·.virt) := by
  simp only [measNet, getElem?_modify']
  have hv : ∀ n : Node, (rmNode sq vq.simObj (rg.toks.eraseIdx sq.pos) n).virt = n.virt := by
    intro n; unfold rmNode; split <;> rfl
  by_cases e1 : j = vq.virtNode
  · subst e1
    by_cases e2 : vq.simNode = vq.virtNode <;> cases s.nodes[vq.virtNode]? <;> simp [e2, hv]
  · have e1' : ¬ vq.virtNode = j := fun h => e1 h.symm
    by_cases e2 : vq.simNode = j <;> cases s.nodes[j]? <;> simp [e1, e1', e2, hv]

end measure

end SqVerif.VNet

import SqVerif.VNetInert
/-
L2 — token-level reading of the virtual-node model (behind C01, and behind the
`gate2` parts of C05).  Core Lean only.

`Den s h o n r p t`: handle `h` names simulated-qubit object `o`, which sits at
node `n`, register `r`, position `p`, and the token stored there is `t`.
Under `WF s` every held handle has a (unique) denotation (`WF.den_of_held`),
two different held handles denote different tokens (`tokOf_inj`).
-/
namespace SqVerif.VNet

/-! ### `Nodup` helpers -/

theorem flatMap_nodup_idx {α} (f : α → List Nat) : ∀ (l : List α) (i j : Nat) (a b : α) (t : Nat),
    (l.flatMap f).Nodup → l[i]? = some a → l[j]? = some b → t ∈ f a → t ∈ f b → i = j
  | [], i, j, a, b, t, _, hi, _, _, _ => by simp at hi
  | x :: l, 0, 0, _, _, _, _, _, _, _, _ => rfl
  | x :: l, 0, j + 1, a, b, t, hnd, hi, hj, ha, hb => by
    simp at hi hj; subst hi
    rw [List.flatMap_cons, List.nodup_append] at hnd
    exact absurd rfl (hnd.2.2 t ha t (List.mem_flatMap.2 ⟨b, List.mem_iff_getElem?.2 ⟨j, hj⟩, hb⟩))
  | x :: l, i + 1, 0, a, b, t, hnd, hi, hj, ha, hb => by
    simp at hi hj; subst hj
    rw [List.flatMap_cons, List.nodup_append] at hnd
    exact absurd rfl (hnd.2.2 t hb t (List.mem_flatMap.2 ⟨a, List.mem_iff_getElem?.2 ⟨i, hi⟩, ha⟩))
  | x :: l, i + 1, j + 1, a, b, t, hnd, hi, hj, ha, hb => by
    simp at hi hj
    rw [List.flatMap_cons, List.nodup_append] at hnd
    rw [flatMap_nodup_idx f l i j a b t hnd.2.1 hi hj ha hb]

theorem flatMap_nodup_val {α} (f : α → List Nat) (l : List α) (a b : α) (t : Nat)
    (hnd : (l.flatMap f).Nodup) (ha : a ∈ l) (hb : b ∈ l) (hta : t ∈ f a) (htb : t ∈ f b) : a = b := by
  obtain ⟨i, hi⟩ := List.mem_iff_getElem?.1 ha
  obtain ⟨j, hj⟩ := List.mem_iff_getElem?.1 hb
  have := flatMap_nodup_idx f l i j a b t hnd hi hj hta htb
  subst this; rw [hi] at hj; exact Option.some.inj hj

theorem flatMap_nodup_inner {α} (f : α → List Nat) : ∀ (l : List α) (a : α),
    (l.flatMap f).Nodup → a ∈ l → (f a).Nodup
  | [], a, _, h => by simp at h
  | x :: l, a, hnd, h => by
    rw [List.flatMap_cons, List.nodup_append] at hnd
    rcases List.mem_cons.1 h with rfl | h
    · exact hnd.1
    · exact flatMap_nodup_inner f l a hnd.2.1 h

theorem filterMap_nodup_inj {α β} (g : α → Option β) : ∀ (l : List α) (a b : α) (x : β),
    (l.filterMap g).Nodup → a ∈ l → b ∈ l → g a = some x → g b = some x → a = b
  | [], a, _, _, _, h, _, _, _ => by simp at h
  | y :: l, a, b, x, hnd, ha, hb, hga, hgb => by
    rcases List.mem_cons.1 ha with rfl | ha' <;> rcases List.mem_cons.1 hb with rfl | hb'
    · rfl
    · rw [List.filterMap_cons_some hga, List.nodup_cons] at hnd
      exact absurd (List.mem_filterMap.2 ⟨b, hb', hgb⟩) hnd.1
    · rw [List.filterMap_cons_some hgb, List.nodup_cons] at hnd
      exact absurd (List.mem_filterMap.2 ⟨a, ha', hga⟩) hnd.1
    · have hnd' : (l.filterMap g).Nodup := by
        rw [List.filterMap_cons] at hnd
        split at hnd
        · exact hnd
        · exact (List.nodup_cons.1 hnd).2
      exact filterMap_nodup_inj g l a b x hnd' ha' hb' hga hgb

/-! ### denotation of a handle -/

/-- handle `h` names object `o` at node `n`, register `r`, position `p`, holding token `t` -/
def Den (s : Net) (h o n r p t : Nat) : Prop :=
  ∃ (vq : VQ) (sq : SQ) (nd : Node) (rg : Reg),
    s.vqs[h]? = some vq ∧ vq.simObj = o ∧ vq.simNode = n ∧ s.sqs[o]? = some sq ∧ sq.node = n ∧
    sq.reg = r ∧ sq.pos = p ∧ s.nodes[n]? = some nd ∧ nd.reg? r = some rg ∧ rg.toks[p]? = some t

theorem Den.mk' {s : Net} {h : Nat} {vq : VQ} {sq : SQ} {nd : Node} {rg : Reg} {t : Nat}
    (hv : s.vqs[h]? = some vq) (hs : s.sqs[vq.simObj]? = some sq) (hsn : sq.node = vq.simNode)
    (hn : s.nodes[vq.simNode]? = some nd) (hr : nd.reg? sq.reg = some rg) (ht : rg.toks[sq.pos]? = some t) :
    Den s h vq.simObj vq.simNode sq.reg sq.pos t :=
  ⟨vq, sq, nd, rg, hv, rfl, rfl, hs, hsn, rfl, rfl, hn, hr, ht⟩

theorem tokOf_of {s : Net} {h : Nat} {vq : VQ} {sq : SQ} {nd : Node} {rg : Reg}
    (hv : s.vqs[h]? = some vq) (hs : s.sqs[vq.simObj]? = some sq)
    (hn : s.nodes[vq.simNode]? = some nd) (hr : nd.reg? sq.reg = some rg) :
    tokOf s h = rg.toks[sq.pos]? := by
  simp [tokOf, hv, hs, hn, hr]

theorem Den.tokOf {s : Net} {h o n r p t : Nat} (d : Den s h o n r p t) : tokOf s h = some t := by
  obtain ⟨vq, sq, nd, rg, hv, rfl, rfl, hs, _, rfl, rfl, hn, hr, ht⟩ := d
  rw [tokOf_of hv hs hn hr, ht]

/-- the register content a denotation points into -/
theorem Den.reg {s : Net} {h o n r p t : Nat} (d : Den s h o n r p t) :
    ∃ nd rg, s.nodes[n]? = some nd ∧ nd.reg? r = some rg ∧ rg.toks[p]? = some t := by
  obtain ⟨_, _, nd, rg, _, _, _, _, _, _, _, hn, hr, ht⟩ := d
  exact ⟨nd, rg, hn, hr, ht⟩

theorem Den.vq {s : Net} {h o n r p t : Nat} (d : Den s h o n r p t) :
    ∃ vq, s.vqs[h]? = some vq ∧ vq.simObj = o ∧ vq.simNode = n := by
  obtain ⟨vq, _, _, _, hv, h1, h2, _⟩ := d
  exact ⟨vq, hv, h1, h2⟩

theorem Den.sq {s : Net} {h o n r p t : Nat} (d : Den s h o n r p t) :
    ∃ sq, s.sqs[o]? = some sq ∧ sq.node = n ∧ sq.reg = r ∧ sq.pos = p := by
  obtain ⟨_, sq, _, _, _, _, _, hs, h1, h2, h3, _⟩ := d
  exact ⟨sq, hs, h1, h2, h3⟩

/-- a denotation is a function of the handle -/
theorem Den.unique {s : Net} {h o n r p t o' n' r' p' t' : Nat} (d : Den s h o n r p t)
    (d' : Den s h o' n' r' p' t') : o = o' ∧ n = n' ∧ r = r' ∧ p = p' ∧ t = t' := by
  obtain ⟨vq, sq, nd, rg, hv, rfl, rfl, hs, _, rfl, rfl, hn, hr, ht⟩ := d
  obtain ⟨vq', sq', nd', rg', hv', rfl, rfl, hs', _, rfl, rfl, hn', hr', ht'⟩ := d'
  rw [hv] at hv'; cases hv'
  rw [hs] at hs'; cases hs'
  rw [hn] at hn'; cases hn'
  rw [hr] at hr'; cases hr'
  rw [ht] at ht'; cases ht'
  exact ⟨rfl, rfl, rfl, rfl, rfl⟩

/-! ### what `WF` says about a held / an active handle -/

theorem WF.held_of_active {s : Net} (hwf : WF s) {h : Nat} {vq : VQ} (hv : s.vqs[h]? = some vq)
    (ha : vq.active = true) : h ∈ allHeld s := by
  apply Classical.byContradiction; intro hn
  have := hwf.staleInactive h vq hv hn
  rw [ha] at this; cases this

/-- everything `WF` gives for a held handle -/
structure HInfo (s : Net) (h : Nat) (vq : VQ) (sq : SQ) (nd : Node) (rg : Reg) : Prop where
  hv : s.vqs[h]? = some vq
  act : vq.active = true
  home : ∃ hn, s.nodes[vq.virtNode]? = some hn ∧ h ∈ hn.virt
  hs : s.sqs[vq.simObj]? = some sq
  sact : sq.active = true
  snode : sq.node = vq.simNode
  hn : s.nodes[vq.simNode]? = some nd
  insim : vq.simObj ∈ nd.sim
  hr : nd.reg? sq.reg = some rg
  pos : sq.pos < rg.toks.length

theorem WF.info_of_held {s : Net} (hwf : WF s) {h : Nat} (hh : h ∈ allHeld s) :
    ∃ vq sq nd rg, HInfo s h vq sq nd rg := by
  obtain ⟨i, hn, hi, hmem⟩ := mem_allHeld.1 hh
  obtain ⟨vq, hv, ha, hvn, sn, sq, hsn, hin, hs, hsa, hsnode⟩ := (hwf.nodes i hn hi).virtOK h hmem
  have nwf := hwf.nodes _ sn hsn
  obtain ⟨sq', hs', _, _, rg, hr⟩ := nwf.simOK _ hin
  rw [hs] at hs'; cases hs'
  refine ⟨vq, sq, sn, rg, hv, ha, ⟨hn, by rw [hvn]; exact hi, hmem⟩, hs, hsa, hsnode, hsn, hin, hr, ?_⟩
  have hperm := nwf.positions rg (reg?_mem hr)
  have : sq.pos ∈ (simsOfReg s sn rg.num).map (·.pos) := by
    apply List.mem_map.2
    refine ⟨sq, ?_, rfl⟩
    unfold simsOfReg
    apply List.mem_filterMap.2
    refine ⟨vq.simObj, hin, ?_⟩
    simp [hs, reg?_num hr]
  exact List.mem_range.1 ((hperm.mem_iff).1 this)

theorem HInfo.den {s : Net} {h : Nat} {vq : VQ} {sq : SQ} {nd : Node} {rg : Reg} (i : HInfo s h vq sq nd rg) :
    Den s h vq.simObj vq.simNode sq.reg sq.pos (rg.toks[sq.pos]'i.pos) :=
  Den.mk' i.hv i.hs i.snode i.hn i.hr (List.getElem?_eq_getElem i.pos)

theorem WF.den_of_held {s : Net} (hwf : WF s) {h : Nat} (hh : h ∈ allHeld s) :
    ∃ o n r p t, Den s h o n r p t := by
  obtain ⟨vq, sq, nd, rg, i⟩ := hwf.info_of_held hh
  exact ⟨_, _, _, _, _, i.den⟩

/-- C01.5b: a held handle denotes a token -/
theorem held_defined' {s : Net} (hwf : WF s) {h : Nat} (hh : h ∈ allHeld s) : ∃ t, tokOf s h = some t := by
  obtain ⟨o, n, r, p, t, d⟩ := hwf.den_of_held hh
  exact ⟨t, d.tokOf⟩

/-- a held handle lives at exactly one node, once -/
theorem WF.held_home {s : Net} (hwf : WF s) {h i : Nat} {n : Node} {vq : VQ} (hn : s.nodes[i]? = some n)
    (hm : h ∈ n.virt) (hv : s.vqs[h]? = some vq) : vq.virtNode = i := by
  obtain ⟨vq', hv', _, hvn, _⟩ := (hwf.nodes i n hn).virtOK h hm
  rw [hv] at hv'; cases hv'; exact hvn

/-- the token a position of a register holds determines node, register and position -/
theorem WF.tok_unique {s : Net} (hwf : WF s) {n n' r r' p p' t : Nat} {nd nd' : Node} {rg rg' : Reg}
    (hn : s.nodes[n]? = some nd) (hr : nd.reg? r = some rg) (ht : rg.toks[p]? = some t)
    (hn' : s.nodes[n']? = some nd') (hr' : nd'.reg? r' = some rg') (ht' : rg'.toks[p']? = some t) :
    n = n' ∧ r = r' ∧ p = p' := by
  have hnd := hwf.toksNodup
  rw [allToks_eq] at hnd
  have mem1 : t ∈ nodeToks nd :=
    List.mem_flatMap.2 ⟨rg, reg?_mem hr, List.mem_iff_getElem?.2 ⟨p, ht⟩⟩
  have mem2 : t ∈ nodeToks nd' :=
    List.mem_flatMap.2 ⟨rg', reg?_mem hr', List.mem_iff_getElem?.2 ⟨p', ht'⟩⟩
  have e1 : n = n' := flatMap_nodup_idx nodeToks s.nodes n n' nd nd' t hnd hn hn' mem1 mem2
  subst e1
  rw [hn] at hn'; cases hn'
  have hnd2 : (nodeToks nd).Nodup :=
    flatMap_nodup_inner nodeToks s.nodes nd hnd (List.mem_iff_getElem?.2 ⟨n, hn⟩)
  have e2 : rg = rg' := flatMap_nodup_val Reg.toks nd.regs rg rg' t hnd2 (reg?_mem hr) (reg?_mem hr')
    (List.mem_iff_getElem?.2 ⟨p, ht⟩) (List.mem_iff_getElem?.2 ⟨p', ht'⟩)
  subst e2
  have hnd3 : rg.toks.Nodup := flatMap_nodup_inner Reg.toks nd.regs rg hnd2 (reg?_mem hr)
  have e3 : p = p' := by
    have hp : p < rg.toks.length := (List.getElem?_eq_some_iff.1 ht).1
    exact (List.getElem?_inj hp hnd3).1 (ht.trans ht'.symm)
  exact ⟨rfl, (reg?_num hr).symm.trans (reg?_num hr'), e3⟩

/-- two simulated qubits of one node at the same register position are the same object -/
theorem WF.sim_unique {s : Net} (hwf : WF s) {n o o' : Nat} {nd : Node} {sq sq' : SQ} {rg : Reg}
    (hn : s.nodes[n]? = some nd) (ho : o ∈ nd.sim) (ho' : o' ∈ nd.sim)
    (hs : s.sqs[o]? = some sq) (hs' : s.sqs[o']? = some sq') (hr : nd.reg? sq.reg = some rg)
    (hreg : sq.reg = sq'.reg) (hpos : sq.pos = sq'.pos) : o = o' := by
  have nwf := hwf.nodes n nd hn
  have hperm := nwf.positions rg (reg?_mem hr)
  have hnd : ((simsOfReg s nd rg.num).map (·.pos)).Nodup := hperm.nodup_iff.2 List.nodup_range
  unfold simsOfReg at hnd
  rw [List.map_filterMap] at hnd
  refine filterMap_nodup_inj _ nd.sim o o' sq.pos hnd ho ho' ?_ ?_
  · simp [hs, reg?_num hr]
  · simp [hs', reg?_num hr, ← hreg, hpos]

/-- two held handles naming the same simulated qubit are the same handle -/
theorem WF.back_unique {s : Net} (hwf : WF s) {h h' : Nat} {vq vq' : VQ} (hh : h ∈ allHeld s)
    (hh' : h' ∈ allHeld s) (hv : s.vqs[h]? = some vq) (hv' : s.vqs[h']? = some vq')
    (ho : vq.simObj = vq'.simObj) : h = h' :=
  filterMap_nodup_inj _ (allHeld s) h h' vq.simObj hwf.backInj hh hh' (by simp [hv]) (by simp [hv', ho])

/-- different held handles denote different logical qubits -/
theorem tokOf_inj {s : Net} (hwf : WF s) {h h' : Nat} {t : Nat} (hh : h ∈ allHeld s) (hh' : h' ∈ allHeld s)
    (ht : tokOf s h = some t) (ht' : tokOf s h' = some t) : h = h' := by
  obtain ⟨vq, sq, nd, rg, i⟩ := hwf.info_of_held hh
  obtain ⟨vq', sq', nd', rg', i'⟩ := hwf.info_of_held hh'
  rw [tokOf_of i.hv i.hs i.hn i.hr] at ht
  rw [tokOf_of i'.hv i'.hs i'.hn i'.hr] at ht'
  obtain ⟨e1, e2, e3⟩ := hwf.tok_unique i.hn i.hr ht i'.hn i'.hr ht'
  have hn' := i'.hn; rw [← e1, i.hn] at hn'; cases hn'
  have := hwf.sim_unique i.hn i.insim i'.insim i.hs i'.hs i.hr e2 e3
  exact hwf.back_unique hh hh' i.hv i'.hv this

end SqVerif.VNet

"""AST translator for the dynamic-guard bridge of C03:
simulaqron/virtual_node/virtual.py  ->  lean/SqVerif/Gen/SkeletonDyn.lean

Every method of `virtualNode` / `virtualQubit` that reads or writes a handle's simulator pointer
(`<handle>.simNode`, `<handle>.simQubit`) -- found by walking the AST, not from a list -- and every method that
reaches one of those through calls is translated into a term of `SqVerif.SkelDyn.DStmt`: the pointer-relevant
events (capture, acquisition of node locks, comparison of the pointer with a node, dereference, re-pointing,
release) and the control structure around them.  Helper methods, direct calls on other node objects and
`call_method(<node>.root, "<m>", ...)` of a pointer-relevant node method are inlined (`scope`) with their
parameters bound to what the caller passes (handles, nodes, node names), so that a nested call runs inside the
caller's transaction.  A self-recursive retry in tail position that passes every parameter through is `loop ... cont`.
Whatever is not understood becomes `unknown "<why>"`, on which every checker of SkelDyn.lean fails; an exception
inside the translator yields a file with `translatorOK := false`.

Trusted identifications (printed into the generated file):
  * `<handle>.virtNode`, `self.virtNode` (handle class), `self` / `self.myID` (node class)  =  the node the method
    runs on (`self`);
  * a handle is: `self` of a virtualQubit method, and any name on which `.simNode` / `.simQubit` is read, except the
    entries of NON_HANDLE (objects of other classes that happen to have a field of that name);
  * lock primitives by name: `get_global_lock` / `release_global_lock` (through call_method or directly, with or
    without `remote_` / `_` prefix).

Pure stdlib.  `generate(repo_root, lean_dir)` rewrites the Lean file only if its content changed."""
import ast
import os
import re
import traceback

from . import skel as _skel

SRC = "simulaqron/virtual_node/virtual.py"
OUT = "SqVerif/Gen/SkeletonDyn.lean"
CLASSES = ("virtualNode", "virtualQubit")
PTR_FIELDS = ("simNode", "simQubit")
LEAN_PREFIX = {"virtualNode": "N_", "virtualQubit": "Q_"}
MAX_INLINE_DEPTH = 6
HANDLE_LETTERS = ("c", "t")

# (class, method, name): `name.simNode` in that method is a field of another class (a quantumRegister)
NON_HANDLE = {("virtualNode", "remote_new_qubit_inreg", "reg")}

ACQ_NAMES = {"get_global_lock", "_get_global_lock", "remote_get_global_lock"}
REL_NAMES = {"release_global_lock", "_release_global_lock", "remote_release_global_lock"}
LOGGER_ATTRS = {"_logger"}
REFLECTION = {"getattr", "setattr", "delattr", "hasattr", "vars"}
# calls that neither raise nor matter here
QUIET_FUNCS = {"len", "range", "set", "list", "dict", "str", "int", "float", "bool", "tuple", "enumerate", "reversed",
               "sorted", "isinstance", "print", "min", "max", "sum", "any", "all", "repr", "type",
               "deferLater", "DeferredList"}
QUIET_METHODS = {"keys", "values", "items", "join", "format", "startswith", "endswith"}


# ---------------------------------------------------------------------------------------------------------
# terms (python side): tuples, as in skel.py
# ---------------------------------------------------------------------------------------------------------
def ev(*e):
    return ("ev", tuple(e))


def unknown(why):
    why = " ".join(str(why).split())[:90].replace('"', "'").replace("\\", "/")
    return ("unknown", why)


MAY_RAISE = ("ite", ".any", ("raise",), ("skip",))


def seq(items, note=None):
    out = []
    for it in items:
        if it is None or it[0] == "skip":
            continue
        if it[0] == "seq" and it[2] is None:
            out.extend(it[1])
        else:
            out.append(it)
    # two `may raise` in a row are one
    ded = []
    for it in out:
        if it == MAY_RAISE and ded and ded[-1] == MAY_RAISE:
            continue
        ded.append(it)
    out = ded
    for i, it in enumerate(out):
        if it[0] in ("ret", "brk", "cont", "raise"):
            out = out[: i + 1]
            break
    if not out:
        return ("skip",)
    if len(out) == 1 and note is None:
        return out[0]
    return ("seq", out, note)


def ite(cond, a, b):
    if a == b and cond == ".any":
        return a
    return ("ite", cond, a, b)


def has_tag(s, tags):
    t = s[0]
    if t in tags:
        return True
    if t == "seq":
        return any(has_tag(x, tags) for x in s[1])
    if t == "ite":
        return has_tag(s[2], tags) or has_tag(s[3], tags)
    if t in ("loop", "scope"):
        return has_tag(s[1], tags)
    if t in ("tryFinally", "tryExcept", "tryCatch"):
        return has_tag(s[1], tags) or has_tag(s[2], tags)
    return False


def plain(s):
    """no event, no unknown, no exit other than falling through or raising"""
    return not has_tag(s, {"ev", "unknown", "ret", "brk", "cont"})


def simplify(s):
    """drop structure that carries no event: a sub-term without events, exits or `unknown` is `skip` or, when it
    can raise, `may raise`"""
    t = s[0]
    if t in ("skip", "ev", "raise", "ret", "brk", "cont", "unknown"):
        return s
    if plain(s):
        return MAY_RAISE if has_tag(s, {"raise"}) and not _always_raises(s) else (s if _always_raises(s) else ("skip",))
    if t == "seq":
        return seq([simplify(x) for x in s[1]], s[2])
    if t == "ite":
        return ite(s[1], simplify(s[2]), simplify(s[3]))
    if t == "loop":
        return ("loop", simplify(s[1]))
    if t == "scope":
        return ("scope", simplify(s[1]), s[2])
    a, b = simplify(s[1]), simplify(s[2])
    if t == "tryFinally":
        if b[0] == "skip":
            return a
        if a[0] == "skip":
            return b
        return (t, a, b)
    if not has_tag(a, {"raise", "unknown"}):
        return a
    return (t, a, b)


def _always_raises(s):
    """a plain term all of whose paths raise (conservatively: only the obvious shapes)"""
    t = s[0]
    if t == "raise":
        return True
    if t == "seq":
        return any(_always_raises(x) for x in s[1])
    if t == "ite":
        return _always_raises(s[2]) and _always_raises(s[3])
    if t == "scope":
        return _always_raises(s[1])
    return False


# ---------------------------------------------------------------------------------------------------------
# which methods
# ---------------------------------------------------------------------------------------------------------
def ptr_accesses(cls, fn):
    """[(base text, field)] of the pointer accesses of a method, and the non-handle reads that were set aside"""
    acc, aside = [], []
    for n in ast.walk(fn):
        if isinstance(n, ast.Call) and isinstance(n.func, ast.Name) and n.func.id in REFLECTION \
                and any(isinstance(a, ast.Constant) and a.value in PTR_FIELDS for a in n.args):
            acc.append(("<%s>" % n.func.id, [a.value for a in n.args if isinstance(a, ast.Constant)][0]))
        if isinstance(n, ast.Attribute) and n.attr in PTR_FIELDS:
            base = ast.unparse(n.value)
            if isinstance(n.value, ast.Name) and (cls, fn.name, n.value.id) in NON_HANDLE:
                aside.append((fn.name, "%s.%s" % (base, n.attr)))
            else:
                acc.append((base, n.attr))
    return acc, aside


def callee_names(fn):
    """names of methods a function may reach: `x.m(...)`, `call_method(x, "m", ...)` (also with the remote_ prefix)"""
    out = set()
    for n in ast.walk(fn):
        if isinstance(n, ast.Call):
            f = n.func
            if isinstance(f, ast.Attribute):
                out.add(f.attr)
            if isinstance(f, ast.Name) and f.id == "call_method" and len(n.args) >= 2 \
                    and isinstance(n.args[1], ast.Constant) and isinstance(n.args[1].value, str):
                out.add(n.args[1].value)
                out.add("remote_" + n.args[1].value)
    return out


def relevant_methods(classes):
    """-> (direct, callers): methods with a pointer access, methods that reach one through calls"""
    direct, aside = [], []
    for c in CLASSES:
        for m, fn in classes.get(c, {}).items():
            acc, asd = ptr_accesses(c, fn)
            aside += asd
            if acc:
                direct.append((c, m))
    names = {m for _, m in direct}
    callers = []
    changed = True
    while changed:
        changed = False
        for c in CLASSES:
            for m, fn in classes.get(c, {}).items():
                if (c, m) in direct or (c, m) in callers:
                    continue
                if callee_names(fn) & names:
                    callers.append((c, m))
                    names.add(m)
                    changed = True
    order = {(c, m): (CLASSES.index(c), fn.lineno) for c in CLASSES for m, fn in classes.get(c, {}).items()}
    direct.sort(key=order.get)
    callers.sort(key=order.get)
    return direct, callers, aside


# ---------------------------------------------------------------------------------------------------------
# translator
# ---------------------------------------------------------------------------------------------------------
class Frame:
    def __init__(self, cls, fn, self_node):
        self.cls, self.fn = cls, fn
        self.self_node = self_node        # node value of the node the method runs on
        self.handles = {}                 # name -> handle letter
        self.nodes = {}                   # local name -> node value
        self.names = {}                   # local name -> node value whose *name* it holds
        self.consts = {}                  # local name -> 'None' | 'empty' | ('nodes', [...])
        self.reqs = {}                    # request table name -> [node values]
        self.alls = {}                    # DeferredList of a request table -> table name
        self.timers = set()
        self.each = {}                    # loop variable over a request table's items -> table name
        self.cancelled = set()
        self.locksets = {}                # local name -> [node values] (a list of locked nodes)
        self.recursive = False
        self.loop_depth = 0
        self.q_loops = 0
        self.dyn_depth = 0
        self.ret_node = []                # node values returned (None for a bare return / None)
        self.ret_lockset = []
        self.params = [a.arg for a in fn.args.args]


class Translator:
    def __init__(self, classes, relevant):
        self.classes = classes
        self.relevant = set(relevant)     # (class, method)
        self.relevant_names = {}
        for c, m in relevant:
            self.relevant_names.setdefault(m, []).append(c)
        self.frames = []
        self.idents = set()               # trusted identifications actually used
        self._hn_memo = {}

    @property
    def fr(self):
        return self.frames[-1]

    @staticmethod
    def text(node):
        return ast.unparse(node)

    # ---- handles ------------------------------------------------------------------------------------
    def calls_in(self, cls, fn):
        """[(callee class, callee name, positional args, keywords)] of the calls of pointer-relevant methods"""
        out = []
        for n in ast.walk(fn):
            if not isinstance(n, ast.Call):
                continue
            f = n.func
            if isinstance(f, ast.Attribute):
                recv, name = f.value, f.attr
                if self.text(recv) == "self" and (cls, name) in self.relevant:
                    out.append((cls, name, n.args, n.keywords, None))
                elif isinstance(recv, ast.Attribute) and recv.attr == "root" and ("virtualNode", name) in self.relevant:
                    out.append(("virtualNode", name, n.args, n.keywords, None))
                elif isinstance(recv, ast.Name) and recv.id != "self" and ("virtualQubit", name) in self.relevant:
                    out.append(("virtualQubit", name, n.args, n.keywords, recv.id))
            elif isinstance(f, ast.Name) and f.id == "call_method" and len(n.args) >= 2 \
                    and isinstance(n.args[1], ast.Constant) and isinstance(n.args[1].value, str):
                full = "remote_" + n.args[1].value
                obj = n.args[0]
                if isinstance(obj, ast.Name) and obj.id != "self" and ("virtualQubit", full) in self.relevant:
                    out.append(("virtualQubit", full, n.args[2:], n.keywords, obj.id))
                elif isinstance(obj, ast.Attribute) and obj.attr == "root" and ("virtualNode", full) in self.relevant:
                    out.append(("virtualNode", full, n.args[2:], n.keywords, None))
        return out

    def handle_names(self, cls, fn, _stack=()):
        """names that denote handles in `fn` (other than `self`): a pointer field is read on them, a pointer-relevant
        handle method is called on them, or they are passed where a pointer-relevant method expects a handle"""
        key = (cls, fn.name)
        if key in self._hn_memo:
            return self._hn_memo[key]
        names = []
        for n in ast.walk(fn):
            if isinstance(n, ast.Attribute) and n.attr in PTR_FIELDS and isinstance(n.value, ast.Name):
                if (cls, fn.name, n.value.id) not in NON_HANDLE and n.value.id not in names \
                        and not (n.value.id == "self" and cls == "virtualQubit"):
                    names.append(n.value.id)
        if key not in _stack:
            for ccls, cname, args, kws, recv in self.calls_in(cls, fn):
                if recv is not None and recv not in names:
                    names.append(recv)
                cfn = self.classes[ccls][cname]
                chn = self.handle_names(ccls, cfn, _stack + (key,))
                cparams = [a.arg for a in cfn.args.args][1:]
                for p, a in list(zip(cparams, args)) + [(k.arg, k.value) for k in kws]:
                    if p in chn and isinstance(a, ast.Name) and a.id not in names \
                            and not (a.id == "self" and cls == "virtualNode"):
                        names.append(a.id)
            self._hn_memo[key] = names
        return names

    def infer_handles(self, cls, fn):
        """handle names of `fn` -> letters: `self` of a handle method and handle parameters get c, t in parameter
        order, loop variables get q; anything else is a handle the translator cannot name (None)"""
        names = [n for n in self.handle_names(cls, fn) if n != "self"]
        params = [a.arg for a in fn.args.args]
        loopvars = set()
        for n in ast.walk(fn):
            if isinstance(n, ast.For):
                for t in ast.walk(n.target):
                    if isinstance(t, ast.Name):
                        loopvars.add(t.id)
        out, letters = {}, list(HANDLE_LETTERS)
        if cls == "virtualQubit":
            out["self"] = letters.pop(0)
        for p in params:
            if p in names and p not in out:
                out[p] = letters.pop(0) if letters else None
        nassign = {}
        for n in ast.walk(fn):
            if isinstance(n, (ast.Assign, ast.AugAssign, ast.AnnAssign)):
                for t in (n.targets if isinstance(n, ast.Assign) else [n.target]):
                    for x in ast.walk(t):
                        if isinstance(x, ast.Name):
                            nassign[x.id] = nassign.get(x.id, 0) + 1
        for nm in names:
            if nm in out:
                continue
            if nm in loopvars:
                out[nm] = "q"
            elif nassign.get(nm) == 1 and nm not in params and letters:
                out[nm] = letters.pop(0)                     # a local bound once to a handle
            else:
                out[nm] = None                               # a handle the translator cannot name
        return out

    def handle_of(self, node):
        if isinstance(node, ast.Name) and node.id in self.fr.handles:
            return self.fr.handles[node.id]
        return None

    def is_handle_name(self, node):
        return isinstance(node, ast.Name) and node.id in self.fr.handles

    # ---- node values --------------------------------------------------------------------------------
    def node_val(self, node):
        """symbolic value of an expression denoting a node (a host object or its `.root`), or None.
        Reading `<handle>.simNode` yields ('ptr', h): the caller emits the event for the read."""
        if isinstance(node, ast.Attribute) and node.attr == "root":
            node = node.value
        if isinstance(node, ast.Name):
            if node.id in self.fr.nodes:
                return self.fr.nodes[node.id]
            if node.id == "self" and self.fr.cls == "virtualNode":
                self.idents.add("virtualNode: self => self")
                return self.fr.self_node
            return None
        if isinstance(node, ast.Attribute):
            if node.attr == "simNode" and self.is_handle_name(node.value):
                h = self.handle_of(node.value)
                return ("ptr", h) if h else None
            if node.attr == "virtNode" and (self.is_handle_name(node.value)
                                            or (self.text(node.value) == "self" and self.fr.cls == "virtualQubit")):
                self.idents.add("<handle>.virtNode => self")
                return self.fr.self_node
            if node.attr == "myID" and self.text(node.value) == "self" and self.fr.cls == "virtualNode":
                self.idents.add("virtualNode: self.myID => self")
                return self.fr.self_node
        return None

    def name_val(self, node):
        """node whose NAME the expression denotes, or None"""
        if isinstance(node, ast.Attribute) and node.attr == "name":
            return self.node_val(node.value)
        if isinstance(node, ast.Name):
            if node.id in self.fr.names:
                return self.fr.names[node.id]
            if len(self.frames) == 1 and node.id in self.fr.params:
                return ("arg", node.id)
        return None

    @staticmethod
    def lref(v):
        if v is None:
            return None
        if v[0] == "self":
            return ".self"
        if v[0] == "peer":
            return ".peer"
        if v[0] == "recv":
            return ".recv"
        if v[0] == "cap":
            return "(.cap %d)" % v[1]
        if v[0] == "ptr":
            raise ValueError("a pointer read used as a node value without a capture")
        if v[0] == "arg":
            return "(.arg %s)" % _skel.lean_str(v[1])
        return None

    def capture(self, v, pre):
        """a node value that is to be kept: a pointer read `h.simNode` is captured into a fresh slot"""
        if v is not None and v[0] == "ptr":
            self.ncap += 1
            pre.append(ev("readPtr", v[1], self.ncap))
            return ("cap", self.ncap)
        return v

    # ---- pointer reads inside expressions -----------------------------------------------------------
    def ptr_reads(self, node, skip=()):
        """handles whose pointer is read somewhere inside `node` (in evaluation order, with repetition
        removed), not descending into the sub-expressions in `skip` or into lambdas"""
        out = []

        def walk(n):
            if n in skip or isinstance(n, ast.Lambda):
                return
            if isinstance(n, ast.Attribute) and n.attr in PTR_FIELDS and not (
                    isinstance(n.value, ast.Name) and (self.fr.cls, self.fr.fn.name, n.value.id) in NON_HANDLE):
                if isinstance(n.value, ast.Name) and n.value.id in self.fr.handles:
                    out.append(self.fr.handles[n.value.id])
                else:
                    out.append(None)            # a pointer read through something that is not a named handle
                    walk(n.value)
                return
            for c in ast.iter_child_nodes(n):
                walk(c)

        if node is not None:
            walk(node)
        res = []
        for h in out:
            if h not in res:
                res.append(h)
        return res

    def uses(self, node, skip=()):
        """`use h` events for the pointer reads of an expression that is otherwise of no interest"""
        out = []
        for h in self.ptr_reads(node, skip):
            out.append(ev("use", h) if h else unknown("pointer read through a handle the translator cannot name: %s"
                                                        % self.text(node)))
        return out

    # ---- expressions --------------------------------------------------------------------------------
    def ev_expr(self, node, awaited=False):
        """events of evaluating an expression -> list of terms"""
        if node is None or isinstance(node, (ast.Constant, ast.Name, ast.Lambda)):
            return []
        if isinstance(node, ast.Yield):
            return self.ev_expr(node.value, awaited=True)
        if isinstance(node, (ast.YieldFrom, ast.Await)):
            return [unknown("expression %s" % type(node).__name__)]
        if isinstance(node, (ast.GeneratorExp, ast.ListComp, ast.SetComp, ast.DictComp, ast.NamedExpr)):
            if self.ptr_reads(node) or any(isinstance(n, ast.Call) for n in ast.walk(node)):
                return [unknown("expression %s" % type(node).__name__)]
            return []
        if isinstance(node, ast.Call):
            return self.ev_call(node, awaited)
        if isinstance(node, ast.Attribute) and node.attr in PTR_FIELDS:
            return self.uses(node)
        out = []
        for child in ast.iter_child_nodes(node):
            if isinstance(child, ast.expr):
                out += self.ev_expr(child)
            elif isinstance(child, ast.keyword):
                out += self.ev_expr(child.value)
        return out

    def ev_args(self, call, skip=0):
        out = []
        for a in call.args[skip:]:
            out += self.ev_expr(a.value if isinstance(a, ast.Starred) else a)
        for k in call.keywords:
            out += self.ev_expr(k.value)
        return out

    def lock_op(self, kind, target, awaited):
        """acquire / release of the node lock of `target` (an expression denoting a node)"""
        pre = []
        v = self.capture(self.node_val(target), pre)
        if v is None:
            return [unknown("%s of the lock of %s: no node value" % (kind, self.text(target)))]
        if kind == "acq":
            if not awaited:
                return [unknown("lock request on %s is not awaited" % self.text(target))]
            return pre + [MAY_RAISE, ev("acq", (v,), False), MAY_RAISE]     # the request may fail, or what follows it
        return pre + [ev("rel", (v,)), MAY_RAISE]

    def ev_call_method(self, call, awaited):
        if len(call.args) < 2:
            return [unknown("call_method with < 2 arguments")]
        obj, mname = call.args[0], call.args[1]
        if not awaited:
            return [unknown("call_method(%s, ...) is not awaited" % self.text(obj))]
        if not (isinstance(mname, ast.Constant) and isinstance(mname.value, str)):
            # computed method name: a gate through `_single_gate(name)` / `_two_qubit_gate(name)`
            return self.ev_expr(obj) + self.ev_args(call, skip=2) + [MAY_RAISE]
        m = mname.value
        if m in ACQ_NAMES:
            return self.ev_args(call, skip=2) + self.lock_op("acq", obj, awaited)
        if m in REL_NAMES:
            return self.ev_args(call, skip=2) + self.lock_op("rel", obj, awaited)
        full = "remote_" + m
        if self.is_handle_name(obj) and ("virtualQubit", full) in self.relevant:
            return self.inline("virtualQubit", full, call.args[2:], call.keywords, True,
                               recv_handle=self.handle_of(obj), how="call_method(%s, '%s')" % (self.text(obj), m))
        if full in self.relevant_names and "virtualNode" in self.relevant_names[full] \
                and isinstance(obj, ast.Attribute) and obj.attr == "root":
            pre = []
            v = self.capture(self.remote_target(obj), pre)
            return pre + self.inline("virtualNode", full, call.args[2:], call.keywords, True, self_node=v,
                                     how="call_method(%s, '%s')" % (self.text(obj), m))
        return self.ev_expr(obj) + self.ev_args(call, skip=2) + [MAY_RAISE]

    def remote_target(self, obj):
        """node value of the receiver of a remote call; a connection to a node the translator cannot name is a peer"""
        v = self.node_val(obj)
        if v is None and isinstance(obj, ast.Attribute) and obj.attr == "root" and isinstance(obj.value, ast.Name) \
                and self.fr.consts.get(obj.value.id) == "connection":
            return ("peer",)
        return v

    def ev_call(self, call, awaited):
        f = call.func
        # getattr(<obj>, name)(args)
        if isinstance(f, ast.Call) and isinstance(f.func, ast.Name) and f.func.id == "getattr":
            return self.ev_call(f, False) + self.ev_args(call) + [MAY_RAISE]
        if isinstance(f, ast.Name):
            if f.id in REFLECTION:
                # reflection on a handle, or naming a pointer field, may read or write the pointer unseen
                if any(self.is_handle_name(a) for a in call.args) or any(
                        isinstance(a, ast.Constant) and a.value in PTR_FIELDS for a in call.args):
                    return [unknown("%s on a handle / a pointer field: %s" % (f.id, self.text(call)[:50]))]
                return self.ev_args(call) + ([MAY_RAISE] if f.id != "getattr" else [])
            if f.id == "call_method":
                return self.ev_call_method(call, awaited)
            if f.id in QUIET_FUNCS:
                return self.ev_args(call)
            return self.ev_args(call) + [MAY_RAISE]
        if not isinstance(f, ast.Attribute):
            return [unknown("call of %s" % self.text(f))]
        recv, name = f.value, f.attr
        rtxt = self.text(recv)
        if isinstance(recv, ast.Attribute) and recv.attr in LOGGER_ATTRS:
            return []                               # what is read for a log line goes nowhere else
        # lock primitives called directly on a node object
        if name in ACQ_NAMES | REL_NAMES:
            return self.ev_args(call) + self.lock_op("acq" if name in ACQ_NAMES else "rel", recv,
                                                     awaited or name in REL_NAMES)
        # cancelling a lock race
        if name == "cancel" and isinstance(recv, ast.Name) and recv.id in self.fr.alls:
            self.fr.cancelled.add(self.fr.alls[recv.id])
            return [ev("cancel")]
        # own methods
        if rtxt == "self" and name in self.classes.get(self.fr.cls, {}):
            if (self.fr.cls, name) in self.relevant:
                return self.inline(self.fr.cls, name, call.args, call.keywords, awaited, how="self.%s" % name)
            return self.ev_args(call) + [MAY_RAISE]
        # methods of a handle
        if self.is_handle_name(recv) and name in self.classes.get("virtualQubit", {}):
            if ("virtualQubit", name) in self.relevant:
                return self.inline("virtualQubit", name, call.args, call.keywords, awaited,
                                   recv_handle=self.handle_of(recv), how="%s.%s" % (rtxt, name))
            return self.ev_args(call) + [MAY_RAISE]
        # a method of another node object, called directly
        if isinstance(recv, ast.Attribute) and recv.attr == "root" and name in self.classes.get("virtualNode", {}):
            if ("virtualNode", name) in self.relevant:
                pre = []
                v = self.capture(self.node_val(recv), pre)
                return pre + self.inline("virtualNode", name, call.args, call.keywords, awaited, self_node=v,
                                         how="%s.%s" % (rtxt, name))
            return self.ev_expr(recv) + self.ev_args(call) + [MAY_RAISE]
        pre = self.ev_expr(recv) + self.ev_args(call)
        if name in QUIET_METHODS:
            return pre
        return pre + [MAY_RAISE]

    # ---- inlining ------------------------------------------------------------------------------------
    def is_generator(self, fn):
        return any(isinstance(n, (ast.Yield, ast.YieldFrom)) for n in ast.walk(fn))

    def inline(self, cls, name, args, keywords, awaited, recv_handle=None, self_node=None, how=""):
        fn = self.classes[cls][name]
        for fr in self.frames:
            if fr.cls == cls and fr.fn.name == name:
                if fr is not self.frames[-1]:
                    return [unknown("mutual recursion through %s" % name)]
                if self.fr.loop_depth:
                    return [unknown("recursive call of %s inside a loop" % name)]
                fake = ast.Call(func=ast.Name(id="f"), args=list(args), keywords=list(keywords))
                changed = _skel.Translator.changed_params(fn, fake)
                if changed:
                    return [unknown("retry of %s does not pass %s through" % (name, ", ".join(changed)))]
                fr.recursive = True
                return [("cont",)]
        if len(self.frames) > MAX_INLINE_DEPTH:
            return [unknown("inline depth exceeded at %s" % name)]
        if self.is_generator(fn) and not awaited:
            return [unknown("%s() is not awaited" % name)]
        caller = self.fr
        if cls == "virtualNode":
            if self_node is None and caller.cls == "virtualNode" and how.startswith("self."):
                self_node = caller.self_node
            if self_node is None:
                return [unknown("%s: the node it runs on has no value" % how)]
        else:
            self_node = caller.self_node            # a handle's virtual node is the node its user runs on
        fr = Frame(cls, fn, self_node)
        inferred = self.infer_handles(cls, fn)
        params = [a.arg for a in fn.args.args][1:]
        pre = []
        bound = set()
        pairs = list(zip(params, args)) + [(k.arg, k.value) for k in keywords if k.arg in params]
        for p, a in pairs:
            bound.add(p)
            if self.is_handle_name(a):
                fr.handles[p] = self.handle_of(a)
                continue
            v = self.node_val(a)
            nv = self.name_val(a)
            if isinstance(a, (ast.List, ast.Tuple)) and all(self.node_val(e) is not None for e in a.elts):
                fr.consts[p] = ("nodes", [self.capture(self.node_val(e), pre) for e in a.elts])
                continue
            if nv is not None:
                fr.names[p] = self.capture(nv, pre)
                continue
            if v is not None:
                fr.nodes[p] = self.capture(v, pre)
                continue
            if isinstance(a, ast.Constant) and a.value is None:
                fr.consts[p] = "None"
                continue
            if isinstance(a, ast.Name) and a.id in caller.consts:
                fr.consts[p] = caller.consts[a.id]
                continue
            pre += self.ev_expr(a)
        if cls == "virtualQubit":
            fr.handles["self"] = recv_handle if recv_handle is not None else caller.handles.get("self")
        for nm, letter in inferred.items():
            if nm == "self":
                continue
            if nm not in fr.handles:
                if nm in params and nm in bound:
                    fr.handles[nm] = None           # bound to something that is not a handle of the caller
                else:
                    fr.handles[nm] = letter if letter == "q" else None
        # parameters left at a default of None
        defaults = fn.args.defaults
        allp = [a.arg for a in fn.args.args]
        for pname, d in zip(allp[len(allp) - len(defaults):], defaults):
            if pname not in bound and isinstance(d, ast.Constant) and d.value is None:
                fr.consts[pname] = "None"
        body = self.method_body(fr)
        self.last_self_node = self_node
        # what the call returns, for the caller's assignment
        self.last_ret_node = fr.ret_node
        self.last_ret_lockset = fr.ret_lockset
        return pre + [("scope", body, "inlined %s.%s  [%s]" % (cls, name, how))]

    def is_self_call(self, value):
        v = value.value if isinstance(value, ast.Yield) else value
        return (isinstance(v, ast.Call) and isinstance(v.func, ast.Attribute) and self.text(v.func.value) == "self"
                and v.func.attr == self.fr.fn.name)

    def retry_not_tail(self, st, nxt):
        if isinstance(st, ast.Assign) and self.is_self_call(st.value):
            ok = (len(st.targets) == 1 and isinstance(st.targets[0], ast.Name) and isinstance(nxt, ast.Return)
                  and isinstance(nxt.value, ast.Name) and nxt.value.id == st.targets[0].id)
            return not ok
        if isinstance(st, ast.Expr) and self.is_self_call(st.value):
            ok = nxt is None or (isinstance(nxt, ast.Return) and nxt.value is None)
            return not ok
        return False

    def method_body(self, fr):
        self.frames.append(fr)
        try:
            body = self.block(fr.fn.body)
            if fr.recursive:
                body = ("loop", body)
        finally:
            self.frames.pop()
        return body

    # ---- statements ---------------------------------------------------------------------------------
    def capture_of(self, st):
        """the handle letter when the statement is a plain capture `x = <handle>.simNode`"""
        if isinstance(st, ast.Assign) and len(st.targets) == 1 and isinstance(st.targets[0], ast.Name):
            v = st.value
            if isinstance(v, ast.Attribute) and v.attr == "simNode" and self.is_handle_name(v.value) \
                    and st.targets[0].id not in self.fr.handles:
                return self.handle_of(v.value)
        return None

    def canonical(self, stmts):
        """consecutive plain captures are independent reads into different locals: translate them in the order of
        their handles, so that swapping two of them in the source changes nothing"""
        stmts = list(stmts)

        def pure_binding(st):
            """`x = <a node that is no pointer read>`: no event"""
            return (isinstance(st, ast.Assign) and len(st.targets) == 1 and isinstance(st.targets[0], ast.Name)
                    and st.targets[0].id not in self.fr.handles
                    and isinstance(st.value, (ast.Name, ast.Attribute))
                    and (self.node_val(st.value) or ("ptr",))[0] != "ptr")

        i = 0
        while i < len(stmts):
            j = i
            while j < len(stmts) and (self.capture_of(stmts[j]) is not None or pure_binding(stmts[j])):
                j += 1
            run = stmts[i:j]
            targets = [s.targets[0].id for s in run]
            used = {n.id for s in run for n in ast.walk(s.value) if isinstance(n, ast.Name)}
            if len(run) > 1 and len(set(targets)) == len(run) and not (used & set(targets)):
                stmts[i:j] = sorted(run, key=lambda s: self.capture_of(s) or "")
            i = max(j, i + 1)
        return stmts

    def block(self, stmts):
        stmts = self.canonical(stmts)
        out = []
        i = 0
        while i < len(stmts):
            st = stmts[i]
            nxt = stmts[i + 1] if i + 1 < len(stmts) else None
            race = self.race_of(st)
            if race is not None:
                out.append(self.tr_race(race, nxt))
                i += 2
                continue
            if self.retry_not_tail(st, nxt):
                out.append(unknown("retry of %s is not in tail position" % self.fr.fn.name))
                i += 1
                continue
            if self.is_self_call(getattr(st, "value", None) or ast.Constant(value=None)) \
                    and isinstance(st, (ast.Assign, ast.Expr)):
                # the tail self-call: `x = yield self.f(...)` followed by `return x`
                v = st.value.value if isinstance(st.value, ast.Yield) else st.value
                out += self.inline(self.fr.cls, self.fr.fn.name, v.args, v.keywords, True, how="retry")
                i += 1
                continue
            # `h.simNode = N` followed by `h.simQubit = ...`: one re-pointing
            if self.ptr_assign(st) and nxt is not None and self.ptr_assign(nxt) \
                    and self.ptr_assign(st)[0] == self.ptr_assign(nxt)[0] \
                    and self.ptr_assign(st)[1] == "simNode" and self.ptr_assign(nxt)[1] == "simQubit":
                out.append(self.tr_repoint(st, also=nxt))
                i += 2
                continue
            out.append(self.tr_stmt(st))
            i += 1
        return seq(out)

    def branch(self, stmts, sure=False):
        saved = set(self.fr.cancelled)
        if not sure:
            self.fr.dyn_depth += 1
        try:
            return self.block(stmts)
        finally:
            if not sure:
                self.fr.dyn_depth -= 1
                self.fr.cancelled = saved

    def ptr_assign(self, st):
        """(handle name, field) when the statement assigns a pointer field of a handle"""
        if isinstance(st, ast.Assign) and len(st.targets) == 1:
            t = st.targets[0]
            if isinstance(t, ast.Attribute) and t.attr in PTR_FIELDS and isinstance(t.value, ast.Name) \
                    and (self.fr.cls, self.fr.fn.name, t.value.id) not in NON_HANDLE:
                return (t.value.id, t.attr)
        return None

    def tr_repoint(self, st, also=None):
        name, field = self.ptr_assign(st)
        h = self.fr.handles.get(name)
        if h is None:
            return seq(self.ev_expr(st.value) + [unknown("assignment to %s.%s: not a handle the translator can name"
                                                         % (name, field))])
        pre = []
        new = None
        if field == "simNode":
            new = self.capture(self.node_val(st.value), pre)
            if new is None and isinstance(st.value, ast.Name) and len(self.frames) == 1 \
                    and st.value.id in self.fr.params:
                new = ("arg", st.value.id)
            if new is None:
                pre += self.ev_expr(st.value)
            if also is not None:
                pre += self.ev_expr(also.value)
        else:
            # `h.simQubit = yield <node>.root.remote_merge_from(...)`: the qubit object lives at the node the merge ran on
            inner = st.value.value if isinstance(st.value, ast.Yield) else st.value
            if isinstance(inner, ast.Call) and isinstance(inner.func, ast.Attribute) \
                    and isinstance(inner.func.value, ast.Attribute) and inner.func.value.attr == "root" \
                    and inner.func.attr in self.classes.get("virtualNode", {}) \
                    and self.returns_new_qubit(self.classes["virtualNode"][inner.func.attr]):
                self.last_self_node = None
                pre += self.ev_expr(st.value)
                new = self.last_self_node
            elif isinstance(inner, ast.Name) and len(self.frames) == 1 and inner.id in self.fr.params:
                # constructor-like: the object passed in
                new = ("arg", inner.id)
            else:
                return seq(self.ev_expr(st.value) + [unknown("assignment to %s.simQubit from %s" % (name, self.text(st.value)[:40]))])
        if new is None:
            return seq(pre + [unknown("assignment to %s.%s: the new node has no value" % (name, field))])
        return seq(pre + [ev("repoint", h, new)])

    def returns_new_qubit(self, fn):
        """the node method creates simulated qubits at its own node and returns one of them
        (`newQubit = simulatedQubit(self.myID, ...)`, `newD[k] = newQubit`, `return newD[...]`)"""
        made = set()
        for n in ast.walk(fn):
            if isinstance(n, ast.Assign) and isinstance(n.value, ast.Call) and isinstance(n.value.func, ast.Name) \
                    and n.value.func.id == "simulatedQubit" and n.value.args \
                    and self.text(n.value.args[0]) == "self.myID":
                made |= {t.id for t in n.targets if isinstance(t, ast.Name)}
        tables = set()
        for n in ast.walk(fn):
            if isinstance(n, ast.Assign) and isinstance(n.value, ast.Name) and n.value.id in made:
                for t in n.targets:
                    if isinstance(t, ast.Subscript) and isinstance(t.value, ast.Name):
                        tables.add(t.value.id)
        rets = [n for n in ast.walk(fn) if isinstance(n, ast.Return) and n.value is not None]
        ok = [r for r in rets if isinstance(r.value, ast.Subscript) and isinstance(r.value.value, ast.Name)
              and r.value.value.id in tables]
        return bool(rets) and len(ok) == len(rets)

    def static_test(self, test):
        if isinstance(test, ast.Compare) and len(test.ops) == 1:
            op, l, r = test.ops[0], test.left, test.comparators[0]
            if isinstance(op, (ast.Is, ast.IsNot)) and isinstance(l, ast.Name) and isinstance(r, ast.Constant) \
                    and r.value is None and l.id in self.fr.consts:
                isnone = self.fr.consts[l.id] == "None"
                return isnone if isinstance(op, ast.Is) else not isnone
            if isinstance(op, (ast.In, ast.NotIn)) and isinstance(r, ast.Name) and self.fr.consts.get(r.id) == "empty":
                return isinstance(op, ast.NotIn)
        return None

    # -- the lock race of `_lock_nodes`
    def race_of(self, st):
        if not (isinstance(st, ast.Expr) and isinstance(st.value, ast.Yield) and isinstance(st.value.value, ast.Call)):
            return None
        c = st.value.value
        if not (isinstance(c.func, ast.Name) and c.func.id == "DeferredList" and c.args
                and isinstance(c.args[0], ast.List)):
            return None
        names = [e.id for e in c.args[0].elts if isinstance(e, ast.Name)]
        if len(names) != len(c.args[0].elts):
            return None
        alls = [n for n in names if n in self.fr.alls]
        timers = [n for n in names if n in self.fr.timers]
        if len(alls) == 1 and len(timers) == 1 and len(names) == 2:
            first = any(k.arg == "fireOnOneCallback" and isinstance(k.value, ast.Constant) and k.value.value is True
                        for k in c.keywords)
            if first:
                return (self.fr.alls[alls[0]], timers[0])
        return None

    def tr_race(self, race, nxt):
        reqs, timer = race
        ok = (isinstance(nxt, ast.If) and isinstance(nxt.test, ast.Attribute) and nxt.test.attr == "called"
              and isinstance(nxt.test.value, ast.Name) and nxt.test.value.id == timer)
        if not ok:
            return unknown("lock race not followed by `if %s.called`" % timer)
        members = tuple(self.fr.reqs[reqs])
        then = seq([ev("acq", members, True), self.branch(nxt.body)])
        els = seq([ev("acq", members, False), self.branch(nxt.orelse)])
        return ("ite", ".timeout", then, els)

    # -- tests
    def test_events(self, test):
        """-> (events evaluated before branching, events on the true branch, events on the false branch)"""
        if isinstance(test, ast.UnaryOp) and isinstance(test.op, ast.Not):
            pre, t, f = self.test_events(test.operand)
            return pre, f, t
        if isinstance(test, ast.BoolOp):
            parts = [self.test_events(v) for v in test.values]
            pre = [x for p in parts for x in p[0]]
            if isinstance(test.op, ast.And):
                # true: every conjunct true; false: nothing known (each comparison was at most evaluated)
                t = [x for p in parts for x in p[1]]
                f = [self.weaken(x) for p in parts for x in p[2] + p[1]]
                return pre, t, self.dedupe(f)
            t = [self.weaken(x) for p in parts for x in p[1] + p[2]]
            f = [x for p in parts for x in p[2]]
            return pre, self.dedupe(t), f
        if isinstance(test, ast.Compare) and len(test.ops) == 1 and isinstance(test.ops[0], (ast.Eq, ast.NotEq)):
            a, b = test.left, test.comparators[0]
            for x, y in ((a, b), (b, a)):
                if isinstance(x, ast.Attribute) and x.attr == "simNode" and self.is_handle_name(x.value):
                    h = self.handle_of(x.value)
                    v = self.node_val(y)
                    if h is not None and v is not None and v[0] != "ptr":
                        eq, ne = ev("reval", h, v, True), ev("reval", h, v, False)
                        return ([], [eq], [ne]) if isinstance(test.ops[0], ast.Eq) else ([], [ne], [eq])
        return self.ev_expr(test), [], []

    @staticmethod
    def weaken(x):
        if x[0] == "ev" and x[1][0] == "reval":
            return ("ev", (x[1][0], x[1][1], x[1][2], False))
        return x

    @staticmethod
    def dedupe(xs):
        out = []
        for x in xs:
            if x not in out:
                out.append(x)
        return out

    def tr_if(self, st):
        test = st.test
        known = self.static_test(test)
        if known is not None:
            return self.branch(st.body if known else st.orelse, sure=True)
        # `d.called` for each request of a cancelled race: true for a cancelled Deferred
        if isinstance(test, ast.Attribute) and test.attr == "called" and isinstance(test.value, ast.Name) \
                and test.value.id in self.fr.each:
            if self.fr.each[test.value.id] in self.fr.cancelled:
                return self.branch(st.body)
            return unknown("`%s.called` tested before a cancel: a partial release" % test.value.id)
        # membership of a captured node in a list of nodes passed by the caller (`exclude`)
        pre, tev, fev = self.test_events(test)
        then = self.branch(st.body)
        els = self.branch(st.orelse)
        return seq(pre + [ite(".any", seq(tev + [then]), seq(fev + [els]))])

    def tr_for(self, st):
        it = st.iter
        tnames = [n.id for n in ast.walk(st.target) if isinstance(n, ast.Name)]
        # for node in set([a, b, c]): ds[node] = call_method(node.root, "get_global_lock")
        members = self.node_list(it)
        if members is not None and len(tnames) == 1:
            tbl = self.request_loop(st, tnames[0])
            if tbl is not None:
                self.fr.reqs[tbl] = members
                return seq([x for e in self.set_elts(it) for x in self.uses(e)])
        # for node, d in ds.items()
        if isinstance(it, ast.Call) and isinstance(it.func, ast.Attribute) and it.func.attr == "items" \
                and isinstance(it.func.value, ast.Name) and it.func.value.id in self.fr.reqs and len(tnames) == 2:
            tbl = it.func.value.id
            self.fr.each[tnames[1]] = tbl
            return self.release_loop(st, tnames[0], self.fr.reqs[tbl], also_each=tnames[1])
        # for node in locked_nodes
        if isinstance(it, ast.Name) and it.id in self.fr.locksets and len(tnames) == 1:
            return self.release_loop(st, tnames[0], self.fr.locksets[it.id])
        if st.orelse:
            return unknown("for ... else")
        pre = self.ev_expr(it)
        # a loop over handles: the loop variable is re-bound in every iteration
        hvar = tnames[0] if len(tnames) == 1 and self.fr.handles.get(tnames[0]) == "q" else None
        if len(tnames) == 1 and tnames[0] in self.fr.handles and hvar is None and self.fr.handles[tnames[0]] is not None:
            return unknown("loop variable %s is also a handle %s" % (tnames[0], self.fr.handles[tnames[0]]))
        head = []
        if hvar is not None and any(f.q_loops for f in self.frames):
            return unknown("nested loops over handles")
        if hvar is not None:
            owner = it.value if isinstance(it, ast.Attribute) and it.attr == "virtQubits" else None
            v = self.capture(self.node_val(owner), pre) if owner is not None else None
            if any(isinstance(n, ast.Yield) for b in st.body for n in ast.walk(b)):
                if v is not None:
                    pre.append(ev("iter", v))
                elif owner is not None:
                    pre.append(unknown("iteration over the handle list of %s" % self.text(owner)))
            head = [ev("bind", "q")]
        self.fr.loop_depth += 1
        self.fr.q_loops += 1 if hvar is not None else 0
        try:
            body = self.branch(st.body)
        finally:
            self.fr.loop_depth -= 1
            self.fr.q_loops -= 1 if hvar is not None else 0
        return seq(pre + [("loop", ite(".any", seq(head + [body, ("cont",)]), ("skip",)))] + head)

    def set_elts(self, it):
        if isinstance(it, ast.Call) and isinstance(it.func, ast.Name) and it.func.id == "set" and it.args \
                and isinstance(it.args[0], (ast.List, ast.Tuple, ast.Set)):
            return list(it.args[0].elts)
        if isinstance(it, ast.Set):
            return list(it.elts)
        return []

    def node_list(self, it):
        elts = self.set_elts(it)
        if not elts:
            return None
        vals = [self.node_val(e) for e in elts]
        if any(v is None or v[0] == "ptr" for v in vals):
            return None
        out = []
        for v in vals:
            if v not in out:
                out.append(v)
        return out

    def request_loop(self, st, var):
        """the body is exactly `T[var] = call_method(var.root, "get_global_lock")` -> T"""
        if len(st.body) != 1 or st.orelse:
            return None
        b = st.body[0]
        if isinstance(b, ast.Assign) and len(b.targets) == 1 and isinstance(b.targets[0], ast.Subscript) \
                and isinstance(b.targets[0].value, ast.Name) and isinstance(b.value, ast.Call) \
                and isinstance(b.value.func, ast.Name) and b.value.func.id == "call_method" and len(b.value.args) == 2 \
                and self.text(b.value.args[0]) == "%s.root" % var and isinstance(b.value.args[1], ast.Constant) \
                and b.value.args[1].value in ACQ_NAMES and self.text(b.targets[0].slice) == var:
            return b.targets[0].value.id
        return None

    def release_loop(self, st, var, members, also_each=None):
        """every iteration releases the lock of `var` and does nothing else -> one `rel` of the whole set"""
        if st.orelse:
            return unknown("for ... else")
        rest = []
        released = False
        conditional = False
        body = list(st.body)
        if len(body) == 1 and isinstance(body[0], ast.If) and also_each and isinstance(body[0].test, ast.Attribute) \
                and body[0].test.attr == "called" and self.text(body[0].test.value) == also_each \
                and not body[0].orelse:
            if self.fr.each[also_each] not in self.fr.cancelled:
                return unknown("`%s.called` tested before a cancel: a partial release" % also_each)
            body = list(body[0].body)
            conditional = True
        for b in body:
            if isinstance(b, ast.Assert):
                continue
            v = b.value if isinstance(b, ast.Expr) else None
            if isinstance(v, ast.Yield):
                v = v.value
            if isinstance(v, ast.Call) and isinstance(v.func, ast.Name) and v.func.id == "call_method" \
                    and len(v.args) == 2 and self.text(v.args[0]) == "%s.root" % var \
                    and isinstance(v.args[1], ast.Constant) and v.args[1].value in REL_NAMES:
                released = True
                continue
            rest.append(b)
        if not released or rest:
            return unknown("loop over locked nodes that does more than release them")
        del conditional
        return seq([ev("rel", tuple(members)), MAY_RAISE])

    def tr_assign(self, st):
        targets = st.targets if isinstance(st, ast.Assign) else [st.target]
        value = st.value
        if value is None:
            return ("skip",)
        if self.ptr_assign(st):
            return self.tr_repoint(st)
        for t in targets:
            for n in ast.walk(t):
                if isinstance(n, ast.Attribute) and n.attr in PTR_FIELDS:
                    return unknown("assignment involving a pointer field: %s" % self.text(t))
        inner = value.value if isinstance(value, ast.Yield) else value
        single = targets[0] if len(targets) == 1 and isinstance(targets[0], ast.Name) else None
        if single is not None:
            nm = single.id
            for d in (self.fr.nodes, self.fr.names, self.fr.locksets):
                d.pop(nm, None)
            if self.fr.consts.get(nm) is not None:
                self.fr.consts.pop(nm, None)
            if nm in self.fr.handles and self.fr.handles[nm] is not None:
                if nm in self.fr.params or self.fr.handles[nm] == "q" or self.fr.loop_depth:
                    return unknown("assignment to the handle name %s" % nm)
                return seq(self.ev_expr(value))              # the one assignment that binds the local to its handle
            # capture: x = h.simNode
            if isinstance(inner, ast.Attribute) and inner.attr == "simNode" and self.is_handle_name(inner.value):
                h = self.handle_of(inner.value)
                if h is None:
                    return unknown("capture of the pointer of a handle the translator cannot name")
                self.ncap += 1
                self.fr.nodes[nm] = ("cap", self.ncap)
                return ev("readPtr", h, self.ncap)
            v = self.node_val(inner) if isinstance(inner, (ast.Name, ast.Attribute)) else None
            if v is not None:
                self.fr.nodes[nm] = v
                return ("skip",)
            # x = yield self.get_connection(<name>)
            if isinstance(inner, ast.Call) and isinstance(inner.func, ast.Attribute) \
                    and inner.func.attr == "get_connection" and self.text(inner.func.value) == "self" \
                    and len(inner.args) == 1:
                pre = []
                nv = self.capture(self.name_val(inner.args[0]), pre)
                if nv is not None:
                    self.fr.nodes[nm] = nv
                else:
                    self.fr.consts[nm] = "connection"
                return seq(pre + [MAY_RAISE])
            # pending requests / timers
            if isinstance(inner, ast.Call) and isinstance(inner.func, ast.Name):
                if inner.func.id == "DeferredList" and inner.args:
                    for n in ast.walk(inner.args[0]):
                        if isinstance(n, ast.Call) and isinstance(n.func, ast.Attribute) and n.func.attr == "values" \
                                and isinstance(n.func.value, ast.Name) and n.func.value.id in self.fr.reqs:
                            self.fr.alls[nm] = n.func.value.id
                            return ("skip",)
                if inner.func.id == "deferLater":
                    self.fr.timers.add(nm)
                    return ("skip",)
            if isinstance(value, ast.List) and not value.elts and not self.fr.dyn_depth and not self.fr.loop_depth:
                self.fr.consts[nm] = "empty"
                return ("skip",)
            if isinstance(value, ast.Constant) and value.value is None and not self.fr.dyn_depth \
                    and not self.fr.loop_depth:
                self.fr.consts[nm] = "None"
                return ("skip",)
            if isinstance(value, ast.Dict) and not value.keys:
                return ("skip",)
        self.last_ret_node, self.last_ret_lockset = None, None
        evs = self.ev_expr(value)
        if single is not None and isinstance(value, ast.Yield) and isinstance(inner, ast.Call):
            rn, rl = self.last_ret_node, self.last_ret_lockset
            if rn:
                vals = {v for v in rn if v is not None}
                if len(vals) == 1:
                    self.fr.nodes[single.id] = next(iter(vals))
            if rl:
                sets = {tuple(v) for v in rl}
                if len(sets) == 1:
                    self.fr.locksets[single.id] = list(next(iter(sets)))
        return seq(evs + [x for t in targets for x in self.ev_expr(t) if not isinstance(t, ast.Name)])

    def tr_assert(self, st):
        t = st.test
        if self.fr.cls == "virtualNode" and self.text(t) == "self._lock.locked":
            return ev("requires", self.fr.self_node)
        if isinstance(t, ast.Attribute) and t.attr == "called":
            return ("skip",)
        pre, tev, fev = self.test_events(t)
        return seq(pre + [ite(".any", seq(tev), seq(fev + [("raise",)]))])

    def tr_return(self, st):
        v = st.value
        evs = self.ev_expr(v)
        if v is None or (isinstance(v, ast.Constant) and v.value is None):
            self.fr.ret_node.append(None)
        elif isinstance(v, ast.Name) and v.id in self.fr.nodes:
            self.fr.ret_node.append(self.fr.nodes[v.id])
        elif isinstance(v, ast.Name) and v.id in self.fr.locksets:
            self.fr.ret_lockset.append(self.fr.locksets[v.id])
        else:
            ks = self.keys_of_reqs(v)
            if ks is not None:
                self.fr.ret_lockset.append(ks)
        return seq(evs + [("ret",)])

    def keys_of_reqs(self, v):
        """`list(ds.keys())` for a request table ds -> its members"""
        for n in ast.walk(v) if v is not None else []:
            if isinstance(n, ast.Call) and isinstance(n.func, ast.Attribute) and n.func.attr == "keys" \
                    and isinstance(n.func.value, ast.Name) and n.func.value.id in self.fr.reqs:
                return self.fr.reqs[n.func.value.id]
        return None

    def tr_stmt(self, st):
        if isinstance(st, ast.Expr):
            if isinstance(st.value, ast.Constant):
                return ("skip",)
            return seq(self.ev_expr(st.value))
        if isinstance(st, (ast.Assign, ast.AnnAssign)):
            return self.tr_assign(st)
        if isinstance(st, ast.AugAssign):
            return seq(self.ev_expr(st.value) + self.ev_expr(st.target))
        if isinstance(st, ast.If):
            return self.tr_if(st)
        if isinstance(st, ast.For):
            return self.tr_for(st)
        if isinstance(st, ast.While):
            if st.orelse:
                return unknown("while ... else")
            pre, tev, fev = self.test_events(st.test)
            self.fr.loop_depth += 1
            try:
                body = self.branch(st.body)
            finally:
                self.fr.loop_depth -= 1
            return ("loop", seq(pre + [ite(".any", seq(tev + [body, ("cont",)]), seq(fev))]))
        if isinstance(st, ast.Try):
            if st.orelse:
                return unknown("try ... else")
            body = self.branch(st.body)
            if st.handlers:
                hs = ("skip",)
                for h in reversed(st.handlers):
                    hb = self.branch(h.body)
                    hs = hb if h is st.handlers[-1] else ("ite", ".any", hb, hs)
                body = ("tryCatch" if any(_skel.is_catch_all(h) for h in st.handlers) else "tryExcept", body, hs)
            if st.finalbody:
                body = ("tryFinally", body, self.branch(st.finalbody))
            return body
        if isinstance(st, ast.Return):
            return self.tr_return(st)
        if isinstance(st, ast.Raise):
            return seq(self.ev_expr(st.exc) + [("raise",)])
        if isinstance(st, ast.Assert):
            return self.tr_assert(st)
        if isinstance(st, ast.Pass):
            return ("skip",)
        if isinstance(st, ast.Break):
            return ("brk",)
        if isinstance(st, ast.Continue):
            return ("cont",)
        return unknown("statement %s" % type(st).__name__)

    # ---- a whole method -----------------------------------------------------------------------------
    def method(self, cls, name):
        fn = self.classes[cls][name]
        self.frames = []
        self.ncap = 0
        self.last_self_node = None
        self.last_ret_node, self.last_ret_lockset = None, None
        fr = Frame(cls, fn, ("self",))
        fr.handles = dict(self.infer_handles(cls, fn))
        for p, d in zip(fr.params[len(fr.params) - len(fn.args.defaults):], fn.args.defaults):
            del p, d                               # a top-level method may be called with any arguments
        return simplify(self.method_body(fr))


# ---------------------------------------------------------------------------------------------------------
# printing
# ---------------------------------------------------------------------------------------------------------
def render_ev(e):
    k = e[0]
    if k == "readPtr":
        return ".readPtr .%s %d" % (e[1], e[2])
    if k == "acq":
        return ".acq [%s] %s" % (", ".join(Translator.lref(v) for v in e[1]), "true" if e[2] else "false")
    if k == "rel":
        return ".rel [%s]" % ", ".join(Translator.lref(v) for v in e[1])
    if k == "cancel":
        return ".cancel"
    if k == "reval":
        return ".reval .%s %s %s" % (e[1], Translator.lref(e[2]), "true" if e[3] else "false")
    if k in ("use", "bind"):
        return ".%s .%s" % (k, e[1])
    if k == "repoint":
        return ".repoint .%s %s" % (e[1], Translator.lref(e[2]))
    if k in ("requires", "iter"):
        return ".%s %s" % (k, Translator.lref(e[1]))
    raise ValueError(k)


def render_term(s, ind):
    P = "  " * ind
    t = s[0]
    if t == "skip":
        return [P + "skip"]
    if t == "ev":
        return [P + "ev (%s)" % render_ev(s[1])]
    if t in ("ret", "brk", "cont"):
        return [P + t]
    if t == "raise":
        return [P + "DStmt.raise"]
    if t == "unknown":
        return [P + "unknown %s" % _skel.lean_str(s[1])]
    if s == MAY_RAISE:
        return [P + "mayRaise"]
    if t == "seq":
        out = [P + "-- " + s[2]] if s[2] else []
        out.append(P + "dblock [")
        for i, x in enumerate(s[1]):
            sub = render_term(x, ind + 1)
            if i + 1 < len(s[1]):
                sub = _skel.add_comma(sub)
            out += sub
        out.append(P + "]")
        return out
    if t == "ite":
        return [P + "DStmt.ite %s" % s[1]] + _skel.paren(render_term(s[2], ind + 1)) + _skel.paren(render_term(s[3], ind + 1))
    if t == "loop":
        return [P + "loop"] + _skel.paren(render_term(s[1], ind + 1))
    if t == "scope":
        return [P + "-- " + s[2], P + "scope"] + _skel.paren(render_term(s[1], ind + 1))
    if t in ("tryFinally", "tryExcept", "tryCatch"):
        return [P + t] + _skel.paren(render_term(s[1], ind + 1)) + _skel.paren(render_term(s[2], ind + 1))
    raise ValueError(t)


def unknown_list(term):
    acc = []

    def walk(s):
        if s[0] == "unknown":
            acc.append(s[1])
        elif s[0] == "seq":
            for x in s[1]:
                walk(x)
        elif s[0] == "ite":
            walk(s[2]), walk(s[3])
        elif s[0] in ("loop", "scope"):
            walk(s[1])
        elif s[0] in ("tryFinally", "tryExcept", "tryCatch"):
            walk(s[1]), walk(s[2])

    walk(term)
    return acc


HEADER = """/- GENERATED on every run by harness/gen/skeldyn.py from %s — do not edit.
   Pointer skeletons (who reads / re-points a handle's `simNode` / `simQubit`, under which node lock) of every method
   that accesses such a pointer, found by walking the AST, and of every method that reaches one through calls.
   The obligations over them are in Props/C03DynBridge.lean.
"""


def render(tab):
    L = []
    w = L.append
    L.extend((HEADER % SRC).rstrip("\n").split("\n"))
    w("")
    w("   trusted identifications used:")
    for s in sorted(tab["idents"]):
        w("     " + s)
    w("   field reads set aside (objects of another class): %s" % (", ".join("%s: %s" % p for p in tab["aside"]) or "none"))
    if tab.get("error"):
        w("   TRANSLATOR ERROR:")
        for ln in tab["error"].rstrip().split("\n"):
            w("     " + ln.replace("-/", "- /"))
    w("-/")
    w("import SqVerif.SkelDyn")
    w("namespace SqVerif.GenDyn")
    w("open SqVerif.Skel (Handle)")
    w("open SqVerif.Skel.Handle")
    w("open SqVerif.SkelDyn SqVerif.SkelDyn.DStmt")
    w("open SqVerif.SkelDyn.DStmt hiding ite raise")
    w("")
    w("/-- the translator ran to completion -/")
    w("def translatorOK : Bool := %s" % ("false" if tab.get("error") else "true"))
    w("")
    for m in tab["methods"]:
        w("/-- `%s.%s` (line %d) -/" % (m["cls"], m["name"], m["line"]))
        w("def %s : DStmt :=" % m["lean"])
        L.extend(render_term(m["term"], 1))
        w("")
    w("/-- every translated method, by `<class>.<method>` -/")
    w("def allDynMethods : DTable := [")
    w(",\n".join("  (%s, %s)" % (_skel.lean_str(m["key"]), m["lean"]) for m in tab["methods"]))
    w("]")
    w("")
    w("/-- the methods in which the AST contains an access to `<handle>.simNode` / `<handle>.simQubit` -/")
    w("def ptrAccessors : List String := [%s]" % ", ".join(_skel.lean_str(m["key"]) for m in tab["methods"] if m["direct"]))
    w("")
    w("/-- the methods that reach one of those through calls -/")
    w("def ptrCallers : List String := [%s]" % ", ".join(_skel.lean_str(m["key"]) for m in tab["methods"] if not m["direct"]))
    w("")
    w("/-- reads of a field of that name on objects of another class, set aside by the translator -/")
    w("def nonHandleReads : List (String × String) := [%s]"
      % ", ".join("(%s, %s)" % (_skel.lean_str(a), _skel.lean_str(b)) for a, b in tab["aside"]))
    w("")
    w("end SqVerif.GenDyn")
    return "\n".join(L) + "\n"


# ---------------------------------------------------------------------------------------------------------
# entry points
# ---------------------------------------------------------------------------------------------------------
def parse_classes(repo_root):
    path = os.path.join(repo_root, SRC)
    with open(path, encoding="utf-8") as f:
        tree = ast.parse(f.read())
    classes = {}
    for node in tree.body:
        if isinstance(node, ast.ClassDef) and node.name in CLASSES:
            classes[node.name] = {f.name: f for f in node.body if isinstance(f, (ast.FunctionDef, ast.AsyncFunctionDef))}
    for c in CLASSES:
        classes.setdefault(c, {})
    return classes


def lean_ident(name):
    return re.sub(r"[^A-Za-z0-9_]", "_", name)


def extract(repo_root):
    classes = parse_classes(repo_root)
    direct, callers, aside = relevant_methods(classes)
    tr = Translator(classes, direct + callers)
    methods = []
    for cls, name in direct + callers:
        try:
            term = tr.method(cls, name)
        except Exception as e:                      # one method the translator chokes on must not hide the others
            term = unknown("translator exception in %s.%s: %r" % (cls, name, e))
        methods.append({"cls": cls, "name": name, "key": "%s.%s" % (cls, name),
                        "lean": LEAN_PREFIX[cls] + lean_ident(name), "term": term,
                        "line": classes[cls][name].lineno, "direct": (cls, name) in direct})
    order = {(c, m): (CLASSES.index(c), fn.lineno) for c in CLASSES for m, fn in classes.get(c, {}).items()}
    methods.sort(key=lambda m: order[(m["cls"], m["name"])])
    return {"methods": methods, "idents": tr.idents, "aside": sorted(set(aside))}


def generate(repo_root=None, lean_dir=None):
    repo_root = repo_root or os.environ.get("VERIF_REPO", "/repo")
    lean_dir = lean_dir or os.path.join(os.path.dirname(os.path.dirname(os.path.dirname(os.path.abspath(__file__)))),
                                        "lean")
    error = None
    try:
        tab = extract(repo_root)
    except Exception:
        error = traceback.format_exc()
        tab = {"methods": [], "idents": set(), "aside": [], "error": error}
    text = render(tab)
    path = os.path.join(lean_dir, OUT)
    old = None
    if os.path.exists(path):
        with open(path, encoding="utf-8") as f:
            old = f.read()
    if old != text:
        os.makedirs(os.path.dirname(path), exist_ok=True)
        tmp = path + ".tmp"
        with open(tmp, "w", encoding="utf-8") as f:
            f.write(text)
        os.replace(tmp, path)
    unknowns = ["%s: %s" % (m["key"], why) for m in tab["methods"] for why in unknown_list(m["term"])]
    return {"obligations": obligations(lean_dir), "methods": [m["key"] for m in tab["methods"]],
            "accessors": [m["key"] for m in tab["methods"] if m["direct"]], "unknown": unknowns,
            "file": OUT, "changed": old != text, "error": error}


PROPS_FILES = ("SqVerif/Props/C03DynBridge.lean",)


def obligations(lean_dir):
    """number of `decide`d theorems of Props/C03DynBridge.lean that mention the generated file"""
    n = 0
    for rel in PROPS_FILES:
        path = os.path.join(lean_dir, rel)
        if not os.path.exists(path):
            continue
        with open(path, encoding="utf-8") as f:
            text = f.read()
        for blk in re.split(r"(?m)^(?=theorem |example |def |/--|/-!|end )", text):
            if blk.startswith("theorem ") and "decide" in blk and re.search(
                    r"\bGenDyn\.|allDynMethods|ptrAccessors|nonHandleReads|translatorOK|\b[QN]_\w+|knownUndisciplined|dynFragments", blk):
                n += 1
    return n


if __name__ == "__main__":
    import json
    import sys
    root = sys.argv[1] if len(sys.argv) > 1 else None
    out = sys.argv[2] if len(sys.argv) > 2 else None
    info = generate(root, out)
    print(json.dumps(info, indent=1))

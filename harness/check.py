"""./check <id> [--tier quick|thorough] [--replay path]

Pipeline (DESIGN 1.5): gen -> build -> audit -> correspondence + oracle ->
verdict -> evidence.  Exit 0 = property held on everything explored (open
known findings are printed as KNOWN-FINDING lines); exit 1 = VIOLATION;
exit 2 = the machinery itself failed (no verdict)."""
import argparse
import importlib
import json
import os
import sys
import time
import traceback

from . import core


class _FreshLine:
    """stands in for sys.stderr during a check: remembers whether the last thing written ended a line.  The code
    under test may write to stderr without a final newline (netqasm_backend/factory.py log_error writes
    str(failure)); with stdout and stderr going to one file the verdict lines would then not start at the start of a
    line and `grep ^VIOLATION` would miss them."""

    def __init__(self, stream):
        self._stream, self.open_line = stream, False

    def write(self, text):
        if text:
            self.open_line = not text.endswith("\n")
        return self._stream.write(text)

    def __getattr__(self, name):
        return getattr(self._stream, name)


def fresh_line():
    """make sure the next thing printed starts at the start of a line, on both streams"""
    sys.stdout.flush()
    err = sys.stderr
    try:
        tty = err.isatty()
    except Exception:
        tty = False
    # (worker processes write to the same descriptor unseen by this object: when not on a terminal, always)
    if getattr(err, "open_line", False) or not tty:
        err.write("\n")
    try:
        err.flush()
    except Exception:
        pass


def main(argv=None):
    if not isinstance(sys.stderr, _FreshLine):
        sys.stderr = _FreshLine(sys.stderr)
    ap = argparse.ArgumentParser()
    ap.add_argument("prop")
    ap.add_argument("--tier", default=os.environ.get("VERIF_TIER", "quick"), choices=["quick", "thorough"])
    ap.add_argument("--replay", default=None)
    ap.add_argument("--no-lean", action="store_true", help="skip build/audit (debugging only; never registered)")
    args = ap.parse_args(argv)
    prop = args.prop.upper()
    seed = int(os.environ.get("VERIF_SEED", "20260930"))
    ctx = core.Ctx(prop, args.tier, seed)
    ctx.replay = json.load(open(args.replay)) if args.replay else None
    try:
        mod = importlib.import_module("harness.props." + prop.lower())
    except ImportError as e:
        print("no check for %s: %s" % (prop, e))
        return 2
    try:
        core.prepare_lean_dir()
        return run_check(ctx, mod, args)
    except core.ImplementationFailure as e:
        # the real code could not be set up for a case the property quantifies over: a verdict
        fresh_line()
        known = {k["key"]: k for k in core.known_findings(prop) if k.get("status") == "open"}
        if e.key in known:
            print("KNOWN-FINDING: property=%s %s" % (prop, known[e.key]["what"]))
            print("OK %s tier=%s seed=%d (stopped at a known set-up failure)" % (prop, ctx.tier, ctx.seed))
            return 0
        path = core.write_replay(prop, 1, {"property": prop, "kind": "failing-input", "key": e.key, "what": e.what,
                                           "seed": ctx.seed, "tier": ctx.tier, "input": e.replay})
        print(e.what[:600])
        print("VIOLATION property=%s replay=%s" % (prop, path))
        print("FAIL %s tier=%s seed=%d (the code under test could not be set up)" % (prop, ctx.tier, ctx.seed))
        return 1
    except core.MachineryError as e:
        fresh_line()
        print("MACHINERY-ERROR property=%s %s" % (prop, e))
        return 2
    except Exception:
        traceback.print_exc()
        fresh_line()
        print("MACHINERY-ERROR property=%s unexpected exception in the harness" % prop)
        return 2
    finally:
        core.drop_lean_dir()


def run_check(ctx, mod, args):
    prop = ctx.prop
    proof_broken = []       # broken theorems / obligations
    audit = {"theorems": [], "discharged": 0, "axioms": {}, "problems": []}
    gen_info = None
    ctx.lean_ok = True
    if not args.no_lean:
      with core.LeanLock():
          if hasattr(mod, "gen"):
              gen_info = mod.gen(ctx)
          ok, log, broken = core.lean_build(mod.LEAN_TARGETS + list(getattr(mod, "DRIVE_TARGETS", [])))
          if not ok:
              ctx.lean_ok = False
              proof_broken = broken
              print("lean build FAILED: " + "; ".join("%s (%s:%s)" % (b["decl"], b["file"], b["line"]) for b in broken[:6]))
          else:
              audit = core.lean_audit(mod.PROPS_FILE, mod.LEAN_TARGETS)
              hard = [p for p in audit["problems"] if not p.startswith("theorem ") or "uses axioms" in p]
              if hard:
                  raise core.MachineryError("audit: " + "; ".join(hard[:5]))
              for p in audit["problems"]:
                  proof_broken.append({"file": mod.PROPS_FILE, "line": 0, "decl": p, "msg": p})
              if ctx.thorough and os.environ.get("VERIF_LEANCHECKER", "1") == "1":
                  okc, tail = core.lean_check_olean(mod.LEAN_TARGETS)
                  if not okc:
                      raise core.MachineryError("leanchecker rejected %s: %s" % (mod.LEAN_TARGETS, tail))
    ctx.proof_broken = proof_broken

    res = mod.run(ctx)

    if (proof_broken or res.tie_breaks) and not res.violations and hasattr(mod, "search"):
        mod.search(ctx, res, proof_broken)

    # ---- verdict ---------------------------------------------------------
    known = core.known_findings(prop)
    open_keys = {e["key"]: e for e in known if e.get("status") == "open"}
    nviol, lines, seen_known = 0, [], set()
    for v in res.violations:
        if v["key"] in open_keys:
            if v["key"] not in seen_known:
                seen_known.add(v["key"])
                lines.append("KNOWN-FINDING: property=%s %s" % (prop, open_keys[v["key"]]["what"]))
            continue
        nviol += 1
        if nviol <= 5:
            path = core.write_replay(prop, nviol, {
                "property": prop, "kind": "failing-input", "key": v["key"], "what": v["what"],
                "seed": ctx.seed, "tier": ctx.tier, "input": v["replay"],
                "rerun": "./check %s --replay <this file>" % prop})
            lines.append("VIOLATION property=%s replay=%s" % (prop, path))
    for k in open_keys:
        if k not in seen_known and not ctx.replay:
            res.notes.append("known finding %s did not reproduce in this run (stale or not sampled)" % k)
    if nviol == 0 and (proof_broken or res.tie_breaks):
        nviol = 1
        path = core.write_replay(prop, 0, {
            "property": prop, "kind": "no-failing-input-found",
            "broken_theorems": proof_broken[:10],
            "broken_correspondence": res.tie_breaks[:5],
            "seed": ctx.seed, "tier": ctx.tier,
            "note": "the proof obligation / model-implementation correspondence named here no longer checks against "
                    "the current source; the targeted search found no input on which the property itself fails"})
        lines.append("VIOLATION property=%s replay=%s no-failing-input-found" % (prop, path))

    # ---- evidence --------------------------------------------------------
    nthm = len(audit["theorems"]) + (gen_info or {}).get("obligations", 0)
    coverage = {
        "obligations": max(nthm, 1),
        "discharged": audit["discharged"] + ((gen_info or {}).get("obligations", 0) if ctx.lean_ok else 0),
        "checker_cmd": "cd lean && lake build %s && #print axioms on every theorem of %s%s" % (
            " ".join(mod.LEAN_TARGETS), mod.PROPS_FILE, "; lake env leanchecker" if ctx.thorough else ""),
        "trusted_base": [
            "Lean 4.33 kernel",
            "axioms used: " + ", ".join(sorted({a for ax in audit["axioms"].values() for a in ax}) or ["none"]),
            "no sorry/admit/native_decide/bv_decide/own axioms (grep + #print axioms on every run)",
        ] + list(getattr(mod, "TRUSTED", [])),
        "theorems": audit["theorems"],
        "evaluations": res.evaluations,
        "distinct_nontrivial": len(res.distinct),
        "rule": res.rule,
        "samples": res.samples or [{"note": "no case executed"}],
        "traces_validated_against_impl": res.traces,
        "input_distribution": res.dist,
        "exhaustive": res.exhaustive,
        "tie_breaks": len(res.tie_breaks),
        "proof_broken": [b["decl"] for b in proof_broken],
        "known_findings_reproduced": sorted(seen_known),
        "notes": res.notes,
    }
    if gen_info:
        coverage["generated"] = gen_info
    core.write_evidence(ctx, "proof", coverage, list(getattr(mod, "ASSUMPTIONS", [])), nviol)
    fresh_line()
    for ln in lines:
        print(ln)
    print("%s %s tier=%s seed=%d theorems=%d/%d cases=%d distinct=%d traces=%d wall=%.1fs" % (
        "FAIL" if nviol else "OK", prop, ctx.tier, ctx.seed, coverage["discharged"], coverage["obligations"],
        res.evaluations, len(res.distinct), res.traces, time.time() - ctx.t0))
    return 1 if nviol else 0


if __name__ == "__main__":
    sys.exit(main())

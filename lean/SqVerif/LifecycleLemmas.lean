import SqVerif.Lifecycle
/-
Helper lemmas for C20: monotonicity, the bring-up invariant, the effect of a
flush round, process-table algebra, world-level gating.
-/
namespace SqVerif.Lifecycle

/-! ### constants and monotone fields -/

theorem set1_self (f : Nat → Bool) (i : Nat) : set1 f i i = true := by simp [set1]
theorem set1_mono (f : Nat → Bool) (i k : Nat) (h : f k = true) : set1 f i k = true := by
  unfold set1; split <;> simp_all
theorem set1_ne (f : Nat → Bool) (i k : Nat) (h : k ≠ i) : set1 f i k = f k := by simp [set1, h]
theorem set2_self (f : Nat → Nat → Bool) (i j : Nat) : set2 f i j i j = true := by simp [set2]
theorem set2_mono (f : Nat → Nat → Bool) (i j a b : Nat) (h : f a b = true) : set2 f i j a b = true := by
  unfold set2; split <;> simp_all

theorem mem_peers {n i j : Nat} : j ∈ peers n i ↔ j < n ∧ j ≠ i := by
  simp [peers]

theorem step_n (s : St) (e : Ev) : (step s e).n = s.n := by
  cases e <;> simp only [step, startV, startQ, resolve, tick] <;> (repeat' split) <;> rfl

theorem step_retry (s : St) (e : Ev) : (step s e).retry = s.retry := by
  cases e <;> simp only [step, startV, startQ, resolve, tick] <;> (repeat' split) <;> rfl

theorem run_n (s : St) (evs : List Ev) : (run s evs).n = s.n := by
  induction evs generalizing s with
  | nil => rfl
  | cons e t ih => simp only [run, List.foldl_cons] at *; rw [ih, step_n]

theorem run_retry (s : St) (evs : List Ev) : (run s evs).retry = s.retry := by
  induction evs generalizing s with
  | nil => rfl
  | cons e t ih => simp only [run, List.foldl_cons] at *; rw [ih, step_retry]

theorem resolve_vUp (s : St) (k : Key) : (resolve s k).vUp = s.vUp := by
  simp only [resolve]; (repeat' split) <;> rfl

theorem resolve_n (s : St) (k : Key) : (resolve s k).n = s.n := step_n s (.resolve k)

theorem resolve_conn_mono (s : St) (k : Key) (i j : Nat) (h : s.conn i j = true) :
    (resolve s k).conn i j = true := by
  simp only [resolve]
  repeat' split
  all_goals first | exact h | exact set2_mono _ _ _ _ _ h

theorem resolve_qListen_mono (s : St) (k : Key) (i : Nat) (h : s.qListen i = true) :
    (resolve s k).qListen i = true := by
  simp only [resolve]
  repeat' split
  all_goals first | exact h | exact set1_mono _ _ _ h

theorem step_conn_mono (s : St) (e : Ev) (i j : Nat) (h : s.conn i j = true) : (step s e).conn i j = true := by
  cases e with
  | startV a => simp only [step, startV]; split
                · exact set2_mono _ _ _ _ _ h
                · exact h
  | startQ a => simp only [step, startQ]; split <;> exact h
  | resolve k => exact resolve_conn_mono s k i j h
  | tick d => exact h

theorem step_vUp_mono (s : St) (e : Ev) (i : Nat) (h : s.vUp i = true) : (step s e).vUp i = true := by
  cases e with
  | startV a => simp only [step, startV]; split
                · exact set1_mono _ _ _ h
                · exact h
  | startQ a => simp only [step, startQ]; split <;> exact h
  | resolve k => simp only [step]; rw [resolve_vUp]; exact h
  | tick d => exact h

theorem step_qListen_mono (s : St) (e : Ev) (i : Nat) (h : s.qListen i = true) : (step s e).qListen i = true := by
  cases e with
  | startV a => simp only [step, startV]; split <;> exact h
  | startQ a => simp only [step, startQ]; split <;> exact h
  | resolve k => exact resolve_qListen_mono s k i h
  | tick d => exact h

theorem run_conn_mono (s : St) (evs : List Ev) (i j : Nat) (h : s.conn i j = true) : (run s evs).conn i j = true := by
  induction evs generalizing s with
  | nil => exact h
  | cons e t ih => simp only [run, List.foldl_cons]; exact ih _ (step_conn_mono s e i j h)

theorem run_vUp_mono (s : St) (evs : List Ev) (i : Nat) (h : s.vUp i = true) : (run s evs).vUp i = true := by
  induction evs generalizing s with
  | nil => exact h
  | cons e t ih => simp only [run, List.foldl_cons]; exact ih _ (step_vUp_mono s e i h)

theorem run_qListen_mono (s : St) (evs : List Ev) (i : Nat) (h : s.qListen i = true) :
    (run s evs).qListen i = true := by
  induction evs generalizing s with
  | nil => exact h
  | cons e t ih => simp only [run, List.foldl_cons]; exact ih _ (step_qListen_mono s e i h)

theorem run_append (s : St) (a b : List Ev) : run s (a ++ b) = run (run s a) b := by
  simp [run, List.foldl_append]

/-- an event that is not enabled changes nothing -/
theorem step_of_not_enabled (s : St) (e : Ev) (h : enabled s e = false) : step s e = s := by
  cases e with
  | startV i =>
    simp only [step, startV]
    split
    · rename_i hg; simp [enabled, hg.1, hg.2] at h
    · rfl
  | startQ i =>
    simp only [step, startQ]
    split
    · rename_i hg; simp [enabled, hg.1, hg.2] at h
    · rfl
  | resolve k => simp only [enabled] at h; simp [step, resolve, h]
  | tick d => simp [enabled] at h

/-! ### pending attempts -/

def Pending (s : St) (k : Key) : Prop := ∃ a ∈ s.pend, a.key = k

theorem isOpen_key {k : Key} {a : Attempt} (h : isOpen k a = true) : a.key = k := by
  simp [isOpen] at h; exact h.1

theorem isOpen_iff {k : Key} {a : Attempt} : isOpen k a = true ↔ a.key = k ∧ a.due = none := by
  simp [isOpen]

theorem inFlight_iff {s : St} {k : Key} : inFlight s k = true ↔ ∃ a ∈ s.pend, a.key = k ∧ a.due = none := by
  simp [inFlight, isOpen_iff]

theorem fire_key (now : Nat) (a : Attempt) : (fire now a).key = a.key := by
  unfold fire; split
  · split <;> rfl
  · rfl

theorem fire_due_none (now : Nat) (a : Attempt) (h : ∀ t, a.due = some t → t ≤ now) : (fire now a).due = none := by
  unfold fire
  split
  · rename_i t ht; simp [h t ht]
  · rename_i hn; exact hn

theorem fire_due_le (now : Nat) (a : Attempt) (t : Nat) (h : (fire now a).due = some t) : a.due = some t := by
  unfold fire at h
  split at h
  · split at h
    · simp at h
    · exact h
  · exact h

/-- the bring-up invariant -/
structure Inv (s : St) : Prop where
  peer : ∀ i j, i < s.n → j < s.n → i ≠ j → s.vUp i = true → s.conn i j = true ∨ Pending s ⟨i, j, false⟩
  loc : ∀ i, i < s.n → s.qUp i = true → s.qListen i = true ∨ Pending s ⟨i, i, true⟩
  self : ∀ i, s.vUp i = true → s.conn i i = true
  due : ∀ a ∈ s.pend, ∀ t, a.due = some t → t ≤ s.now + s.retry
  qkey : ∀ a ∈ s.pend, a.key.q = true → a.key.dst = a.key.src
  qv : ∀ i, s.qListen i = true → s.vUp i = true

theorem inv_init (n retry : Nat) : Inv (init n retry) := by
  constructor <;> simp [init]

theorem inv_startV (s : St) (i : Nat) (h : Inv s) : Inv (startV s i) := by
  unfold startV
  split
  · rename_i hg
    obtain ⟨hin, hdown⟩ := hg
    constructor
    · intro a b ha hb hab hv
      by_cases hai : a = i
      · subst hai
        right
        refine ⟨⟨⟨a, b, false⟩, none⟩, ?_, rfl⟩
        simp only [List.mem_append, List.mem_map]
        right
        exact ⟨b, mem_peers.mpr ⟨hb, fun h => hab h.symm⟩, rfl⟩
      · have hv' : s.vUp a = true := by simpa [set1, hai] using hv
        rcases h.peer a b ha hb hab hv' with hc | ⟨x, hx, hk⟩
        · left; exact set2_mono _ _ _ _ _ hc
        · right; exact ⟨x, List.mem_append.mpr (Or.inl hx), hk⟩
    · intro a ha hq
      rcases h.loc a ha hq with hc | ⟨x, hx, hk⟩
      · left; exact hc
      · right; exact ⟨x, List.mem_append.mpr (Or.inl hx), hk⟩
    · intro a hv
      by_cases hai : a = i
      · subst hai; exact set2_self _ _ _
      · have hv' : s.vUp a = true := by simpa [set1, hai] using hv
        exact set2_mono _ _ _ _ _ (h.self a hv')
    · intro a ha t ht
      rcases List.mem_append.mp ha with hx | hx
      · exact h.due a hx t ht
      · obtain ⟨j, _, rfl⟩ := List.mem_map.mp hx; simp at ht
    · intro a ha hq
      rcases List.mem_append.mp ha with hx | hx
      · exact h.qkey a hx hq
      · obtain ⟨j, _, rfl⟩ := List.mem_map.mp hx; simp at hq
    · intro a hq
      exact set1_mono _ _ _ (h.qv a hq)
  · exact h

theorem inv_startQ (s : St) (i : Nat) (h : Inv s) : Inv (startQ s i) := by
  unfold startQ
  split
  · rename_i hg
    obtain ⟨hin, hdown⟩ := hg
    constructor
    · intro a b ha hb hab hv
      rcases h.peer a b ha hb hab hv with hc | ⟨x, hx, hk⟩
      · left; exact hc
      · right; exact ⟨x, List.mem_append.mpr (Or.inl hx), hk⟩
    · intro a ha hq
      by_cases hai : a = i
      · subst hai
        right
        exact ⟨⟨⟨a, a, true⟩, none⟩, by simp, rfl⟩
      · have hq' : s.qUp a = true := by simpa [set1, hai] using hq
        rcases h.loc a ha hq' with hc | ⟨x, hx, hk⟩
        · left; exact hc
        · right; exact ⟨x, List.mem_append.mpr (Or.inl hx), hk⟩
    · exact h.self
    · intro a ha t ht
      rcases List.mem_append.mp ha with hx | hx
      · exact h.due a hx t ht
      · simp at hx; subst hx; simp at ht
    · intro a ha hq
      rcases List.mem_append.mp ha with hx | hx
      · exact h.qkey a hx hq
      · simp at hx; subst hx; rfl
    · exact h.qv
  · exact h

/-- membership of attempts with another key is untouched by `resolve` -/
theorem resolve_other (s : St) (k : Key) (a : Attempt) (hk : a.key ≠ k) :
    a ∈ (resolve s k).pend ↔ a ∈ s.pend := by
  have hno : isOpen k a = false := by
    cases h : isOpen k a
    · rfl
    · exact absurd (isOpen_key h) hk
  simp only [resolve]
  split
  · split
    · split
      · simp [List.mem_filter, hno]
      · simp [List.mem_filter, hno]
    · simp only [List.mem_map]
      constructor
      · rintro ⟨b, hb, hfb⟩
        by_cases hob : isOpen k b = true
        · simp only [hob, if_true] at hfb
          exfalso; apply hk; rw [← hfb]; exact isOpen_key hob (a := b)
        · simp only [hob] at hfb
          simp at hfb
          rw [← hfb]; exact hb
      · intro ha
        exact ⟨a, ha, by simp [hno]⟩
  · rfl

theorem pending_resolve_of_ne (s : St) (k k' : Key) (hne : k' ≠ k) (h : Pending s k') : Pending (resolve s k) k' := by
  obtain ⟨a, ha, hk⟩ := h
  exact ⟨a, (resolve_other s k a (by rw [hk]; exact hne)).mpr ha, hk⟩

/-- the keys of the pending list after `resolve` are among the keys before -/
theorem resolve_pend_sub (s : St) (k : Key) (a : Attempt) (ha : a ∈ (resolve s k).pend) :
    ∃ b ∈ s.pend, b.key = a.key ∧ (a.due = b.due ∨ a.due = some (s.now + s.retry)) := by
  simp only [resolve] at ha
  split at ha
  · split at ha
    · split at ha
      · simp only [List.mem_filter] at ha; exact ⟨a, ha.1, rfl, Or.inl rfl⟩
      · simp only [List.mem_filter] at ha; exact ⟨a, ha.1, rfl, Or.inl rfl⟩
    · simp only [List.mem_map] at ha
      obtain ⟨b, hb, hfb⟩ := ha
      refine ⟨b, hb, ?_⟩
      split at hfb
      · rw [← hfb]; exact ⟨rfl, Or.inr rfl⟩
      · rw [← hfb]; exact ⟨rfl, Or.inl rfl⟩
  · exact ⟨a, ha, rfl, Or.inl rfl⟩


def rearm (s : St) (k : Key) (a : Attempt) : Attempt :=
  if isOpen k a then ⟨a.key, some (s.now + s.retry)⟩ else a

theorem rearm_key (s : St) (k : Key) (a : Attempt) : (rearm s k a).key = a.key := by
  unfold rearm; split <;> rfl

/-- the three ways `resolve` can go -/
theorem resolve_cases (s : St) (k : Key) :
    (inFlight s k = false ∧ resolve s k = s) ∨
    (inFlight s k = true ∧ s.vUp k.dst = true ∧ k.q = true ∧
      resolve s k = { s with qListen := set1 s.qListen k.src, pend := s.pend.filter fun a => !isOpen k a }) ∨
    (inFlight s k = true ∧ s.vUp k.dst = true ∧ k.q = false ∧
      resolve s k = { s with conn := set2 s.conn k.src k.dst, pend := s.pend.filter fun a => !isOpen k a }) ∨
    (inFlight s k = true ∧ s.vUp k.dst = false ∧
      resolve s k = { s with pend := s.pend.map (rearm s k) }) := by
  cases hfl : inFlight s k
  · left; simp [resolve, hfl]
  · right
    cases hv : s.vUp k.dst
    · right; right; simp [resolve, hfl, hv, rearm]
    · cases hq : k.q
      · right; left; simp [resolve, hfl, hv, hq]
      · left; simp [resolve, hfl, hv, hq]

theorem pending_of_map (s : St) (f : Attempt → Attempt) (hf : ∀ a, (f a).key = a.key) (k : Key)
    (h : Pending s k) : Pending { s with pend := s.pend.map f } k := by
  obtain ⟨a, ha, hk⟩ := h
  exact ⟨f a, List.mem_map.mpr ⟨a, ha, rfl⟩, by rw [hf, hk]⟩

theorem inv_resolve (s : St) (k : Key) (h : Inv s) : Inv (resolve s k) := by
  rcases resolve_cases s k with ⟨_, he⟩ | ⟨hfl, hv, hq, he⟩ | ⟨hfl, hv, hq, he⟩ | ⟨hfl, hv, he⟩
  · rw [he]; exact h
  · -- QNodeOS attempt accepted
    obtain ⟨w, hw, hwk, _⟩ := inFlight_iff.mp hfl
    rw [he]
    constructor
    · intro i j hi hj hij hvi
      rcases h.peer i j hi hj hij hvi with hc | ⟨a, ha, hk⟩
      · left; exact hc
      · right
        refine ⟨a, ?_, hk⟩
        simp only [List.mem_filter]
        refine ⟨ha, ?_⟩
        cases ho : isOpen k a
        · rfl
        · have := isOpen_key ho; rw [hk] at this; rw [← this] at hq; simp at hq
    · intro i hi hqi
      rcases h.loc i hi hqi with hc | ⟨a, ha, hk⟩
      · left; exact set1_mono _ _ _ hc
      · by_cases hkk : a.key = k
        · left
          have : k.src = i := by rw [← hkk, hk]
          show set1 s.qListen k.src i = true
          rw [this]; exact set1_self _ _
        · right
          refine ⟨a, ?_, hk⟩
          simp only [List.mem_filter]
          refine ⟨ha, ?_⟩
          cases ho : isOpen k a
          · rfl
          · exact absurd (isOpen_key ho) hkk
    · exact h.self
    · intro a ha t ht
      exact h.due a (List.mem_filter.mp ha).1 t ht
    · intro a ha hqa
      exact h.qkey a (List.mem_filter.mp ha).1 hqa
    · intro i hqi
      by_cases hi : i = k.src
      · have hds : k.dst = k.src := by
          have := h.qkey w hw (by rw [hwk]; exact hq)
          rw [hwk] at this; exact this
        rw [hi, ← hds]; exact hv
      · have : set1 s.qListen k.src i = s.qListen i := set1_ne _ _ _ hi
        exact h.qv i (by rw [← this]; exact hqi)
  · -- peer attempt accepted
    rw [he]
    constructor
    · intro i j hi hj hij hvi
      rcases h.peer i j hi hj hij hvi with hc | ⟨a, ha, hk⟩
      · left; exact set2_mono _ _ _ _ _ hc
      · by_cases hkk : a.key = k
        · left
          have h1 : k.src = i := by rw [← hkk, hk]
          have h2 : k.dst = j := by rw [← hkk, hk]
          show set2 s.conn k.src k.dst i j = true
          rw [h1, h2]; exact set2_self _ _ _
        · right
          refine ⟨a, ?_, hk⟩
          simp only [List.mem_filter]
          refine ⟨ha, ?_⟩
          cases ho : isOpen k a
          · rfl
          · exact absurd (isOpen_key ho) hkk
    · intro i hi hqi
      rcases h.loc i hi hqi with hc | ⟨a, ha, hk⟩
      · left; exact hc
      · right
        refine ⟨a, ?_, hk⟩
        simp only [List.mem_filter]
        refine ⟨ha, ?_⟩
        cases ho : isOpen k a
        · rfl
        · have := isOpen_key ho; rw [hk] at this; rw [← this] at hq; simp at hq
    · intro i hvi; exact set2_mono _ _ _ _ _ (h.self i hvi)
    · intro a ha t ht
      exact h.due a (List.mem_filter.mp ha).1 t ht
    · intro a ha hqa
      exact h.qkey a (List.mem_filter.mp ha).1 hqa
    · exact h.qv
  · -- refused: re-armed
    rw [he]
    constructor
    · intro i j hi hj hij hvi
      rcases h.peer i j hi hj hij hvi with hc | hp
      · left; exact hc
      · right; exact pending_of_map s _ (rearm_key s k) _ hp
    · intro i hi hqi
      rcases h.loc i hi hqi with hc | hp
      · left; exact hc
      · right; exact pending_of_map s _ (rearm_key s k) _ hp
    · exact h.self
    · intro a ha t ht
      obtain ⟨b, hb, rfl⟩ := List.mem_map.mp ha
      unfold rearm at ht
      split at ht
      · simp at ht; show t ≤ s.now + s.retry; omega
      · exact h.due b hb t ht
    · intro a ha hqa
      obtain ⟨b, hb, rfl⟩ := List.mem_map.mp ha
      rw [rearm_key] at hqa ⊢
      exact h.qkey b hb hqa
    · exact h.qv

theorem inv_tick (s : St) (d : Nat) (h : Inv s) : Inv (tick s d) := by
  unfold tick
  constructor
  · intro i j hi hj hij hvi
    rcases h.peer i j hi hj hij hvi with hc | hp
    · left; exact hc
    · right; exact pending_of_map s _ (fire_key _) _ hp
  · intro i hi hqi
    rcases h.loc i hi hqi with hc | hp
    · left; exact hc
    · right; exact pending_of_map s _ (fire_key _) _ hp
  · exact h.self
  · intro a ha t ht
    obtain ⟨b, hb, rfl⟩ := List.mem_map.mp ha
    have := h.due b hb t (fire_due_le _ b t ht)
    show t ≤ s.now + d + s.retry
    omega
  · intro a ha hqa
    obtain ⟨b, hb, rfl⟩ := List.mem_map.mp ha
    rw [fire_key] at hqa ⊢
    exact h.qkey b hb hqa
  · exact h.qv

theorem inv_step (s : St) (e : Ev) (h : Inv s) : Inv (step s e) := by
  cases e with
  | startV i => exact inv_startV s i h
  | startQ i => exact inv_startQ s i h
  | resolve k => exact inv_resolve s k h
  | tick d => exact inv_tick s d h

theorem inv_run (s : St) (evs : List Ev) (h : Inv s) : Inv (run s evs) := by
  induction evs generalizing s with
  | nil => exact h
  | cons e t ih => simp only [run, List.foldl_cons]; exact ih _ (inv_step s e h)

theorem inv_reachable (n retry : Nat) (evs : List Ev) : Inv (run (init n retry) evs) :=
  inv_run _ evs (inv_init n retry)

/-! ### one flush round -/

theorem foldl_resolve_vUp (L : List Key) (s : St) : (L.foldl resolve s).vUp = s.vUp := by
  induction L generalizing s with
  | nil => rfl
  | cons k t ih => simp only [List.foldl_cons]; rw [ih, resolve_vUp]

theorem foldl_resolve_n (L : List Key) (s : St) : (L.foldl resolve s).n = s.n := by
  induction L generalizing s with
  | nil => rfl
  | cons k t ih => simp only [List.foldl_cons]; rw [ih, resolve_n]

theorem foldl_resolve_conn_mono (L : List Key) (s : St) (i j : Nat) (h : s.conn i j = true) :
    (L.foldl resolve s).conn i j = true := by
  induction L generalizing s with
  | nil => exact h
  | cons k t ih => simp only [List.foldl_cons]; exact ih _ (resolve_conn_mono s k i j h)

theorem foldl_resolve_qListen_mono (L : List Key) (s : St) (i : Nat) (h : s.qListen i = true) :
    (L.foldl resolve s).qListen i = true := by
  induction L generalizing s with
  | nil => exact h
  | cons k t ih => simp only [List.foldl_cons]; exact ih _ (resolve_qListen_mono s k i h)

/-- an open attempt whose target listens is completed by any fold of resolves that mentions its key -/
theorem foldl_resolve_hits (L : List Key) (s : St) (a : Attempt) (ha : a ∈ s.pend) (hd : a.due = none)
    (hv : s.vUp a.key.dst = true) (hL : a.key ∈ L) :
    (a.key.q = true → (L.foldl resolve s).qListen a.key.src = true) ∧
    (a.key.q = false → (L.foldl resolve s).conn a.key.src a.key.dst = true) := by
  induction L generalizing s with
  | nil => simp at hL
  | cons k t ih =>
    simp only [List.foldl_cons]
    by_cases hk : a.key = k
    · have hfl : inFlight s k = true := inFlight_iff.mpr ⟨a, ha, hk, hd⟩
      rw [hk] at hv
      rcases resolve_cases s k with ⟨hf, _⟩ | ⟨_, _, hq, he⟩ | ⟨_, _, hq, he⟩ | ⟨_, hv', _⟩
      · rw [hfl] at hf; cases hf
      · constructor
        · intro _
          apply foldl_resolve_qListen_mono
          rw [he, hk]; exact set1_self _ _
        · intro hq'; rw [hk, hq] at hq'; cases hq'
      · constructor
        · intro hq'; rw [hk, hq] at hq'; cases hq'
        · intro _
          apply foldl_resolve_conn_mono
          rw [he, hk]; exact set2_self _ _ _
      · rw [hv] at hv'; cases hv'
    · have hmem : a ∈ (resolve s k).pend := (resolve_other s k a hk).mpr ha
      have hv2 : (resolve s k).vUp a.key.dst = true := by rw [resolve_vUp]; exact hv
      have hL2 : a.key ∈ t := by
        rcases List.mem_cons.mp hL with h | h
        · exact absurd h hk
        · exact h
      exact ih (resolve s k) hmem hv2 hL2

/-- after the retry time every attempt pending before is open -/
theorem tick_retry_opens (s : St) (h : Inv s) (k : Key) (hp : Pending s k) :
    ∃ a ∈ (tick s s.retry).pend, a.key = k ∧ a.due = none := by
  obtain ⟨a, ha, hk⟩ := hp
  refine ⟨fire (s.now + s.retry) a, List.mem_map.mpr ⟨a, ha, rfl⟩, by rw [fire_key, hk], ?_⟩
  exact fire_due_none _ a (h.due a ha)

theorem flush_conn_mono (s : St) (i j : Nat) (h : s.conn i j = true) : (flush s).conn i j = true := by
  unfold flush resolveAll
  exact foldl_resolve_conn_mono _ _ i j h

theorem flush_qListen_mono (s : St) (i : Nat) (h : s.qListen i = true) : (flush s).qListen i = true := by
  unfold flush resolveAll
  exact foldl_resolve_qListen_mono _ _ i h

theorem flush_n (s : St) : (flush s).n = s.n := by
  unfold flush resolveAll; rw [foldl_resolve_n]; rfl

theorem flush_vUp (s : St) : (flush s).vUp = s.vUp := by
  unfold flush resolveAll; rw [foldl_resolve_vUp]; rfl

/-- both ends listening ⇒ one flush round connects the pair -/
theorem flush_pair (s : St) (h : Inv s) (i j : Nat) (hi : i < s.n) (hj : j < s.n) (hij : i ≠ j)
    (hvi : s.vUp i = true) (hvj : s.vUp j = true) : (flush s).conn i j = true := by
  rcases h.peer i j hi hj hij hvi with hc | hp
  · exact flush_conn_mono s i j hc
  · obtain ⟨a, ha, hk, hd⟩ := tick_retry_opens s h _ hp
    have hv : (tick s s.retry).vUp a.key.dst = true := by rw [hk]; exact hvj
    have hL : a.key ∈ (tick s s.retry).pend.map (·.key) := List.mem_map.mpr ⟨a, ha, rfl⟩
    have := (foldl_resolve_hits _ _ a ha hd hv hL).2 (by rw [hk])
    rw [hk] at this
    exact this

/-- QNodeOS started and its virtual node listening ⇒ one flush round makes it listen -/
theorem flush_q (s : St) (h : Inv s) (i : Nat) (hi : i < s.n) (hq : s.qUp i = true) (hv : s.vUp i = true) :
    (flush s).qListen i = true := by
  rcases h.loc i hi hq with hc | hp
  · exact flush_qListen_mono s i hc
  · obtain ⟨a, ha, hk, hd⟩ := tick_retry_opens s h _ hp
    have hv' : (tick s s.retry).vUp a.key.dst = true := by rw [hk]; exact hv
    have hL : a.key ∈ (tick s s.retry).pend.map (·.key) := List.mem_map.mpr ⟨a, ha, rfl⟩
    have := (foldl_resolve_hits _ _ a ha hd hv' hL).1 (by rw [hk])
    rw [hk] at this
    exact this

/-! ### check_connections -/

theorem filter_range_full (n : Nat) (f : Nat → Bool) (h : ∀ j, j < n → f j = true) :
    ((List.range n).filter f).length = n := by
  have : (List.range n).filter f = List.range n :=
    List.filter_eq_self.mpr (fun a ha => h a (List.mem_range.mp ha))
  rw [this, List.length_range]

theorem checkConnections_of_full (s : St) (i : Nat) (h : ∀ j, j < s.n → s.conn i j = true) :
    checkConnections s i = true := by
  simp [checkConnections, connCount, filter_range_full s.n (s.conn i) h]

theorem full_of_checkConnections (s : St) (i : Nat) (h : checkConnections s i = true) :
    ∀ j, j < s.n → s.conn i j = true := by
  intro j hj
  simp only [checkConnections, connCount, beq_iff_eq] at h
  have hlen : ((List.range s.n).filter (s.conn i)).length = (List.range s.n).length := by
    rw [h, List.length_range]
  have := (List.length_filter_eq_length_iff.mp hlen) j (List.mem_range.mpr hj)
  exact this

theorem all_range {n : Nat} {f : Nat → Bool} : (List.range n).all f = true ↔ ∀ i, i < n → f i = true := by
  simp [List.all_eq_true, List.mem_range]

/-! ### process table -/

theorem startProc_alive (p : Proc) : (startProc p).alive = true := by
  unfold startProc; split <;> simp_all

theorem startProc_idem (p : Proc) : startProc (startProc p) = startProc p := by
  unfold startProc; split <;> simp_all

theorem startProc_of_alive (p : Proc) (h : p.alive = true) : startProc p = p := by
  simp [startProc, h]

theorem allAlive_start (t : Table) : allAlive (start t) = true := by
  simp [allAlive, start, List.all_eq_true, startProc_alive]

theorem noneAlive_stop (t : Table) : noneAlive (stop t) = true := by
  simp [noneAlive, stop, List.all_eq_true]

theorem length_start (t : Table) : (start t).length = t.length := by simp [start]
theorem length_stop (t : Table) : (stop t).length = t.length := by simp [stop]
theorem length_die (t : Table) (k : Nat) : (die t k).length = t.length := by simp [die]

theorem aliveAt_of_allAlive (t : Table) (k : Nat) (h : allAlive t = true) (hk : k < t.length) :
    aliveAt t k = true := by
  unfold aliveAt
  have : t[k]? = some t[k] := List.getElem?_eq_getElem hk
  rw [this]
  simp only [allAlive, List.all_eq_true] at h
  exact h _ (List.getElem_mem hk)

/-! ### world -/

/-- shape invariant of the world: two processes per configured node -/
def World.WF (n retry : Nat) (w : World) : Prop :=
  w.tab.length = 2 * n ∧ w.cs.n = n ∧ w.cs.retry = retry

theorem World.wf_init (n retry : Nat) : World.WF n retry (World.init n retry) := by
  simp [World.WF, World.init, mkTable, Lifecycle.init]

theorem World.wf_step (n retry : Nat) (w : World) (op : Op) (h : World.WF n retry w) :
    World.WF n retry (w.step op) := by
  obtain ⟨h1, h2, h3⟩ := h
  cases op with
  | netStart => exact ⟨by simp [World.step, length_start, h1], h2, h3⟩
  | netStop => exact ⟨by simp [World.step, length_stop, h1], by simp [World.step, Lifecycle.init, h2],
                      by simp [World.step, Lifecycle.init, h3]⟩
  | ev e =>
    simp only [World.step]
    split
    · exact ⟨h1, by simp [step_n, h2], by simp [step_retry, h3]⟩
    · exact ⟨h1, h2, h3⟩
  | queryRunning =>
    simp only [World.step, World.queryRunning]
    split
    · exact ⟨h1, h2, h3⟩
    · exact ⟨h1, h2, h3⟩

theorem World.wf_run (n retry : Nat) (w : World) (ops : List Op) (h : World.WF n retry w) :
    World.WF n retry (w.run ops) := by
  induction ops generalizing w with
  | nil => exact h
  | cons o t ih => simp only [World.run, List.foldl_cons]; exact ih _ (World.wf_step n retry w o h)

/-- with every process launched, the gate of the world is the gate of the connection model -/
theorem World.step_ev_allAlive (w : World) (e : Ev) (hal : allAlive w.tab = true)
    (hlen : w.tab.length = 2 * w.cs.n) :
    w.step (.ev e) = { w with cs := Lifecycle.step w.cs e } := by
  simp only [World.step]
  split
  · rfl
  · rename_i hne
    have hdis : Lifecycle.enabled w.cs e = false := by
      cases hen : Lifecycle.enabled w.cs e
      · rfl
      · exfalso; apply hne
        cases e with
        | startV i =>
          have hi : i < w.cs.n := by simp [Lifecycle.enabled] at hen; exact hen.1
          simp only [World.enabled, hen, Bool.and_true]
          exact aliveAt_of_allAlive _ _ hal (by omega)
        | startQ i =>
          have hi : i < w.cs.n := by simp [Lifecycle.enabled] at hen; exact hen.1
          simp only [World.enabled, hen, Bool.and_true]
          exact aliveAt_of_allAlive _ _ hal (by omega)
        | resolve k => simpa [World.enabled] using hen
        | tick d => simp [World.enabled, Lifecycle.enabled]
    rw [step_of_not_enabled _ _ hdis]

theorem World.run_evs_allAlive (w : World) (evs : List Ev) (hal : allAlive w.tab = true)
    (hlen : w.tab.length = 2 * w.cs.n) :
    w.run (evs.map .ev) = { w with cs := Lifecycle.run w.cs evs } := by
  induction evs generalizing w with
  | nil => rfl
  | cons e t ih =>
    simp only [List.map_cons, World.run, List.foldl_cons, Lifecycle.run]
    rw [World.step_ev_allAlive w e hal hlen]
    have := ih { w with cs := Lifecycle.step w.cs e } hal (by simp [step_n, hlen])
    simpa [World.run, Lifecycle.run] using this

end SqVerif.Lifecycle

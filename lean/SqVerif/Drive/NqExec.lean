import SqVerif.NqExec
import SqVerif.Drive.Util
/- driver for the NetQASM interpreter model (concrete backend), stateful.
   in : reset CAP PEERS            PEERS = comma separated node ids or `-`
        init APP MAXQ
        open SOCK
        arrive SOCK SENDER
        stop APP | OUTS            OUTS = string of 0/1 or `-`
        sub APP | OUTS | SENDS | INFOS | instr ; instr ; ...
             INFOS = `a,b,..;a,b,..` or `-`
             instr = mnemonic operands..., registers as R3 C0 Q1 M2, array entries as `ADDR IDX` with
                     IDX = `#3` or a register, e.g. `store R0 1 #3`, `load R1 0 R2`, `beq R0 R1 7`, `rot Q0`
   out: HALT | replies | ops | um | used | qubitList | held | inbox | leaked | stale request keys | response stuck? | regs | arrays
        (dicts sorted by key)
        or `bad-op` -/
namespace SqVerif.Drive.NqExec
open SqVerif.NqExec SqVerif.Drive

def parseReg? (s : String) : Option Nat :=
  match s.toList with
  | c :: rest =>
    let g : Option Nat := if c == 'R' then some 0 else if c == 'C' then some 1 else if c == 'Q' then some 2
      else if c == 'M' then some 3 else none
    match g, (String.ofList rest).toNat? with
    | some g, some i => if i < 16 then some (16 * g + i) else none
    | _, _ => none
  | [] => none

def parseInt? (s : String) : Option Int := s.toInt?

def parseIdx? (s : String) : Option Idx :=
  match s.toList with
  | '#' :: rest => (String.ofList rest).toInt?.map Idx.imm
  | _ => (parseReg? s).map Idx.reg

def g1? : String → Option G1
  | "x" => some .X | "y" => some .Y | "z" => some .Z | "h" => some .H | "k" => some .K | "s" => some .S
  | "t" => some .T | "rot" => some .Rot | _ => none

def parseInstr? (ws : List String) : Option Instr :=
  match ws with
  | ["set", r, v] => do pure (.set (← parseReg? r) (← parseInt? v))
  | ["qalloc", r] => do pure (.qalloc (← parseReg? r))
  | ["init", r] => do pure (.init (← parseReg? r))
  | ["cnot", a, b] => do pure (.gate2 .cnot (← parseReg? a) (← parseReg? b))
  | ["cphase", a, b] => do pure (.gate2 .cphase (← parseReg? a) (← parseReg? b))
  | ["meas", q, c] => do pure (.meas (← parseReg? q) (← parseReg? c))
  | ["qfree", r] => do pure (.qfree (← parseReg? r))
  | ["store", r, a, i] => do pure (.store (← parseReg? r) (← parseInt? a) (← parseIdx? i))
  | ["load", r, a, i] => do pure (.load (← parseReg? r) (← parseInt? a) (← parseIdx? i))
  | ["lea", r, a] => do pure (.lea (← parseReg? r) (← parseInt? a))
  | ["undef", a, i] => do pure (.undef (← parseInt? a) (← parseIdx? i))
  | ["array", r, a] => do pure (.array (← parseReg? r) (← parseInt? a))
  | ["add", o, a, b] => do pure (.cop .add (← parseReg? o) (← parseReg? a) (← parseReg? b))
  | ["sub", o, a, b] => do pure (.cop .sub (← parseReg? o) (← parseReg? a) (← parseReg? b))
  | ["addm", o, a, b, m] => do pure (.copm .add (← parseReg? o) (← parseReg? a) (← parseReg? b) (← parseReg? m))
  | ["subm", o, a, b, m] => do pure (.copm .sub (← parseReg? o) (← parseReg? a) (← parseReg? b) (← parseReg? m))
  | ["jmp", l] => do pure (.jmp (← l.toNat?))
  | ["bez", r, l] => do pure (.bru .bez (← parseReg? r) (← l.toNat?))
  | ["bnz", r, l] => do pure (.bru .bnz (← parseReg? r) (← l.toNat?))
  | ["beq", a, b, l] => do pure (.brb .beq (← parseReg? a) (← parseReg? b) (← l.toNat?))
  | ["bne", a, b, l] => do pure (.brb .bne (← parseReg? a) (← parseReg? b) (← l.toNat?))
  | ["blt", a, b, l] => do pure (.brb .blt (← parseReg? a) (← parseReg? b) (← l.toNat?))
  | ["bge", a, b, l] => do pure (.brb .bge (← parseReg? a) (← parseReg? b) (← l.toNat?))
  | ["ret_reg", r] => do pure (.retReg (← parseReg? r))
  | ["ret_arr", a] => do pure (.retArr (← parseInt? a))
  | ["create_epr", a, b, c, d, e] => do
      pure (.createEpr (← parseReg? a) (← parseReg? b) (← parseReg? c) (← parseReg? d) (← parseReg? e))
  | ["recv_epr", a, b, c, d] => do pure (.recvEpr (← parseReg? a) (← parseReg? b) (← parseReg? c) (← parseReg? d))
  | ["other"] => some .other
  | [g, r] => do pure (.gate1 (← g1? g) (← parseReg? r))
  | _ => none

def splitOnWord (sep : String) (ws : List String) : List (List String) :=
  ws.foldr (fun w acc => if w == sep then [] :: acc else
    match acc with | [] => [[w]] | h :: t => (w :: h) :: t) [[]]

def parseBits? (ws : List String) : Option (List Bool) :=
  match ws with
  | ["-"] => some []
  | [s] => s.toList.mapM fun c => if c == '0' then some false else if c == '1' then some true else none
  | _ => none

def parseInfos? (ws : List String) : Option (List (List Int)) :=
  match ws with
  | ["-"] => some []
  | [s] => (s.splitOn ";").mapM fun rec => (rec.splitOn ",").mapM fun x => x.toInt?
  | _ => none

def parseProg? (ws : List String) : Option (List Instr) :=
  if ws.isEmpty then some [] else (splitOnWord ";" ws).mapM parseInstr?

/-! canonical output -/

def regName (r : Nat) : String :=
  (match r / 16 with | 0 => "R" | 1 => "C" | 2 => "Q" | _ => "M") ++ toString (r % 16)

def showOpt (o : Option Int) : String := match o with | some x => toString x | none => "-"
def showOptN (o : Option Nat) : String := match o with | some x => toString x | none => "-"
def bit (b : Bool) : String := if b then "1" else "0"

def showReply : Reply → String
  | .retReg r v => "reg:" ++ regName r ++ "=" ++ toString v
  | .retArr a vs => "arr:" ++ toString a ++ "=[" ++ ",".intercalate (vs.map showOpt) ++ "]"
  | .error => "err"
  | .done => "done"

def g1Name : G1 → String
  | .X => "X" | .Y => "Y" | .Z => "Z" | .H => "H" | .K => "K" | .S => "S" | .T => "T" | .Rot => "Rot"

def showOp : TOp → String
  | .new t => "new:" ++ toString t
  | .gate1 g t => "g1:" ++ g1Name g ++ ":" ++ toString t
  | .gate2 g c t => "g2:" ++ (match g with | .cnot => "cnot" | .cphase => "cphase") ++ ":" ++ toString c ++ ":" ++ toString t
  | .meas t ip o => "meas:" ++ toString t ++ ":" ++ bit ip ++ ":" ++ bit o
  | .send t ok => "send:" ++ toString t ++ ":" ++ bit ok
  | .claim t => "claim:" ++ toString t

def showHalt : Halt → String
  | .done => "done" | .error => "error" | .fuel => "fuel" | .unmodelled => "unmodelled" | .envShort => "env-short"

def listOr (l : List String) : String := if l.isEmpty then "-" else " ".intercalate l

def showState (s : St CQ) : String :=
  let um := match s.q.um with
    | none => "none"
    | some um => "[" ++ ",".intercalate (um.map showOptN) ++ "]"
  let used := ",".intercalate ((sortBy (· < ·) s.q.used).map toString)
  let ql := ",".intercalate ((sortBy (fun a b => a.1 < b.1) s.q.qlist).map fun e => toString e.1 ++ ":" ++ toString e.2)
  let regs := ",".intercalate ((sortBy (fun a b => a.1 < b.1) s.cl.regs).map fun e => regName e.1 ++ "=" ++ toString e.2)
  let arrs := ";".intercalate ((sortBy (fun a b => a.1 < b.1) s.cl.arrays).map fun e =>
    toString e.1 ++ "=[" ++ ",".intercalate (e.2.map showOpt) ++ "]")
  let keyStr (k : Bool × Int × Int) : String := (if k.1 then "c:" else "r:") ++ toString k.2.1 ++ ":" ++ toString k.2.2
  let stale := ",".intercalate ((sortBy (· < ·) (s.stale.map keyStr)).eraseDups)
  "um=" ++ um ++ " | used=" ++ used ++ " | ql=" ++ ql ++ " | held=" ++ toString s.q.node.held.length
    ++ " | inbox=" ++ toString s.q.node.inbox.length ++ " | leaked=" ++ toString s.q.leaked
    ++ " | stale=" ++ stale ++ " | stuck=" ++ bit s.broken
    ++ " | regs=" ++ regs ++ " | arrays=" ++ arrs

def showOut (o : RunOut CQ) : String :=
  showHalt o.halt ++ " | " ++ listOr (o.replies.map showReply) ++ " | " ++ listOr (o.ops.map showOp) ++ " | " ++ showState o.st

def fuel : Nat := 100000

def noEnv : Env := ⟨[], [], []⟩

def stepLine (s : St CQ) (line : String) : St CQ × String :=
  let parts := splitOnWord "|" (words line)
  let go (m : Msg) (env : Env) : St CQ × String :=
    let o := runMsg concrete fuel s env m
    (o.st, showOut o)
  match parts with
  | [["reset", cap, peers]] =>
    match cap.toNat?, (if peers == "-" then some [] else (peers.splitOn ",").mapM fun x => x.toInt?) with
    | some cap, some ps => (St.fresh cap ps, "ok")
    | _, _ => (s, "bad-op")
  | [["init", app, maxq]] =>
    match app.toNat?, maxq.toNat? with
    | some a, some m => go (.init a m) noEnv
    | _, _ => (s, "bad-op")
  | [["open", sock]] =>
    match sock.toInt? with
    | some k => go (.openEpr k) noEnv
    | none => (s, "bad-op")
  | [["arrive", sock, sender]] =>
    match sock.toInt?, sender.toInt? with
    | some k, some d => go (.arrive k d) noEnv
    | _, _ => (s, "bad-op")
  | [["stop", app], outs] =>
    match app.toNat?, parseBits? outs with
    | some a, some os => go (.stop a) ⟨os, [], []⟩
    | _, _ => (s, "bad-op")
  | [["sub", app], outs, sends, infos, prog] =>
    match app.toNat?, parseBits? outs, parseBits? sends, parseInfos? infos, parseProg? prog with
    | some a, some os, some ss, some is, some p => go (.sub a p) ⟨os, ss, is⟩
    | _, _, _, _, _ => (s, "bad-op")
  | _ => (s, "bad-op")

end SqVerif.Drive.NqExec

import SqVerif.VNetEngine
/-
C01, last layer — the JOINT state of all registers of a network, and the ideal
single register it is compared with.  Core Lean only (definitions).

Everything below L0..L2×L1 speaks about ONE register at a time (`Stab.St`, a
generator list on positions 0..n-1).  The registers of a network partition the
logical qubits (tokens); which token sits at which position of which register
is the ghost labelling `LEng.lab.slots` (= the L2 ghost field `Reg.toks`,
`C01.slots_are_tokens`).  To speak about all of them at once, operators are
indexed by TOKENS, not positions:

* `TOp`            a Pauli operator on the (unbounded) set of tokens: a phase
                   exponent of i and a letter for every token (`I` almost
                   everywhere); compared with `≈ₜ` (letters equal, phase mod 4);
* `lift toks p`    the register-local operator `p : POp` (width = `toks.length`)
                   read through the slot labels `toks`: letter `p.ps[i]` at token
                   `toks[i]`, `I` at every token that is not in the register;
* `TOp.dmul a b`   product of two operators with DISJOINT supports: letters are
                   multiplied token-wise, phases added.  `TOp.mulOn S a b` is the
                   general product (the i-phases of the letter products at the
                   tokens `S` are added); `mulOn_eq_dmul` (JointLemmas.lean) shows that the
                   two agree whenever at every token of `S` one of the letters is `I`.

MODELLED (this is the one modelling step of this layer, everything else is
proved): the state of a network whose registers are in the stabilizer states
`st_1 … st_m` is the TENSOR PRODUCT of these states, and the stabilizer group of
a tensor product of stabilizer states is the direct product of the factors'
groups.  Accordingly

* `ProdG L t`      for a list `L` of factors (slot labels, group predicate):
                   `t` is (`≈ₜ`) a product of lifted elements, exactly one chosen
                   from each factor's group;
* `JointGroup e`   `ProdG` of the engines of `e`: factor = (slot labels of the
                   engine, `Stab.InGroup` of the engine's rows).  It does not
                   depend on the order of the registers (`prodG_perm`, JointLemmasProd.lean).

The ideal register:

* `Ideal`          ONE `Stab.St` whose qubit `i` is token `toks[i]`, with
                   token-addressed operations `new`, `gate1`, `gate2`, `measure`
                   executed by the L0 model functions (`Stab.addQubit`,
                   `applyGate1/2`, `Stab.measure`);
* `IdealGroup I`   its stabilizer group read through `lift I.toks`.

Token-level readings of the L0 group transformers (used to state how BOTH groups
move under an operation): `TOp.conj1/conj2` (conjugation at tokens), `TAdded`
(a fresh |0> qubit), `TCollapsed` (projection on the `(-1)^o` eigenspace of
`Z_x`), `TRestricted` (… and removal of token `x`).
-/
namespace SqVerif.Joint
open SqVerif.Stab SqVerif.VNet SqVerif.VNetEng

/-! ### token-indexed Pauli operators -/

structure TOp where
  /-- exponent of i -/
  ph : Nat
  /-- letter at each token -/
  f : Nat → P1

def TOp.eqv (a b : TOp) : Prop := a.ph % 4 = b.ph % 4 ∧ ∀ x, a.f x = b.f x
infix:50 " ≈ₜ " => TOp.eqv

def TOp.one : TOp := ⟨0, fun _ => I1⟩

/-- letter of the register-local string `ps` at token `x`, the register's slots being labelled `toks` -/
def look : List Nat → List P1 → Nat → P1
  | t :: ts, a :: as, x => if x = t then a else look ts as x
  | _, _, _ => I1

/-- a register-local operator read through the register's slot labels -/
def lift (toks : List Nat) (p : POp) : TOp := ⟨p.ph, look toks p.ps⟩

/-- product of operators with disjoint supports -/
def TOp.dmul (a b : TOp) : TOp := ⟨a.ph + b.ph, fun x => mul1 (a.f x) (b.f x)⟩

/-- i-phase picked up by the letter products at the tokens `S` -/
def phT (a b : TOp) : List Nat → Nat
  | [] => 0
  | x :: S => iexp (a.f x) (b.f x) + phT a b S

/-- the general operator product, `S` ⊇ (support a ∩ support b) -/
def TOp.mulOn (S : List Nat) (a b : TOp) : TOp := ⟨a.ph + b.ph + phT a b S, fun x => mul1 (a.f x) (b.f x)⟩

def upd (f : Nat → P1) (x : Nat) (a : P1) : Nat → P1 := fun y => if y = x then a else f y

/-! ### products of groups -/

/-- a tensor factor: the slot labels and the stabilizer group (on positions) -/
abbrev Fac := List Nat × (POp → Prop)

/-- the direct product of the factors' groups, read on tokens -/
def ProdG : List Fac → TOp → Prop
  | [], t => t ≈ₜ TOp.one
  | F :: rest, t => ∃ p r, F.2 p ∧ ProdG rest r ∧ t ≈ₜ (lift F.1 p).dmul r

def facOf (en : LEng) : Fac := (en.lab.slots, InGroup en.eng.st.n en.eng.st.rows)

def facs (l : List (Key × LEng)) : List Fac := l.map fun p => facOf p.2

/-- the stabilizer group of the tensor product of all register states of `e` -/
def JointGroup (e : EngSt) : TOp → Prop := ProdG (facs e.regs)

/-- all slot labels of all engines -/
def allSlots (l : List (Key × LEng)) : List Nat := l.flatMap fun p => p.2.lab.slots

/-! ### the ideal register -/

structure Ideal where
  /-- token of qubit i -/
  toks : List Nat
  st : Stab.St
  deriving DecidableEq, Repr

def Ideal.empty : Ideal := ⟨[], Stab.empty⟩

/-- position of a token -/
def pos : List Nat → Nat → Option Nat
  | [], _ => none
  | t :: ts, x => if x = t then some 0 else (pos ts x).map (· + 1)

/-- a fresh |0> qubit with token `tok`, appended -/
def Ideal.new (I : Ideal) (tok : Nat) : Ideal := ⟨I.toks ++ [tok], addQubit I.st⟩

def Ideal.gate1 (I : Ideal) (g : Gate1) (tok : Nat) : Option Ideal :=
  match pos I.toks tok with
  | none => none
  | some j => (applyGate1 g j I.st).map fun st => ⟨I.toks, st⟩

def Ideal.gate2 (I : Ideal) (g : Gate2) (ctok ttok : Nat) : Option Ideal :=
  match pos I.toks ctok, pos I.toks ttok with
  | some c, some t => (applyGate2 g c t I.st).map fun st => ⟨I.toks, st⟩
  | _, _ => none

/-- measurement of token `tok`; a destructive one removes the token -/
def Ideal.measure (I : Ideal) (tok : Nat) (inplace coin : Bool) : Option (Bool × Ideal) :=
  match pos I.toks tok with
  | none => none
  | some j => (Stab.measure I.st j inplace coin).map fun r =>
      (r.1, ⟨if inplace then I.toks else I.toks.eraseIdx j, r.2⟩)

def IdealGroup (I : Ideal) (t : TOp) : Prop := ∃ p, InGroup I.st.n I.st.rows p ∧ t ≈ₜ lift I.toks p

def Ideal.fac (I : Ideal) : Fac := (I.toks, InGroup I.st.n I.st.rows)

/-- `±Z` at token `x` -/
def TOp.z (x : Nat) (neg : Bool) : TOp := ⟨if neg then 2 else 0, upd (fun _ => I1) x (false, true)⟩

/-! ### token-level readings of the group transformers of C13 / C14 -/

/-- conjugation by a one-qubit Clifford at token `x` (`Stab.conjAt1` on tokens) -/
def TOp.conj1 (g : Gate1) (x : Nat) (t : TOp) : TOp :=
  ⟨t.ph + (Stab.conj1 g (t.f x)).1, upd t.f x (Stab.conj1 g (t.f x)).2⟩

/-- conjugation by a two-qubit Clifford, control token `c`, target token `d` (`Stab.conjAt2`) -/
def TOp.conj2 (g : Gate2) (c d : Nat) (t : TOp) : TOp :=
  ⟨t.ph + (Stab.conj2 g (t.f c) (t.f d)).1,
   upd (upd t.f d (Stab.conj2 g (t.f c) (t.f d)).2.2) c (Stab.conj2 g (t.f c) (t.f d)).2.1⟩

/-- `t · (-1)^o Z_x` -/
def TOp.mulZ (x : Nat) (o : Bool) (t : TOp) : TOp :=
  ⟨t.ph + (if o then 2 else 0) + iexp (t.f x) (false, true), upd t.f x (mul1 (t.f x) (false, true))⟩

/-- erase token `x` from an operator whose letter there is I or Z (`Stab.restrictOp`) -/
def TOp.restrict (x : Nat) (o : Bool) (t : TOp) : TOp :=
  ⟨t.ph + (if (t.f x).2 && o then 2 else 0), upd t.f x I1⟩

/-- the group after adding a |0> qubit with the unused token `x`: `S ⊗ ⟨Z_x⟩` -/
def TAdded (S : TOp → Prop) (x : Nat) (t : TOp) : Prop :=
  ∃ t0 b, S t0 ∧ t ≈ₜ ⟨t0.ph, upd t0.f x (false, b)⟩

/-- `⟨(-1)^o Z_x⟩ · { t0 ∈ S | t0 commutes with Z_x }` (`Stab.Collapsed` on tokens) -/
def TCollapsed (S : TOp → Prop) (x : Nat) (o : Bool) (t : TOp) : Prop :=
  ∃ t0, S t0 ∧ (t0.f x).1 = false ∧ (t ≈ₜ t0 ∨ t ≈ₜ t0.mulZ x o)

/-- the elements of `S` without X/Y at `x`, with token `x` erased -/
def TRestricted (S : TOp → Prop) (x : Nat) (o : Bool) (t : TOp) : Prop :=
  ∃ q, S q ∧ (q.f x).1 = false ∧ t ≈ₜ q.restrict x o

/-! ### the L2 gate names on the stabilizer backend -/

/-- the one-qubit gates the stabilizer engine offers (`VNetEng.g1Call`) -/
def g1Gate : G1 → Option Gate1
  | .X => some .X | .Y => some .Y | .Z => some .Z | .H => some .H | .K => some .K
  | .T => none | .Rot => none

end SqVerif.Joint

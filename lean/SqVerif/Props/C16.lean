import SqVerif.ConfigLemmas
/-
C16 — Network configuration stays well-formed and node ids are a consistent
bijection.

Model: `SqVerif/Config.lean` (`NetworksConfigConstructor` with the repairs of
branch `fix-c16`, `SocketsConfig`, the two id lookups).  A history is a list of
edits, each paired with the state of the OS ports at that moment
(`osFree : Port → Bool`, the result of the `bind` probe) — every theorem holds
for *all* such functions.  Edits: `addNode` (explicit or automatic host/port per
role, with or without neighbours), `removeNode`, `addNetwork` (with or without
topology), `removeNetwork`, `reset`, and `reload` (= `write_to_file` followed by
a fresh `NetworksConfigConstructor(file)`, what every CLI command does between
two edits).  Refused calls (`inUse`, `noPort`, `keyError`) are part of the
histories: they leave the partially updated object behind as the Python does.

Not covered (stated in the check's ASSUMPTIONS): two host *strings* that
resolve to the same address are different hosts for the code and the model;
`read_from_file` into a constructor that already holds networks (a merge) is
not an edit of the histories.
-/
namespace SqVerif.C16
open SqVerif.Config

/-! ### T16.1 endpoints are pairwise distinct after every history -/

/-- T16.1 after any edit sequence from the empty configuration, for every behaviour of the OS
port probe, no two of the 3·|nodes| endpoints of all networks share a (host, port). -/
theorem endpoints_unique (es : List ((Port → Bool) × Edit)) : (run Cfg.empty es).eps.Nodup :=
  (inv_run inv_empty es).nodup

/-- T16.1' the same from any configuration that satisfies the invariant (e.g. a loaded file
whose endpoints are distinct), and the invariant itself is kept: endpoints distinct, all of
them reserved in `used_sockets`, dictionary keys distinct. -/
theorem endpoints_unique_from (c : Cfg) (hc : Inv c) (es : List ((Port → Bool) × Edit)) :
    Inv (run c es) :=
  inv_run hc es

/-- T16.1‴ the hypothesis of T16.1' is met by every file that loads and whose endpoints are
pairwise distinct: after loading it, every edit sequence keeps the endpoints distinct. -/
theorem endpoints_unique_after_load (j : Json) (c : Cfg) (h : load j = some c) (hnd : c.eps.Nodup)
    (es : List ((Port → Bool) × Edit)) : (run c es).eps.Nodup :=
  (inv_run (inv_of_load h hnd) es).nodup

/-- T16.1'' every endpoint of the configuration is reserved (so no later `add_node` can hand it
out again). -/
theorem endpoints_reserved (es : List ((Port → Bool) × Edit)) :
    ∀ s ∈ (run Cfg.empty es).eps, s ∈ (run Cfg.empty es).used :=
  (inv_run inv_empty es).reserved

/-- a refused `add_node` changes nothing but `used_sockets` -/
theorem addNode_refused_keeps_networks (osFree : Port → Bool) (c : Cfg) (name : Name)
    (net : Option Name) (sp : Specs) (nb : Option (List Name))
    (h : (addNode osFree c name net sp nb).2 ≠ .ok) :
    (addNode osFree c name net sp nb).1.networks = c.networks := by
  cases ha : reserve1 osFree c.used sp.app with
  | error e => simp only [addNode, ha]
  | ok a =>
    cases hq : reserve1 osFree (c.used ++ [a]) sp.qnodeos with
    | error e => simp only [addNode, ha, hq]
    | ok q =>
      cases hv : reserve1 osFree (c.used ++ [a] ++ [q]) sp.vnode with
      | error e => simp only [addNode, ha, hq, hv]
      | ok v => simp only [addNode, ha, hq, hv, ne_eq, not_true_eq_false] at h

/-- an explicit port that is already reserved on that host is refused (`ValueError`), whatever
the OS says -/
theorem explicit_port_in_use_refused (osFree : Port → Bool) (used : List Sock) (h : Option Host)
    (p : Port) (hu : (hostOf h, p) ∈ used) : reserve1 osFree used (h, some p) = .error .inUse := by
  simp [reserve1, reservePort, checkPortAvailable, hu]

/-- an automatic port is refused (`ValueError`, fix-c16) exactly when the range is exhausted -/
theorem auto_port_refused_iff (osFree : Port → Bool) (used : List Sock) (h : Option Host) :
    reserve1 osFree used (h, none) = .error .noPort ↔
      ∀ p ∈ portRange, checkPortAvailable osFree used (hostOf h, p) = false := by
  simp only [reserve1, reservePort, getUnusedPort]
  cases hf : portRange.find? (fun p => checkPortAvailable osFree used (hostOf h, p)) with
  | none =>
    simp only [true_iff]
    intro p hp
    have := List.find?_eq_none.1 hf p hp
    simpa using this
  | some p =>
    simp only [reduceCtorEq, false_iff]
    intro hall
    have h1 := List.find?_some hf
    have h2 := hall p (List.mem_of_find?_eq_some hf)
    simp [h2] at h1

/-! ### T16.2 a removed node is gone -/

/-- T16.2 after `remove_node x` the network mentions `x` neither in the node list nor as a
topology key nor in any neighbour list. -/
theorem removed_is_gone (c : Cfg) (name : Name) (net : Option Name) (n : Net)
    (h : aget (netName net) (removeNode c name net).networks = some n) :
    name ∉ keys n.nodes ∧ ∀ t, n.topology = some t → name ∉ keys t ∧ ∀ e ∈ t, name ∉ e.2 :=
  removeNode_gone c name net n h

/-- `remove_node` in a network that does not exist is a no-op -/
theorem removeNode_unknown_network (c : Cfg) (name : Name) (net : Option Name)
    (h : aget (netName net) c.networks = none) : removeNode c name net = c := by
  simp [removeNode, h]

/-- after `remove_network` the network is gone -/
theorem removed_network_is_gone (c : Cfg) (net : Option Name) :
    aget (netName net) (removeNetwork c net).networks = none :=
  aget_none_iff.2 (not_mem_keys_apop _ _)

def witnessF9 : Cfg :=
  ⟨[("default", ⟨some [("A", ["B"]), ("B", ["A"])],
      [("A", ⟨("localhost", 8000), ("localhost", 8001), ("localhost", 8002)⟩),
       ("B", ⟨("localhost", 8003), ("localhost", 8004), ("localhost", 8005)⟩)]⟩)],
   [("localhost", 8000), ("localhost", 8001), ("localhost", 8002), ("localhost", 8003),
    ("localhost", 8004), ("localhost", 8005)]⟩

/-- F9: the statement of T16.2 is false of `remove_node` as it was before the repair (the
node stays a topology key and a neighbour of the others). -/
theorem removed_is_gone_unfixed_counterexample :
    ¬ ∀ (c : Cfg) (name : Name) (net : Option Name) (n : Net),
      aget (netName net) (Unfixed.removeNode c name net).networks = some n →
      name ∉ keys n.nodes ∧ ∀ t, n.topology = some t → name ∉ keys t ∧ ∀ e ∈ t, name ∉ e.2 := by
  intro h
  have h1 := h witnessF9 "A" none
    ⟨some [("A", ["B"]), ("B", ["A"])],
     [("B", ⟨("localhost", 8003), ("localhost", 8004), ("localhost", 8005)⟩)]⟩ (by decide)
  exact (h1.2 _ rfl).1 (by decide)

/-! ### T16.3 write then read reproduces the configuration -/

/-- T16.3 for every reachable configuration, loading the written file into a fresh
constructor yields exactly the same networks, and `used_sockets` = its endpoints. -/
theorem json_roundtrip (es : List ((Port → Bool) × Edit)) :
    load (toJson (run Cfg.empty es).networks)
      = some ⟨(run Cfg.empty es).networks, (run Cfg.empty es).eps⟩ := by
  have hc := inv_run inv_empty es
  rw [load_toJson _ hc.keysOk, foldl_addUsed_nodup _ _ (by simpa [Cfg.eps] using hc.nodup)]
  simp [Cfg.eps]

/-- T16.3' for any networks with distinct dictionary keys (what a Python dict guarantees) the
round trip is exact and every endpoint of the file ends up reserved. -/
theorem json_roundtrip_of_keys (nets : List (Name × Net)) (hk : KeysOk nets) :
    ∃ u, load (toJson nets) = some ⟨nets, u⟩ ∧ ∀ s ∈ netsEps nets, s ∈ u :=
  ⟨_, load_toJson nets hk, fun _ hs => mem_foldl_addUsed_right _ hs⟩

/-- `reload` (write + fresh read) never fails on a reachable configuration and keeps the networks -/
theorem reload_keeps_networks (es : List ((Port → Bool) × Edit)) :
    (reload (run Cfg.empty es)).2 = .ok ∧
    (reload (run Cfg.empty es)).1.networks = (run Cfg.empty es).networks := by
  rw [reload_eq (inv_run inv_empty es)]
  exact ⟨rfl, rfl⟩

/-! ### T16.4 name ↔ id is a bijection, the same for every participant -/

/-- T16.4a `name(id(x)) = x` for every configured name, and the id is in range. -/
theorem id_bijection_name_of_id {α : Type} [DecidableEq α] (lt : α → α → Bool) (ns : List α) (x : α)
    (hx : x ∈ ns) :
    ∃ i : Nat, nodeId lt ns x = some i ∧ i < ns.length ∧ nodeName lt ns (i : Int) = some x := by
  obtain ⟨i, h1, h2⟩ := nodeName_nodeId lt ns x hx
  exact ⟨i, h1, (nodeId_lt h1).2, h2⟩

/-- T16.4b `id(name(i)) = i` for every `i < |ns|` when the names are distinct. -/
theorem id_bijection_id_of_name {α : Type} [DecidableEq α] (lt : α → α → Bool) (ns : List α)
    (hnd : ns.Nodup) (i : Nat) (hi : i < ns.length) :
    ∃ x, nodeName lt ns (i : Int) = some x ∧ x ∈ ns ∧ nodeId lt ns x = some i :=
  nodeId_nodeName lt ns hnd i hi

/-- T16.4c the refusals: an unknown name has no id (ValueError), an id outside `0..|ns|-1`
(negative included) has no name (KeyError). -/
theorem id_refusals {α : Type} [DecidableEq α] (lt : α → α → Bool) (ns : List α) :
    (∀ x, x ∉ ns → nodeId lt ns x = none) ∧
    (∀ i : Int, (i < 0 ∨ (ns.length : Int) ≤ i) → nodeName lt ns i = none) :=
  ⟨fun _ h => nodeId_none h, fun i h => nodeName_none lt ns i h⟩

/-- T16.4d both lookups depend only on the *set* of names (a JSON object is unordered), for any
linear order — in particular for Python's string order. -/
theorem id_depends_only_on_name_set {α : Type} [DecidableEq α] {lt : α → α → Bool} (h : LinOrd lt)
    {ns ns' : List α} (hp : ns.Perm ns') :
    (∀ x, nodeId lt ns x = nodeId lt ns' x) ∧ (∀ i, nodeName lt ns i = nodeName lt ns' i) :=
  ⟨nodeId_perm h hp, nodeName_perm h hp⟩

/-- the order used by the driver (`<` on `String`, code-point lexicographic like Python's) is linear -/
theorem string_order_linear : LinOrd strLt := strLt_linOrd

/-- T16.4e every participant — whichever of the three endpoint roles it reads — gets the same
answers in both directions, the names it sees are distinct (so T16.4a/b apply), and this holds for
the in-memory configuration as well as for the written-and-reread file. -/
theorem id_same_for_every_participant (es : List ((Port → Bool) × Edit)) (net : Option Name)
    (r r' : Role) (hd hd' : List (Name × Sock))
    (h : hostDict (run Cfg.empty es) net r = some hd)
    (h' : hostDict (reload (run Cfg.empty es)).1 net r' = some hd') :
    (keys hd).Nodup ∧ keys hd' = keys hd ∧
    (∀ x, nodeId strLt (keys hd') x = nodeId strLt (keys hd) x) ∧
    (∀ i, nodeName strLt (keys hd') i = nodeName strLt (keys hd) i) := by
  have hc := inv_run inv_empty es
  rw [reload_eq hc] at h'
  obtain ⟨n, hn, hk⟩ := keys_hostDict h
  obtain ⟨n', hn', hk'⟩ := keys_hostDict h'
  simp only at hn'
  rw [hn] at hn'
  injection hn' with hn'
  subst hn'
  have heq : keys hd' = keys hd := by rw [hk, hk']
  refine ⟨?_, heq, ?_, ?_⟩
  · rw [hk]; exact hc.keysOk.2 _ (mem_of_aget hn)
  · intro x; rw [heq]
  · intro i; rw [heq]

/-- F10: `_get_node_name` as it was (compare the id with the host's IP number) is not the
inverse of `_get_node_id`: for a one-node network on localhost `name(id(Alice))` is a KeyError. -/
theorem get_node_name_unfixed_counterexample :
    ¬ ∀ (ip : Host → Nat) (hd : List (Name × Sock)) (x : Name) (i : Nat), x ∈ keys hd →
      nodeId strLt (keys hd) x = some i → Unfixed.nodeName ip hd (i : Int) = some x := by
  intro h
  have := h (fun _ => 2130706433) [("Alice", ("localhost", 8001))] "Alice" 0 (by decide) (by decide)
  revert this
  decide

/-- the defect repaired by the third commit of `fix-c16`: with no port left in 8000..9000 the
old loop hands out `(host, None)` again and again — two endpoints coincide. -/
theorem port_exhaustion_unfixed_counterexample :
    ¬ ∀ (osFree : Port → Bool) (used : List (Host × Option Port)) (h : Host),
      Unfixed.reserve1 osFree (used ++ [Unfixed.reserve1 osFree used h]) h
        ≠ Unfixed.reserve1 osFree used h := by
  intro h
  apply h (fun _ => false) [] "localhost"
  simp [Unfixed.reserve1]

/-! ### non-vacuity: concrete instances satisfy the hypotheses -/

/-- a history with an explicit-port clash, a removal and a reload -/
def sampleHistory : List ((Port → Bool) × Edit) :=
  [(fun _ => true, .addNode "Bob" none ⟨(none, some 8005), (none, none), (some "127.0.0.1", some 8005)⟩ (some [])),
   (fun p => p != 8000, .addNode "Alice" none ⟨(none, some 8005), (none, none), (none, none)⟩ none),
   (fun _ => true, .addNode "Alice" none Specs.auto (some ["Bob"])),
   (fun _ => true, .removeNode "Bob" none),
   (fun _ => true, .reload)]

/-- the history really exercises a refusal (Alice's explicit port 8005 is Bob's), an overwrite,
a removal that must clean the topology, and a reload that rebuilds `used_sockets` -/
example : run Cfg.empty sampleHistory =
    ⟨[("default", ⟨some [("Alice", [])],
        [("Alice", ⟨("localhost", 8001), ("localhost", 8002), ("localhost", 8003)⟩)]⟩)],
     [("localhost", 8001), ("localhost", 8002), ("localhost", 8003)]⟩ := by decide +kernel
example : (step (fun p => p != 8000) (run Cfg.empty (sampleHistory.take 1))
    (.addNode "Alice" none ⟨(none, some 8005), (none, none), (none, none)⟩ none)).2 = .inUse := by
  decide +kernel
example : (run Cfg.empty sampleHistory).eps.Nodup := endpoints_unique _

example : Inv witnessF9 :=
  ⟨by decide, by decide, by decide, by decide⟩
example : aget (netName none) (removeNode witnessF9 "A" none).networks
    = some ⟨some [("B", [])], [("B", ⟨("localhost", 8003), ("localhost", 8004), ("localhost", 8005)⟩)]⟩ := by
  decide
example : (["Charlie", "Alice", "Bob"] : List String).Nodup ∧ "Bob" ∈ (["Charlie", "Alice", "Bob"] : List String) := by
  decide
example : nodeId strLt ["Charlie", "Alice", "Bob"] "Bob" = some 1 ∧
    nodeName strLt ["Charlie", "Alice", "Bob"] 1 = some "Bob" := by decide
example : (["Charlie", "Alice", "Bob"] : List String).Perm ["Alice", "Bob", "Charlie"] := by decide
example : KeysOk witnessF9.networks := ⟨by decide, by decide⟩

end SqVerif.C16

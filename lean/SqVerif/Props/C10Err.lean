import SqVerif.FramingErrLemmas
/-
C10, failure part — a complete host message whose handling FAILS is still answered.

Model: `SqVerif/FramingErr.lean` (the node of `Framing.lean` plus the way a handler ends:
`ok | caught | escapes`, the reply rule, and Error replies).  It mirrors the repaired
`log_error` (branch `fix-c10-err`); `Framing.Old.repliesOf` of that file mirrors `log_error`
before the fix and carries the counter-example.

Every theorem quantifies over ALL event sequences: connections opening at any time, reads of
any size on any connection in any interleaving (so: any cutting of every byte stream), suspended
handlers ending in any order and in any of the three ways, any deserialiser `ok`, any choice of
the handlers that suspend (`async`) and of how the others end (`outcome`).
-/
namespace SqVerif.C10
open SqVerif.Framing

/-! ## T10.6  failures do not change what is handled, nor the Dones -/

/-- Forget the Error replies and how handlers ended: what remains is, state for state, the run of
the node of `Framing.lean` in which every handler simply returns.  Buffers, the messages handed to
the handler (which, in which order, for which connection), the suspended handlers, the connections
dropped, and the Done replies (id, connection, order) are the same — "the messages after a failed
one are handled as if it had succeeded".  All theorems of `Props/C10.lean` about `run` therefore
hold for the node with failures. -/
theorem failure_refines_success (ok async : Bytes → Bool) (outcome : Bytes → Outcome) (evs : List EvE) :
    (runE ok async outcome {} evs).forget = run ok async {} (evs.map EvE.forget) :=
  run_forget async outcome evs {}

/-! ## T10.7  every message is answered: one Done, an Error before it iff its handling raised -/

/-- For every history:
(1) everything written to the hosts is the concatenation, over the ends of handlers in the order
    they happened, of: `[Done id]` for a handler that returned, `[Error, Done id]` for one that
    raised (inside or outside the executor) — every entry on the connection the message arrived on;
(2) every call of the handler (connection, frame) has ended exactly once unless it is still
    suspended, and never twice;
(3) a handler that does not suspend ended the way `outcome` says (so its answer is there as soon
    as the read that completed the message returns). -/
theorem failed_message_is_answered (ok async : Bytes → Bool) (outcome : Bytes → Outcome) (evs : List EvE) :
    let s := runE ok async outcome {} evs
    s.written = s.finished.flatMap
      (fun e => (answer e.2.2 (msgOf e.2.1).id).map (fun r => ((e.1, e.1, r) : Wr))) ∧
    (∀ c f, s.finished.countP (fun e => e.1 == c && e.2.1 == f) +
            s.pending.countP (fun p => p.1 == c && p.2 == f) =
            s.handled.countP (fun p => p.1 == c && p.2 == f)) ∧
    (∀ e ∈ s.finished, async e.2.1 = false → e.2.2 = outcome e.2.1) := by
  have h := run_answered (ok := ok) repliesOf async outcome evs {} (answered_init _ _ _)
  refine ⟨?_, h.once, h.sync⟩
  show (runG repliesOf ok async outcome {} evs).written = _
  rw [h.written]
  congr 1
  funext e
  obtain ⟨c, f, o⟩ := e
  cases o <;> rfl

/-- the Done bookkeeping of `one_done_per_message` with failing handlers: per connection `c` and id
`i`, (Dones with id `i` written to `c`) + (handlers for a message `i` of `c` still suspended) =
(messages `i` handled for `c`) — a failed message gets its Done, and only one. -/
theorem one_done_per_message_with_failures (ok async : Bytes → Bool) (outcome : Bytes → Outcome)
    (evs : List EvE) (c i : Nat) :
    (runE ok async outcome {} evs).written.countP (fun w => w.1 == c && w.2.2 == Reply.done i) +
    (runE ok async outcome {} evs).pending.countP (fun p => p.1 == c && (msgOf p.2).id == i) =
    (runE ok async outcome {} evs).handled.countP (fun p => p.1 == c && (msgOf p.2).id == i) := by
  have h := run_balanced (ok := ok) async (evs.map EvE.forget) {} (by intro c i; rfl) c i
  rw [← failure_refines_success ok async outcome evs] at h
  rw [← countP_doneOnly]
  exact h

/-- Errors too are written to the connection the failed message arrived on. -/
theorem replies_on_arrival_connection_with_failures (ok async : Bytes → Bool) (outcome : Bytes → Outcome)
    (evs : List EvE) : ∀ w ∈ (runE ok async outcome {} evs).written, w.1 = w.2.1 := by
  intro w hw
  have h := run_answered (ok := ok) repliesOf async outcome evs {} (answered_init _ _ _)
  have hw' : w ∈ (runG repliesOf ok async outcome {} evs).written := hw
  rw [h.written, List.mem_flatMap] at hw'
  obtain ⟨e, _, hwe⟩ := hw'
  obtain ⟨h1, h2⟩ := repliesOf_routed e.1 e.2.1 e.2.2 w hwe
  rw [h1, h2]

/-- With handlers that never suspend: what a host reads on its connection is, message by message
in arrival order, `Done id` — preceded by `Error` exactly when the handling of that message raised. -/
theorem failures_answered_in_arrival_order (ok : Bytes → Bool) (outcome : Bytes → Outcome)
    (evs : List EvE) (c : Nat) :
    (runE ok (fun _ => false) outcome {} evs).repliesOn c =
      ((runE ok (fun _ => false) outcome {} evs).handledOn c).flatMap
        (fun f => answer (outcome f) (msgOf f).id) := by
  have ha := run_answered (ok := ok) repliesOf (fun _ => false) outcome evs {} (answered_init _ _ _)
  obtain ⟨_, hf⟩ := run_syncE (ok := ok) outcome evs {} ⟨rfl, rfl⟩
  show (((runG repliesOf ok (fun _ => false) outcome {} evs).written.filter (·.1 == c)).map (·.2.2)) = _
  rw [ha.written]
  have hf' : (runG repliesOf ok (fun _ => false) outcome {} evs).finished = _ := hf
  rw [hf']
  exact replies_flatMap_on outcome c _

/-- The statement of the property for one connection, whatever else happens on the node.  Take any
history `pre`, open a new connection, let anything happen afterwards (`post`: other connections'
reads — well-formed, failing, or garbage that gets them dropped —, this connection's reads cut and
interleaved arbitrarily).  If the bytes delivered on the new connection are the encoding of the
well-formed messages `ms`, the host reads on it exactly: for each message of `ms` in order, `Done`
with its id, preceded by `Error` iff its handling raised.  A failing message neither wedges its
connection nor costs a later message its answer. -/
theorem connection_failures_answered (ok : Bytes → Bool) (outcome : Bytes → Outcome) (pre post : List EvE)
    (ms : List Msg) (hwf : ∀ m ∈ ms, m.WF ok)
    (hdata : (dataForE (runE ok (fun _ => false) outcome {} pre).bufs.length post).flatten = encodeAll ms) :
    (runE ok (fun _ => false) outcome {} (pre ++ .connect :: post)).repliesOn
        (runE ok (fun _ => false) outcome {} pre).bufs.length =
      ms.flatMap (fun m => answer (outcome (encode m)) m.id) := by
  rw [failures_answered_in_arrival_order]
  -- the frames handled for the new connection are `ms.map encode`
  have hfr : (runE ok (fun _ => false) outcome {} (pre ++ .connect :: post)).handledOn
      (runE ok (fun _ => false) outcome {} pre).bufs.length = ms.map encode := by
    have e1 : (runE ok (fun _ => false) outcome {} (pre ++ .connect :: post)).handledOn
        (runE ok (fun _ => false) outcome {} pre).bufs.length =
        ((runE ok (fun _ => false) outcome {} (pre ++ .connect :: post)).forget).handledOn
          ((runE ok (fun _ => false) outcome {} pre).forget).bufs.length := rfl
    rw [e1, failure_refines_success, failure_refines_success]
    simp only [List.map_append, List.map_cons]
    have hE : EvE.forget .connect = Ev.connect := rfl
    rw [hE]
    generalize hpre : pre.map EvE.forget = pre'
    have hdata' : (dataFor (run ok (fun _ => false) {} pre').bufs.length (post.map EvE.forget)).flatten
        = encodeAll ms := by
      rw [dataFor_forget]
      have : (run ok (fun _ => false) {} pre').bufs.length =
          (runE ok (fun _ => false) outcome {} pre).bufs.length := by
        rw [← hpre, ← failure_refines_success ok (fun _ => false) outcome pre]; rfl
      rw [this]; exact hdata
    have hin : InRange (run ok (fun _ => false) {} pre') :=
      run_inRange _ pre' {} (by intro p hp; cases hp)
    obtain ⟨hb, hh⟩ := fresh_connection (ok := ok) (fun _ => false) _ hin
    have hrun : run ok (fun _ => false) {} (pre' ++ Ev.connect :: post.map EvE.forget) =
        run ok (fun _ => false) (step ok (fun _ => false) (run ok (fun _ => false) {} pre') .connect)
          (post.map EvE.forget) := by
      rw [run_append]; rfl
    obtain ⟨h1, _⟩ := run_projection (ok := ok) (fun _ => false) (post.map EvE.forget) _ _ [] hb
    rw [hrun, h1, hh, List.nil_append]
    have hgood : ∀ f ∈ ms.map encode, Good srvSize ok f := by
      intro f hf
      obtain ⟨m, hm, rfl⟩ := List.mem_map.mp hf
      exact good_encode (hwf m hm)
    rw [feed_goods srvSize_stable (ms.map encode) hgood [] srv_settled_nil srv_settled_nil _
      (by rw [hdata', List.append_nil]; rfl)]
  rw [hfr]
  clear hfr hdata
  induction ms with
  | nil => rfl
  | cons m ms ih =>
    simp only [List.map_cons, List.flatMap_cons]
    rw [ih (fun m' hm' => hwf m' (by simp [hm'])), msgOf_encode m (hwf m (by simp)).id_lt]

/-- `log_error` before the fix: a message whose handling raised outside the executor is never
answered (the error reply is handed to the transport as an object, `TypeError`).  Full statement,
false of `Old`: `one_done_per_message_with_failures`.  Witness: one connection, one StopApp message
(id 7, application 7 is not open). -/
theorem failed_message_is_answered_counterexample :
    ¬ ∀ (ok async : Bytes → Bool) (outcome : Bytes → Outcome) (evs : List EvE) (c i : Nat),
        (Old.runE ok async outcome {} evs).written.countP (fun w => w.1 == c && w.2.2 == Reply.done i) +
        (Old.runE ok async outcome {} evs).pending.countP (fun p => p.1 == c && (msgOf p.2).id == i) =
        (Old.runE ok async outcome {} evs).handled.countP (fun p => p.1 == c && (msgOf p.2).id == i) := by
  intro h
  have hp : parseOne srvSize (fun _ => true) (encode ⟨7, [3, 0, 0, 0, 7, 0, 0, 0]⟩) =
      .frame (encode ⟨7, [3, 0, 0, 0, 7, 0, 0, 0]⟩) [] := by decide
  have hn : parseOne srvSize (fun _ => true) [] = .incomplete := by decide
  have hd := drain_frame hp
  rw [drain_incomplete hn] at hd
  have := h (fun _ => true) (fun _ => false) (fun _ => .escapes)
    [.connect, .data 0 (encode ⟨7, [3, 0, 0, 0, 7, 0, 0, 0]⟩)] 0 7
  simp only [Old.runE, runG, List.foldl_cons, List.foldl_nil, stepG, List.length_nil,
    List.nil_append, List.getElem?_cons_zero, hd, NodeE.handle, Bool.false_eq_true, if_false,
    NodeE.finish, Old.repliesOf, List.append_nil] at this
  revert this
  decide

/-! ## T10.8  a frame the deserialiser rejects -/

/-- What the code does with bytes that are not a message (no judgement — the property speaks of
messages).  Let the stream be well-formed messages `ms`, then a complete frame `bad` that the
deserialiser rejects (unknown type byte, structure shorter than its class, announced length not
larger than the header) and anything behind it.  However the stream is cut into reads: exactly `ms`
is handed to the handler, in order; the read that completes `bad` raises (twisted drops the
connection) and nothing behind it is ever handled.  By `connection_failures_answered` (whose `pre`
and `post` are arbitrary) no other connection notices. -/
theorem bad_frame_closes_its_connection (ok : Bytes → Bool) (ms : List Msg) (hwf : ∀ m ∈ ms, m.WF ok)
    (bad rest : Bytes) (hbad : parseOne srvSize ok bad = .malformed)
    (cs : List Bytes) (hcs : cs.flatten = encodeAll ms ++ (bad ++ rest)) :
    (feed srvSize ok [] cs).frames = ms.map encode ∧
    (feed srvSize ok [] cs).frames.map msgOf = ms ∧
    (feed srvSize ok [] cs).err = true := by
  have hgood : ∀ f ∈ ms.map encode, Good srvSize ok f := by
    intro f hf
    obtain ⟨m, hm, rfl⟩ := List.mem_map.mp hf
    exact good_encode (hwf m hm)
  have hm := parse_append_malformed srvSize_stable hbad rest
  have h : feed srvSize ok [] cs = ⟨ms.map encode, bad ++ rest, true⟩ := by
    rw [feed_eq_drain srvSize_stable cs [] srv_settled_nil, List.nil_append, hcs]
    exact drain_goods_bad srvSize_stable (ms.map encode) hgood _ hm
  rw [h]
  refine ⟨rfl, ?_, rfl⟩
  simp only [List.map_map]
  conv => rhs; rw [← List.map_id ms]
  apply List.map_congr_left
  intro m hm
  exact msgOf_encode m (hwf m hm).id_lt

/-! ## non-vacuity -/

/-- InitNewApp(app 0), StopApp(app 7: not open — its handling escapes), StopApp(app 0) -/
def msgs0 : List Msg :=
  [⟨1, [0, 0, 0, 0, 0, 0, 0, 0, 5, 0, 0, 0]⟩, ⟨2, [3, 0, 0, 0, 7, 0, 0, 0]⟩, ⟨3, [3, 0, 0, 0, 0, 0, 0, 0]⟩]

example : ∀ m ∈ msgs0, m.WF (deserOk [12, 24, 1, 8, 2]) := by
  intro m hm
  simp only [msgs0, List.mem_cons, List.mem_nil_iff, or_false] at hm
  rcases hm with rfl | rfl | rfl <;> exact ⟨by decide, by decide, by decide⟩

/-- the hypothesis of `connection_failures_answered` with `pre = []`: the three messages cut in the
middle of the first and of the third; the answer is `Done 1, Error, Done 2, Done 3` -/
example : (dataForE 0 [.data 0 ((encodeAll msgs0).take 5), .data 0 (((encodeAll msgs0).drop 5).take 40),
    .data 0 ((encodeAll msgs0).drop 45)]).flatten = encodeAll msgs0 := by decide

example : msgs0.flatMap (fun m => answer
      ((fun f => if f = encode ⟨2, [3, 0, 0, 0, 7, 0, 0, 0]⟩ then Outcome.escapes else .ok) (encode m)) m.id) =
    [.done 1, .error, .done 2, .done 3] := by decide

/-- an unknown type byte (9) in a well-framed message is `malformed` for netqasm's size table -/
example : parseOne srvSize (deserOk [12, 24, 1, 8, 2]) (encode ⟨2, [9, 1, 2, 3]⟩) = .malformed := by decide

/-- so is a header that announces 3 bytes -/
example : parseOne srvSize (deserOk [12, 24, 1, 8, 2]) [2, 0, 0, 0, 3, 0, 0, 0, 97, 98] = .malformed := by
  decide

end SqVerif.C10

import SqVerif.Drive.Noise
/- `lake env lean --run run/noise.lean`: one query per input line, one canonical observation per output line. -/
def main : IO Unit := SqVerif.Drive.loopStateless SqVerif.Drive.Noise.handle

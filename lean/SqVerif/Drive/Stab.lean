import SqVerif.Stab
import SqVerif.Drive.Util
/- driver for the stabilizer model.  A state is `n | row row ...`, each row a
   bit string of length 2n+1 (X part, Z part, sign) exactly as a row of the
   NumPy matrix `_group`; `-` stands for "no rows".
   in : g1 <X|Y|Z|H|K|S> j | n | rows          out: ok n | rows   or ValueError
        g2 <CNOT|CZ> c t | n | rows
        tensor | n1 | rows1 | n2 | rows2
        addq | n | rows
        gauss | w | rows                        (any number of rows)
        contains | w | rows | row               out: true / false
        eq | n1 | rows1 | n2 | rows2            out: true / false
        measure j <inplace 0/1> <coin 0/1> | n | rows   out: ok <outcome> n | rows
        mul | w | row1 row2                     out: ok w | row -/
namespace SqVerif.Drive.Stab
open SqVerif.Stab SqVerif.Drive

def parseRow (w : Nat) (s : String) : Option Row :=
  let bs := s.toList.map (· == '1')
  if bs.length ≠ 2 * w + 1 ∨ s.toList.any (fun c => c ≠ '0' ∧ c ≠ '1') then none
  else some { ps := (List.range w).map fun i => (bs.getD i false, bs.getD (w + i) false), neg := bs.getD (2 * w) false }

def showRow (w : Nat) (r : Row) : String :=
  String.ofList ((List.range (2 * w + 1)).map fun k => if r.bit w k then '1' else '0')

def parseRows (w : Nat) (ws : List String) : Option (List Row) :=
  if ws == ["-"] then some [] else ws.mapM (parseRow w)

def showSt (s : St) : String :=
  toString s.n ++ " | " ++ (if s.rows.isEmpty then "-" else " ".intercalate (s.rows.map (showRow s.n)))

def splitBar (ws : List String) : List (List String) :=
  ws.foldr (fun w acc => if w == "|" then [] :: acc else
    match acc with | [] => [[w]] | h :: t => (w :: h) :: t) [[]]

def parseSt (n : List String) (rows : List String) : Option St :=
  match n with
  | [n] => do let n ← n.toNat?; let rs ← parseRows n rows; pure { n := n, rows := rs }
  | _ => none

def gate1? : String → Option Gate1
  | "X" => some .X | "Y" => some .Y | "Z" => some .Z | "H" => some .H | "K" => some .K | "S" => some .S | _ => none
def gate2? : String → Option Gate2
  | "CNOT" => some .CNOT | "CZ" => some .CZ | _ => none

def okSt : Option St → String
  | some s => "ok " ++ showSt s
  | none => "ValueError"

def handle (line : String) : String :=
  match splitBar (words line) with
  | [["g1", g, j], n, rows] =>
    match gate1? g, j.toNat?, parseSt n rows with
    | some g, some j, some s => okSt (applyGate1 g j s)
    | _, _, _ => "bad-op"
  | [["g2", g, c, t], n, rows] =>
    match gate2? g, c.toNat?, t.toNat?, parseSt n rows with
    | some g, some c, some t, some s => okSt (applyGate2 g c t s)
    | _, _, _, _ => "bad-op"
  | [["tensor"], n1, r1, n2, r2] =>
    match parseSt n1 r1, parseSt n2 r2 with
    | some a, some b => okSt (some (tensor a b))
    | _, _ => "bad-op"
  | [["addq"], n, rows] =>
    match parseSt n rows with
    | some s => okSt (some (addQubit s))
    | none => "bad-op"
  | [["gauss"], [w], rows] =>
    match w.toNat? with
    | some w => match parseRows w rows with
      | some rs => "ok " ++ showSt { n := w, rows := gauss w rs }
      | none => "bad-op"
    | none => "bad-op"
  | [["contains"], [w], rows, [stab]] =>
    match w.toNat? with
    | some w => match parseRows w rows, parseRow w stab with
      | some rs, some st => toString (contains w rs st)
      | _, _ => "bad-op"
    | none => "bad-op"
  | [["eq"], n1, r1, n2, r2] =>
    match parseSt n1 r1, parseSt n2 r2 with
    | some a, some b => toString (stEq a b)
    | _, _ => "bad-op"
  | [["measure", j, ip, coin], n, rows] =>
    match j.toNat?, parseSt n rows with
    | some j, some s =>
      match measure s j (ip == "1") (coin == "1") with
      | some (o, s') => "ok " ++ (if o then "1 " else "0 ") ++ showSt s'
      | none => "ValueError"
    | _, _ => "bad-op"
  | [["mul"], [w], [a, b]] =>
    match w.toNat? with
    | some w => match parseRow w a, parseRow w b with
      | some a, some b => "ok " ++ showSt { n := w, rows := [mulRow a b] }
      | _, _ => "bad-op"
    | none => "bad-op"
  | _ => "bad-op"

end SqVerif.Drive.Stab

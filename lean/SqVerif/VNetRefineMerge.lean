import SqVerif.VNetRefine
/-
L2 — the two register-merge primitives, token level.

* `mergeFrom` (`remote_merge_from`): explicit result (`mergeFrom_eq`), denotations of all
  handles afterwards (`mergeFrom_den_other`, `mergeFrom_den_moved`), token conservation.
* `localMerge` (`local_merge_regs`): the same (`localMerge_den_other`, `localMerge_den_moved`).
-/
namespace SqVerif.VNet

theorem Net.ext' {a b : Net} (h1 : a.nodes = b.nodes) (h2 : a.sqs = b.sqs) (h3 : a.vqs = b.vqs)
    (h4 : a.nextTok = b.nextTok) : a = b := by
  cases a; cases b; simp_all

theorem map_virt_modify (l : List Node) (i : Nat) (f : Node → Node) (hf : ∀ n : Node, (f n).virt = n.virt) :
    (l.modify i f).map (·.virt) = l.map (·.virt) := map_modify_of_eq l i f _ hf

/-! ### `repoint` -/

/-- what `repoint` does to one handle -/
def repointVQ (s : Net) (src oldReg dst : Nat) (newD : List Nat) (h : Nat) (vq : VQ) : VQ :=
  if ((allHeld s).contains h && vq.simNode == src) then
    match s.sqs[vq.simObj]? with
    | some old => if old.reg == oldReg then
        { vq with simNode := dst, simObj := newD.getD old.pos vq.simObj } else vq
    | none => vq
  else vq

theorem repoint_vqs_get (s : Net) (src oldReg dst : Nat) (newD : List Nat) (h : Nat) :
    (repoint s src oldReg dst newD).vqs[h]? = (s.vqs[h]?).map (repointVQ s src oldReg dst newD h) := by
  simp only [repoint, List.getElem?_mapIdx]; rfl

/-! ### `mergeFrom` -/

/-- the old simulator drops the register and its simulated qubits (`get_register_del`) -/
def srcDrop (s : Net) (oldReg : Nat) (nd : Node) : Node :=
  ({ nd with sim := nd.sim.filter fun o' => match s.sqs[o']? with
                                            | some q' => q'.reg != oldReg
                                            | none => true }).delReg oldReg

/-- the new simulator appends the tokens to `lr` and gets the new simulated qubits -/
def dstAbsorb (lr : Nat) (oldR : Reg) (L : Nat) (nd : Node) : Node :=
  { (nd.modReg lr fun r => { r with max := r.max + oldR.toks.length, toks := r.toks ++ oldR.toks }) with
    sim := nd.sim ++ List.range' L oldR.toks.length }

/-- state after the node/sqs part of `mergeFrom`, before `repoint` -/
def mergeMid (s : Net) (dst src lr : Nat) (oldReg : Nat) (oldR : Reg) (news : List SQ) : Net :=
  { nodes := (s.nodes.modify src (srcDrop s oldReg)).modify dst (dstAbsorb lr oldR s.sqs.length),
    sqs := s.sqs ++ news, vqs := s.vqs, nextTok := s.nextTok }

section mergeFrom
variable {s : Net} {dst src o lr : Nat} {q : SQ} {sn dn : Node} {oldR locR : Reg}

theorem mergeFrom_eq (hq : s.sqs[o]? = some q) (hsn : s.nodes[src]? = some sn) (hdn : s.nodes[dst]? = some dn)
    (hold : sn.reg? q.reg = some oldR) (hloc : dn.reg? lr = some locR) :
    ∃ news : List SQ, news.length = oldR.toks.length ∧
      (∀ j, j < oldR.toks.length → ∃ x, news[j]? = some ⟨dst, x, lr, locR.toks.length + j, true⟩) ∧
      mergeFrom s dst src o lr =
        (repoint (mergeMid s dst src lr q.reg oldR news) src q.reg dst (List.range' s.sqs.length oldR.toks.length),
         (List.range' s.sqs.length oldR.toks.length).getD q.pos o,
         [.exportDel src q.reg, .delReg src q.reg, .absorbParts dst lr src q.reg]) := by
  let s1 := modNode s src (srcDrop s q.reg)
  let s2 := modNode s1 dst fun nd =>
    nd.modReg lr fun r => { r with max := r.max + oldR.toks.length, toks := r.toks ++ oldR.toks }
  have hd2 : ∃ nd2, s2.nodes[dst]? = some nd2 := by
    have : dst < s.nodes.length := (List.getElem?_eq_some_iff.1 hdn).1
    have : dst < s2.nodes.length := by simpa [s2, s1] using this
    exact ⟨_, List.getElem?_eq_getElem this⟩
  obtain ⟨nd2, hnd2⟩ := hd2
  obtain ⟨e1, e2, e3, ⟨news, e4, e5, e6⟩, e7⟩ :=
    mkSims_spec dst lr locR.toks.length oldR.toks.length 0 s2 nd2 hnd2
  refine ⟨news, e5, ?_, ?_⟩
  · intro j hj
    obtain ⟨x, hx⟩ := e6 j hj
    exact ⟨x, by simpa using hx⟩
  · have hunf : mergeFrom s dst src o lr =
        (repoint (mkSims s2 dst lr locR.toks.length oldR.toks.length 0).1 src q.reg dst
            (mkSims s2 dst lr locR.toks.length oldR.toks.length 0).2,
         (mkSims s2 dst lr locR.toks.length oldR.toks.length 0).2.getD q.pos o,
         [.exportDel src q.reg, .delReg src q.reg, .absorbParts dst lr src q.reg]) := by
      simp only [mergeFrom, hq, hsn, hdn, hold, hloc]; rfl
    rw [hunf, e1]
    have hst : (mkSims s2 dst lr locR.toks.length oldR.toks.length 0).1
        = mergeMid s dst src lr q.reg oldR news := by
      apply Net.ext'
      · rw [e7]; simp only [s2, s1, modNode_nodes, modNode_sqs, mergeMid]
        rw [modify_modify']; rfl
      · rw [e4]; rfl
      · rw [e2]; rfl
      · rw [e3]; rfl
    rw [hst]; rfl

theorem mergeMid_nodes_get (hsn : s.nodes[src]? = some sn) (hdn : s.nodes[dst]? = some dn) (hne : src ≠ dst)
    (news : List SQ) (j : Nat) :
    (mergeMid s dst src lr q.reg oldR news).nodes[j]? =
      if j = dst then some (dstAbsorb lr oldR s.sqs.length dn)
      else if j = src then some (srcDrop s q.reg sn) else s.nodes[j]? := by
  simp only [mergeMid, getElem?_modify']
  by_cases h1 : j = dst
  · subst h1; simp [hdn, hne]
  · by_cases h2 : j = src
    · subst h2; simp [hsn, h1, Ne.symm h1]
    · simp [h1, h2, Ne.symm h1, Ne.symm h2]

theorem mergeMid_allHeld (news : List SQ) (r : Nat) :
    allHeld (mergeMid s dst src lr r oldR news) = allHeld s := by
  apply allHeld_eq_of_virt
  simp only [mergeMid]
  rw [map_virt_modify _ dst (dstAbsorb lr oldR s.sqs.length) (fun _ => rfl),
    map_virt_modify _ src (srcDrop s _) (fun _ => rfl)]

/-- handles not pointing into the exported register keep their denotation verbatim -/
theorem mergeFrom_den_other (hq : s.sqs[o]? = some q) (hsn : s.nodes[src]? = some sn)
    (hdn : s.nodes[dst]? = some dn) (hold : sn.reg? q.reg = some oldR) (hloc : dn.reg? lr = some locR)
    (hne : src ≠ dst) {h o' n r p t : Nat} (d : Den s h o' n r p t) (hnot : ¬ (n = src ∧ r = q.reg)) :
    Den (mergeFrom s dst src o lr).1 h o' n r p t := by
  obtain ⟨news, hlen, hnews, heq⟩ := mergeFrom_eq hq hsn hdn hold hloc
  rw [heq]
  obtain ⟨vq, sq, nd, rg, hv, rfl, rfl, hs, hsnode, rfl, rfl, hn, hr, ht⟩ := d
  have hs3 : (mergeMid s dst src lr q.reg oldR news).sqs[vq.simObj]? = some sq := by
    simp only [mergeMid]
    rw [List.getElem?_append_left (List.getElem?_eq_some_iff.1 hs).1]; exact hs
  have hvq : repointVQ (mergeMid s dst src lr q.reg oldR news) src q.reg dst
      (List.range' s.sqs.length oldR.toks.length) h vq = vq := by
    unfold repointVQ
    split
    · rename_i hc
      simp only [Bool.and_eq_true, beq_iff_eq] at hc
      rw [hs3]; simp only
      split
      · rename_i hreg
        simp only [beq_iff_eq] at hreg
        exact absurd ⟨hc.2, hreg⟩ hnot
      · rfl
    · rfl
  have hv' : (repoint (mergeMid s dst src lr q.reg oldR news) src q.reg dst
      (List.range' s.sqs.length oldR.toks.length)).vqs[h]? = some vq := by
    rw [repoint_vqs_get]
    show Option.map _ (s.vqs[h]?) = _
    rw [hv, Option.map_some, hvq]
  -- the node and its register
  have hnode : ∃ nd' rg', (mergeMid s dst src lr q.reg oldR news).nodes[vq.simNode]? = some nd' ∧
      nd'.reg? sq.reg = some rg' ∧ rg'.toks[sq.pos]? = some t := by
    rw [mergeMid_nodes_get hsn hdn hne]
    by_cases h1 : vq.simNode = dst
    · rw [h1] at hn; rw [hdn] at hn; cases hn
      simp only [h1, if_true]
      have hreg : (dstAbsorb lr oldR s.sqs.length dn).reg? sq.reg
          = if sq.reg = lr then (dn.reg? sq.reg).map
              (fun r => { r with max := r.max + oldR.toks.length, toks := r.toks ++ oldR.toks })
            else dn.reg? sq.reg := by
        unfold dstAbsorb
        exact reg?_modReg _ _ _ _ (fun _ => rfl)
      by_cases h2 : sq.reg = lr
      · refine ⟨_, { rg with max := rg.max + oldR.toks.length, toks := rg.toks ++ oldR.toks }, rfl, ?_, ?_⟩
        · rw [hreg, if_pos h2, hr]; rfl
        · show (rg.toks ++ oldR.toks)[sq.pos]? = _
          rw [List.getElem?_append_left (List.getElem?_eq_some_iff.1 ht).1]; exact ht
      · refine ⟨_, rg, rfl, ?_, ht⟩
        rw [hreg, if_neg h2, hr]
    · by_cases h2 : vq.simNode = src
      · rw [h2] at hn; rw [hsn] at hn; cases hn
        simp only [h2, hne, if_true, if_false]
        refine ⟨_, rg, rfl, ?_, ht⟩
        unfold srcDrop
        rw [reg?_delReg]
        have : sq.reg ≠ q.reg := fun e => hnot ⟨h2, e⟩
        simp only [this, if_false]; exact hr
      · simp only [h1, h2, if_false]; exact ⟨nd, rg, hn, hr, ht⟩
  obtain ⟨nd', rg', hn', hr', ht'⟩ := hnode
  exact ⟨vq, sq, nd', rg', hv', rfl, rfl, hs3, hsnode, rfl, rfl, hn', hr', ht'⟩

/-- held handles pointing into the exported register are re-pointed to the new simulated
qubits, which sit behind the absorbing register's old content, in the original order -/
theorem mergeFrom_den_moved (hq : s.sqs[o]? = some q) (hsn : s.nodes[src]? = some sn)
    (hdn : s.nodes[dst]? = some dn) (hold : sn.reg? q.reg = some oldR) (hloc : dn.reg? lr = some locR)
    (hne : src ≠ dst) {h o' p t : Nat} (d : Den s h o' src q.reg p t) (hh : h ∈ allHeld s) :
    Den (mergeFrom s dst src o lr).1 h (s.sqs.length + p) dst lr (locR.toks.length + p) t := by
  obtain ⟨news, hlen, hnews, heq⟩ := mergeFrom_eq hq hsn hdn hold hloc
  rw [heq]
  obtain ⟨vq, sq, nd, rg, hv, rfl, hvn, hs, hsnode, hsr, rfl, hn, hr, ht⟩ := d
  rw [hsn] at hn; cases hn
  rw [hold] at hr; cases hr
  have hp : sq.pos < oldR.toks.length := (List.getElem?_eq_some_iff.1 ht).1
  have hs3 : (mergeMid s dst src lr q.reg oldR news).sqs[vq.simObj]? = some sq := by
    simp only [mergeMid]
    rw [List.getElem?_append_left (List.getElem?_eq_some_iff.1 hs).1]; exact hs
  have hvq : repointVQ (mergeMid s dst src lr q.reg oldR news) src q.reg dst
      (List.range' s.sqs.length oldR.toks.length) h vq
      = { vq with simNode := dst, simObj := s.sqs.length + sq.pos } := by
    unfold repointVQ
    rw [mergeMid_allHeld]
    have : ((allHeld s).contains h && vq.simNode == src) = true := by
      simp [hh, hvn]
    rw [if_pos this, hs3]
    simp only [hsr, beq_self_eq_true, if_true]
    rw [List.getD_eq_getElem?_getD, List.getElem?_range' hp]
    simp
  obtain ⟨x, hx⟩ := hnews sq.pos hp
  refine ⟨{ vq with simNode := dst, simObj := s.sqs.length + sq.pos },
    ⟨dst, x, lr, locR.toks.length + sq.pos, true⟩, dstAbsorb lr oldR s.sqs.length dn, { locR with max := locR.max + oldR.toks.length, toks := locR.toks ++ oldR.toks },
    ?_, rfl, rfl, ?_, rfl, rfl, rfl, ?_, ?_, ?_⟩
  · rw [repoint_vqs_get]
    show Option.map _ (s.vqs[h]?) = _
    rw [hv, Option.map_some, hvq]
  · show (s.sqs ++ news)[s.sqs.length + sq.pos]? = _
    rw [List.getElem?_append_right (by omega)]
    simpa using hx
  · show (mergeMid s dst src lr q.reg oldR news).nodes[dst]? = _
    rw [mergeMid_nodes_get hsn hdn hne]; simp
  · unfold dstAbsorb
    refine (reg?_modReg dn lr lr (fun r => { r with max := r.max + oldR.toks.length, toks := r.toks ++ oldR.toks })
      (fun _ => rfl)).trans ?_
    simp [hloc]
  · show (locR.toks ++ oldR.toks)[locR.toks.length + sq.pos]? = _
    rw [List.getElem?_append_right (by omega)]
    simpa using ht

/-- the value `mergeFrom` returns for the handle whose object was passed -/
theorem mergeFrom_ret (hq : s.sqs[o]? = some q) (hsn : s.nodes[src]? = some sn)
    (hdn : s.nodes[dst]? = some dn) (hold : sn.reg? q.reg = some oldR) (hloc : dn.reg? lr = some locR)
    (hp : q.pos < oldR.toks.length) :
    (mergeFrom s dst src o lr).2.1 = s.sqs.length + q.pos ∧
    (mergeFrom s dst src o lr).2.2 = [.exportDel src q.reg, .delReg src q.reg, .absorbParts dst lr src q.reg] := by
  obtain ⟨news, hlen, hnews, heq⟩ := mergeFrom_eq hq hsn hdn hold hloc
  rw [heq]
  refine ⟨?_, rfl⟩
  show (List.range' s.sqs.length oldR.toks.length).getD q.pos o = _
  rw [List.getD_eq_getElem?_getD, List.getElem?_range' hp]; simp

/-- frame: lists of held handles, every other node, register numbers, token multiset -/
theorem mergeFrom_frame (hq : s.sqs[o]? = some q) (hsn : s.nodes[src]? = some sn)
    (hdn : s.nodes[dst]? = some dn) (hold : sn.reg? q.reg = some oldR) (hloc : dn.reg? lr = some locR)
    (hne : src ≠ dst) :
    (mergeFrom s dst src o lr).1.nodes.map (·.virt) = s.nodes.map (·.virt) ∧
    (mergeFrom s dst src o lr).1.nextTok = s.nextTok ∧
    (∀ j, (mergeFrom s dst src o lr).1.nodes[j]? =
      if j = dst then some (dstAbsorb lr oldR s.sqs.length dn)
      else if j = src then some (srcDrop s q.reg sn) else s.nodes[j]?) ∧
    (∀ j x, j < s.sqs.length → ((mergeFrom s dst src o lr).1.sqs[j]? = some x ↔ s.sqs[j]? = some x)) := by
  obtain ⟨news, hlen, hnews, heq⟩ := mergeFrom_eq hq hsn hdn hold hloc
  rw [heq]
  refine ⟨?_, rfl, ?_, ?_⟩
  · show (mergeMid s dst src lr q.reg oldR news).nodes.map (·.virt) = _
    simp only [mergeMid]
    rw [map_virt_modify _ dst (dstAbsorb lr oldR s.sqs.length) (fun _ => rfl),
    map_virt_modify _ src (srcDrop s _) (fun _ => rfl)]
  · intro j; exact mergeMid_nodes_get hsn hdn hne news j
  · intro j x hj
    show (s.sqs ++ news)[j]? = some x ↔ _
    rw [List.getElem?_append_left hj]

/-- token conservation through `mergeFrom` (needs distinct register numbers at both nodes) -/
theorem mergeFrom_count (hq : s.sqs[o]? = some q) (hsn : s.nodes[src]? = some sn)
    (hdn : s.nodes[dst]? = some dn) (hold : sn.reg? q.reg = some oldR) (hloc : dn.reg? lr = some locR)
    (hne : src ≠ dst) (hnd1 : (sn.regs.map (·.num)).Nodup) (hnd2 : (dn.regs.map (·.num)).Nodup) (t : Nat) :
    (allToks (mergeFrom s dst src o lr).1).count t = (allToks s).count t := by
  obtain ⟨news, hlen, hnews, heq⟩ := mergeFrom_eq hq hsn hdn hold hloc
  rw [heq]
  show (allToks (mergeMid s dst src lr q.reg oldR news)).count t = _
  have e : allToks (mergeMid s dst src lr q.reg oldR news)
      = allToks (modNode (modNode s src (srcDrop s q.reg)) dst (dstAbsorb lr oldR s.sqs.length)) := rfl
  rw [e]
  have hdn1 : (modNode s src (srcDrop s q.reg)).nodes[dst]? = some dn := by
    rw [modNode_get]; simp [hne, hdn]
  have c2 := count_allToks_modNode (modNode s src (srcDrop s q.reg)) dst (dstAbsorb lr oldR s.sqs.length) dn t hdn1
  have c1 := count_allToks_modNode s src (srcDrop s q.reg) sn t hsn
  have c3 : (nodeToks (srcDrop s q.reg sn)).count t + oldR.toks.count t = (nodeToks sn).count t :=
    count_nodeToks_delReg { sn with sim := _ } q.reg oldR t hnd1 hold
  have c4 : (nodeToks (dstAbsorb lr oldR s.sqs.length dn)).count t + locR.toks.count t
      = (nodeToks dn).count t + (locR.toks ++ oldR.toks).count t :=
    count_nodeToks_modReg dn lr _ locR t hnd2 hloc
  rw [List.count_append] at c4
  omega

end mergeFrom

/-! ### `localMerge` -/

def lmNode (q1 q2 : SQ) (r2 : Reg) (nd : Node) : Node :=
  (nd.modReg q1.reg fun r => { r with max := r.max + r2.toks.length, toks := r.toks ++ r2.toks }).delReg q2.reg

def lmSQ (nd : Node) (q1 q2 : SQ) (offset : Nat) (o : Nat) (q : SQ) : SQ :=
  if (nd.sim.contains o && q.reg == q2.reg) then { q with reg := q1.reg, pos := q.pos + offset } else q

section localMerge
variable {s : Net} {n o1 o2 : Nat} {q1 q2 : SQ} {nd : Node} {r1 r2 : Reg}

theorem localMerge_eq (hq1 : s.sqs[o1]? = some q1) (hq2 : s.sqs[o2]? = some q2) (hnd : s.nodes[n]? = some nd)
    (hne : q1.reg ≠ q2.reg) (hr1 : nd.reg? q1.reg = some r1) (hr2 : nd.reg? q2.reg = some r2) :
    localMerge s n o1 o2 =
      ({ nodes := s.nodes.modify n (lmNode q1 q2 r2), sqs := s.sqs.mapIdx (lmSQ nd q1 q2 r1.toks.length),
         vqs := s.vqs, nextTok := s.nextTok }, [.absorb n q1.reg q2.reg, .delReg n q2.reg]) := by
  have hb : (q1.reg == q2.reg) = false := by simp [hne]
  simp only [localMerge, hq1, hq2, hnd, hr1, hr2, hb]
  rfl

theorem localMerge_same (hq1 : s.sqs[o1]? = some q1) (hq2 : s.sqs[o2]? = some q2) (hnd : s.nodes[n]? = some nd)
    (he : q1.reg = q2.reg) : localMerge s n o1 o2 = (s, []) := by
  simp [localMerge, hq1, hq2, hnd, he]

theorem lmNode_reg? (r : Nat) :
    (lmNode q1 q2 r2 nd).reg? r = if r = q2.reg then none else
      if r = q1.reg then (nd.reg? r).map (fun x => { x with max := x.max + r2.toks.length, toks := x.toks ++ r2.toks })
      else nd.reg? r := by
  unfold lmNode
  rw [reg?_delReg]
  by_cases h : r = q2.reg
  · simp [h]
  · simp only [h, if_false]
    exact reg?_modReg _ _ _ _ (fun _ => rfl)

/-- handles outside the absorbed register keep their denotation verbatim -/
theorem localMerge_den_other (hq1 : s.sqs[o1]? = some q1) (hq2 : s.sqs[o2]? = some q2)
    (hnd : s.nodes[n]? = some nd) (hne : q1.reg ≠ q2.reg) (hr1 : nd.reg? q1.reg = some r1)
    (hr2 : nd.reg? q2.reg = some r2)
    (hsimOK : ∀ o, o ∈ nd.sim → ∀ sq, s.sqs[o]? = some sq → sq.node = n)
    {h o n' r p t : Nat} (d : Den s h o n' r p t) (hnot : ¬ (n' = n ∧ r = q2.reg)) :
    Den (localMerge s n o1 o2).1 h o n' r p t := by
  rw [localMerge_eq hq1 hq2 hnd hne hr1 hr2]
  obtain ⟨vq, sq, nd', rg, hv, rfl, rfl, hs, hsnode, rfl, rfl, hn, hr, ht⟩ := d
  have hsq : lmSQ nd q1 q2 r1.toks.length vq.simObj sq = sq := by
    unfold lmSQ
    split
    · rename_i hc
      simp only [Bool.and_eq_true, beq_iff_eq, List.contains_iff_mem] at hc
      exact absurd ⟨(hsimOK _ hc.1 sq hs) ▸ hsnode.symm, hc.2⟩ hnot
    · rfl
  have hs' : (s.sqs.mapIdx (lmSQ nd q1 q2 r1.toks.length))[vq.simObj]? = some sq := by
    rw [List.getElem?_mapIdx, hs, Option.map_some, hsq]
  by_cases h1 : vq.simNode = n
  · rw [h1] at hn; rw [hnd] at hn; cases hn
    have hrne : sq.reg ≠ q2.reg := fun e => hnot ⟨h1, e⟩
    by_cases h2 : sq.reg = q1.reg
    · refine ⟨vq, sq, lmNode q1 q2 r2 nd, { rg with max := rg.max + r2.toks.length, toks := rg.toks ++ r2.toks },
        hv, rfl, rfl, hs', hsnode, rfl, rfl, ?_, ?_, ?_⟩
      · show (s.nodes.modify n _)[vq.simNode]? = _
        rw [getElem?_modify', h1]; simp [hnd]
      · rw [lmNode_reg?, if_neg hrne, if_pos h2, hr]; rfl
      · show (rg.toks ++ r2.toks)[sq.pos]? = _
        rw [List.getElem?_append_left (List.getElem?_eq_some_iff.1 ht).1]; exact ht
    · refine ⟨vq, sq, lmNode q1 q2 r2 nd, rg, hv, rfl, rfl, hs', hsnode, rfl, rfl, ?_, ?_, ht⟩
      · show (s.nodes.modify n _)[vq.simNode]? = _
        rw [getElem?_modify', h1]; simp [hnd]
      · rw [lmNode_reg?, if_neg hrne, if_neg h2, hr]
  · refine ⟨vq, sq, nd', rg, hv, rfl, rfl, hs', hsnode, rfl, rfl, ?_, hr, ht⟩
    show (s.nodes.modify n _)[vq.simNode]? = _
    rw [getElem?_modify', if_neg (Ne.symm h1)]; exact hn

/-- handles into the absorbed register now point behind the absorbing register's old content -/
theorem localMerge_den_moved (hq1 : s.sqs[o1]? = some q1) (hq2 : s.sqs[o2]? = some q2)
    (hnd : s.nodes[n]? = some nd) (hne : q1.reg ≠ q2.reg) (hr1 : nd.reg? q1.reg = some r1)
    (hr2 : nd.reg? q2.reg = some r2)
    {h o p t : Nat} (d : Den s h o n q2.reg p t) (hin : o ∈ nd.sim) :
    Den (localMerge s n o1 o2).1 h o n q1.reg (p + r1.toks.length) t := by
  rw [localMerge_eq hq1 hq2 hnd hne hr1 hr2]
  obtain ⟨vq, sq, nd', rg, hv, rfl, hvn, hs, hsnode, hsr, rfl, hn, hr, ht⟩ := d
  rw [hnd] at hn; cases hn
  rw [hr2] at hr; cases hr
  have hsq : lmSQ nd q1 q2 r1.toks.length vq.simObj sq = { sq with reg := q1.reg, pos := sq.pos + r1.toks.length } := by
    unfold lmSQ
    have : (nd.sim.contains vq.simObj && sq.reg == q2.reg) = true := by simp [hin, hsr]
    rw [if_pos this]
  refine ⟨vq, { sq with reg := q1.reg, pos := sq.pos + r1.toks.length }, lmNode q1 q2 r2 nd,
    { r1 with max := r1.max + r2.toks.length, toks := r1.toks ++ r2.toks }, hv, rfl, hvn, ?_, hsnode, rfl, rfl, ?_, ?_, ?_⟩
  · show (s.sqs.mapIdx _)[vq.simObj]? = _
    rw [List.getElem?_mapIdx, hs, Option.map_some, hsq]
  · show (s.nodes.modify n _)[n]? = _
    rw [getElem?_modify']; simp [hnd]
  · rw [lmNode_reg?, if_neg hne, if_pos rfl, hr1]; rfl
  · show (r1.toks ++ r2.toks)[sq.pos + r1.toks.length]? = _
    rw [List.getElem?_append_right (by omega)]
    simpa using ht

theorem localMerge_count (hq1 : s.sqs[o1]? = some q1) (hq2 : s.sqs[o2]? = some q2)
    (hnd : s.nodes[n]? = some nd) (hne : q1.reg ≠ q2.reg) (hr1 : nd.reg? q1.reg = some r1)
    (hr2 : nd.reg? q2.reg = some r2) (hnodup : (nd.regs.map (·.num)).Nodup) (t : Nat) :
    (allToks (localMerge s n o1 o2).1).count t = (allToks s).count t := by
  rw [localMerge_eq hq1 hq2 hnd hne hr1 hr2]
  show (allToks (modNode s n (lmNode q1 q2 r2))).count t = _
  have c1 := count_allToks_modNode s n (lmNode q1 q2 r2) nd t hnd
  let f : Reg → Reg := fun r => { r with max := r.max + r2.toks.length, toks := r.toks ++ r2.toks }
  have c2 : (nodeToks (nd.modReg q1.reg f)).count t + r1.toks.count t
      = (nodeToks nd).count t + (r1.toks ++ r2.toks).count t :=
    count_nodeToks_modReg nd q1.reg f r1 t hnodup hr1
  have hr2' : (nd.modReg q1.reg f).reg? q2.reg = some r2 := by
    rw [reg?_modReg nd q1.reg q2.reg f (fun _ => rfl), if_neg (Ne.symm hne)]; exact hr2
  have c3 : (nodeToks (lmNode q1 q2 r2 nd)).count t + r2.toks.count t = (nodeToks (nd.modReg q1.reg f)).count t :=
    count_nodeToks_delReg (nd.modReg q1.reg f) q2.reg r2 t (by rw [modReg_nums nd q1.reg f (fun _ => rfl)]; exact hnodup) hr2'
  rw [List.count_append] at c2
  omega

end localMerge

end SqVerif.VNet

import SqVerif.JointLemmasStep
/-
C01 joint layer, part 9 — the engine-level invariant `JInv` follows from the C02 invariant `WF`
of the L2 state and the L2×L1 coupling `Agree` (so the step theorem can be stated with these
two as its only structural hypotheses), and the slot labels of the engines are exactly the
tokens of the L2 state.
-/
set_option linter.unusedSimpArgs false
set_option linter.unusedVariables false
namespace SqVerif.Joint
open SqVerif.Stab SqVerif.VNet SqVerif.VNetEng SqVerif.C01

theorem nodup_flatMap_of {α β : Type} (f : α → List β) : ∀ (l : List α), (∀ a, a ∈ l → (f a).Nodup) →
    l.Pairwise (fun a b => ∀ x, x ∈ f a → x ∈ f b → False) → (l.flatMap f).Nodup
  | [], _, _ => List.nodup_nil
  | a :: l, h1, h2 => by
    rw [List.pairwise_cons] at h2
    rw [List.flatMap_cons, List.nodup_append]
    refine ⟨h1 a List.mem_cons_self, nodup_flatMap_of f l (fun b hb => h1 b (List.mem_cons_of_mem _ hb)) h2.2, ?_⟩
    intro x hx y hy e
    subst e
    obtain ⟨b, hb, hxb⟩ := List.mem_flatMap.1 hy
    exact h2.1 b hb x hx hxb

/-- in a duplicate-free `flatMap`, two different elements contribute disjoint lists -/
theorem flatMap_disj_val {α β : Type} (f : α → List β) : ∀ (l : List α), (l.flatMap f).Nodup → ∀ a b, a ∈ l → b ∈ l →
    a ≠ b → ∀ x, x ∈ f a → x ∈ f b → False
  | [], _, a, _, ha, _, _, _, _, _ => by cases ha
  | c :: l, hn, a, b, ha, hb, hne, x, hxa, hxb => by
    rw [List.flatMap_cons, List.nodup_append] at hn
    rcases List.mem_cons.1 ha with rfl | ha'
    · rcases List.mem_cons.1 hb with rfl | hb'
      · exact hne rfl
      · exact hn.2.2 x hxa x (List.mem_flatMap.2 ⟨b, hb', hxb⟩) rfl
    · rcases List.mem_cons.1 hb with rfl | hb'
      · exact hn.2.2 x hxb x (List.mem_flatMap.2 ⟨a, ha', hxa⟩) rfl
      · exact flatMap_disj_val f l hn.2.1 a b ha' hb' hne x hxa hxb

/-- … and so do two different positions -/
theorem flatMap_disj_idx {α β : Type} (f : α → List β) : ∀ (l : List α), (l.flatMap f).Nodup → ∀ (i j : Nat) a b,
    l[i]? = some a → l[j]? = some b → i ≠ j → ∀ x, x ∈ f a → x ∈ f b → False
  | [], _, i, _, _, _, hi, _, _, _, _, _ => by simp at hi
  | c :: l, hn, 0, 0, _, _, _, _, hne, _, _, _ => absurd rfl hne
  | c :: l, hn, 0, j + 1, a, b, hi, hj, _, x, hxa, hxb => by
    rw [List.flatMap_cons, List.nodup_append] at hn
    simp only [List.getElem?_cons_zero, Option.some.injEq] at hi
    simp only [List.getElem?_cons_succ] at hj
    subst hi
    exact hn.2.2 x hxa x (List.mem_flatMap.2 ⟨b, List.mem_of_getElem? hj, hxb⟩) rfl
  | c :: l, hn, i + 1, 0, a, b, hi, hj, _, x, hxa, hxb => by
    rw [List.flatMap_cons, List.nodup_append] at hn
    simp only [List.getElem?_cons_zero, Option.some.injEq] at hj
    simp only [List.getElem?_cons_succ] at hi
    subst hj
    exact hn.2.2 x hxb x (List.mem_flatMap.2 ⟨a, List.mem_of_getElem? hi, hxa⟩) rfl
  | c :: l, hn, i + 1, j + 1, a, b, hi, hj, hne, x, hxa, hxb => by
    rw [List.flatMap_cons, List.nodup_append] at hn
    simp only [List.getElem?_cons_succ] at hi hj
    exact flatMap_disj_idx f l hn.2.1 i j a b hi hj (fun e => hne (by rw [e])) x hxa hxb

theorem reg?_num {nd : Node} {r : Nat} {rg : VNet.Reg} (h : nd.reg? r = some rg) : rg.num = r := by
  unfold Node.reg? at h
  simpa using List.find?_some h

/-- a register found in the list is the one `reg?` finds under its number -/
theorem reg?_of_mem {nd : Node} {rg : VNet.Reg} (hnd : (nd.regs.map (·.num)).Nodup) (hm : rg ∈ nd.regs) :
    nd.reg? rg.num = some rg := by
  unfold Node.reg?
  cases hf : nd.regs.find? (fun r => r.num == rg.num) with
  | none =>
    have := List.find?_eq_none.1 hf rg hm
    simp at this
  | some rg' =>
    have h1 : rg' ∈ nd.regs := List.mem_of_find?_eq_some hf
    have h2 : rg'.num = rg.num := by simpa using List.find?_some hf
    obtain ⟨i, hi⟩ := List.mem_iff_getElem?.1 h1
    obtain ⟨j, hj⟩ := List.mem_iff_getElem?.1 hm
    have hi' : (nd.regs.map (·.num))[i]? = some rg.num := by rw [List.getElem?_map, hi, ← h2]; rfl
    have hj' : (nd.regs.map (·.num))[j]? = some rg.num := by rw [List.getElem?_map, hj]; rfl
    have hil : i < (nd.regs.map (·.num)).length := (List.getElem?_eq_some_iff.1 hi').1
    have : i = j := (List.getElem?_inj hil hnd).1 (hi'.trans hj'.symm)
    subst this
    rw [hi] at hj; exact hj

theorem mem_allToks {s : Net} {x : Nat} :
    x ∈ allToks s ↔ ∃ (n : Nat) (nd : Node) (rg : VNet.Reg), s.nodes[n]? = some nd ∧ rg ∈ nd.regs ∧ x ∈ rg.toks := by
  unfold allToks
  constructor
  · intro h
    obtain ⟨nd, hnd, hx⟩ := List.mem_flatMap.1 h
    obtain ⟨rg, hrg, hx'⟩ := List.mem_flatMap.1 hx
    obtain ⟨n, hn⟩ := List.mem_iff_getElem?.1 hnd
    exact ⟨n, nd, rg, hn, hrg, hx'⟩
  · rintro ⟨n, nd, rg, hn, hrg, hx⟩
    exact List.mem_flatMap.2 ⟨nd, List.mem_of_getElem? hn, List.mem_flatMap.2 ⟨rg, hrg, hx⟩⟩

/-- the slot labels of the engines are exactly the tokens stored in the L2 registers -/
theorem allSlots_iff_allToks {s : Net} {e : EngSt} (hwf : WF s) (hA : Agree s e) (x : Nat) :
    x ∈ allSlots e.regs ↔ x ∈ allToks s := by
  rw [mem_allSlots, mem_allToks]
  constructor
  · rintro ⟨p, hp, hx⟩
    obtain ⟨nd, rg, hn, hr, hs, _⟩ := agree_engine hA (aget_of_mem _ (agree_keys hA) p hp)
    exact ⟨p.1.1, nd, rg, hn, reg?_mem hr, hs ▸ hx⟩
  · rintro ⟨n, nd, rg, hn, hrg, hx⟩
    have hr := reg?_of_mem (hwf.nodes _ _ hn).regNumsNodup hrg
    obtain ⟨en, hk, hs, _⟩ := agree_reg hA hn hr
    exact ⟨((n, rg.num), en), mem_of_aget _ _ _ hk, hs ▸ hx⟩

theorem jinv_of_agree {s : Net} {e : EngSt} (hwf : WF s) (hA : Agree s e) : JInv e := by
  have hkeys := agree_keys hA
  have hfl : e.flight = [] := by
    have := hA.lab.flight
    simpa [EngSt.labs] using this
  have hnx : e.next = s.nextTok := hA.lab.next
  refine ⟨hkeys, fun p hp => hA.inv.regs _ _ (aget_of_mem _ hkeys p hp), ?_, ?_, hfl⟩
  · apply nodup_flatMap_of
    · intro p hp
      obtain ⟨nd, rg, hn, hr, hs, _⟩ := agree_engine hA (aget_of_mem _ hkeys p hp)
      rw [hs]
      have h1 := nodup_of_flatMap _ s.nodes hwf.toksNodup nd (List.mem_of_getElem? hn)
      exact nodup_of_flatMap _ nd.regs h1 rg (reg?_mem hr)
    · have hpw : e.regs.Pairwise (fun p q => p.1 ≠ q.1) := List.pairwise_map.1 hkeys
      refine hpw.imp_of_mem ?_
      intro p q hp hq hne x hxp hxq
      obtain ⟨nd, rg, hn, hr, hs, _⟩ := agree_engine hA (aget_of_mem _ hkeys p hp)
      obtain ⟨nd', rg', hn', hr', hs', _⟩ := agree_engine hA (aget_of_mem _ hkeys q hq)
      rw [hs] at hxp; rw [hs'] at hxq
      by_cases hnode : p.1.1 = q.1.1
      · rw [hnode, hn'] at hn; cases hn
        have hrne : rg ≠ rg' := by
          intro e0; subst e0
          have e1 := reg?_num hr; have e2 := reg?_num hr'
          exact hne (Prod.ext hnode (e1.symm.trans e2))
        have h1 := nodup_of_flatMap _ s.nodes hwf.toksNodup _ (List.mem_of_getElem? hn')
        exact flatMap_disj_val _ _ h1 rg rg' (reg?_mem hr) (reg?_mem hr') hrne x hxp hxq
      · exact flatMap_disj_idx _ s.nodes hwf.toksNodup p.1.1 q.1.1 nd nd' hn hn' hnode x
          (List.mem_flatMap.2 ⟨rg, reg?_mem hr, hxp⟩) (List.mem_flatMap.2 ⟨rg', reg?_mem hr', hxq⟩)
  · intro x hx
    rw [hnx]
    exact hwf.toksFresh x ((allSlots_iff_allToks hwf hA x).1 hx)

end SqVerif.Joint

"""C06 -- stale handles are inert
(simulaqron/virtual_node/virtual.py, quantum.py).

Thin module: program generation, execution of the REAL virtual-node code on
harness/simnet.py, the tie against the Lean model `VNet` (driver `vnet`:
result, engine-call trace and object-graph snapshot after EVERY op) and all
oracles live in harness/vnetcase.py.  This check owns the oracle
"ops through handles that left their node change nothing and return None; unheld handles are inactive";
failures of the other L2 oracles (owned by C01/C02/C05/C06/C07) are listed as
notes in the evidence.

Stage "operations pipelined behind a departure" (harness/vnet_pipeline.py):
for every departure (destructive measure, send) x placement (local / remote /
third node) x register layout (departing qubit first / middle / last of 2-3,
asymmetric product and entangled states) 1-2 further operations are written
through the SAME handle to the same connection immediately behind the
departing operation (nobody waits for its reply), under FIFO, random, PCT and
delay-injection schedules; results, final joint state, positions and existence
of all qubits must equal a serial outcome "ran before the departure" / "was
inert" (ideal-register reference), then every op kind through the old handle
must be inert.  The combinations that are open same-handle findings of C03 /
C04 on the unchanged tree (pipelined send / destructive measure / two-qubit
gate with a mate, see the module docstring of vnet_pipeline for the exact
list) are left out."""
from .. import core
from .. import vnetcase
from .. import vnet_pipeline

LEAN_TARGETS = ["SqVerif.Props.C06"]
PROPS_FILE = "SqVerif/Props/C06.lean"
DRIVE_TARGETS = ["SqVerif.Drive.VNet"]
TRUSTED = [
    "model VNet.lean hand-written from virtual.py / quantum.py (after the repairs F1 F2 F3); tied by differential execution "
    "after every op: result, engine-call trace, object-graph snapshot (this check)",
    "harness/simnet.py: real virtualNode objects over real Perspective Broker on in-memory pipes, FIFO delivery, fake clock",
    "creation-order identities and the engine-call trace are taken by wrapping constructors / engine methods of the scratch "
    "copy from outside",
    "NumPy state-vector reference (complex128, tolerance 1e-8) and the conventions qubit 0 = leftmost factor, "
    "K = [[1,-i],[i,-1]]/sqrt2 (validated against the stabilizer code by C13/C14)",
]
ASSUMPTIONS = [
    "operations are issued one after the other, each to completion (interleavings are C03/C04); pipeline stage: one client "
    "pipelines calls through ONE handle on one connection; a pipelined op that is itself a departure or a two-qubit gate "
    "with a second qubit is left out (open same-handle findings of C03/C04)",
    "stabilizer backend, noise off; two-qubit gates only between handles held by the same node (the API cannot express more)",
    "no send addressed to the issuing node (deadlocks: known finding under C04)",
]


def run(ctx):
    rp = getattr(ctx, "replay", None)
    if rp and vnet_pipeline.is_pipe(rp):
        return vnet_pipeline.stage(ctx, core.Result())
    res = vnetcase.run_check(ctx, "C06")
    if not rp:
        vnet_pipeline.stage(ctx, res)
    return res


def search(ctx, res, broken):
    return vnetcase.search(ctx, res, broken, "C06")

import SqVerif.StabGaussLemmas
/-
L0 — uniqueness of the reduced form of a stabilizer group (for `__eq__`) and the
rank argument behind `_contains`.
-/
namespace SqVerif.Stab.Gauss

/-! ### identity rows and validity -/

theorem ps_id_of_getP (n : Nat) (ps : List P1) (hl : ps.length = n) (h : ∀ j, getP ps j = (false, false)) :
    ps = idPad n := by
  apply List.ext_getElem (by simp [idPad, hl])
  intro i h1 h2
  have := h i
  simp only [getP, List.getD_eq_getElem?_getD, List.getElem?_eq_getElem h1, Option.getD_some] at this
  simp [idPad, this]

theorem ps_id_of_bits (n : Nat) (r : Row) (hl : r.ps.length = n) (h : ∀ k, k < 2 * n → r.bit n k = false) :
    r.ps = idPad n :=
  ps_id_of_getP n r.ps hl (letters_id_of_bits n r.ps hl (fun k hk => by rw [← bit_lt n r k hk]; exact h k hk))

theorem unitv_ne_zeros (m a : Nat) (ha : a < m) : unitv m a ≠ List.replicate m false := by
  intro e
  have := unitv_getD m a a ha
  rw [e, replicate_getD] at this
  simp at this

theorem valid_row_ne_id {n : Nat} {g : List Row} (hv : Valid n g) (i : Nat) (hi : i < g.length) :
    (g.getD i dflt).ps ≠ idPad n := by
  intro e
  have h1 := prodSel_unitv n g hv.width i hi
  have := hv.indep (unitv g.length i) (unitv_length _ _) (by rw [h1.1]; exact e)
  exact unitv_ne_zeros _ _ hi this

theorem valid_no_minus_one {n : Nat} {g : List Row} (hv : Valid n g) : ¬ InGroup n g ⟨2, idPad n⟩ := by
  rintro ⟨c, hl, hc⟩
  have := hv.indep c hl hc.1
  rw [this, prodSel_zeros] at hc
  have := hc.2
  simp [one] at this

/-- a reduced valid list: every row is a pivot row with a letter pivot column -/
theorem valid_reduced_full {n : Nat} {t : List Row} (hv : Valid n t) {h : Nat} {piv : Nat → Nat}
    (R : RedAt n t h piv) : h = t.length ∧ ∀ i, i < h → piv i < 2 * n := by
  constructor
  · by_cases e : h = t.length
    · exact e
    · have hlt : h < t.length := by have := R.hle; omega
      exact absurd (ps_id_of_bits n _ (hv.width _ (getD_mem t h hlt)) (fun k _ => R.zero h (Nat.le_refl _) k))
        (valid_row_ne_id hv h hlt)
  · intro i hi
    by_cases e : piv i < 2 * n
    · exact e
    · have hlt : i < t.length := by have := R.hle; omega
      exact absurd (ps_id_of_bits n _ (hv.width _ (getD_mem t i hlt)) (fun k hk => R.lead i hi k (by omega)))
        (valid_row_ne_id hv i hlt)

/-! ### coefficients of a group element with respect to a reduced list -/

theorem red_coeff {n : Nat} {t : List Row} (hw : ∀ r, r ∈ t → r.ps.length = n) {h : Nat} {piv : Nat → Nat}
    (R : RedAt n t h piv) (c : List Bool) (q : POp) (hq : prodSel n c (dens t) ≈ₚ q) (i : Nat) (hi : i < h)
    (hp : piv i < 2 * n) : c.getD i false = lbit n q.ps (piv i) := by
  have h1 := prodSel_bit n c t hw (piv i) hp
  rw [hq.1] at h1
  have h2 := selXor_single n (piv i) c t i (fun j hj => by rw [R.uniq i hi j hj]; simp)
  rw [R.one i hi, Bool.and_true] at h2
  rw [h1, h2]

theorem row_eq_of_den_eqv {a b : Row} (h : a.den ≈ₚ b.den) : a = b := by
  obtain ⟨h1, h2⟩ := h
  rcases a with ⟨aps, an⟩
  rcases b with ⟨bps, bn⟩
  simp only [Row.den] at h1 h2
  subst h1
  cases an <;> cases bn <;> simp_all

/-- pivot columns: one inequality -/
theorem piv_le {n : Nat} {A B : List Row} (_hwA : ∀ r, r ∈ A → r.ps.length = n) (hwB : ∀ r, r ∈ B → r.ps.length = n)
    {hA hB : Nat} {pA pB : Nat → Nat} (RA : RedAt n A hA pA) (RB : RedAt n B hB pB)
    (i : Nat) (hiA : i < hA) (hpA : pA i < 2 * n)
    (hprev : ∀ j, j < i → j < hB ∧ pB j = pA j)
    (hin : InGroup n B (A.getD i dflt).den) : i < hB ∧ pB i ≤ pA i := by
  obtain ⟨c, _, hc⟩ := hin
  have hbit := prodSel_bit n c B hwB (pA i) hpA
  rw [hc.1] at hbit
  have hone : lbit n (A.getD i dflt).ps (pA i) = true := by rw [← bit_lt n _ _ hpA]; exact RA.one i hiA
  have hcj : ∀ j, j < i → c.getD j false = false := by
    intro j hj
    have hB' := hprev j hj
    have hpj : pB j < 2 * n := by rw [hB'.2]; have := RA.mono j i hj hiA; omega
    rw [red_coeff hwB RB c _ hc j hB'.1 hpj]
    show lbit n (A.getD i dflt).ps (pB j) = false
    rw [← bit_lt n _ _ hpj, hB'.2]
    exact RA.uniq j (by omega) i (by omega)
  apply Classical.byContradiction
  intro hno
  have : selXor n (pA i) c B = false := by
    apply selXor_zero
    intro j
    by_cases hj : j < i
    · rw [hcj j hj]; rfl
    · by_cases hjB : j < hB
      · have hiB : i < hB := by omega
        have hlt : pA i < pB i := by
          apply Classical.byContradiction
          intro h'
          exact hno ⟨hiB, by omega⟩
        have : pA i < pB j := by
          by_cases e : j = i
          · rw [e]; exact hlt
          · have := RB.mono i j (by omega) hjB; omega
        rw [RB.lead j hjB _ this]; simp
      · rw [RB.zero j (by omega)]; simp
  rw [← hbit, Row.den, hone] at this
  cases this

/-- **the reduced form of a stabilizer group is unique** -/
theorem reduced_unique {n : Nat} {A B : List Row} (hvA : Valid n A) (hvB : Valid n B)
    (hrA : Reduced n A) (hrB : Reduced n B) (hs : SameGroup n A B) : A = B := by
  obtain ⟨hA, pA, RA⟩ := hrA
  obtain ⟨hB, pB, RB⟩ := hrB
  obtain ⟨eA, fA⟩ := valid_reduced_full hvA RA
  obtain ⟨eB, fB⟩ := valid_reduced_full hvB RB
  have hlen : A.length = B.length := hvA.count.trans hvB.count.symm
  have hAB : hA = hB := by omega
  subst hAB
  have inB : ∀ i, i < hA → InGroup n B (A.getD i dflt).den :=
    fun i hi => (hs _).1 (inGroup_mem hvA.width (getD_mem A i (by omega)))
  have inA : ∀ i, i < hA → InGroup n A (B.getD i dflt).den :=
    fun i hi => (hs _).2 (inGroup_mem hvB.width (getD_mem B i (by omega)))
  have hpiv : ∀ i, i < hA → pA i = pB i := by
    intro i
    induction i using Nat.strongRecOn with
    | _ i ih =>
      intro hi
      have h1 := piv_le hvA.width hvB.width RA RB i hi (fA i hi)
        (fun j hj => ⟨by omega, (ih j hj (by omega)).symm⟩) (inB i hi)
      have h2 := piv_le hvB.width hvA.width RB RA i hi (fB i hi)
        (fun j hj => ⟨by omega, ih j hj (by omega)⟩) (inA i hi)
      omega
  apply List.ext_getElem hlen
  intro i h1 h2
  have hi : i < hA := by omega
  obtain ⟨c, hcl, hc⟩ := inB i hi
  have hcu : c = unitv B.length i := by
    apply list_ext_getD
    · rw [hcl, unitv_length]
    · intro j hj
      have hjA : j < hA := by omega
      rw [red_coeff hvB.width RB c _ hc j hjA (fB j hjA), unitv_getD _ _ _ h2]
      show lbit n (A.getD i dflt).ps (pB j) = _
      rw [← bit_lt n _ _ (fB j hjA), ← hpiv j hjA]
      by_cases e : j = i
      · rw [e, RA.one i hi]; simp
      · rw [RA.uniq j hjA i (fun e' => e e'.symm)]; simp [e]
  rw [hcu] at hc
  have := eqv_trans (eqv_symm hc) (prodSel_unitv n B hvB.width i h2)
  have := row_eq_of_den_eqv this
  simpa [List.getD_eq_getElem?_getD, List.getElem?_eq_getElem h1, List.getElem?_eq_getElem h2] using this

/-! ### `_contains`: the rank argument -/

theorem isSymplectic_iff (rows : List Row) :
    isSymplectic rows = true ↔ ∀ a, a ∈ rows → ∀ b, b ∈ rows → antiL a.ps b.ps = false := by
  simp [isSymplectic, sympl, List.all_eq_true]

theorem isZero_iff (w : Nat) (r : Row) : r.isZero w = true ↔ ∀ k, k < 2 * w + 1 → r.bit w k = false := by
  simp [Row.isZero, List.all_eq_true]

theorem filter_count_of_split (p : Row → Bool) (t : List Row) (h : Nat) (hle : h ≤ t.length)
    (h1 : ∀ i, i < h → p (t.getD i dflt) = false) (h2 : ∀ i, h ≤ i → i < t.length → p (t.getD i dflt) = true) :
    (t.filter p).length = t.length - h := by
  induction t generalizing h with
  | nil => simp
  | cons a as ih =>
    cases h with
    | zero =>
      have ha : p a = true := by simpa using h2 0 (by omega) (by simp)
      have := ih 0 (by omega) (fun i hi => by omega) (fun i _ hi => by simpa using h2 (i + 1) (by omega) (by simpa using hi))
      simp [ha, this]
    | succ h =>
      have ha : p a = false := by simpa using h1 0 (by omega)
      have := ih h (by simpa using hle) (fun i hi => by simpa using h1 (i + 1) (by omega))
        (fun i hi hl => by simpa using h2 (i + 1) (by omega) (by simpa using hl))
      simp [ha, this]

/-- the number of zero rows of a reduced list -/
theorem reduced_zero_count {w : Nat} {t : List Row} {h : Nat} {piv : Nat → Nat} (R : RedAt w t h piv) :
    (t.filter (Row.isZero w)).length = t.length - h := by
  apply filter_count_of_split _ t h R.hle
  · intro i hi
    cases hz : (t.getD i dflt).isZero w with
    | false => rfl
    | true =>
      have := (isZero_iff w _).1 hz (piv i) (R.lt i hi)
      rw [R.one i hi] at this
      cases this
  · intro i hi _
    exact (isZero_iff w _).2 (fun k _ => R.zero i hi k)

theorem den_zero_row (n : Nat) (r : Row) (hl : r.ps.length = n) (h : ∀ k, r.bit n k = false) : r.den = one n := by
  have h1 := ps_id_of_bits n r hl (fun k _ => h k)
  have h2 : r.neg = false := by rw [← bit_sign n r]; exact h _
  rcases r with ⟨ps, neg⟩
  simp only at h1 h2
  subst h1; subst h2
  rfl

theorem snoc_of_length (c : List Bool) (m : Nat) (h : c.length = m + 1) :
    ∃ c' x, c = c' ++ [x] ∧ c'.length = m := by
  induction m generalizing c with
  | zero =>
    match c, h with
    | [x], _ => exact ⟨[], x, rfl, rfl⟩
  | succ m ih =>
    match c, h with
    | a :: cs, h =>
      obtain ⟨c', x, e, hl⟩ := ih cs (by simpa using h)
      exact ⟨a :: c', x, by rw [e]; rfl, by simp [hl]⟩

theorem prodSel_snoc (n : Nat) (g : List Row) (hw : ∀ r, r ∈ g → r.ps.length = n) (s : Row) (hs : s.ps.length = n)
    (c : List Bool) (x : Bool) (hc : c.length = g.length) :
    prodSel n (c ++ [x]) (dens (g ++ [s])) ≈ₚ prodSel n c (dens g) ⋆ (if x then s.den else one n) := by
  induction g generalizing c with
  | nil =>
    have : c = [] := by simpa using hc
    subst this
    have h1 : (one n).len = n := by simp [one, POp.len]
    cases x
    · simp only [List.nil_append, dens, List.map_cons, List.map_nil, prodSel, Bool.false_eq_true, if_false]
      exact eqv_symm (one_mul n _ h1)
    · simp only [List.nil_append, dens, List.map_cons, List.map_nil, prodSel, if_true]
      exact eqv_trans (mul_one n _ hs) (eqv_symm (one_mul n _ hs))
  | cons r rs ih =>
    cases c with
    | nil => simp at hc
    | cons a cs =>
      have hrs : ∀ q, q ∈ rs → q.ps.length = n := fun q hq => hw q (by simp [hq])
      have IH := ih hrs cs (by simpa using hc)
      have hl := prodSel_len n cs (dens rs) (rowsOK_dens hrs)
      have hX : (if x then s.den else one n).len = n := by cases x <;> simp [one, POp.len, Row.den, hs]
      simp only [List.cons_append, dens, List.map_cons, prodSel]
      cases a
      · simpa [dens] using IH
      · simp only [if_true]
        refine eqv_trans (mul_congr (eqv_refl _) IH) ?_
        exact eqv_symm (mul_assoc _ _ _ (by simpa [POp.len, Row.den, dens] using (hw r (by simp)).trans hl.symm)
          (by simpa [POp.len, dens] using hl.trans hX.symm))

theorem replicate_snoc_false (m : Nat) : List.replicate m false ++ [false] = List.replicate (m + 1) false := by
  rw [List.replicate_succ']

theorem commuting_ext {n : Nat} {g : List Row} (hv : Valid n g) {s : Row} (hs : s.ps.length = n)
    (hsym : isSymplectic (g ++ [s]) = true) : Commuting n (g ++ [s]) := by
  refine ⟨?_, (isSymplectic_iff _).1 hsym⟩
  intro r hr
  rcases List.mem_append.1 hr with h | h
  · exact hv.width r h
  · have : r = s := by simpa using h
    rw [this]; exact hs

/-- a dependency among `g ++ [s]` that does not use `s` is trivial -/
theorem ker_last_false {n : Nat} {g : List Row} (hv : Valid n g) {s : Row} (hs : s.ps.length = n)
    (c' : List Bool) (hl : c'.length = g.length)
    (h : (prodSel n (c' ++ [false]) (dens (g ++ [s]))).ps = idPad n) : c' = List.replicate g.length false := by
  have e := prodSel_snoc n g hv.width s hs c' false hl
  simp only [Bool.false_eq_true, if_false] at e
  have e2 := eqv_trans e (mul_one n _ (prodSel_len n c' (dens g) (rowsOK_dens hv.width)))
  exact hv.indep c' hl (by rw [← e2.1]; exact h)

theorem eq_of_mul_eq_one (n : Nat) (P S : POp) (hP : P.len = n) (hS : S.len = n) (hH : P.ph % 2 = 0)
    (e1 : P ⋆ S ≈ₚ one n) : S ≈ₚ P := by
  -- S ≈ (P⋆P)⋆S ≈ P⋆(P⋆S) ≈ P⋆one ≈ P
  refine eqv_trans (eqv_symm (one_mul n _ hS)) ?_
  have : one n ≈ₚ P ⋆ P := by have := mul_self P hH; rw [hP] at this; exact eqv_symm this
  refine eqv_trans (mul_congr this (eqv_refl _)) ?_
  refine eqv_trans (mul_assoc P P S rfl (by simpa [POp.len] using hP.trans hS.symm)) ?_
  exact eqv_trans (mul_congr (eqv_refl P) e1) (mul_one n P hP)

/-- a non-trivial dependency `= +I` among `g ++ [s]` exhibits `s` as a group element -/
theorem inGroup_of_dep {n : Nat} {g : List Row} (hv : Valid n g) {s : Row} (hs : s.ps.length = n)
    (c : List Bool) (hl : c.length = g.length + 1) (hne : c ≠ List.replicate (g.length + 1) false)
    (h : prodSel n c (dens (g ++ [s])) ≈ₚ one n) : InGroup n g s.den := by
  obtain ⟨c', x, rfl, hl'⟩ := snoc_of_length c g.length hl
  cases x
  · have := ker_last_false hv hs c' hl' (by rw [h.1]; rfl)
    rw [this, replicate_snoc_false] at hne
    exact absurd rfl hne
  · have e := prodSel_snoc n g hv.width s hs c' true hl'
    simp only [if_true] at e
    have hP := prodSel_len n c' (dens g) (rowsOK_dens hv.width)
    have hH := prodSel_herm n c' (dens g) (rowsOK_dens hv.width) (pairComm_dens hv.toCommuting)
    exact ⟨c', hl', eqv_symm (eq_of_mul_eq_one n _ s.den hP hs hH (eqv_trans (eqv_symm e) h))⟩

theorem dep_of_inGroup {n : Nat} {g : List Row} (hv : Valid n g) {s : Row} (hs : s.ps.length = n)
    (h : InGroup n g s.den) :
    ∃ c : List Bool, c.length = g.length + 1 ∧ c ≠ List.replicate (g.length + 1) false ∧
      prodSel n c (dens (g ++ [s])) ≈ₚ one n := by
  obtain ⟨c', hl', hc⟩ := h
  refine ⟨c' ++ [true], by simp [hl'], ?_, ?_⟩
  · intro e
    have := congrArg (fun l => l.getD g.length false) e
    simp only [replicate_getD] at this
    rw [List.getD_eq_getElem?_getD, List.getElem?_append_right (by omega)] at this
    simp [hl'] at this
  · have e := prodSel_snoc n g hv.width s hs c' true hl'
    simp only [if_true] at e
    refine eqv_trans e (eqv_trans (mul_congr hc (eqv_refl _)) ?_)
    have := mul_self s.den (den_herm s)
    rwa [show s.den.len = n from hs] at this

theorem xorL_snoc (c d : List Bool) (x y : Bool) (h : c.length = d.length) :
    xorL (c ++ [x]) (d ++ [y]) = xorL c d ++ [x != y] := by
  induction c generalizing d with
  | nil => cases d with
    | nil => rfl
    | cons b bs => simp at h
  | cons a as ih => cases d with
    | nil => simp at h
    | cons b bs => simp [xorL, ih bs (by simpa using h)]

theorem eq_of_xorL_zeros (c d : List Bool) (h : c.length = d.length) (e : xorL c d = List.replicate c.length false) :
    c = d := by
  apply list_ext_getD c d h
  intro j _
  have := xorL_getD c d h j
  rw [e, replicate_getD] at this
  generalize c.getD j false = x at this
  generalize d.getD j false = y at this
  cases x <;> cases y <;> first | rfl | cases this

theorem xorL_self (c : List Bool) : xorL c c = List.replicate c.length false := by
  induction c with
  | nil => rfl
  | cons a as ih => simp only [xorL, ih, List.length_cons, List.replicate_succ, bne_self_eq_false]

/-- two non-trivial dependencies `= +I` among `g ++ [s]` coincide -/
theorem dep_unique {n : Nat} {g : List Row} (hv : Valid n g) {s : Row} (hs : s.ps.length = n)
    (hcomm : Commuting n (g ++ [s]))
    (c d : List Bool) (hc : c.length = g.length + 1) (hd : d.length = g.length + 1)
    (hcne : c ≠ List.replicate (g.length + 1) false) (hdne : d ≠ List.replicate (g.length + 1) false)
    (h1 : prodSel n c (dens (g ++ [s])) ≈ₚ one n) (h2 : prodSel n d (dens (g ++ [s])) ≈ₚ one n) : c = d := by
  obtain ⟨c', x, rfl, hl1⟩ := snoc_of_length c g.length hc
  obtain ⟨d', y, rfl, hl2⟩ := snoc_of_length d g.length hd
  have hx : x = true := by
    cases x
    · have := ker_last_false hv hs c' hl1 (by rw [h1.1]; rfl)
      rw [this, replicate_snoc_false] at hcne
      exact absurd rfl hcne
    · rfl
  have hy : y = true := by
    cases y
    · have := ker_last_false hv hs d' hl2 (by rw [h2.1]; rfl)
      rw [this, replicate_snoc_false] at hdne
      exact absurd rfl hdne
    · rfl
  subst hx; subst hy
  have hx := prodSel_xor n (c' ++ [true]) (d' ++ [true]) (dens (g ++ [s])) (by simp [dens, hl1]) (by simp [dens, hl2])
    (rowsOK_dens hcomm.width) (pairComm_dens hcomm)
  rw [xorL_snoc _ _ _ _ (hl1.trans hl2.symm)] at hx
  have h3 : prodSel n (xorL c' d' ++ [false]) (dens (g ++ [s])) ≈ₚ one n :=
    eqv_trans hx (eqv_trans (mul_congr h1 h2) (one_mul n _ (by simp [one, POp.len])))
  have hlx : (xorL c' d').length = g.length := by rw [xorL_length _ _ (hl1.trans hl2.symm)]; exact hl1
  have := ker_last_false hv hs (xorL c' d') hlx (by rw [h3.1]; rfl)
  rw [← hl1] at this
  rw [eq_of_xorL_zeros c' d' (hl1.trans hl2.symm) this]

/-- the reduced form of `g ++ [s]` (for `s` commuting with the valid list `g`) has
exactly one zero row iff `s` is in the group -/
theorem contains_core {n : Nat} {g : List Row} (hv : Valid n g) {s : Row} (hs : s.ps.length = n)
    (hcomm : Commuting n (g ++ [s])) :
    ((gauss n (g ++ [s])).filter (Row.isZero n)).length = 1 ↔ InGroup n g s.den := by
  have hwT := (gauss_commuting n _ hcomm).width
  obtain ⟨hT, piv, R⟩ := gauss_reduced n (g ++ [s]) hcomm.width
  have hlenT : (gauss n (g ++ [s])).length = g.length + 1 := by rw [gauss_length]; simp
  obtain ⟨⟨f, hf1, hf2, hf3⟩, ⟨f', hf1', _, hf3'⟩⟩ := gauss_emb n (g ++ [s]) hcomm
  have hextlen : (g ++ [s]).length = g.length + 1 := by simp
  rw [reduced_zero_count R, hlenT]
  have hle := R.hle
  rw [hlenT] at hle
  -- a zero row of the reduced form gives a dependency among `g ++ [s]`
  have zero_dep : ∀ z, hT ≤ z → z < g.length + 1 →
      (f (unitv (g.length + 1) z)).length = g.length + 1 ∧
      f (unitv (g.length + 1) z) ≠ List.replicate (g.length + 1) false ∧
      prodSel n (f (unitv (g.length + 1) z)) (dens (g ++ [s])) ≈ₚ one n := by
    intro z hz hzl
    have hu : (unitv (g.length + 1) z).length = (gauss n (g ++ [s])).length := by rw [unitv_length, hlenT]
    have a := hf1 _ hu
    have e1 := prodSel_unitv n _ hwT z (by rw [hlenT]; exact hzl)
    rw [hlenT] at e1
    rw [den_zero_row n _ (hwT _ (getD_mem _ z (by rw [hlenT]; exact hzl))) (fun k => R.zero z hz k)] at e1
    refine ⟨by rw [a.1, hextlen], ?_, eqv_trans (eqv_symm a.2) e1⟩
    intro e
    have := hf3 _ hu (by rw [e, hextlen])
    rw [hlenT] at this
    exact unitv_ne_zeros _ _ hzl this
  constructor
  · intro hcount
    have hTn : hT = g.length := by omega
    obtain ⟨l, ne, e⟩ := zero_dep g.length (by omega) (by omega)
    exact inGroup_of_dep hv hs _ l ne e
  · intro hin
    -- every row of `g ++ [s]`, hence of the reduced form, is in the group of `g`
    have hext_in : ∀ r, r ∈ g ++ [s] → InGroup n g r.den := by
      intro r hr
      rcases List.mem_append.1 hr with h | h
      · exact inGroup_mem hv.width h
      · have : r = s := by simpa using h
        rw [this]; exact hin
    have hT_in : ∀ r, r ∈ gauss n (g ++ [s]) → InGroup n g r.den := by
      intro r hr
      have h1 := (gauss_sameGroup n _ hcomm r.den).1 (inGroup_mem hwT hr)
      exact inGroup_of_gen hv.toCommuting (gen_mono (fun q hq => gen_of_inGroup (hext_in q hq)) (gen_of_inGroup h1))
    -- all pivots are letter pivots
    have hlet : ∀ i, i < hT → piv i < 2 * n := by
      intro i hi
      by_cases e : piv i < 2 * n
      · exact e
      · exfalso
        have he : piv i = 2 * n := by have := R.lt i hi; omega
        have hm := getD_mem (gauss n (g ++ [s])) i (by omega)
        have hps := ps_id_of_bits n _ (hwT _ hm) (fun k hk => R.lead i hi k (by omega))
        have hneg : ((gauss n (g ++ [s])).getD i dflt).neg = true := by
          rw [← bit_sign n, ← he]; exact R.one i hi
        apply valid_no_minus_one hv
        have := hT_in _ hm
        rw [Row.den, hps, hneg] at this
        exact this
    -- not all rows are pivot rows
    have h_le : hT ≤ g.length := by
      apply Classical.byContradiction
      intro hno
      have hTe : hT = g.length + 1 := by omega
      obtain ⟨c, hcl, hcne, hce⟩ := dep_of_inGroup hv hs hin
      have a := hf1' c (by rw [hcl, hextlen])
      have hz : f' c = List.replicate (g.length + 1) false := by
        apply list_ext_getD
        · rw [a.1, hlenT]; simp
        · intro j hj
          rw [a.1, hlenT] at hj
          rw [red_coeff hwT R (f' c) (one n) (eqv_trans (eqv_symm a.2) hce) j (by omega) (hlet j (by omega)),
            lbit_one, replicate_getD]
      have := hf3' c (by rw [hcl, hextlen]) (by rw [hz, hlenT])
      rw [hextlen] at this
      exact hcne this
    -- at most one zero row
    have h_ge : g.length ≤ hT := by
      apply Classical.byContradiction
      intro hno
      obtain ⟨l1, ne1, e1⟩ := zero_dep hT (Nat.le_refl _) (by omega)
      obtain ⟨l2, ne2, e2⟩ := zero_dep (hT + 1) (by omega) (by omega)
      have heq := dep_unique hv hs hcomm _ _ l1 l2 ne1 ne2 e1 e2
      have hu1 : (unitv (g.length + 1) hT).length = (gauss n (g ++ [s])).length := by rw [unitv_length, hlenT]
      have hu2 : (unitv (g.length + 1) (hT + 1)).length = (gauss n (g ++ [s])).length := by rw [unitv_length, hlenT]
      have hx := hf2 _ _ hu1 hu2
      rw [heq, xorL_self] at hx
      have hxl : (xorL (unitv (g.length + 1) hT) (unitv (g.length + 1) (hT + 1))).length =
          (gauss n (g ++ [s])).length := by
        rw [xorL_length _ _ (by rw [unitv_length, unitv_length]), unitv_length, hlenT]
      have hz := hf3 _ hxl (by rw [hx, (hf1 _ hu2).1])
      have := congrArg (fun l => l.getD hT false) hz
      simp only [replicate_getD] at this
      rw [xorL_getD _ _ (by rw [unitv_length, unitv_length]), unitv_getD _ _ _ (by omega),
        unitv_getD _ _ _ (by omega)] at this
      simp at this
    omega

/-! ### `_contains` and `__eq__` in terms of the group -/

/-- unfolding of `_contains` -/
theorem contains_iff (n : Nat) (g : List Row) (stab : Row) :
    contains n g stab = true ↔
      isSymplectic (g ++ [stab]) = true ∧ ((gauss n (g ++ [stab])).filter (Row.isZero n)).length = 1 := by
  unfold contains
  cases h : isSymplectic (g ++ [stab]) <;> simp [h]

theorem contains_sound (n : Nat) (g : List Row) (stab : Row) (hv : Valid n g) (hl : stab.ps.length = n)
    (h : contains n g stab = true) : InGroup n g stab.den := by
  obtain ⟨h1, h2⟩ := (contains_iff n g stab).1 h
  exact (contains_core hv hl (commuting_ext hv hl h1)).1 h2

theorem contains_complete (n : Nat) (g : List Row) (stab : Row) (hv : Valid n g) (hl : stab.ps.length = n)
    (h : InGroup n g stab.den) : contains n g stab = true := by
  have hcomm : Commuting n (g ++ [stab]) := by
    apply commuting_of_rows_inGroup hv.toCommuting
    intro r hr
    rcases List.mem_append.1 hr with h' | h'
    · exact inGroup_mem hv.width h'
    · have : r = stab := by simpa using h'
      rw [this]; exact h
  refine (contains_iff n g stab).2 ⟨(isSymplectic_iff _).2 hcomm.comm, ?_⟩
  exact (contains_core hv hl hcomm).2 h

/-- unfolding of `__eq__` -/
theorem stEq_iff (a b : St) : stEq a b = true ↔ a.n = b.n ∧ gauss a.n a.rows = gauss b.n b.rows := by
  unfold stEq
  by_cases h : a.n = b.n <;> simp [h]

/-- two rows on two qubits form a valid generator list when they commute and neither
they nor their product are the identity string (used for concrete instances) -/
theorem valid_of_two (a b : Row) (ha : a.ps.length = 2) (hb : b.ps.length = 2)
    (hab : antiL a.ps b.ps = false) (h1 : a.ps ≠ idPad 2) (h2 : b.ps ≠ idPad 2) (h3 : mulL a.ps b.ps ≠ idPad 2) :
    Valid 2 [a, b] := by
  refine { width := ?_, comm := ?_, count := rfl, indep := ?_ }
  · intro r hr
    rcases List.mem_cons.1 hr with rfl | hr
    · exact ha
    · have : r = b := by simpa using hr
      rw [this]; exact hb
  · intro x hx y hy
    have ex : x = a ∨ x = b := by simpa using hx
    have ey : y = a ∨ y = b := by simpa using hy
    rcases ex with rfl | rfl <;> rcases ey with rfl | rfl
    · exact antiL_self _
    · exact hab
    · rw [antiL_comm]; exact hab
    · exact antiL_self _
  · intro c hc hps
    match c, hc with
    | [x, y], _ =>
      have e1 : mulL b.ps (List.replicate 2 I1) = b.ps := by
        rw [mulL_comm]; exact mulL_one_left 2 b.ps hb
      have e2 : mulL a.ps (List.replicate 2 I1) = a.ps := by
        rw [mulL_comm]; exact mulL_one_left 2 a.ps ha
      cases x <;> cases y <;>
        simp only [dens, List.map_cons, List.map_nil, prodSel, POp.mul, Row.den, one, if_true, Bool.false_eq_true,
          if_false, e1, e2] at hps
      · rfl
      · exact absurd hps h2
      · exact absurd hps h1
      · exact absurd hps h3

end SqVerif.Stab.Gauss

namespace SqVerif.Stab
export Gauss (reduced_unique contains_core contains_iff contains_sound contains_complete stEq_iff
  valid_no_minus_one valid_row_ne_id valid_reduced_full red_coeff reduced_zero_count isSymplectic_iff isZero_iff)
end SqVerif.Stab

import SqVerif.Engine
import SqVerif.StabSpec
/-
L1 — helper lemmas for C15 (`Props/C15.lean`): sizes of the L0 operations,
`StabilizerState(to_array())` round trip, step-by-step refinement of the
contract `Reg` by `StabEngine`, column positions of generators under absorb and
gates, `keepList` / `ptrace` of the qutip bookkeeping, the re-indexing loop of
projectq's `absorb_parts`.
-/
set_option linter.unusedSimpArgs false
namespace SqVerif.Engine
open SqVerif.Stab

/-! ### sizes -/

theorem tensor_n (a b : St) : (tensor a b).n = a.n + b.n := by
  unfold tensor
  split
  · omega
  · split <;> simp_all

theorem addQubit_n (s : St) : (Stab.addQubit s).n = s.n + 1 := by
  simp [Stab.addQubit, tensor_n, zero1]

theorem measure_none (s : St) (j : Nat) (ip coin : Bool) (h : ¬ j < s.n) : measure s j ip coin = none := by
  simp [Stab.measure, h]

theorem measure_some (s : St) (j : Nat) (ip coin : Bool) (h : j < s.n) :
    ∃ o s', Stab.measure s j ip coin = some (o, s') ∧ s'.n = if ip then s.n else s.n - 1 := by
  unfold Stab.measure
  rw [if_neg (by simpa using h)]
  cases ip
  · dsimp only
    split
    · exact ⟨_, _, rfl, by simp⟩
    · exact ⟨_, _, rfl, by simp⟩
  · dsimp only
    split
    · exact ⟨_, _, rfl, by simp⟩
    · exact ⟨_, _, rfl, by simp⟩

theorem applyGate1_some (g : Gate1) (j : Nat) (s : St) (h : j < s.n) :
    ∃ s', Stab.applyGate1 g j s = some s' ∧ s'.n = s.n := by
  simp [Stab.applyGate1, h]

theorem applyGate1_none (g : Gate1) (j : Nat) (s : St) (h : ¬ j < s.n) : Stab.applyGate1 g j s = none := by
  simp [Stab.applyGate1, h]

theorem applyGate2_some (g : Gate2) (c t : Nat) (s : St) (h : c < s.n ∧ t < s.n ∧ c ≠ t) :
    ∃ s', Stab.applyGate2 g c t s = some s' ∧ s'.n = s.n := by
  simp [Stab.applyGate2, h]

theorem applyGate2_none (g : Gate2) (c t : Nat) (s : St) (h : ¬ (c < s.n ∧ t < s.n ∧ c ≠ t)) :
    Stab.applyGate2 g c t s = none := by
  simp [Stab.applyGate2, h]

/-! ### to_array / StabilizerState(R) -/

theorem getD_map_range {α} (f : Nat → α) (n i : Nat) (d : α) (h : i < n) :
    ((List.range n).map f).getD i d = f i := by
  simp [List.getD_eq_getElem?_getD, h]

theorem bitsOfRow_length (w : Nat) (r : Row) : (bitsOfRow w r).length = 2 * w + 1 := by
  simp [bitsOfRow]

theorem rowOfBits_bitsOfRow (w : Nat) (r : Row) (h : r.ps.length = w) : rowOfBits w (bitsOfRow w r) = r := by
  rcases r with ⟨ps, neg⟩
  simp only at h
  unfold rowOfBits bitsOfRow
  congr 1
  · apply List.ext_getElem
    · simp [h]
    · intro i h1 h2
      simp only [List.length_map, List.length_range] at h1
      rw [List.getElem_map, List.getElem_range]
      rw [getD_map_range _ _ _ _ (by omega), getD_map_range _ _ _ _ (by omega)]
      have e1 : Row.bit w ⟨ps, neg⟩ i = (getP ps i).1 := by simp [Row.bit, h1, Row.x]
      have e2 : Row.bit w ⟨ps, neg⟩ (w + i) = (getP ps i).2 := by
        have : ¬ (w + i < w) := by omega
        have h3 : w + i < 2 * w := by omega
        simp [Row.bit, this, h3, Row.z]
      rw [e1, e2]
      have : getP ps i = ps[i] := by simp [getP, List.getD_eq_getElem?_getD, h2]
      rw [this]
  · rw [getD_map_range _ _ _ _ (by omega)]
    have : ¬ (2 * w < w) := by omega
    simp [Row.bit, this]

/-- the shape every constructor of the engine produces: n rows of n letters, pairwise commuting -/
structure RegOK (s : St) : Prop where
  count : s.rows.length = s.n
  width : ∀ r, r ∈ s.rows → r.ps.length = s.n
  sympl : isSymplectic s.rows = true

theorem ofArray_toArray (s : St) (h : RegOK s) : ofArray (toArray s) = some s := by
  rcases s with ⟨n, rows⟩
  have hc := h.count; have hw := h.width; have hs := h.sympl
  simp only at hc hw hs
  unfold ofArray toArray
  by_cases h0 : rows = []
  · subst h0
    simp at hc
    subst hc
    simp [Stab.empty]
  · have hne : (List.map (bitsOfRow n) rows).isEmpty = false := by
      cases rows with
      | nil => exact absurd rfl h0
      | cons a as => simp
    simp only [hne, Bool.false_eq_true, if_false, List.length_map, hc]
    have hall : (List.map (bitsOfRow n) rows).all (fun b => b.length == 2 * n + 1) = true := by
      simp [bitsOfRow_length]
    have hmap : List.map (rowOfBits n) (List.map (bitsOfRow n) rows) = rows := by
      rw [List.map_map]
      conv => rhs; rw [← List.map_id rows]
      apply List.map_congr_left
      intro r hr
      simp [rowOfBits_bitsOfRow n r (hw r hr)]
    simp only [hall, true_or, if_true, hmap, hs]

theorem ofArray_n (R : List (List Bool)) (q : St) (h : ofArray R = some q) : q.n = R.length := by
  unfold ofArray at h
  split at h
  · rename_i he
    simp at h; subst h
    simp [Stab.empty]
    cases R <;> simp_all
  · dsimp only at h
    split at h
    · split at h
      · simp at h; subst h; rfl
      · simp at h
    · simp at h


/-! ### refinement of the contract by the stabilizer engine -/

/-- the engine's size is the number of slots, the limits agree -/
def Rel {σ} (e : StabEngine) (r : Reg σ) : Prop := e.st.n = r.slots.length ∧ e.max = r.max

def ErrOK : SErr → Err → Prop
  | .noQubit, e => e = .noQubit
  | .quantum, e => e = .quantum
  | .refused, _ => True

def OutOK : SOut → Out → Prop
  | .num n, .num m => n = m
  | .unit, .unit => True
  | .bit, .bit _ => True
  | .exported, .array _ => True
  | _, _ => False

/-- results agree: same return value (measurement outcomes are not prescribed by
the contract), documented error kind where the contract names one -/
def ResOK : Except SErr SOut → Except Err Out → Prop
  | .ok a, .ok b => OutOK a b
  | .error a, .error b => ErrOK a b
  | _, _ => False

/-- what the caller owes: labels for exactly the slots a call brings in, and
well-formed data (`StabilizerState(R)` accepts R, `activeQ` is its size) -/
def Call.LabelsOK {σ} (c : Call) (ls : List σ) : Prop :=
  match c with
  | .addFresh => ls.length = 1
  | .addQubit R => ∃ q, ofArray R = some q ∧ q.n = ls.length
  | .absorb f => f.st.n = ls.length
  | .absorbParts R a => a = ls.length ∧ ∃ q, ofArray R = some q ∧ q.n = ls.length
  | _ => True

theorem step_refines {σ} (e : StabEngine) (r : Reg σ) (c : Call) (ls : List σ)
    (hR : Rel e r) (hc : c.LabelsOK ls) :
    ResOK (r.step (c.toSpec ls)).1 (e.step c).1 ∧ Rel (e.step c).2 (r.step (c.toSpec ls)).2 := by
  obtain ⟨hn, hm⟩ := hR
  have ha : e.active = r.active := hn
  have hra : r.active = r.slots.length := rfl
  cases c with
  | addFresh =>
    simp only [Call.LabelsOK] at hc
    simp only [StabEngine.step, Call.toSpec, Reg.step, liftRes, StabEngine.addFreshQubit]
    by_cases h : e.active ≥ e.max
    · have h' : r.active + ls.length > r.max := by omega
      rw [if_pos h, if_pos h']
      simp [ResOK, ErrOK, Rel, hn, hm, StabEngine.active, Reg.active]
    · have h' : ¬ r.active + ls.length > r.max := by omega
      rw [if_neg h, if_neg h']
      simp [ResOK, OutOK, Rel, hn, hm, StabEngine.active, Reg.active, addQubit_n, hc]
  | addQubit R =>
    obtain ⟨q, hq, hql⟩ := hc
    simp only [StabEngine.step, Call.toSpec, Reg.step, liftRes, StabEngine.addQubit, hq]
    by_cases h : e.active + q.n > e.max
    · have h' : r.active + ls.length > r.max := by omega
      rw [if_pos h, if_pos h']
      simp [ResOK, ErrOK, Rel, hn, hm, StabEngine.active, Reg.active]
    · have h' : ¬ r.active + ls.length > r.max := by omega
      rw [if_neg h, if_neg h']
      simp [ResOK, OutOK, Rel, hn, hm, StabEngine.active, Reg.active, tensor_n, hql]
  | remove j coin =>
    simp only [StabEngine.step, Call.toSpec, Reg.step, liftRes, StabEngine.removeQubit,
      StabEngine.measureQubit]
    by_cases h : j + 1 > e.active
    · have h' : j + 1 > r.active := by omega
      rw [if_pos h, if_pos h']
      simp [ResOK, ErrOK, Rel, hn, hm, StabEngine.active, Reg.active]
    · have h' : ¬ j + 1 > r.active := by omega
      obtain ⟨o, s', hs, hs'⟩ := measure_some e.st j false coin (by omega)
      simp only [Bool.false_eq_true, if_false] at hs'
      have hl : (r.slots.eraseIdx j).length = r.slots.length - 1 := by
        rw [List.length_eraseIdx]; simp; omega
      rw [if_neg h, if_neg h']
      simp [hs, ResOK, OutOK, Rel, StabEngine.active, Reg.active, hm, hs', hl, hn]
  | measureInplace j coin =>
    simp only [StabEngine.step, Call.toSpec, Reg.step, liftRes, StabEngine.measureQubitInplace]
    by_cases h : j + 1 > e.active
    · have h' : j + 1 > r.active := by omega
      rw [if_pos h, if_pos h']
      simp [ResOK, ErrOK, Rel, hn, hm, StabEngine.active, Reg.active]
    · have h' : ¬ j + 1 > r.active := by omega
      obtain ⟨o, s', hs, hs'⟩ := measure_some e.st j true coin (by omega)
      simp only [if_true] at hs'
      rw [if_neg h, if_neg h']
      simp [hs, ResOK, OutOK, Rel, StabEngine.active, Reg.active, hm, hs', hn]
  | measure j coin =>
    simp only [StabEngine.step, Call.toSpec, Reg.step, liftRes, StabEngine.measureQubit]
    by_cases h : j < e.st.n
    · have h' : j < r.active := by omega
      obtain ⟨o, s', hs, hs'⟩ := measure_some e.st j false coin h
      simp only [Bool.false_eq_true, if_false] at hs'
      have hl : (r.slots.eraseIdx j).length = r.slots.length - 1 := by
        rw [List.length_eraseIdx]; simp; omega
      rw [if_pos h']
      simp [hs, ResOK, OutOK, Rel, StabEngine.active, Reg.active, hm, hs', hl, hn]
    · have h' : ¬ j < r.active := by omega
      rw [if_neg h', measure_none e.st j false coin h]
      simp [ResOK, ErrOK, Rel, hn, hm, StabEngine.active, Reg.active]
  | gate1 g j =>
    simp only [StabEngine.step, Call.toSpec, Reg.step, liftRes, StabEngine.applyGate1]
    by_cases h : j < e.st.n
    · have h' : (∀ p ∈ [j], p < r.active) ∧ [j].Nodup := by
        simp [Reg.active]; omega
      obtain ⟨s', hs, hs'⟩ := applyGate1_some g j e.st h
      rw [hs, if_pos h']
      simp [ResOK, OutOK, Rel, hm, hs', hn]
    · have h' : ¬ ((∀ p ∈ [j], p < r.active) ∧ [j].Nodup) := by
        simp [Reg.active]; omega
      rw [applyGate1_none g j e.st h, if_neg h']
      simp [ResOK, ErrOK, Rel, hn, hm]
  | gate2 g c t =>
    simp only [StabEngine.step, Call.toSpec, Reg.step, liftRes, StabEngine.applyGate2]
    by_cases h : c < e.st.n ∧ t < e.st.n ∧ c ≠ t
    · obtain ⟨s', hs, hs'⟩ := applyGate2_some g c t e.st h
      have h' : (∀ p ∈ [c, t], p < r.active) ∧ [c, t].Nodup := by
        simp [Reg.active]; omega
      rw [hs, if_pos h']
      simp [ResOK, OutOK, Rel, hm, hs', hn]
    · have h' : ¬ ((∀ p ∈ [c, t], p < r.active) ∧ [c, t].Nodup) := by
        simp [Reg.active]; omega
      rw [applyGate2_none g c t e.st h, if_neg h']
      simp [ResOK, ErrOK, Rel, hn, hm]
  | applyT j => simp [StabEngine.step, Call.toSpec, Reg.step, liftRes, StabEngine.applyT, ResOK, ErrOK, Rel, hn, hm]
  | rotation j => simp [StabEngine.step, Call.toSpec, Reg.step, liftRes, StabEngine.applyRotation, ResOK, ErrOK, Rel, hn, hm]
  | onequbitGate j =>
    simp [StabEngine.step, Call.toSpec, Reg.step, liftRes, StabEngine.applyOnequbitGate, ResOK, ErrOK, Rel, hn, hm]
  | twoqubitGate c t =>
    simp [StabEngine.step, Call.toSpec, Reg.step, liftRes, StabEngine.applyTwoqubitGate, ResOK, ErrOK, Rel, hn, hm]
  | replaceQubit j =>
    simp [StabEngine.step, Call.toSpec, Reg.step, liftRes, StabEngine.replaceQubit, ResOK, ErrOK, Rel, hn, hm]
  | absorb f =>
    simp only [Call.LabelsOK] at hc
    have hf : f.active = ls.length := hc
    simp only [StabEngine.step, Call.toSpec, Reg.step, liftRes, StabEngine.absorb]
    by_cases h : e.active + f.active > e.max
    · have h' : r.active + ls.length > r.max := by omega
      rw [if_pos h, if_pos h']
      simp [ResOK, ErrOK, Rel, hn, hm, StabEngine.active, Reg.active]
    · have h' : ¬ r.active + ls.length > r.max := by omega
      rw [if_neg h, if_neg h']
      simp [ResOK, OutOK, Rel, hn, hm, StabEngine.active, Reg.active, tensor_n, hc]
  | absorbParts R a =>
    obtain ⟨ha, q, hq, hql⟩ := hc
    simp only [StabEngine.step, Call.toSpec, Reg.step, liftRes, StabEngine.absorbParts, hq]
    by_cases h : e.active + a > e.max
    · have h' : r.active + ls.length > r.max := by omega
      rw [if_pos h, if_pos h']
      simp [ResOK, ErrOK, Rel, hn, hm, StabEngine.active, Reg.active]
    · have h' : ¬ r.active + ls.length > r.max := by omega
      rw [if_neg h, if_neg h']
      simp [ResOK, OutOK, Rel, hn, hm, StabEngine.active, Reg.active, tensor_n, hql]
  | getRegisterRI => simp [StabEngine.step, Call.toSpec, Reg.step, ResOK, OutOK, Rel, hn, hm]
  | setMax m => simp [StabEngine.step, Call.toSpec, Reg.step, ResOK, OutOK, Rel, hn]

/-! ### call sequences -/

def specCalls {σ} (cs : List (Call × List σ)) : List (SCall σ) := cs.map fun p => p.1.toSpec p.2

/-- results of two runs agree position by position -/
inductive ResAll : List (Except SErr SOut) → List (Except Err Out) → Prop
  | nil : ResAll [] []
  | cons {a b as bs} : ResOK a b → ResAll as bs → ResAll (a :: as) (b :: bs)

theorem run_refines {σ} (cs : List (Call × List σ)) (e : StabEngine) (r : Reg σ) (hR : Rel e r)
    (hc : ∀ p ∈ cs, p.1.LabelsOK p.2) :
    ResAll (r.run (specCalls cs)).1 (e.run (cs.map (·.1))).1 ∧
      Rel (e.run (cs.map (·.1))).2 (r.run (specCalls cs)).2 := by
  induction cs generalizing e r with
  | nil => exact ⟨ResAll.nil, hR⟩
  | cons p cs ih =>
    have h1 := step_refines e r p.1 p.2 hR (hc p (by simp))
    have h2 := ih (e.step p.1).2 (r.step (p.1.toSpec p.2)).2 h1.2 (fun q hq => hc q (by simp [hq]))
    simp only [specCalls, List.map_cons, StabEngine.run, Reg.run]
    exact ⟨ResAll.cons h1.1 h2.1, h2.2⟩

/-! ### columns: where the letters of the generators sit -/

theorem getP_pad_right (ps : List P1) (k i : Nat) : getP (ps ++ idPad k) i = getP ps i := by
  unfold getP idPad
  by_cases h : i < ps.length
  · simp [List.getD_eq_getElem?_getD, List.getElem?_append_left h]
  · have h' : ps.length ≤ i := by omega
    rw [List.getD_eq_getElem?_getD, List.getD_eq_getElem?_getD, List.getElem?_append_right h']
    have : ps[i]? = none := by simp [h']
    rw [this]
    by_cases h2 : i - ps.length < k
    · simp [h2]
    · simp [List.getElem?_replicate, h2]

theorem getP_pad_left_lt (ps : List P1) (a i : Nat) (h : i < a) : getP (idPad a ++ ps) i = (false, false) := by
  unfold getP idPad
  rw [List.getD_eq_getElem?_getD, List.getElem?_append_left (by simpa using h)]
  simp [h]

theorem getP_pad_left_ge (ps : List P1) (a i : Nat) : getP (idPad a ++ ps) (a + i) = getP ps i := by
  unfold getP idPad
  rw [List.getD_eq_getElem?_getD, List.getD_eq_getElem?_getD, List.getElem?_append_right (by simp)]
  simp

theorem getP_setP_ne (ps : List P1) (j i : Nat) (p : P1) (h : i ≠ j) : getP (setP ps j p) i = getP ps i := by
  unfold getP setP
  rw [List.getD_eq_getElem?_getD, List.getD_eq_getElem?_getD, List.getElem?_set_ne (Ne.symm h)]

theorem gate1_local (g : Gate1) (j i : Nat) (r : Row) (h : i ≠ j) : getP (g.row j r).ps i = getP r.ps i := by
  cases g <;> simp [Gate1.row, rowX, rowY, rowZ, rowH, rowK, rowS, getP_setP_ne _ _ _ _ h]

theorem gate2_local (g : Gate2) (c t i : Nat) (r : Row) (hc : i ≠ c) (ht : i ≠ t) :
    getP (g.row c t r).ps i = getP r.ps i := by
  cases g <;> simp [Gate2.row, rowCNOT, rowCZ, getP_setP_ne _ _ _ _ hc, getP_setP_ne _ _ _ _ ht]

/-! ### qutip bookkeeping -/

namespace QutipBk
variable {σ : Type}

theorem mem_keepList (n j i : Nat) : i ∈ keepList n j ↔ i < n ∧ i ≠ j := by
  simp [keepList]

theorem keepList_sorted (n j : Nat) : (keepList n j).Pairwise (· < ·) := by
  unfold keepList
  exact List.Pairwise.filter _ List.pairwise_lt_range

theorem keepList_length (n j : Nat) (h : j < n) : (keepList n j).length = n - 1 := by
  unfold keepList
  induction n with
  | zero => omega
  | succ n ih =>
    rw [List.range_succ, List.filter_append, List.length_append]
    by_cases hj : j = n
    · subst hj
      have : (List.range j).filter (· != j) = List.range j := by
        apply List.filter_eq_self.mpr
        intro a ha
        have := List.mem_range.mp ha
        simp; omega
      simp [this]
    · have := ih (by omega)
      have hn : (n != j) = true := by simp; omega
      simp [this, hn]
      omega

theorem filterMap_range'_skip (l pre : List σ) (k : Nat) :
    ((List.range' pre.length l.length).filter (· != k)).filterMap ((pre ++ l)[·]?) =
      if pre.length ≤ k then l.eraseIdx (k - pre.length) else l := by
  induction l generalizing pre with
  | nil => simp
  | cons x xs ih =>
    have ih' := ih (pre ++ [x])
    have e1 : (pre ++ [x]) ++ xs = pre ++ x :: xs := by simp
    rw [e1] at ih'
    have hl : (pre ++ [x]).length = pre.length + 1 := by simp
    rw [hl] at ih'
    have hget : (pre ++ x :: xs)[pre.length]? = some x := by simp
    simp only [List.length_cons, List.range'_succ, List.filter_cons]
    by_cases hk : pre.length = k
    · have : (pre.length != k) = false := by simp [hk]
      rw [this]
      simp only [Bool.false_eq_true, if_false]
      rw [ih']
      have h1 : ¬ (pre.length + 1 ≤ k) := by omega
      have h2 : pre.length ≤ k := by omega
      rw [if_neg h1, if_pos h2]
      have : k - pre.length = 0 := by omega
      rw [this]; rfl
    · have : (pre.length != k) = true := by simp [hk]
      rw [this]
      simp only [if_true, List.filterMap_cons, hget]
      rw [ih']
      by_cases h2 : pre.length ≤ k
      · have h3 : pre.length + 1 ≤ k := by omega
        rw [if_pos h3, if_pos h2]
        have : k - pre.length = (k - (pre.length + 1)) + 1 := by omega
        rw [this]; rfl
      · have h3 : ¬ pre.length + 1 ≤ k := by omega
        rw [if_neg h3, if_neg h2]

theorem ptrace_keepList (reg : List σ) (j : Nat) : ptrace reg (keepList reg.length j) = reg.eraseIdx j := by
  have := filterMap_range'_skip reg [] j
  simp only [List.length_nil, List.nil_append, Nat.zero_le, if_true, Nat.sub_zero] at this
  unfold ptrace keepList
  rw [List.range_eq_range']
  exact this

end QutipBk

/-! ### projectq bookkeeping: the re-indexing of absorb_parts -/

namespace ProjQBk
variable {σ : Type}

theorem reindex_aux (qreg : List σ) (bs : List Nat) (pre : List (Option σ))
    (hb : ∀ b ∈ bs, b < qreg.length) :
    (enumFrom pre.length bs).foldlM (fun acc ib =>
        match qreg[ib.2]? with
        | none => none
        | some q => if ib.1 < acc.length then some (acc.set ib.1 (some q)) else none)
      (pre ++ List.replicate bs.length none) = some (pre ++ bs.map (qreg[·]?)) := by
  induction bs generalizing pre with
  | nil => simp [enumFrom]
  | cons b bs ih =>
    have hb1 : b < qreg.length := hb b (by simp)
    have hq : qreg[b]? = some qreg[b] := by simp [hb1]
    simp only [enumFrom, List.foldlM_cons, hq]
    have hlen : pre.length < (pre ++ List.replicate (b :: bs).length none).length := by simp
    rw [if_pos hlen]
    have hset : (pre ++ List.replicate (b :: bs).length (none : Option σ)).set pre.length (some qreg[b]) =
        (pre ++ [some qreg[b]]) ++ List.replicate bs.length none := by
      rw [List.set_append_right _ _ (Nat.le_refl _)]
      simp [List.replicate_succ]
    simp only [Option.bind_eq_bind, Option.bind_some] 
    rw [hset]
    have := ih (pre ++ [some qreg[b]]) (fun x hx => hb x (by simp [hx]))
    simp only [List.length_append, List.length_cons, List.length_nil] at this
    rw [this]
    simp [hq]

/-- the loop of absorb_parts puts `qreg[bs[i]]` at position i -/
theorem reindex_enum (qreg : List σ) (bs : List Nat) (hlen : bs.length = qreg.length)
    (hb : ∀ b ∈ bs, b < qreg.length) :
    reindex qreg (enumFrom 0 bs) = some (bs.map (qreg[·]?)) := by
  have := reindex_aux qreg bs [] hb
  simp only [List.length_nil, List.nil_append] at this
  unfold reindex
  rw [← hlen]
  exact this

theorem map_getElem?_range (qreg : List σ) : (List.range qreg.length).map (qreg[·]?) = qreg.map some := by
  apply List.ext_getElem?
  intro i
  by_cases h : i < qreg.length
  · simp [h]
  · simp [h]

end ProjQBk

end SqVerif.Engine

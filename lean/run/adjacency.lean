import SqVerif.Drive.Adjacency
/- `lake env lean --run run/adjacency.lean`: one operation per input line, one canonical observation per output line. -/
def main : IO Unit := SqVerif.Drive.loopStateless SqVerif.Drive.Adjacency.handle

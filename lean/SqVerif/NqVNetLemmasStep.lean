import SqVerif.NqVNetLemmas
import SqVerif.Props.C01
import SqVerif.Props.C02
import SqVerif.Props.C07
/-
L5 over L2 — the network side of the coupling: one event of the interpreter model's node,
carried out on the network by the driver, keeps the two coupled (`good_ev`), and the only
disagreements the driver can record are the four named ones.  Operations of the other nodes
leave the coupling alone (`envRun_frame`).
-/
namespace SqVerif.NqVNet

open SqVerif.VNet
open SqVerif.NqExec (TOp)

/-! ### held handles, node by node, through a step -/

theorem heldAt_nodup {s : Net} (hwf : WF s) (i : Nat) : (heldAt s i).Nodup := by
  unfold heldAt
  cases hn : s.nodes[i]? with
  | none => simp
  | some n => simpa using (hwf.nodes i n hn).virtNodup

theorem heldAt_info {s : Net} (hwf : WF s) {i h : Nat} (hh : h ∈ heldAt s i) :
    ∃ vq, s.vqs[h]? = some vq ∧ vq.active = true ∧ vq.virtNode = i ∧ h ∈ allHeld s := by
  obtain ⟨n, hn, hm⟩ := WFP.mem_heldAt.1 hh
  obtain ⟨vq, hv, ha, hvn, _⟩ := (hwf.nodes i n hn).virtOK h hm
  exact ⟨vq, hv, ha, hvn, C01.heldAt_mem_allHeld hh⟩

theorem heldAt_new {s : Net} (hwf : WF s) {a k : Nat} (hres : (step s (.new a)).2.1 = .handle k) (i : Nat) :
    heldAt (step s (.new a)).1 i = if i = a then heldAt s a ++ [k] else heldAt s i := by
  rcases step_cases hwf (.new a) with hin | hout
  · exact absurd hin.2 (C01.stepNew_handle_ops hres)
  · generalize hst : step s (.new a) = out at hout hres
    cases hout with
    | new _ na hna hq hr =>
      simp only [Res.handle.injEq] at hres
      subst hres
      have hv := new_virt_get (s := s) (a := a) (na := na) hna i
      by_cases e : i = a
      · subst e
        rw [if_pos rfl] at hv ⊢
        unfold heldAt; rw [hv, hna]; rfl
      · rw [if_neg e] at hv ⊢
        exact C01.heldAt_eq hv

theorem heldAt_send {s : Net} (hwf : WF s) {h b k : Nat} (hres : (step s (.send h b)).2.1 = .num k) :
    ∃ vq, s.vqs[h]? = some vq ∧ vq.active = true ∧ b ≠ vq.virtNode ∧ ∀ i,
      heldAt (step s (.send h b)).1 i =
        if i = vq.virtNode then (heldAt s i).erase h
        else if i = b then heldAt s i ++ [s.vqs.length] else heldAt s i := by
  rcases step_cases hwf (.send h b) with hin | hout
  · exfalso
    obtain ⟨_, _, _, _, _, hin1, hnot, _⟩ := C01.send_moves_holder hwf hres
    rw [hin.1] at hnot
    exact hnot hin1
  · generalize hst : step s (.send h b) = out at hout hres
    cases hout with
    | send _ _ vq nb hv ha hb hne hcap =>
      refine ⟨vq, hv, ha, hne, fun i => ?_⟩
      have hvirt := send_virt_get (s := s) (h := h) (b := b) (vq := vq) (nb := nb) hne i
      by_cases e1 : i = vq.virtNode
      · rw [if_pos e1] at hvirt ⊢
        unfold heldAt; rw [hvirt]
        cases s.nodes[i]? <;> rfl
      · rw [if_neg e1] at hvirt ⊢
        by_cases e2 : i = b
        · subst e2
          rw [if_pos rfl] at hvirt ⊢
          unfold heldAt; rw [hvirt, hb]; rfl
        · rw [if_neg e2] at hvirt ⊢
          exact C01.heldAt_eq hvirt

theorem heldAt_measure {s : Net} (hwf : WF s) {h : Nat} {oc x : Bool}
    (hres : (step s (.measure h false oc)).2.1 = .outcome x) :
    ∃ vq, s.vqs[h]? = some vq ∧ ∀ i,
      heldAt (step s (.measure h false oc)).1 i =
        if i = vq.virtNode then (heldAt s i).erase h else heldAt s i := by
  rcases step_cases hwf (.measure h false oc) with hin | hout
  · exact absurd hin.2 (C01.stepMeasure_outcome_ops hres)
  · generalize hst : step s (.measure h false oc) = out at hout hres
    cases hout with
    | measDestr _ _ vq sq nd rg i =>
      refine ⟨vq, i.hv, fun j => ?_⟩
      have hvirt := meas_virt_get (s := s) (h := h) (vq := vq) (sq := sq) (nd := nd) (rg := rg) j
      by_cases e1 : j = vq.virtNode
      · rw [if_pos e1] at hvirt ⊢
        unfold heldAt; rw [hvirt]
        cases s.nodes[j]? <;> rfl
      · rw [if_neg e1] at hvirt ⊢
        exact C01.heldAt_eq hvirt

theorem heldAt_other {s : Net} (hwf : WF s) (op : Op)
    (hnew : ∀ a k, ¬ (op = .new a ∧ (step s op).2.1 = .handle k))
    (hsend : ∀ h b k, ¬ (op = .send h b ∧ (step s op).2.1 = .num k))
    (hmeas : ∀ h oc x, ¬ (op = .measure h false oc ∧ (step s op).2.1 = .outcome x)) (i : Nat) :
    heldAt (step s op).1 i = heldAt s i := by
  rcases step_cases hwf op with hin | hout
  · rw [hin.1]
  · generalize hst : step s op = out at hout hnew hsend hmeas
    cases hout with
    | new a na hna hq hr => exact absurd ⟨rfl, rfl⟩ (hnew a _)
    | gate1 => rfl
    | gate2 hc ht g hne hhc hht out =>
      obtain ⟨_, _, _, _, _, _, _, _, _, _, _, _, _, _, _, _, _, frame⟩ := out
      have hv : ((stepGate2 s hc ht g).1.nodes[i]?).map (·.virt) = (s.nodes[i]?).map (·.virt) := by
        have := congrArg (fun l => l[i]?) frame.virt
        simpa [List.getElem?_map] using this
      exact C01.heldAt_eq hv
    | send h b vq nb => exact absurd ⟨rfl, rfl⟩ (hsend h b _)
    | measInplace => rfl
    | measDestr h oc vq sq nd rg i => exact absurd ⟨rfl, rfl⟩ (hmeas h oc oc)

theorem capAt_step {s : Net} (hwf : WF s) (op : Op) (i : Nat) : capAt (step s op).1 i = capAt s i := by
  have := (WFP.step_rel hwf.toP op).caps i
  unfold capAt
  cases h1 : (step s op).1.nodes[i]? <;> cases h2 : s.nodes[i]? <;> simp [h1, h2] at this ⊢
  exact this.1

theorem nextTok_new {s : Net} (hwf : WF s) {a k : Nat} (hres : (step s (.new a)).2.1 = .handle k) :
    (step s (.new a)).1.nextTok = s.nextTok + 1 := by
  rcases step_cases hwf (.new a) with hin | hout
  · exact absurd hin.2 (C01.stepNew_handle_ops hres)
  · generalize hst : step s (.new a) = out at hout hres
    cases hout with
    | new _ na hna hq hr => rfl

theorem nextTok_other {s : Net} (hwf : WF s) (op : Op)
    (hnew : ∀ a k, ¬ (op = .new a ∧ (step s op).2.1 = .handle k)) : (step s op).1.nextTok = s.nextTok := by
  rcases step_cases hwf op with hin | hout
  · rw [hin.1]
  · generalize hst : step s op = out at hout hnew
    cases hout with
    | new a na hna hq hr => exact absurd ⟨rfl, rfl⟩ (hnew a _)
    | gate1 => rfl
    | gate2 hc ht g hne hhc hht out =>
      obtain ⟨_, _, _, _, _, _, _, _, _, _, _, _, _, _, _, _, _, frame⟩ := out
      exact frame.nextTok
    | send h b vq nb => rfl
    | measInplace => rfl
    | measDestr h oc vq sq nd rg i => rfl

/-- a two-qubit gate on two different handles held at the same node is carried out, or refused for want of a
register slot -/
theorem gate2_outcomes {s : Net} (hwf : WF s) {i hc ht : Nat} (hhc : hc ∈ heldAt s i) (hht : ht ∈ heldAt s i)
    (hne : hc ≠ ht) (g : G2) :
    (step s (.gate2 hc ht g)).2.1 = .unit ∨ (step s (.gate2 hc ht g)).2.1 = .err .quantum := by
  obtain ⟨va, hva, haa, hna, _⟩ := heldAt_info hwf hhc
  obtain ⟨vb, hvb, hab, hnb, _⟩ := heldAt_info hwf hht
  show (stepGate2 s hc ht g).2.1 = .unit ∨ (stepGate2 s hc ht g).2.1 = .err .quantum
  rcases stepGate2_classify hwf hc ht g with h | h | h | h | h
  · exact absurd ⟨va, vb, hva, hvb, by rw [hna, hnb]⟩ h.2
  · obtain ⟨_, vc, vt, e1, e2, _, hact⟩ := h
    rw [hva] at e1; rw [hvb] at e2; cases e1; cases e2
    rcases hact with hact | hact
    · rw [haa] at hact; cases hact
    · rw [hab] at hact; cases hact
  · exact absurd h.2.1 hne
  · right; rw [h.1]
  · left
    obtain ⟨_, _, _, _, _, _, _, _, _, hu, _⟩ := h.1
    exact hu

theorem absNode_eq {s s' : Net} {i : Nat} (h1 : capAt s' i = capAt s i) (h2 : toksAt s' i = toksAt s i)
    (h3 : s'.nextTok = s.nextTok) : absNode s' i = absNode s i := by
  unfold absNode; rw [h1, h2, h3]

theorem held_eq_length (s : Net) (i : Nat) : held s i = (heldAt s i).length := rfl

/-! ### gates -/

theorem g1_supported (g : NqExec.G1) : (g1 g).supported = g.supported := by cases g <;> rfl

/-! ### the renaming -/

theorem lookup_mem : ∀ {hm : List (Nat × Nat)} {t h : Nat}, lookup hm t = some h → (t, h) ∈ hm
  | [], _, _, e => by simp [lookup] at e
  | (a, b) :: l, t, h, e => by
    unfold lookup at e
    rw [List.find?_cons] at e
    by_cases hat : a = t
    · subst hat
      simp at e
      subst e
      exact List.mem_cons_self
    · have : ((a, b).1 == t) = false := by simpa using hat
      rw [this] at e
      exact List.mem_cons_of_mem _ (lookup_mem (hm := l) e)

theorem lookup_of_mem : ∀ {hm : List (Nat × Nat)} {t : Nat}, t ∈ hm.map (·.1) → ∃ h, lookup hm t = some h
  | [], _, e => by simp at e
  | (a, b) :: l, t, e => by
    unfold lookup
    rw [List.find?_cons]
    by_cases hat : a = t
    · subst hat; exact ⟨b, by simp⟩
    · have hb : ((a, b).1 == t) = false := by simpa using hat
      rw [hb]
      have : t ∈ l.map (·.1) := by
        rcases List.mem_cons.1 e with e | e
        · exact absurd e.symm hat
        · exact e
      exact lookup_of_mem this

theorem eraseTok_fst : ∀ (hm : List (Nat × Nat)) (t : Nat), (eraseTok hm t).map (·.1) = (hm.map (·.1)).erase t
  | [], _ => rfl
  | (a, b) :: l, t => by
    unfold eraseTok
    rw [List.eraseP_cons, List.map_cons, List.erase_cons]
    by_cases hat : a = t
    · subst hat; simp
    · have hb : (a == t) = false := by simpa using hat
      simp only [hb, cond_false, Bool.false_eq_true, if_false, List.map_cons]
      exact congrArg _ (eraseTok_fst l t)

theorem eraseTok_snd : ∀ (hm : List (Nat × Nat)) (t h : Nat), (hm.map (·.2)).Nodup → lookup hm t = some h →
    (eraseTok hm t).map (·.2) = (hm.map (·.2)).erase h
  | [], _, _, _, e => by simp [lookup] at e
  | (a, b) :: l, t, h, hn, e => by
    unfold eraseTok
    rw [List.eraseP_cons, List.map_cons, List.erase_cons]
    simp only [List.map_cons, List.nodup_cons] at hn
    unfold lookup at e
    rw [List.find?_cons] at e
    by_cases hat : a = t
    · subst hat
      simp at e
      subst e
      simp
    · have hb : (a == t) = false := by simpa using hat
      have hb' : ((a, b).1 == t) = false := hb
      rw [hb'] at e
      have hmem : (t, h) ∈ l := lookup_mem (hm := l) e
      have hne : b ≠ h := by
        rintro rfl
        exact hn.1 (List.mem_map.2 ⟨(t, b), hmem, rfl⟩)
      have hbh : (b == h) = false := by simpa using hne
      simp only [hb, cond_false, hbh, Bool.false_eq_true, if_false, List.map_cons]
      exact congrArg _ (eraseTok_snd l t h hn.2 e)

theorem lookup_inj {hm : List (Nat × Nat)} (hn : (hm.map (·.2)).Nodup) {a b x : Nat}
    (ha : lookup hm a = some x) (hb : lookup hm b = some x) : a = b := by
  have := NqExec.nodup_map_inj (fun e : Nat × Nat => e.2) hn (lookup_mem ha) (lookup_mem hb) rfl
  exact congrArg Prod.fst this

/-! ### what a coupled, well-formed pair gives -/

section coupled
variable {i : Nat} {n : NqExec.Node} {d : Drv}

theorem Coupled.nodup (hc : Coupled i n d) (hwf : WF d.net) : (d.hm.map (·.2)).Nodup := by
  rw [hc.hdls]; exact heldAt_nodup hwf i

theorem Coupled.handle (hc : Coupled i n d) {t : Nat} (ht : t ∈ n.held) :
    ∃ h, lookup d.hm t = some h ∧ h ∈ heldAt d.net i := by
  obtain ⟨h, e⟩ := lookup_of_mem (hm := d.hm) (by rw [hc.toks]; exact ht)
  refine ⟨h, e, ?_⟩
  rw [← hc.hdls]
  exact List.mem_map.2 ⟨(t, h), lookup_mem e, rfl⟩

theorem Coupled.count (hc : Coupled i n d) : held d.net i = n.held.length := by
  rw [held_eq_length, ← hc.hdls, ← hc.toks]; simp

end coupled

/-- outcome of one driver step -/
structure Good (i : Nat) (n' : NqExec.Node) (d d' : Drv) : Prop where
  wf : WF d'.net
  coupled : d'.disc = none → Coupled i n' d'
  kinds : d'.disc ≠ some .noHandle ∧ d'.disc ≠ some .other
  sched : d'.sched = d.sched

theorem Good.same {i : Nat} {n : NqExec.Node} {d : Drv} (hwf : WF d.net) (hd : d.disc = none) (hc : Coupled i n d) :
    Good i n d d :=
  ⟨hwf, fun _ => hc, by rw [hd]; exact ⟨by simp, by simp⟩, rfl⟩

theorem Good.failed {i : Nat} {n' : NqExec.Node} {d : Drv} (hwf : WF d.net) (x : Disc) (h1 : x ≠ .noHandle) (h2 : x ≠ .other) :
    Good i n' d (d.fail x) :=
  ⟨hwf, fun h => by simp [Drv.fail] at h, ⟨by simpa [Drv.fail] using h1, by simpa [Drv.fail] using h2⟩, rfl⟩

section ops
variable {i p : Nat} {n n' : NqExec.Node} {d : Drv}

theorem good_new {t : Nat} (hwf : WF d.net) (hd : d.disc = none) (hc : Coupled i n d)
    (hev : nodeEv n (.op (.new t)) = some n') : Good i n' d (driveOp i p d (.new t)) := by
  simp only [nodeEv] at hev
  split at hev
  · rename_i hcond
    obtain ⟨hlt, rfl⟩ := hcond
    cases hev
    -- node i exists
    cases hn : d.net.nodes[i]? with
    | none =>
      have : capAt d.net i = 0 := by simp [capAt, hn]
      have := hc.cap; omega
    | some nd =>
      have hcap : nd.maxQubits = n.cap := by
        have := hc.cap; simp [capAt, hn] at this; exact this.symm
      have hcnt := hc.count
      obtain ⟨c1, _, c3, _⟩ := C07.create_iff d.net i nd hwf hn
      by_cases hr : nd.numRegs < nd.maxRegs
      · obtain ⟨hid, hres⟩ := c1.2 ⟨by omega, hr⟩
        have e : driveOp i p d (.new n.next) =
            { d with net := (step d.net (.new i)).1, hm := d.hm ++ [(n.next, hid)] } := by
          simp only [driveOp]
          rcases hs : step d.net (.new i) with ⟨s', r, eo⟩
          rw [hs] at hres
          simp only at hres
          subst hres
          rfl
        rw [e]
        refine ⟨C02.wf_step _ _ hwf, fun _ => ⟨?_, ?_, ?_⟩, by simp [hd], rfl⟩
        · show n.cap = capAt (step d.net (.new i)).1 i
          rw [capAt_step hwf]; exact hc.cap
        · show (d.hm ++ [(n.next, hid)]).map (·.1) = n.held ++ [n.next]
          simp [hc.toks]
        · show (d.hm ++ [(n.next, hid)]).map (·.2) = heldAt (step d.net (.new i)).1 i
          rw [heldAt_new hwf hres, if_pos rfl]
          simp [hc.hdls]
      · have hres : (step d.net (.new i)).2.1 = .err .quantum := c3.2 ⟨by omega, by omega⟩
        have e : driveOp i p d (.new n.next) = d.fail .regLimitNew := by
          simp only [driveOp]
          rcases hs : step d.net (.new i) with ⟨s', r, eo⟩
          rw [hs] at hres
          simp only at hres
          subst hres
          rfl
        rw [e]
        exact Good.failed hwf _ (by decide) (by decide)
  · cases hev

theorem good_gate1 {g : NqExec.G1} {t : Nat} (hwf : WF d.net) (hd : d.disc = none) (hc : Coupled i n d)
    (hev : nodeEv n (.op (.gate1 g t)) = some n') : Good i n' d (driveOp i p d (.gate1 g t)) := by
  simp only [nodeEv] at hev
  split at hev
  · rename_i hcond
    cases hev
    obtain ⟨h, hl, hh⟩ := hc.handle hcond.1
    obtain ⟨vq, hv, ha, _, _⟩ := heldAt_info hwf hh
    obtain ⟨nn, r, ps, hst⟩ := C01.gate1_emitted hwf hv ha (g := g1 g) (by rw [g1_supported]; exact hcond.2)
    have e : driveOp i p d (.gate1 g t) = d := by
      simp only [driveOp, hl, hst]
    rw [e]
    exact Good.same hwf hd hc
  · cases hev

theorem good_gate2 {g : NqExec.G2} {a b : Nat} (hwf : WF d.net) (hd : d.disc = none) (hc : Coupled i n d)
    (hev : nodeEv n (.op (.gate2 g a b)) = some n') : Good i n' d (driveOp i p d (.gate2 g a b)) := by
  simp only [nodeEv] at hev
  split at hev
  · rename_i hcond
    cases hev
    obtain ⟨ha, hla, hha⟩ := hc.handle hcond.1
    obtain ⟨hb, hlb, hhb⟩ := hc.handle hcond.2.1
    have hne : ha ≠ hb := by
      rintro rfl
      exact hcond.2.2 (lookup_inj (hc.nodup hwf) hla hlb)
    obtain ⟨va, hva, haa, hna, _⟩ := heldAt_info hwf hha
    obtain ⟨vb, hvb, hab, hnb, _⟩ := heldAt_info hwf hhb
    have key : (step d.net (.gate2 ha hb (g2 g))).2.1 = .unit ∨ (step d.net (.gate2 ha hb (g2 g))).2.1 = .err .quantum := by
      show (stepGate2 d.net ha hb (g2 g)).2.1 = .unit ∨ (stepGate2 d.net ha hb (g2 g)).2.1 = .err .quantum
      rcases stepGate2_classify hwf ha hb (g2 g) with h | h | h | h | h
      · exact absurd ⟨va, vb, hva, hvb, by rw [hna, hnb]⟩ h.2
      · obtain ⟨_, vc, vt, e1, e2, _, hact⟩ := h
        rw [hva] at e1; rw [hvb] at e2; cases e1; cases e2
        rcases hact with hact | hact
        · rw [haa] at hact; cases hact
        · rw [hab] at hact; cases hact
      · exact absurd h.2.1 hne
      · right; rw [h.1]
      · left
        obtain ⟨_, _, _, _, _, _, _, _, _, hu, _⟩ := h.1
        exact hu
    rcases key with hres | hres
    · have e : driveOp i p d (.gate2 g a b) = { d with net := (step d.net (.gate2 ha hb (g2 g))).1 } := by
        simp only [driveOp, hla, hlb]
        rcases hs : step d.net (.gate2 ha hb (g2 g)) with ⟨s', r, eo⟩
        rw [hs] at hres
        simp only at hres
        subst hres
        rfl
      rw [e]
      refine ⟨C02.wf_step _ _ hwf, fun _ => ⟨?_, hc.toks, ?_⟩, by simp [hd], rfl⟩
      · show n.cap = capAt (step d.net (.gate2 ha hb (g2 g))).1 i
        rw [capAt_step hwf]; exact hc.cap
      · show d.hm.map (·.2) = heldAt (step d.net (.gate2 ha hb (g2 g))).1 i
        rw [C02.gate2_population _ _ _ _ hwf]; exact hc.hdls
    · have e : driveOp i p d (.gate2 g a b) = d.fail .regLimitGate := by
        simp only [driveOp, hla, hlb]
        rcases hs : step d.net (.gate2 ha hb (g2 g)) with ⟨s', r, eo⟩
        rw [hs] at hres
        simp only at hres
        subst hres
        rfl
      rw [e]
      exact Good.failed hwf _ (by decide) (by decide)
  · cases hev

theorem good_meas {t : Nat} {ip o : Bool} (hwf : WF d.net) (hd : d.disc = none) (hc : Coupled i n d)
    (hev : nodeEv n (.op (.meas t ip o)) = some n') : Good i n' d (driveOp i p d (.meas t ip o)) := by
  simp only [nodeEv] at hev
  split at hev
  · rename_i ht
    cases hev
    obtain ⟨h, hl, hh⟩ := hc.handle ht
    obtain ⟨vq0, hv0, _, hvn0, hall⟩ := heldAt_info hwf hh
    obtain ⟨vq, sq, nd, rg, info⟩ := hwf.info_of_held hall
    cases ip with
    | true =>
      have hst : step d.net (.measure h true o) = _ := stepMeasure_inplace info o
      have e : driveOp i p d (.meas t true o) = d := by
        simp only [driveOp, hl, hst, if_true]
      rw [e]
      exact Good.same hwf hd hc
    | false =>
      have hst : step d.net (.measure h false o) = _ := stepMeasure_destr info o
      have hres : (step d.net (.measure h false o)).2.1 = .outcome o := by rw [hst]
      have e : driveOp i p d (.meas t false o) =
          { d with net := (step d.net (.measure h false o)).1, hm := eraseTok d.hm t } := by
        simp only [driveOp, hl]
        rw [hst]
        simp
      rw [e]
      obtain ⟨vq', hv', hheld⟩ := heldAt_measure hwf hres
      rw [hv0] at hv'; cases hv'
      refine ⟨C02.wf_step _ _ hwf, fun _ => ⟨?_, ?_, ?_⟩, by simp [hd], rfl⟩
      · show n.cap = capAt (step d.net (.measure h false o)).1 i
        rw [capAt_step hwf]; exact hc.cap
      · show (eraseTok d.hm t).map (·.1) = n.held.erase t
        rw [eraseTok_fst, hc.toks]
      · show (eraseTok d.hm t).map (·.2) = heldAt (step d.net (.measure h false o)).1 i
        rw [hheld i, if_pos hvn0.symm, eraseTok_snd _ _ _ (hc.nodup hwf) hl, hc.hdls]
  · cases hev

theorem good_send {t : Nat} {ok : Bool} (hwf : WF d.net) (hd : d.disc = none) (hc : Coupled i n d)
    (hev : nodeEv n (.op (.send t ok)) = some n') : Good i n' d (driveOp i p d (.send t ok)) := by
  simp only [nodeEv] at hev
  split at hev
  · rename_i ht
    cases hev
    obtain ⟨h, hl, hh⟩ := hc.handle ht
    obtain ⟨vq0, hv0, ha0, hvn0, _⟩ := heldAt_info hwf hh
    have hstep : ∀ x, stepSend d.net h p = x → step d.net (.send h p) = x := fun _ e => e
    rcases C05.stepSend_result d.net h p with ⟨hv, _⟩ | ⟨vq, hv, hr | hr | hr | hr⟩
    · rw [hv0] at hv; cases hv
    · rw [hv0] at hv; cases hv
      rw [ha0] at hr; cases hr.1
    · have e : driveOp i p d (.send t ok) = d.fail .peer := by
        simp only [driveOp, hl, hstep _ hr.2.2]
      rw [e]; exact Good.failed hwf _ (by decide) (by decide)
    · have e : driveOp i p d (.send t ok) = d.fail .peer := by
        simp only [driveOp, hl, hstep _ hr.2.2.2]
      rw [e]; exact Good.failed hwf _ (by decide) (by decide)
    · obtain ⟨_, _, nb, _, hr | hr⟩ := hr
      · cases ok with
        | true =>
          have e : driveOp i p d (.send t true) = d.fail .sendAnswer := by
            simp only [driveOp, hl, hstep _ hr.2]
          rw [e]; exact Good.failed hwf _ (by decide) (by decide)
        | false =>
          have e : driveOp i p d (.send t false) = d := by
            simp only [driveOp, hl, hstep _ hr.2]
          rw [e]
          exact Good.same hwf hd hc
      · obtain ⟨_, x, hres⟩ := hr
        have hres' : (step d.net (.send h p)).2.1 = .num x := hres
        cases ok with
        | false =>
          have e : driveOp i p d (.send t false) = d.fail .sendAnswer := by
            simp only [driveOp, hl]
            rcases hs : step d.net (.send h p) with ⟨s', r, eo⟩
            rw [hs] at hres'
            simp only at hres'
            subst hres'
            rfl
          rw [e]; exact Good.failed hwf _ (by decide) (by decide)
        | true =>
          have e : driveOp i p d (.send t true) =
              { d with net := (step d.net (.send h p)).1, hm := eraseTok d.hm t } := by
            simp only [driveOp, hl]
            rcases hs : step d.net (.send h p) with ⟨s', r, eo⟩
            rw [hs] at hres'
            simp only at hres'
            subst hres'
            rfl
          rw [e]
          obtain ⟨vq', hv', _, _, hheld⟩ := heldAt_send hwf hres'
          rw [hv0] at hv'; cases hv'
          refine ⟨C02.wf_step _ _ hwf, fun _ => ⟨?_, ?_, ?_⟩, by simp [hd], rfl⟩
          · show n.cap = capAt (step d.net (.send h p)).1 i
            rw [capAt_step hwf]; exact hc.cap
          · show (eraseTok d.hm t).map (·.1) = n.held.erase t
            rw [eraseTok_fst, hc.toks]
          · show (eraseTok d.hm t).map (·.2) = heldAt (step d.net (.send h p)).1 i
            rw [hheld i, if_pos hvn0.symm, eraseTok_snd _ _ _ (hc.nodup hwf) hl, hc.hdls]
  · cases hev

theorem good_arrive {sender t : Nat} (hwf : WF d.net) (hd : d.disc = none) (hc : Coupled i n d)
    (_hlt : n.held.length < n.cap) (_ht : t = n.next) :
    Good i { n with held := n.held ++ [t], next := n.next + 1 } d (driveArrive i d sender t) := by
  unfold driveArrive
  rcases hs1 : step d.net (.new sender) with ⟨s1, r1, eo1⟩
  have hs1' : s1 = (step d.net (.new sender)).1 := by rw [hs1]
  have hwf1 : WF s1 := by rw [hs1']; exact C02.wf_step _ _ hwf
  cases r1 with
  | handle h =>
    have hres1 : (step d.net (.new sender)).2.1 = .handle h := by rw [hs1]
    dsimp only
    rcases hs2 : step s1 (.send h i) with ⟨s2, r2, eo2⟩
    cases r2 with
    | num x =>
      have hres2 : (step s1 (.send h i)).2.1 = .num x := by rw [hs2]
      have hs2' : s2 = (step s1 (.send h i)).1 := by rw [hs2]
      dsimp only
      obtain ⟨vq, hv, _, hne, hheld⟩ := heldAt_send hwf1 hres2
      -- the new handle lives at `sender`
      have hhs : h ∈ heldAt s1 sender := by
        rw [hs1']; exact (C01.toks_new hwf hres1).2.2.2.2
      obtain ⟨vq', hv', _, hvn, _⟩ := heldAt_info hwf1 hhs
      rw [hv] at hv'; cases hv'
      have hsi : i ≠ sender := by rw [← hvn]; exact hne
      have h1 : heldAt s1 i = heldAt d.net i := by
        rw [hs1', heldAt_new hwf hres1, if_neg hsi]
      refine ⟨by rw [hs2']; exact C02.wf_step _ _ hwf1, fun _ => ⟨?_, ?_, ?_⟩, by simp [hd], rfl⟩
      · show n.cap = capAt s2 i
        rw [hs2', capAt_step hwf1, hs1', capAt_step hwf]; exact hc.cap
      · show (d.hm ++ [(t, s1.vqs.length)]).map (·.1) = n.held ++ [t]
        simp [hc.toks]
      · show (d.hm ++ [(t, s1.vqs.length)]).map (·.2) = heldAt s2 i
        rw [hs2', hheld i, if_neg (by rw [hvn]; exact hsi), if_pos rfl, h1]
        simp [hc.hdls]
    | handle _ | outcome _ | unit | none | err _ | badCall | selfSend =>
      exact Good.failed hwf _ (by decide) (by decide)
  | num _ | outcome _ | unit | none | err _ | badCall | selfSend =>
    exact Good.failed hwf _ (by decide) (by decide)

/-- T2: one event, carried out by the driver on a coupled well-formed pair, leaves a coupled well-formed pair
or records one of the four named disagreements -/
theorem good_ev {e : NEv} (hwf : WF d.net) (hd : d.disc = none) (hc : Coupled i n d)
    (hev : nodeEv n e = some n') : Good i n' d (driveEv i p d e) := by
  unfold driveEv
  rw [hd]
  cases e with
  | op o =>
    cases o with
    | new t => exact good_new hwf hd hc hev
    | gate1 g t => exact good_gate1 hwf hd hc hev
    | gate2 g a b => exact good_gate2 hwf hd hc hev
    | meas t ip o => exact good_meas hwf hd hc hev
    | send t ok => exact good_send hwf hd hc hev
    | claim t =>
      simp only [nodeEv] at hev
      cases hev
      exact Good.same hwf hd hc
  | arrive sock sender t =>
    simp only [nodeEv] at hev
    split at hev
    · rename_i hcond
      cases hev
      exact good_arrive hwf hd hc hcond.1 hcond.2
    · cases hev

end ops

/-! ### the other nodes -/

theorem foreignH_ne {s : Net} {i h : Nat} {vq : VQ} (hf : foreignH s i h = true) (hv : s.vqs[h]? = some vq) :
    vq.virtNode ≠ i := by
  unfold foreignH at hf
  rw [hv] at hf
  simpa using hf

theorem foreign_heldAt {s : Net} (hwf : WF s) {i : Nat} {op : Op} (hf : foreign s i op = true) :
    heldAt (step s op).1 i = heldAt s i := by
  cases op with
  | new a =>
    have hai : i ≠ a := by
      have : a ≠ i := by simpa [foreign] using hf
      exact fun e => this e.symm
    cases hr : (step s (.new a)).2.1 with
    | handle k => rw [heldAt_new hwf hr, if_neg hai]
    | num _ | outcome _ | unit | none | err _ | badCall | selfSend =>
      exact heldAt_other hwf _ (fun a' k' h => by rw [hr] at h; cases h.2) (fun _ _ _ h => by cases h.1)
        (fun _ _ _ h => by cases h.1) i
  | gate1 h g =>
    exact heldAt_other hwf _ (fun _ _ h => by cases h.1) (fun _ _ _ h => by cases h.1) (fun _ _ _ h => by cases h.1) i
  | gate2 hc ht g =>
    exact heldAt_other hwf _ (fun _ _ h => by cases h.1) (fun _ _ _ h => by cases h.1) (fun _ _ _ h => by cases h.1) i
  | send h b =>
    simp only [foreign, Bool.and_eq_true, bne_iff_ne, ne_eq] at hf
    cases hr : (step s (.send h b)).2.1 with
    | num k =>
      obtain ⟨vq, hv, _, _, hheld⟩ := heldAt_send hwf hr
      have h1 := foreignH_ne hf.1 hv
      rw [hheld i, if_neg (fun e => h1 e.symm), if_neg (fun e => hf.2 e.symm)]
    | handle _ | outcome _ | unit | none | err _ | badCall | selfSend =>
      exact heldAt_other hwf _ (fun _ _ h => by cases h.1) (fun _ _ k' h => by rw [hr] at h; cases h.2)
        (fun _ _ _ h => by cases h.1) i
  | measure h ip oc =>
    simp only [foreign] at hf
    cases ip with
    | true =>
      exact heldAt_other hwf _ (fun _ _ h => by cases h.1) (fun _ _ _ h => by cases h.1) (fun _ _ _ h => by cases h.1) i
    | false =>
      cases hr : (step s (.measure h false oc)).2.1 with
      | outcome x =>
        obtain ⟨vq, hv, hheld⟩ := heldAt_measure hwf hr
        have h1 := foreignH_ne hf hv
        rw [hheld i, if_neg (fun e => h1 e.symm)]
      | handle _ | num _ | unit | none | err _ | badCall | selfSend =>
        exact heldAt_other hwf _ (fun _ _ h => by cases h.1) (fun _ _ _ h => by cases h.1)
          (fun _ _ x' h => by rw [hr] at h; cases h.2) i

/-- whatever the other nodes do: node `i` holds the same handles, has the same limit, the network stays
well-formed -/
theorem envRun_frame (i : Nat) : ∀ (ops : List Op) (s : Net), WF s →
    WF (envRun i s ops) ∧ heldAt (envRun i s ops) i = heldAt s i ∧ capAt (envRun i s ops) i = capAt s i
  | [], _, hwf => ⟨hwf, rfl, rfl⟩
  | op :: ops, s, hwf => by
    unfold envRun
    by_cases hf : foreign s i op = true
    · rw [if_pos hf]
      obtain ⟨r1, r2, r3⟩ := envRun_frame i ops _ (C02.wf_step s op hwf)
      exact ⟨r1, by rw [r2, foreign_heldAt hwf hf], by rw [r3, capAt_step hwf]⟩
    · rw [if_neg hf]
      exact envRun_frame i ops s hwf

theorem envStep_some {i : Nat} {d : Drv} {x : Disc} (hd : d.disc = some x) : envStep i d = d := by
  unfold envStep; rw [hd]

theorem envStep_nil {i : Nat} {d : Drv} (hd : d.disc = none) (hs : d.sched = []) : envStep i d = d := by
  unfold envStep; rw [hd, hs]

theorem envStep_cons {i : Nat} {d : Drv} {b : List Op} {rest : List (List Op)} (hd : d.disc = none)
    (hs : d.sched = b :: rest) : envStep i d = { d with net := envRun i d.net b, sched := rest } := by
  unfold envStep; rw [hd, hs]

theorem envStep_good {i : Nat} {n : NqExec.Node} {d : Drv} (hwf : WF d.net) (hc : d.disc = none → Coupled i n d) :
    WF (envStep i d).net ∧ ((envStep i d).disc = none → Coupled i n (envStep i d)) ∧ (envStep i d).disc = d.disc := by
  cases hd : d.disc with
  | some x =>
    rw [envStep_some hd]
    exact ⟨hwf, fun h => (by rw [hd] at h; cases h), hd⟩
  | none =>
    cases hs : d.sched with
    | nil =>
      rw [envStep_nil hd hs]
      exact ⟨hwf, fun _ => hc hd, hd⟩
    | cons b rest =>
      rw [envStep_cons hd hs]
      obtain ⟨r1, r2, r3⟩ := envRun_frame i b d.net hwf
      have c := hc hd
      exact ⟨r1, fun _ => ⟨by show n.cap = capAt (envRun i d.net b) i; rw [r3]; exact c.cap, c.toks,
        by show d.hm.map (·.2) = heldAt (envRun i d.net b) i; rw [r2]; exact c.hdls⟩, hd⟩

end SqVerif.NqVNet

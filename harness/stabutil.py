"""Shared helpers of the stabilizer checks C13 / C14.

Four independent pieces:

* encoding of `_group` matrices to the line protocol of the Lean driver
  `SqVerif.Drive.Stab` (`n | row row ...`, rows = bit strings of length 2n+1);
* a NumPy reference (state vectors, 2^n x 2^n unitaries, qubit 0 = leftmost
  tensor factor) that knows nothing of the code under test nor of the Lean model;
* a tiny symbolic Pauli calculus whose conjugation / product tables are DERIVED
  NUMERICALLY from the matrices above; it is only used to enumerate and
  randomise the input states (BFS over Clifford gates, re-mixing generators);
* the case executor: runs one case descriptor (plain tuples, picklable) on the
  REAL StabilizerState / stabilizerEngine, judges it with the NumPy reference
  and returns the driver queries for the tie.
"""
import itertools
import multiprocessing
import os
import random

import numpy as np

from . import core

# --------------------------------------------------------------------------
# encoding
# --------------------------------------------------------------------------

LETTER = {(0, 0): "I", (1, 0): "X", (1, 1): "Y", (0, 1): "Z"}
LETTER_INV = {v: k for k, v in LETTER.items()}
GATES1 = ["X", "Y", "Z", "H", "K", "S"]
GATES2 = ["CNOT", "CZ"]


def rows_of(mat):
    """tuple of bit strings, one per row of a NumPy matrix"""
    return tuple("".join("1" if b else "0" for b in r) for r in np.asarray(mat))


def mat_of(n, rows):
    if not rows:
        return np.empty(shape=(0, 2 * n + 1 if n else 0), dtype=bool)
    return np.array([[c == "1" for c in r] for r in rows], dtype=bool)


def enc_rows(rows):
    return " ".join(rows) if rows else "-"


def enc_state(n, rows):
    return "%d | %s" % (n, enc_rows(rows))


def parse_state(s):
    """'n | rows' -> (n, rows)"""
    a, b = s.split("|")
    rows = tuple(b.split())
    return int(a), (() if rows == ("-",) else rows)


def pauli_str(row):
    """bit string -> '+XZ..' (for messages)"""
    n = (len(row) - 1) // 2
    if len(row) != 2 * n + 1:
        return "?" + row
    return ("-" if row[-1] == "1" else "+") + "".join(LETTER[(int(row[i]), int(row[n + i]))] for i in range(n))


def from_pauli(s):
    """'+XZ' / '-XZ' / 'XZ' -> bit string"""
    neg = s.startswith("-")
    s = s.lstrip("+-")
    xs = "".join(str(LETTER_INV[c][0]) for c in s)
    zs = "".join(str(LETTER_INV[c][1]) for c in s)
    return xs + zs + ("1" if neg else "0")


def show(n, rows):
    return "%d:[%s]" % (n, " ".join(pauli_str(r) for r in rows))


# --------------------------------------------------------------------------
# NumPy reference
# --------------------------------------------------------------------------

I2 = np.eye(2, dtype=complex)
MX = np.array([[0, 1], [1, 0]], dtype=complex)
MZ = np.array([[1, 0], [0, -1]], dtype=complex)
MY = 1j * MX @ MZ
MH = (MX + MZ) / np.sqrt(2)
MK = np.array([[1, -1j], [1j, -1]], dtype=complex) / np.sqrt(2)
MS = np.diag([1, 1j]).astype(complex)
P0 = np.diag([1, 0]).astype(complex)
P1 = np.diag([0, 1]).astype(complex)
PMAT = {(0, 0): I2, (1, 0): MX, (1, 1): MY, (0, 1): MZ}
U1 = {"X": MX, "Y": MY, "Z": MZ, "H": MH, "K": MK, "S": MS}
TOL = 1e-8


def kron(ms):
    out = np.array([[1]], dtype=complex)
    for m in ms:
        out = np.kron(out, m)
    return out


def rowmat(row):
    n = (len(row) - 1) // 2
    return (-1 if row[2 * n] == "1" else 1) * kron([PMAT[(int(row[i]), int(row[n + i]))] for i in range(n)])


_gm = {}


def gate_matrix(g, args, n):
    """2^n x 2^n unitary, qubit 0 = leftmost factor"""
    key = (g, tuple(args), n)
    if key not in _gm:
        if g in U1:
            m = kron([U1[g] if i == args[0] else I2 for i in range(n)])
        else:
            c, t = args
            W = MX if g == "CNOT" else MZ
            m = (kron([P0 if i == c else I2 for i in range(n)])
                 + kron([P1 if i == c else (W if i == t else I2) for i in range(n)]))
        if len(_gm) > 600:
            _gm.clear()
        _gm[key] = m
    return _gm[key]


def apply_gate(g, args, n, v):
    """U v.  n <= 6: the full matrix; beyond: the same unitary contracted on the
    qubit axes (checked against the full matrix by selftest())."""
    if n <= 6:
        return gate_matrix(g, args, n) @ v
    return apply_gate_axes(g, args, n, v)


def apply_gate_axes(g, args, n, v):
    t = v.reshape([2] * n)
    if g in U1:
        j = args[0]
        t = np.moveaxis(np.tensordot(U1[g], t, axes=(1, j)), 0, j)
    else:
        c, tt = args
        u4 = gate_matrix(g, (0, 1), 2).reshape(2, 2, 2, 2)
        t = np.moveaxis(np.tensordot(u4, t, axes=([2, 3], [c, tt])), [0, 1], [c, tt])
    return t.reshape(-1)


_idx = {}


def _tables(n):
    if n not in _idx:
        idx = np.arange(1 << n)
        par = np.zeros(1 << n, dtype=np.int64)
        x = idx.copy()
        while x.any():
            par ^= x & 1
            x >>= 1
        _idx[n] = (idx, par)
    return _idx[n]


def pauli_apply(row, n, v):
    """(sign * P) v without building the matrix: P|b> = i^#Y (-1)^(b.z) |b xor x>"""
    idx, par = _tables(n)
    xm = zm = ny = 0
    for i in range(n):
        x, z = row[i] == "1", row[n + i] == "1"
        if x:
            xm |= 1 << (n - 1 - i)
        if z:
            zm |= 1 << (n - 1 - i)
        if x and z:
            ny += 1
    coef = (1j ** ny) * (-1 if row[2 * n] == "1" else 1) * (1 - 2 * par[idx & zm])
    return (coef * v)[idx ^ xm]


_vec = {}
_rs = np.random.RandomState(20260930)


def stab_vector(n, rows):
    """normalised vector with g v = v for all rows (commuting, independent), or None"""
    key = (n, rows)
    if key in _vec:
        return _vec[key]
    out = None
    if len(rows) == n and all(len(r) == 2 * n + 1 for r in rows):
        d = 1 << n
        starts = [_rs.randn(d) + 1j * _rs.randn(d)]
        def unit(b):
            e = np.zeros(d, dtype=complex)
            e[b] = 1
            return e

        for v in itertools.chain(starts, (unit(b) for b in range(d))):
            v = v / np.linalg.norm(v)
            for r in rows:
                v = (v + pauli_apply(r, n, v)) / 2
            nrm = np.linalg.norm(v)
            if nrm > 1e-6:
                out = v / nrm
                break
    if len(_vec) > 20000:
        _vec.clear()
    _vec[key] = out
    return out


def commute(r1, r2):
    n = (len(r1) - 1) // 2
    s = 0
    for i in range(n):
        s ^= (r1[i] == "1" and r2[n + i] == "1") ^ (r1[n + i] == "1" and r2[i] == "1")
    return not s


def gf2_rank(rows):
    """rank of the X|Z part"""
    ms = [int(r[:-1], 2) if len(r) > 1 else 0 for r in rows]
    rank = 0
    while ms:
        p = ms.pop()
        if p:
            rank += 1
            low = p & -p
            ms = [m ^ p if m & low else m for m in ms]
    return rank


def check_generators(n, rows, v):
    """None iff `rows` are n independent commuting generators that all stabilise v (+1)"""
    if len(rows) != n:
        return "%d rows for %d qubits" % (len(rows), n)
    for r in rows:
        if len(r) != 2 * n + 1:
            return "row of length %d for %d qubits" % (len(r), n)
    for a, b in itertools.combinations(rows, 2):
        if not commute(a, b):
            return "rows %s and %s do not commute" % (pauli_str(a), pauli_str(b))
    if gf2_rank(rows) != n:
        return "generators are dependent (rank %d < %d)" % (gf2_rank(rows), n)
    for r in rows:
        if np.linalg.norm(pauli_apply(r, n, v) - v) > TOL:
            return "generator %s does not stabilise the reference vector" % pauli_str(r)
    return None


def selftest():
    """the index-trick Pauli application and the axis-contracted gates agree with kron matrices"""
    rs = np.random.RandomState(7)
    for n in (1, 2, 3, 4):
        for _ in range(12):
            row = "".join(rs.choice(["0", "1"]) for _ in range(2 * n + 1))
            v = rs.randn(1 << n) + 1j * rs.randn(1 << n)
            if not np.allclose(rowmat(row) @ v, pauli_apply(row, n, v)):
                raise core.MachineryError("stabutil selftest: pauli_apply disagrees with kron on %s" % row)
        v = rs.randn(1 << n) + 1j * rs.randn(1 << n)
        for g in GATES1:
            for j in range(n):
                m = gate_matrix(g, (j,), n)
                if not np.allclose(m @ m.conj().T, np.eye(1 << n)) or not np.allclose(m @ v, apply_gate_axes(g, (j,), n, v)):
                    raise core.MachineryError("stabutil selftest: gate %s" % g)
        for g in GATES2:
            for c, t in itertools.permutations(range(n), 2):
                m = gate_matrix(g, (c, t), n)
                if not np.allclose(m @ m.conj().T, np.eye(1 << n)) or not np.allclose(m @ v, apply_gate_axes(g, (c, t), n, v)):
                    raise core.MachineryError("stabutil selftest: gate %s" % g)
    if len(all_states(1)) != 6 or len(all_states(2)) != 60:
        raise core.MachineryError("stabutil selftest: state enumeration")


# --------------------------------------------------------------------------
# symbolic Pauli calculus with numerically derived tables (input generation)
# --------------------------------------------------------------------------

_LET = [(0, 0), (1, 0), (1, 1), (0, 1)]


def _decompose(m, k):
    """m = (+-1 or +-i) * kron(letters) -> (phase exponent of i, letters)"""
    for letters in itertools.product(_LET, repeat=k):
        p = kron([PMAT[l] for l in letters])
        for e in range(4):
            if np.allclose(m, (1j ** e) * p):
                return e, letters
    raise core.MachineryError("not a Pauli matrix")


def _build_tables():
    conj1, conj2, mul = {}, {}, {}
    for g, u in U1.items():
        for l in _LET:
            e, (l2,) = _decompose(u @ PMAT[l] @ u.conj().T, 1)
            assert e in (0, 2)
            conj1[(g, l)] = (e // 2, l2)
    for g in GATES2:
        u = gate_matrix(g, (0, 1), 2)
        for a in _LET:
            for b in _LET:
                e, (a2, b2) = _decompose(u @ kron([PMAT[a], PMAT[b]]) @ u.conj().T, 2)
                assert e in (0, 2)
                conj2[(g, a, b)] = (e // 2, a2, b2)
    for a in _LET:
        for b in _LET:
            e, (c,) = _decompose(PMAT[a] @ PMAT[b], 1)
            mul[(a, b)] = (e, c)
    return conj1, conj2, mul


CONJ1, CONJ2, MUL = _build_tables()

# internal form of a row: (list of letters, neg)


def to_sym(row):
    n = (len(row) - 1) // 2
    return [(int(row[i]), int(row[n + i])) for i in range(n)], int(row[2 * n])


def from_sym(r):
    ls, neg = r
    return "".join(str(l[0]) for l in ls) + "".join(str(l[1]) for l in ls) + str(neg)


def sym_gate(g, args, srows):
    out = []
    for ls, neg in srows:
        ls = list(ls)
        if g in U1:
            j = args[0]
            f, ls[j] = CONJ1[(g, ls[j])]
        else:
            c, t = args
            f, ls[c], ls[t] = CONJ2[(g, ls[c], ls[t])]
        out.append((ls, neg ^ f))
    return out


def sym_mul(a, b):
    """product of two COMMUTING Hermitian rows"""
    e = 2 * (a[1] + b[1])
    ls = []
    for x, y in zip(a[0], b[0]):
        k, l = MUL[(x, y)]
        e += k
        ls.append(l)
    e %= 4
    if e not in (0, 2):
        raise ValueError("rows do not commute")
    return ls, e // 2


def sym_bit(r, n, k):
    return r[0][k][0] if k < n else r[0][k - n][1]


def sym_canon(n, srows):
    """reduced row echelon form over the columns x_0..x_(n-1), z_0..z_(n-1): canonical per group"""
    rows = [(list(ls), neg) for ls, neg in srows]
    h = 0
    for k in range(2 * n):
        piv = next((i for i in range(h, len(rows)) if sym_bit(rows[i], n, k)), None)
        if piv is None:
            continue
        rows[h], rows[piv] = rows[piv], rows[h]
        for i in range(len(rows)):
            if i != h and sym_bit(rows[i], n, k):
                rows[i] = sym_mul(rows[i], rows[h])
        h += 1
        if h == len(rows):
            break
    return tuple(from_sym(r) for r in rows)


def zero_state(n):
    return [([(0, 1) if i == j else (0, 0) for i in range(n)], 0) for j in range(n)]


_all = {}


def all_states(n):
    """every stabilizer state on n qubits (canonical generators), breadth first from |0..0>
    over H_j, S_j, X_j, CNOT_ct; 1, 6, 60, 1080 states for n = 0..3"""
    if n in _all:
        return _all[n]
    if n == 0:
        _all[0] = [()]
        return _all[0]
    s0 = sym_canon(n, zero_state(n))
    seen, order, frontier = {s0}, [s0], [s0]
    moves = [(g, (j,)) for g in ("H", "S", "X") for j in range(n)] + \
            [("CNOT", p) for p in itertools.permutations(range(n), 2)]
    while frontier:
        nxt = []
        for st in frontier:
            srows = [to_sym(r) for r in st]
            for g, a in moves:
                t = sym_canon(n, sym_gate(g, a, srows))
                if t not in seen:
                    seen.add(t)
                    order.append(t)
                    nxt.append(t)
        frontier = nxt
    _all[n] = order
    return order


def remix(rng, rows, steps=None):
    """another generator list of the same group: multiply rows into each other, swap rows"""
    srows = [to_sym(r) for r in rows]
    m = len(srows)
    if m < 2:
        return tuple(rows)
    for _ in range(steps if steps is not None else rng.randint(1, 3 * m)):
        i, j = rng.sample(range(m), 2)
        if rng.random() < 0.7:
            srows[i] = sym_mul(srows[i], srows[j])
        else:
            srows[i], srows[j] = srows[j], srows[i]
    return tuple(from_sym(r) for r in srows)


def random_state(rng, n, remixed=None):
    """generators of a random Clifford-circuit state"""
    srows = zero_state(n)
    for _ in range(rng.randint(0, 4 * n + 4)):
        if n >= 2 and rng.random() < 0.4:
            srows = sym_gate(rng.choice(GATES2), tuple(rng.sample(range(n), 2)), srows)
        else:
            srows = sym_gate(rng.choice(GATES1), (rng.randrange(n),), srows)
    rows = tuple(from_sym(r) for r in srows)
    if remixed is None:
        remixed = rng.random() < 0.5
    return remix(rng, rows) if remixed else rows


def random_row(rng, n):
    return "".join(rng.choice("01") for _ in range(2 * n + 1))


def group_element(rng, rows):
    """product of a random non-empty subset of the generators"""
    srows = [to_sym(r) for r in rows]
    sel = [r for r in srows if rng.random() < 0.5] or [rng.choice(srows)]
    acc = sel[0]
    for r in sel[1:]:
        acc = sym_mul(acc, r)
    return from_sym(acc)


def flip_sign(row):
    return row[:-1] + ("0" if row[-1] == "1" else "1")


def change_letter(rng, row):
    n = (len(row) - 1) // 2
    j = rng.randrange(n)
    old = (row[j], row[n + j])
    new = rng.choice([l for l in (("0", "0"), ("1", "0"), ("1", "1"), ("0", "1")) if l != old])
    r = list(row)
    r[j], r[n + j] = new
    return "".join(r)


def is_valid_state(n, rows):
    return (len(rows) == n and all(len(r) == 2 * n + 1 for r in rows)
            and all(commute(a, b) for a, b in itertools.combinations(rows, 2)) and gf2_rank(rows) == n)


# --------------------------------------------------------------------------
# the real code
# --------------------------------------------------------------------------

class Coin:
    """stands in for `randint` inside simulaqron.toolbox.stabilizer_states"""

    def __init__(self):
        self.value, self.calls = 0, 0

    def __call__(self, a, b):
        self.calls += 1
        return self.value


SS = SIM = QERR = None
COIN = Coin()


def load():
    """import the scratch copy of the code under test and script its coin"""
    global SS, SIM, QERR
    if SS is None:
        core.scratch_repo()
        import simulaqron.toolbox.stabilizer_states as ss
        from simulaqron.virtual_node import stabilizer_simulator as sim
        from simulaqron.virtual_node.basics import quantumError
        ss.randint = COIN
        SS, SIM, QERR = ss, sim, quantumError
    return SS


def mk(n, rows, form="array"):
    """a real StabilizerState holding exactly these rows"""
    if n == 0 and not rows:
        return SS.StabilizerState()
    if len(rows) == n and all(len(r) == 2 * n + 1 for r in rows):
        if form == "str":
            return SS.StabilizerState([("-1" if r[-1] == "1" else "+1") + pauli_str(r)[1:] for r in rows])
        ok = all(commute(a, b) for a, b in itertools.combinations(rows, 2))
        return SS.StabilizerState(mat_of(n, rows), check_symplectic=ok)
    s = SS.StabilizerState(n)       # partial matrices (single rows): gates act row-wise
    s._group = mat_of(n, rows)
    return s


def dump(s):
    return int(s._nr_rows), rows_of(s._group)


def engine(n, rows):
    e = SIM.stabilizerEngine("node", 0, maxQubits=12)
    e.qubitReg = mk(n, rows)
    return e


def _call(f, *a, **k):
    """(kind, value): ok / ValueError / quantumError / crash:<type>"""
    try:
        return "ok", f(*a, **k)
    except ValueError:
        return "ValueError", None
    except QERR:
        return "quantumError", None
    except Exception as e:  # not a documented refusal
        return "crash:" + type(e).__name__, None


ENGINE_GATE = {"X": "apply_X", "Y": "apply_Y", "Z": "apply_Z", "H": "apply_H", "K": "apply_K",
               "CNOT": "apply_CNOT", "CZ": "apply_CPHASE"}


class Out:
    """what one executed case reports back (picklable)"""

    def __init__(self, desc, n):
        self.desc, self.n = desc, n
        self.q = []          # (driver line, impl observation, mode)
        self.viol = []       # (key, what, extra)
        self.cnt = []
        self.nontrivial = True

    def bad(self, key, what, **extra):
        self.viol.append((key, what, extra))


def exec_case(desc):
    kind = desc[0]
    return globals()["_x_" + kind](*desc[1:])


# ---- gates ----------------------------------------------------------------

def _gline(g, args, n, rows):
    return "%s %s %s | %s" % ("g1" if g in U1 else "g2", g, " ".join(map(str, args)), enc_state(n, rows))


def _x_row1(g, args, n, row):
    """one signed row as a 1 x (2n+1) matrix"""
    out = Out(("row1", g, args, n, row), n)
    s = mk(n, (row,))
    kind, _ = _call(getattr(s, "apply_" + g), *args)
    pn, prow = dump(s)
    out.cnt.append("row:" + g)
    if kind != "ok" or pn != n or len(prow) != 1 or len(prow[0]) != 2 * n + 1:
        out.bad("gate:" + g, "apply_%s%r on the single row %s: %s" % (g, tuple(args), pauli_str(row), kind), observed=[kind, prow])
        obs = kind if kind != "ok" else "ok " + enc_state(pn, prow)
    else:
        u = gate_matrix(g, args, n)
        if not np.allclose(u @ rowmat(row) @ u.conj().T, rowmat(prow[0])):
            out.bad("gate:" + g, "apply_%s%r maps %s to %s, which is not U P U^dagger" % (g, tuple(args), pauli_str(row), pauli_str(prow[0])),
                    observed=pauli_str(prow[0]))
        obs = "ok " + enc_state(pn, prow)
    out.q.append((_gline(g, args, n, (row,)), obs, "grp"))
    out.nontrivial = n >= 2
    return out


def _x_g(g, args, n, rows, via="state", form="array"):
    out = Out(("g", g, args, n, rows, via, form), n)
    valid = all(0 <= a < n for a in args) and len(set(args)) == len(args)
    if via == "engine" and g in ENGINE_GATE:
        e = engine(n, rows)
        kind, _ = _call(getattr(e, ENGINE_GATE[g]), *args)
        s = e.qubitReg
    else:
        s = mk(n, rows, form)
        kind, _ = _call(getattr(s, "apply_" + g), *args)
    pn, prows = dump(s)
    obs = "ok " + enc_state(pn, prows) if kind == "ok" else kind
    if not valid:
        out.cnt.append("reject:gate")
        out.nontrivial = False
        if kind != "ValueError" or (pn, prows) != (n, rows):
            out.bad("reject:gate:" + g, "apply_%s%r on %d qubits must raise ValueError and leave the state alone; got %s" % (g, tuple(args), n, obs),
                    observed=obs)
        if all(a >= 0 for a in args):
            out.q.append((_gline(g, args, n, rows), obs, "lit"))
        return out
    out.cnt.append("gate:" + g)
    out.nontrivial = n >= 2
    if kind != "ok":
        out.bad("gate:" + g, "apply_%s%r on %s raised %s" % (g, tuple(args), show(n, rows), kind), observed=obs)
    else:
        v = stab_vector(n, rows)
        why = "post-state has %d qubits" % pn if pn != n else check_generators(n, prows, apply_gate(g, args, n, v))
        if why:
            out.bad("gate:" + g, "apply_%s%r on %s gives %s: %s" % (g, tuple(args), show(n, rows), show(pn, prows), why), observed=obs)
    out.q.append((_gline(g, args, n, rows), obs, "grp"))
    return out


def _x_tensor(n1, rows1, n2, rows2):
    out = Out(("tensor", n1, rows1, n2, rows2), n1 + n2)
    a, b = mk(n1, rows1), mk(n2, rows2)
    kind, c = _call(a.tensor_product, b)
    out.cnt.append("tensor")
    out.nontrivial = n1 > 0 and n2 > 0
    if kind != "ok":
        obs = kind
        out.bad("tensor", "tensor_product of %s and %s raised %s" % (show(n1, rows1), show(n2, rows2), kind), observed=obs)
    else:
        pn, prows = dump(c)
        obs = "ok " + enc_state(pn, prows)
        w = np.kron(stab_vector(n1, rows1), stab_vector(n2, rows2))
        why = "result has %d qubits" % pn if pn != n1 + n2 else check_generators(pn, prows, w)
        if not why and (dump(a) != (n1, rows1) or dump(b) != (n2, rows2)):
            why = "an operand was modified"
        if why:
            out.bad("tensor", "tensor_product of %s and %s gives %s: %s" % (show(n1, rows1), show(n2, rows2), show(pn, prows), why), observed=obs)
    out.q.append(("tensor | %s | %s" % (enc_state(n1, rows1), enc_state(n2, rows2)), obs, "grp"))
    return out


def _x_addq(n, rows, via="state"):
    out = Out(("addq", n, rows, via), n + 1)
    if via == "engine":
        e = engine(n, rows)
        kind, num = _call(e.add_fresh_qubit)
        s = e.qubitReg
    else:
        s = mk(n, rows)
        kind, num = _call(s.add_qubit)
        num = n
    out.cnt.append("add_qubit")
    pn, prows = dump(s)
    obs = "ok " + enc_state(pn, prows) if kind == "ok" else kind
    why = None
    if kind != "ok":
        why = "raised " + kind
    elif pn != n + 1:
        why = "result has %d qubits" % pn
    elif num != n:
        why = "new qubit reported at %r" % (num,)
    else:
        why = check_generators(pn, prows, np.kron(stab_vector(n, rows), np.array([1, 0], dtype=complex)))
    if why:
        out.bad("add_qubit", "add_qubit on %s gives %s: %s" % (show(n, rows), show(pn, prows), why), observed=obs)
    out.q.append(("addq | %s" % enc_state(n, rows), obs, "grp"))
    return out


# ---- row reduction, products, queries --------------------------------------

def _reduced(n, rows):
    """every row's leading column holds a single 1"""
    for r in rows:
        k = r[:-1].find("1")
        if k >= 0 and sum(1 for q in rows if q[k] == "1") != 1:
            return False
    return True


def _x_gauss(n, rows, valid):
    out = Out(("gauss", n, rows, valid), n)
    kind, m = _call(SS.StabilizerState.boolean_gaussian_elimination, mat_of(n, rows))
    out.cnt.append("gauss" if valid else "gauss:arbitrary-matrix")
    prows = rows_of(m) if kind == "ok" else ()
    obs = "ok " + enc_state(n, prows) if kind == "ok" else kind
    if valid:
        why = ("raised " + kind) if kind != "ok" else check_generators(n, prows, stab_vector(n, rows))
        if not why and not _reduced(n, prows):
            why = "result is not reduced"
        if not why:
            s = mk(n, rows)
            s.put_in_standard_form()
            if dump(s) != (n, prows) or rows_of(mk(n, rows).to_array(standard_form=True)) != prows:
                why = "put_in_standard_form / to_array(standard_form) differ from boolean_gaussian_elimination"
        if why:
            out.bad("gauss", "boolean_gaussian_elimination of %s gives %s: %s" % (show(n, rows), show(n, prows), why), observed=obs)
    out.q.append(("gauss | %d | %s" % (n, enc_rows(rows)), obs, "lit"))
    return out


def _x_mul(w, r1, r2):
    out = Out(("mul", w, r1, r2), w)
    kind, r = _call(SS.StabilizerState._multiply_stabilizers, mat_of(w, (r1,))[0], mat_of(w, (r2,))[0])
    comm = commute(r1, r2)
    out.cnt.append("mul:commuting" if comm else "mul:anticommuting(tie only)")
    prow = rows_of([r])[0] if kind == "ok" else ""
    obs = "ok " + enc_state(w, (prow,)) if kind == "ok" else kind
    if comm:
        _rs2 = np.random.RandomState(w)
        u = _rs2.randn(1 << w) + 1j * _rs2.randn(1 << w)
        if kind != "ok" or len(prow) != 2 * w + 1 or \
                np.linalg.norm(pauli_apply(r1, w, pauli_apply(r2, w, u)) - pauli_apply(prow, w, u)) > TOL:
            out.bad("mul", "_multiply_stabilizers(%s, %s) = %s is not the operator product" % (pauli_str(r1), pauli_str(r2), pauli_str(prow) if prow else kind),
                    observed=obs)
    out.q.append(("mul | %d | %s %s" % (w, r1, r2), obs, "lit"))
    return out


def _x_eq(n1, rows1, n2, rows2, valid):
    out = Out(("eq", n1, rows1, n2, rows2, valid), max(n1, n2))
    a, b = mk(n1, rows1), mk(n2, rows2)
    kind, r = _call(a.__eq__, b)
    obs = ("true" if r else "false") if kind == "ok" else kind
    if valid:
        if n1 != n2:
            want = False
        else:
            want = abs(np.vdot(stab_vector(n1, rows1), stab_vector(n2, rows2))) > 1 - 1e-6
        out.cnt.append("eq:same" if want else "eq:different")
        if kind != "ok" or bool(r) != want:
            out.bad("eq", "%s == %s answers %s, the state vectors are %s" % (show(n1, rows1), show(n2, rows2), obs, "equal up to phase" if want else "different"),
                    observed=obs)
    else:
        out.cnt.append("eq:non-commuting-rows(tie only)")
        out.nontrivial = False
    out.q.append(("eq | %s | %s" % (enc_state(n1, rows1), enc_state(n2, rows2)), obs, "lit"))
    return out


def _x_eq_other(n, rows):
    out = Out(("eq_other", n, rows), n)
    kind, r = _call(mk(n, rows).__eq__, "ZZ")
    out.cnt.append("reject:eq")
    out.nontrivial = False
    if kind != "ValueError":
        out.bad("reject:eq", "comparison with a non-state must raise ValueError, got %s" % kind, observed=kind)
    return out


def _x_contains(n, rows, stab, form, valid):
    out = Out(("contains", n, rows, stab, form, valid), n)
    s = mk(n, rows)
    if form == "str":
        arg = pauli_str(stab)[1:] if stab[-1] == "0" else "-1" + pauli_str(stab)[1:]
    elif form == "str+":
        arg = ("-1" if stab[-1] == "1" else "+1") + pauli_str(stab)[1:]
    elif form == "list2n" and stab[-1] == "0":
        arg = [c == "1" for c in stab[:-1]]
    else:
        arg = [c == "1" for c in stab]
    kind, r = _call(s.contains, arg)
    obs = ("true" if r else "false") if kind == "ok" else kind
    if valid:
        v = stab_vector(n, rows)
        want = np.linalg.norm(pauli_apply(stab, n, v) - v) < TOL
        out.cnt.append("contains:member" if want else "contains:non-member")
        if kind != "ok" or bool(r) != want or dump(s) != (n, rows):
            out.bad("contains", "%s.contains(%s) answers %s but P|psi> %s |psi>" % (show(n, rows), pauli_str(stab), obs, "=" if want else "!="), observed=obs)
    else:
        out.cnt.append("contains:non-commuting-rows(tie only)")
        out.nontrivial = False
    out.q.append(("contains | %d | %s | %s" % (n, enc_rows(rows), stab), obs, "lit"))
    return out


def _x_contains_bad(n, rows, arg):
    out = Out(("contains_bad", n, rows, arg), n)
    kind, r = _call(mk(n, rows).contains, arg)
    out.cnt.append("reject:contains")
    out.nontrivial = False
    if kind != "ValueError":
        out.bad("reject:contains", "contains(%r) on %d qubits must raise ValueError, got %s" % (arg, n, kind), observed=kind)
    return out


# ---- measurement -----------------------------------------------------------

def born(n, rows, j):
    """probability of outcome 0 on qubit j"""
    v = stab_vector(n, rows)
    idx, _ = _tables(n)
    return float(np.linalg.norm(v[((idx >> (n - 1 - j)) & 1) == 0]) ** 2)


def judge_measure(n, rows, j, inplace, o, pn, prows):
    """None iff (o, post-state) is a correct measurement result of qubit j"""
    if o not in (0, 1):
        return "outcome %r" % (o,)
    v = stab_vector(n, rows)
    idx, _ = _tables(n)
    pv = np.where(((idx >> (n - 1 - j)) & 1) == o, v, 0)
    p = np.linalg.norm(pv) ** 2
    if p < 1e-9:
        return "outcome %d has probability 0" % o
    if inplace:
        if pn != n:
            return "in-place measurement left %d qubits" % pn
        return check_generators(n, prows, pv / np.sqrt(p))
    if pn != n - 1:
        return "destructive measurement left %d qubits" % pn
    c = np.take(v.reshape([2] * n), o, axis=j).reshape(-1)
    return check_generators(n - 1, prows, c / np.linalg.norm(c))


def _mline(j, inplace, coin, n, rows):
    return "measure %d %d %d | %s" % (j, 1 if inplace else 0, coin, enc_state(n, rows))


def _x_measure(j, inplace, n, rows, form="array"):
    out = Out(("measure", j, inplace, n, rows, form), n)
    mode = "inplace" if inplace else "destructive"
    if not 0 <= j < n:
        out.cnt.append("reject:measure")
        out.nontrivial = False
        for coin in (0, 1):
            COIN.value = coin
            s = mk(n, rows, form)
            kind, o = _call(s.measure, j, inplace=inplace)
            obs = kind if kind != "ok" else "ok %d %s" % (o, enc_state(*dump(s)))
            if kind != "ValueError" or dump(s) != (n, rows):
                out.bad("reject:measure", "measure(%d, inplace=%s) on %d qubits must raise ValueError and leave the state alone; got %s" % (j, inplace, n, obs),
                        observed=obs)
            if j >= 0:
                out.q.append((_mline(j, inplace, coin, n, rows), obs, "lit"))
        return out
    p0 = born(n, rows, j)
    branch = "random" if 1e-6 < p0 < 1 - 1e-6 else "deterministic"
    key = "measure:%s-%s" % (mode, branch)
    out.cnt.append(key)
    out.nontrivial = n >= 2
    outcomes = []
    for coin in (0, 1):
        COIN.value = coin
        s = mk(n, rows, form)
        kind, o = _call(s.measure, j, inplace=inplace)
        pn, prows = dump(s)
        if kind != "ok":
            out.bad(key, "measure(%d, inplace=%s) coin %d on %s raised %s" % (j, inplace, coin, show(n, rows), kind), coin=coin, observed=kind)
            out.q.append((_mline(j, inplace, coin, n, rows), kind, "lit"))
            continue
        o = int(o)
        outcomes.append(o)
        obs = "ok %d %s" % (o, enc_state(pn, prows))
        why = judge_measure(n, rows, j, inplace, o, pn, prows)
        if why:
            out.bad(key, "measure(%d, inplace=%s) coin %d on %s returns %d and leaves %s: %s" % (j, inplace, coin, show(n, rows), o, show(pn, prows), why),
                    coin=coin, observed=obs)
        out.q.append((_mline(j, inplace, coin, n, rows), obs, "meas"))
        if inplace and not why:
            # immediate re-measurement: same outcome for either coin, same group
            for c2 in (0, 1):
                COIN.value = c2
                t = SS.StabilizerState(s)
                k2, o2 = _call(t.measure, j, inplace=True)
                tn, trows = dump(t)
                obs2 = "ok %d %s" % (o2, enc_state(tn, trows)) if k2 == "ok" else k2
                why2 = ("raised " + k2) if k2 != "ok" else ("outcome %d after %d" % (o2, o)) if o2 != o else \
                    judge_measure(n, rows, j, True, o2, tn, trows)
                if why2:
                    out.bad("measure:remeasure", "re-measuring qubit %d of %s in place (coin %d) after outcome %d: %s" % (j, show(pn, prows), c2, o, why2),
                            coin=coin, coin2=c2, observed=obs2)
                out.q.append((_mline(j, True, c2, pn, prows), obs2, "meas" if k2 == "ok" else "lit"))
            out.cnt.append("measure:remeasure")
    if len(outcomes) == 2:
        if branch == "random" and sorted(outcomes) != [0, 1]:
            out.bad(key, "measure(%d) on %s: P(0)=%.2f but both coins give outcome %d" % (j, show(n, rows), p0, outcomes[0]), observed=outcomes)
        if branch == "deterministic" and outcomes[0] != outcomes[1]:
            out.bad(key, "measure(%d) on %s: P(0)=%.0f but the outcome follows the coin" % (j, show(n, rows), p0), observed=outcomes)
    return out


def _x_engine(method, j, coin, n, rows):
    """stabilizerEngine.measure_qubit / measure_qubit_inplace / remove_qubit"""
    out = Out(("engine", method, j, coin, n, rows), n)
    inplace = method == "measure_qubit_inplace"
    COIN.value = coin
    e = engine(n, rows)
    kind, o = _call(getattr(e, method), j)
    pn, prows = dump(e.qubitReg)
    key = "engine:" + method
    if not 0 <= j < n:
        out.cnt.append("reject:" + key)
        out.nontrivial = False
        want = ("quantumError",) if (j >= n and method != "measure_qubit") else ("ValueError", "quantumError")
        if kind not in want or (pn, prows) != (n, rows):
            out.bad("reject:" + key, "%s(%d) with %d active qubits must raise %s and leave the register alone; got %s" % (method, j, n, "/".join(want), kind),
                    observed=kind)
        return out
    out.cnt.append(key)
    out.nontrivial = n >= 2
    if kind != "ok":
        out.bad(key, "%s(%d) on %s raised %s" % (method, j, show(n, rows), kind), observed=kind)
        return out
    if method == "remove_qubit":
        whys = [judge_measure(n, rows, j, False, x, pn, prows) for x in (0, 1)]
        why = None if None in whys else whys[0]
        if o is not None:
            why = why or "remove_qubit returned %r" % (o,)
        obs = "ok ? " + enc_state(pn, prows)
    else:
        why = judge_measure(n, rows, j, inplace, o, pn, prows)
        if not why and e.activeQubits != pn:
            why = "activeQubits = %d" % e.activeQubits
        obs = "ok %d %s" % (o, enc_state(pn, prows))
    if why:
        out.bad(key, "%s(%d) coin %d on %s returns %r and leaves %s: %s" % (method, j, coin, show(n, rows), o, show(pn, prows), why), observed=obs)
    out.q.append((_mline(j, inplace, coin, n, rows), obs, "meas"))
    return out


# ---- random cases are expanded inside the worker ----------------------------

def _x_rand13(seed, nmax):
    rng = random.Random(seed)
    n = rng.randint(1, nmax)
    rows = random_state(rng, n)
    r = rng.random()
    form = "str" if rng.random() < 0.2 else "array"
    via = "engine" if rng.random() < 0.3 else "state"
    if r < 0.50:
        if n >= 2 and rng.random() < 0.45:
            return _x_g(rng.choice(GATES2), tuple(rng.sample(range(n), 2)), n, rows, via, form)
        return _x_g(rng.choice(GATES1), (rng.randrange(n),), n, rows, via, form)
    if r < 0.62:
        n2 = rng.randint(0, max(0, min(4, nmax - n)))
        rows2 = random_state(rng, n2) if n2 else ()
        return _x_tensor(n, rows, n2, rows2) if rng.random() < 0.5 else _x_tensor(n2, rows2, n, rows)
    if r < 0.68:
        return _x_addq(n, rows, via)
    if r < 0.80:
        return _x_gauss(n, rows, True)
    if r < 0.88:
        # an arbitrary boolean matrix (rows need not commute): literal tie only
        m = rng.randint(1, n + 2)
        return _x_gauss(n, tuple(random_row(rng, n) for _ in range(m)), False)
    a = random_row(rng, n)
    b = random_row(rng, n) if rng.random() < 0.5 else group_element(rng, rows)
    if rng.random() < 0.5:
        a = group_element(rng, rows)
    return _x_mul(n, a, b)


def _x_randq(seed, nmax):
    """eq / contains on a random pair"""
    rng = random.Random(seed)
    n = rng.randint(1, nmax)
    rows = random_state(rng, n)
    if rng.random() < 0.5:
        k = rng.choice([0, 0, 0, 0, 1, 1, 2, 2, 3, 3, 4, 5])
        other = remix(rng, rows)
        if k == 0:
            return _x_eq(n, rows, n, other, True)
        if k == 1:
            i = rng.randrange(n)
            other = other[:i] + (flip_sign(other[i]),) + other[i + 1:]
            return _x_eq(n, rows, n, other, True)
        if k == 2:
            i = rng.randrange(n)
            other = other[:i] + (change_letter(rng, other[i]),) + other[i + 1:]
            return _x_eq(n, rows, n, other, is_valid_state(n, other))
        if k == 3:
            srows = [to_sym(r) for r in other]
            if n >= 2 and rng.random() < 0.5:
                srows = sym_gate(rng.choice(GATES2), tuple(rng.sample(range(n), 2)), srows)
            else:
                srows = sym_gate(rng.choice(GATES1), (rng.randrange(n),), srows)
            return _x_eq(n, rows, n, tuple(from_sym(r) for r in srows), True)
        if k == 4:
            return _x_eq(n, rows, n, random_state(rng, n), True)
        n2 = rng.choice([m for m in range(0, nmax + 1) if m != n])
        return _x_eq(n, rows, n2, random_state(rng, n2) if n2 else (), True)
    k = rng.choice([0, 0, 0, 0, 1, 1, 2, 2, 3, 3, 4, 5, 6])
    form = rng.choice(["str", "str+", "list", "list2n"])
    if k == 0:
        return _x_contains(n, rows, group_element(rng, rows), form, True)
    if k == 1:
        return _x_contains(n, rows, flip_sign(group_element(rng, rows)), form, True)
    if k == 2:
        return _x_contains(n, rows, change_letter(rng, group_element(rng, rows)), form, True)
    if k == 3:
        for _ in range(50):
            p = random_row(rng, n)
            if not all(commute(p, r) for r in rows):
                return _x_contains(n, rows, p, form, True)
        return _x_contains(n, rows, random_row(rng, n), form, True)
    if k == 4:
        return _x_contains(n, rows, "0" * (2 * n) + rng.choice("01"), form, True)
    if k == 5:
        return _x_contains(n, rows, random_row(rng, n), form, True)
    # malformed operator
    bad = rng.choice(["len", "type", "chars"])
    if bad == "len":
        m = rng.choice([x for x in range(0, 2 * n + 4) if x not in (2 * n, 2 * n + 1)])
        return _x_contains_bad(n, rows, [rng.random() < 0.5 for _ in range(m)])
    if bad == "type":
        return _x_contains_bad(n, rows, [0, 1] * n)
    return _x_contains_bad(n, rows, "Q" * n)


def _x_rand14(seed, nmax):
    rng = random.Random(seed)
    n = rng.randint(1, nmax)
    rows = random_state(rng, n)
    r = rng.random()
    if r < 0.7:
        return _x_measure(rng.randrange(n), rng.random() < 0.5, n, rows, "str" if rng.random() < 0.15 else "array")
    return _x_engine(rng.choice(["measure_qubit", "measure_qubit_inplace", "remove_qubit"]), rng.randrange(n), rng.randrange(2), n, rows)


# --------------------------------------------------------------------------
# running many cases, tie against the Lean driver
# --------------------------------------------------------------------------

def _chunk(descs):
    return [exec_case(d) for d in descs]


def run_cases(descs, procs=None):
    """execute case descriptors on the real code (forked workers for large batches)"""
    load()
    if procs is None:
        procs = max(1, min(12, (os.cpu_count() or 2) - 2))
    if len(descs) < 3000 or procs == 1:
        return _chunk(descs)
    size = max(50, min(2000, len(descs) // (procs * 8)))
    chunks = [descs[i:i + size] for i in range(0, len(descs), size)]
    with multiprocessing.get_context("fork").Pool(procs) as pool:
        return [o for part in pool.map(_chunk, chunks) for o in part]


def desc_json(desc):
    return [list(x) if isinstance(x, tuple) else x for x in desc]


def desc_from_json(obj):
    return tuple(tuple(x) if isinstance(x, list) else x for x in obj)


def collect(res, outs, describe):
    """fold executed cases into the Result: counts, cases, one violation per key
    (the smallest failing state), and return the driver queries"""
    worst = {}
    nviol = {}
    queries = []
    for o in outs:
        for c in o.cnt:
            res.count(c)
        res.case(desc_json(o.desc), nontrivial=o.nontrivial)
        for key, what, extra in o.viol:
            nviol[key] = nviol.get(key, 0) + 1
            size = (o.n, len(str(o.desc)))
            if key not in worst or size < worst[key][0]:
                worst[key] = (size, what, {"case": desc_json(o.desc), **extra})
        for q in o.q:
            queries.append((q, o.desc))
    for key in sorted(worst, key=lambda k: (k.startswith(("engine", "reject")), k)):
        _, what, replay = worst[key]
        extra = nviol[key] - 1
        res.violation(key, what + (" (+%d more failing cases with this key)" % extra if extra else ""), replay)
    return queries


def _split_obs(s):
    """'ok [o] n | rows' -> (head, n, rows) or None"""
    if not s.startswith("ok "):
        return None
    body = s[3:]
    head = ""
    left = body.split("|")[0].split()
    if len(left) == 2:
        head, body = left[0], body[len(left[0]) + 1:]
    try:
        n, rows = parse_state(body)
    except ValueError:
        return None
    return head, n, rows


def tie(res, queries, what):
    """send every query to the Lean driver; literal comparison first (statistic
    `row_level_equal`), then group-level for state observations: both sides are
    canonicalised with the driver's own `gauss`"""
    if not queries:
        return
    lines = [q[0] for q, _ in queries]
    got = core.lean_run("stab", lines)
    pending = []
    for ((line, want, mode), desc), g in zip(queries, got):
        res.traces += 1
        if g == want:
            res.count("tie:row_level_equal")
            continue
        if mode == "lit":
            res.tie_break(what, {"case": desc_json(desc), "query": line}, g, want)
            continue
        a, b = _split_obs(g), _split_obs(want)
        # head "?" on the implementation side: outcome not observable (remove_qubit)
        if not (a and b and a[1] == b[1] and len(a[2]) == len(b[2]) and (b[0] == "?" or a[0] == b[0])):
            res.tie_break(what, {"case": desc_json(desc), "query": line}, g, want)
            continue
        if a[2] == b[2]:
            res.count("tie:row_level_equal")
            continue
        pending.append((line, desc, g, want, a, b))
    if pending:
        glines = []
        for _, _, _, _, a, b in pending:
            glines.append("gauss | %d | %s" % (a[1], enc_rows(a[2])))
            glines.append("gauss | %d | %s" % (b[1], enc_rows(b[2])))
        canon = core.lean_run("stab", glines)
        for i, (line, desc, g, want, a, b) in enumerate(pending):
            if canon[2 * i] == canon[2 * i + 1]:
                res.count("tie:row_level_differs_group_equal")
            else:
                res.tie_break(what + " (group level)", {"case": desc_json(desc), "query": line}, g, want)

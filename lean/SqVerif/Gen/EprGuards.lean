import SqVerif.Adjacency
/- GENERATED on every run by harness/gen/epr_guards.py from simulaqron/netqasm_backend/executioner.py — do not edit.
   Statement skeletons read off the Python AST; the obligations over them are in Props/C12.lean. -/
namespace SqVerif.Gen.EprGuards
open SqVerif.Adjacency

/- cmd_epr, statement by statement (remote-name variable: remote_node_name)
     guardUnknown  line 406  for remote_node_name, remote_host in self.factory.qnodeos_net.hostDict
     other         line 413  self._logger.debug(f'Creating EPR with {remote_node_name} on socket {e
     guardSelf     line 416  if self.name == remote_node_name:
     guardAdjacent line 420  if not self.factory.is_adjacent(remote_node_name):
     other         line 426  second_qubit_id = -(1 + qubit_id)
     cmdNew        line 427  for q_id in [qubit_id, second_qubit_id]:
     cmdNew        line 427  for q_id in [qubit_id, second_qubit_id]:
     unrecog       line 433  h_gate = self._get_simulaqron_gate(instr=instructions.vanilla.GateHIns
     unrecog       line 434  yield self.apply_single_qubit_gate(gate=h_gate, qubit_id=qubit_id)
     unrecog       line 438  cnot_gate = self._get_simulaqron_gate(instr=instructions.vanilla.CnotI
     unrecog       line 439  yield self.apply_two_qubit_gate(gate=cnot_gate, qubit_id1=qubit_id, qu
     unrecog       line 447  ent_id = self.new_ent_id(epr_socket_id=epr_socket_id, remote_node_id=r
     unrecog       line 452  if create_request.type == RequestType.K:
     unrecog       line 517  self._handle_epr_response(response=ent_info)
     other         line 518  self._logger.debug('finished cmd_epr')
-/
def cmdEprStmts : List Stmt := [
  .guardUnknown, .other, .guardSelf, .guardAdjacent, .other, .cmdNew,
  .cmdNew, .unrecog, .unrecog, .unrecog, .unrecog, .unrecog,
  .unrecog, .unrecog, .other
]

/- _do_create_epr, every nested simple statement
     other       line 319  create_request = self._get_create_request(subroutine_id=subroutine_id,
     other       line 325  create_id = self._get_new_create_id(remote_node_id=remote_node_id)
     other       line 326  remote_epr_socket_id = self._get_remote_epr_socket_id(epr_socket_id=ep
     other       line 329  app_id = self._get_app_id(subroutine_id=subroutine_id)
     other       line 330  if create_request.type == RequestType.K
     other       line 331  num_qubits = len(self._app_arrays[app_id][q_array_address, :])
     other       line 332  assert num_qubits == create_request.number, 'Not enough qubit addresse
     other       line 334  self._epr_create_requests[remote_node_id, create_request.purpose_id].a
     other       line 342  for ... in range(create_request.number)
     other       line 343  qubit_id_host = self._get_unused_physical_qubit()
     callCmdEpr  line 345  yield self.cmd_epr(create_id=create_id, remote_node_id=remote_node_id,
-/
def doCreateEprStmts : List CallerStmt := [
  .other, .other, .other, .other, .other, .other,
  .other, .other, .other, .other, .callCmdEpr
]

/-- methods of VanillaSimulaQronExecutioner that call `cmd_epr` -/
def cmdEprCallers : List String := ["_do_create_epr"]

end SqVerif.Gen.EprGuards

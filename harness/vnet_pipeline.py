"""vnet_pipeline -- stage "operations pipelined behind a departure" of C06
(stale handles are inert).

C06: once a qubit has left a node (sent on, measured destructively) "any
further operation through the old handle is refused or ignored and never
changes the state, position or existence of any qubit".  The base programs of
harness/vnetcase.py issue every op to completion, so an op through an old
handle always meets a handle whose own `active` flag is already 0.  A client
that does not wait for the reply of `measure(inplace=False)` / `send_qubit`
before issuing the next call through the SAME handle gets past that flag (the
departure is still in flight when the next call arrives -- always so when the
qubit is simulated at another node than the one holding the handle) and is
stopped only by the re-check of the SIMULATED qubit under the locks.

A program is a base program of harness/vnetcase.py with one more op kind

    ["pipe", dep, [f1, f2 ...], sched]
        dep    ["meas", label, 0, coin] | ["send", label, node, newlabel]
        f_i    an op through the SAME label: g1 / meas / send / g2 (as control,
               as target, control = target), issued by the same client on the
               same connection immediately behind `dep`, nobody waits
        sched  ["fifo"] | ["random", seed] | ["pct", seed] |
               ["delay", text, k, n]   (simnet.DelayInjection: the k-th message
               whose "label head" text contains `text` is held back for n
               other actions)

executed by `PExec` on the REAL virtual nodes: all calls are written to the
client connection back to back, the network runs under the scheduler until all
have answered and is then settled.  Oracle (independent of the Lean model; the
ideal-register reference of the C01 oracle, vnetcase.Ref):

  the results delivered to the client, the final joint state of ALL qubits
  (the registers of all nodes composed in logical-qubit order must stabilise
  the reference vector), their positions, holders and existence (held-count
  per node, joint_state anomalies, wf) must equal one of the SERIAL outcomes
  "the pipelined ops in S ran before the departure, the others were inert",
  S ranging over the subsets of the pipelined ops (S = {} : all inert).  A
  serial run gives: op through a live handle -> its usual result; op through
  the handle after the departure -> None, or an error ("refused or ignored"),
  and no effect.  Anything else is a
  violation `pipelined:<departure>:<placement>:<ops>:<symptom>` (kind `stale`,
  C06's own): an op that lands on the qubit that inherited the register
  position, a result of no serial order, an error out of the node that no
  serial order produces, a hang, a lock held at idle, an old handle left
  active.  After the pipe step the program goes on sequentially: every op kind
  once more through the old handle (must be inert: the base oracle), then a
  basis change and measurements on every remaining qubit (reference oracle).

Enumeration (`scenarios`): departure (destructive measure, send) x placement
(measure: local / remote = handle at another node than the simulator / remote
with the register's other qubits held by a THIRD node; send: locally /
receiver / third-node simulated) x register layout (departing qubit first /
middle / last of a register of 2 or 3; asymmetric product state such as
|0>|+>|1>, and entangled states) x 1-2 pipelined ops x schedule (FIFO, random,
PCT, delay injection).  Quick tier: a stratified sample that covers every
(departure, placement, layout) with FIFO plus other schedules and every clean
pipelined-op kind in every (departure, placement); thorough: the full product.

LEFT OUT (and why).  /verif/known_findings.json lists open C03 / C04 findings
about the unlocked `active` pre-test of a handle (TOCTOU) when two calls race
on the SAME handle: same-handle:send||send, measD||send, g2||measD, g2||send,
measI||send (+ the C04 lock leaks same-handle:g2||send:lock-held-at-idle,
stale-handle-waits-on-dead-qubit-lock).  Pipelining on one connection reaches
exactly these races whenever the pipelined op is itself a departure or a
two-qubit gate, and the UNCHANGED tree then violates this oracle (verified by
`probe_clean` below, which runs the excluded combinations and reports what
they do: final states of no serial order, AttributeError half-way with the
mate's register damaged, a node lock held at idle).  They are therefore not
part of the stage -- except for a destructive measurement with handle and
simulator on ONE node, which completes on delivery, so that nothing is in
flight when the next call arrives (all op kinds are pipelined there):

  * departure = measure(inplace=False), pipelined send            (measD||send)
  * departure = measure(inplace=False), pipelined two-qubit gate with a mate
    as control or as target                                       (g2||measD)
  * departure = send, pipelined send                              (send||send)
  * departure = send, pipelined measure(inplace=False)            (measD||send)
  * departure = send, pipelined two-qubit gate with a mate        (g2||send)

What remains (clean on the unchanged tree, all placements / layouts /
schedules): behind a destructive measurement: single-qubit gates (X Y Z H K),
unsupported gates (T, rotation), measure in place, a second destructive
measure, a two-qubit gate with control = target; behind a send: single-qubit
gates, unsupported gates, measure in place, control = target.  (Behind a send
the simulated qubit lives on, so a pipelined gate may legitimately still be
applied to the qubit now held by the receiver: that is the serial outcome
"ran before the departure".)

Tie: the ops before the pipe step are tied to the Lean model `VNet` as in the
base check; the pipe step and what follows are judged by the oracles only (the
model is sequential).
"""
import itertools
import multiprocessing
import random
import time


from . import core
from . import simnet as S
from . import vnetcase as vc

RULE = ("pipeline stage (C06): for every departure (destructive measure, send) x placement (local / remote / third node) x register "
        "layout (departing qubit first / middle / last of 2-3, asymmetric product and entangled states) x 1-2 further ops through "
        "the SAME handle written to the same connection immediately behind the departure (no waiting) x schedule (FIFO, random, "
        "PCT, delay injection): results, final joint state of all qubits, positions, holders and existence equal a serial "
        "outcome 'the ops in S ran before the departure, the others were inert' (ideal-register reference), nothing hangs, no "
        "lock held at idle, the old handle ends inactive; then every op kind through the old handle sequentially is inert")

EXCLUDED = {
    # (departure kind, pipelined op kind): the open same-handle finding it is
    ("measD", "send"): "same-handle:measD||send", ("measD", "g2c"): "same-handle:g2||measD", ("measD", "g2t"): "same-handle:g2||measD",
    ("send", "send"): "same-handle:send||send", ("send", "measD"): "same-handle:measD||send",
    ("send", "g2c"): "same-handle:g2||send", ("send", "g2t"): "same-handle:g2||send",
}


def fkind(f, lab):
    k = f[0]
    if k == "g1":
        return "g1u" if f[2] in ("T", "Rot") else "g1"
    if k == "meas":
        return "measI" if f[2] else "measD"
    if k == "send":
        return "send"
    if k == "g2":
        if f[1] == lab and f[2] == lab:
            return "g2same"
        return "g2c" if f[1] == lab else "g2t"
    return k


def dkind(dep):
    return "measD" if dep[0] == "meas" else "send"


def make_sched(spec):
    spec = list(spec or ["fifo"])
    if spec[0] == "fifo":
        return None
    if spec[0] == "random":
        return S.RandomScheduler(random.Random(spec[1]))
    if spec[0] == "pct":
        return S.PCTScheduler(random.Random(spec[1]), depth=3, est_len=60)
    if spec[0] == "delay":
        text = spec[1]
        return S.DelayInjection(lambda t: text in t, spec[2], spec[3], detail=True)
    raise ValueError("bad schedule %r" % (spec,))


def op_text(op):
    if op[0] != "pipe":
        return vc.op_text(op)
    return "PIPELINED{%s ; %s}[%s]" % (vc.op_text(op[1]), " ; ".join(vc.op_text(f) for f in op[2]),
                                      " ".join(str(x) for x in (op[3] if len(op) > 3 else ["fifo"])))


def prog_text(prog):
    return "%d nodes, max_qubits=%d, max_regs=%d: " % (prog["nodes"], prog["max_qubits"], prog["max_regs"]) + \
        " ; ".join(op_text(o) for o in prog["ops"])


def clone_ref(ref):
    r = vc.Ref(ref.names)
    r.live, r.v, r.next_tok, r.where, r.count = list(ref.live), ref.v.copy(), ref.next_tok, dict(ref.where), list(ref.count)
    return r


class PExec(vc.Exec):
    def __init__(self, nodes, max_qubits, max_regs):
        super().__init__(nodes, max_qubits, max_regs, ideal2=False, lenient=False)
        self.piped = False

    def header(self):
        h = super().header()
        h["pipe"] = 1
        return h

    def step(self, op):
        if op[0] != "pipe":
            rec = super().step(op)
            if rec is not None and self.piped:
                rec["q"] = None              # the sequential model is not told about the pipe step: no tie from there on
            return rec
        return self._pipe(op)

    def _start(self, op):
        net, box = self.net, []
        net.run = lambda d, *a, **k: (box.append(d), d)[1]
        try:
            self._issue(op)
        finally:
            del net.run
        return box[0]

    def _follow_ok(self, f, lab):
        if not isinstance(f, (list, tuple)) or not f or f[0] not in ("g1", "meas", "send", "g2"):
            return False
        if f[0] == "g2":
            if lab not in (f[1], f[2]):
                return False
            mate = f[2] if f[1] == lab else f[1]
            if mate != lab and (mate not in self.h or self.h[mate].stale):
                return False
        elif f[1] != lab:
            return False
        if not self.defined(f):
            return False
        cl = self.classify(f)
        return cl["exp"] is None or cl["cause"] in ("unsupported", "same")

    # -- the serial reference

    def _serial(self, order, results, lab, newobjs):
        """run `order` (indices into results) one after the other on a copy of the reference, with the stale
        semantics of a serial client; -> (None, ref', departed, moved) or (why not, ...)"""
        ref = clone_ref(self.ref)
        h = self.h[lab]
        names = self.names
        departed, moved = None, None
        for j in order:
            op, (res_s, _obj) = results[j]
            k = op[0]
            if departed:
                # "refused or ignored": None, or an error (no value, no effect)
                if res_s != "nil" and not res_s.startswith("err "):
                    return "op %d (%s) comes after the departure and must be refused or ignored, the caller got %s" % (
                        j, vc.op_text(op), res_s), None, None, None
                continue
            if k == "g1":
                if op[2] in ("T", "Rot"):
                    if res_s != "err SimUnsupportedError":
                        return "op %d (%s) on the live handle gives SimUnsupportedError, the caller got %s" % (j, vc.op_text(op), res_s), None, None, None
                else:
                    if res_s != "nil":
                        return "op %d (%s) on the live handle returns None, the caller got %s" % (j, vc.op_text(op), res_s), None, None, None
                    ref.g1(h.tok, op[2])
            elif k == "g2":
                if op[1] == op[2]:
                    if res_s != "err ValueError":
                        return "op %d (%s) on the live handle gives ValueError, the caller got %s" % (j, vc.op_text(op), res_s), None, None, None
                else:
                    if res_s != "nil":
                        return "op %d (%s) on the live handle returns None, the caller got %s" % (j, vc.op_text(op), res_s), None, None, None
                    ref.g2(self.h[op[1]].tok, self.h[op[2]].tok, op[3])
            elif k == "meas":
                if not res_s.startswith("outcome"):
                    return "op %d (%s) on the live handle returns an outcome, the caller got %s" % (j, vc.op_text(op), res_s), None, None, None
                o = int(res_s[-1])
                if ref.prob(h.tok, o) < 1e-9:
                    return "op %d (%s) reported outcome %d, which has probability 0 at that point" % (j, vc.op_text(op), o), None, None, None
                ref.meas(h.tok, bool(op[2]), o)
                if not op[2]:
                    ref.count[h.node] -= 1
                    departed = "measure"
            elif k == "send":
                if not res_s.startswith("num"):
                    return "op %d (%s) on the live handle returns the new virtual id, the caller got %s" % (j, vc.op_text(op), res_s), None, None, None
                if newobjs.get(j) is None:
                    return "op %d (%s) returned %s, which the receiver does not hold" % (j, vc.op_text(op), res_s), None, None, None
                r = int(res_s.split()[1])
                ref.where[h.tok] = (names[op[2]], r)
                ref.count[h.node] -= 1
                ref.count[op[2]] += 1
                departed, moved = "send", j
        return None, ref, departed, moved

    def _pipe(self, op):
        if self.dead or len(op) < 3 or not self.defined(op[1]) or op[1][0] not in ("meas", "send"):
            return None
        dep = list(op[1])
        lab = dep[1]
        h = self.h[lab]
        if h.stale or (dep[0] == "meas" and dep[2]):
            return None
        cl = self.classify(dep)
        if cl["exp"] is not None:
            return None
        follows = [list(f) for f in op[2] if self._follow_ok(f, lab)][:3]
        sched = list(op[3]) if len(op) > 3 and op[3] else ["fifo"]
        op = ["pipe", dep, follows, sched]
        i = len(self.ops)
        net, names = self.net, self.names
        dk, place = dkind(dep), cl["place"]
        fks = "+".join(fkind(f, lab) for f in follows) or "none"
        sq = net.resolve(h.obj.simQubit)
        reg = getattr(sq, "register", None)
        third = ":3rd" if self._third_party(h.node, [reg]) else ""
        cell = "pipe:%s:%s%s:pos%sof%s:%s:%s" % (dk, place, third, getattr(sq, "num", "?"), getattr(reg, "activeQubits", "?"), fks, sched[0])
        fails = []

        def fail(sym, what, hard=False, kind="stale"):
            key = "pipelined:%s:%s:%s:%s" % (dk, place, fks, sym)
            if hard and not self.dead:
                self.dead = "%s: %s" % (kind, key)
            if (kind, key) in self.seen:
                return
            self.seen.add((kind, key))
            fails.append((kind, key, what if len(what) < 1800 else what[:1800] + " ..."))

        def finish():
            self.snap, self.deep = vc.snap_str(net, self.book), vc.state_rows(net)
            self.ops.append(op)
            self.piped = True
            rec = {"q": None, "impl": None, "cell": cell, "fails": fails, "op": op}
            self.records.append(rec)
            self.fails += [(i,) + f for f in fails]
            return rec
        what_op = "%s [%s]" % (op_text(op), cell)
        pre_snap, pre_deep = self.snap, self.deep
        allops = [dep] + follows
        self.book.events = []
        ds = [self._start(o) for o in allops]
        net.set_coins([o[3] for o in allops if o[0] == "meas"])
        try:
            rs = net.run(ds, scheduler=make_sched(sched))
            net.settle()
        except S.Hang as e:
            self.piped = True
            fail("hang", "%s did not complete: %s" % (what_op, e), hard=True)
            return finish()
        results = [(o, self._canon(o, r)) for o, r in zip(allops, rs)]
        texts = [r[1][0] if not r[1][0].startswith("err") else "%s (%s)" % (r[1][0], S.error_text(raw)[:100])
                 for r, raw in zip(results, rs)]
        # the handles the sends created (observers; nothing changes)
        newobjs = {}
        for j, (o, (res_s, _)) in enumerate(results):
            if o[0] == "send" and res_s.startswith("num") and o[2] >= 0:
                nref = net.run(self.cl[o[2]].callRemote("get_virtual_ref", int(res_s.split()[1])))
                net.settle()
                nobj = net.resolve(nref)
                newobjs[j] = (nref, nobj) if isinstance(nobj, vc._NS.V.virtualQubit) else None
        post_held = [len(net.nodes[n].virtQubits) for n in names]
        post_deep = vc.state_rows(net)
        # ---- which serial outcome is this?
        why, chosen = [], None
        idx = list(range(1, len(allops)))
        for size in range(len(idx) + 1):
            # the ops in S were in flight together (issued back to back without waiting): they may take effect in
            # either order -- which of them overtakes the other is not C06's business (same-handle races: C03)
            for Sset in (p for c in itertools.combinations(idx, size) for p in itertools.permutations(c)):
                order = list(Sset) + [0] + [j for j in idx if j not in Sset]
                bad, ref2, departed, moved = self._serial(order, results, lab, newobjs)
                name = "S={%s}" % ",".join(vc.op_text(allops[j]) for j in Sset)
                if bad is None:
                    if departed is None:
                        bad = "no departure"
                    elif post_held != ref2.count:
                        bad = "held per node is %s, this order gives %s" % (post_held, ref2.count)
                    else:
                        bad = ref2.compare(net)
                if bad is None:
                    chosen = (Sset, ref2, departed, moved)
                    break
                why.append("%s: %s" % (name, bad))
            if chosen:
                break
        if chosen is None:
            self.piped = True
            fail("acts", "%s: results %s; the final state is that of NO serial outcome (ops in S before the departure, the others "
                 "inert): %s; before: %s %s; after: %s %s" % (what_op, texts, " | ".join(why), pre_snap, vc._deep_text(pre_deep),
                                                              vc.snap_str(net, self.book), vc._deep_text(post_deep)), hard=True)
            return finish()
        Sset, ref2, departed, moved = chosen
        self.ref = ref2
        h.stale = departed
        if moved is not None:
            o = allops[moved]
            nref, nobj = newobjs[moved]
            self.h[o[3]] = vc.Handle(o[3], nref, getattr(nobj, "_vc_hid", -1), o[2], h.tok, nobj)
        if not net.all_locks_free():
            fail("lock-held", "%s: results %s; locks held at idle: %s" % (what_op, texts, net.lock_flags()), hard=True)
        for kind, key, text in vc.wf(net, self.book):
            if kind == "stale":
                fail("active", "after %s: %s" % (what_op, text))
            elif (kind, key) not in self.seen:
                self.seen.add((kind, key))
                fails.append((kind, key, "after %s: %s" % (what_op, text)))
        return finish()


def run_program(prog):
    ex = PExec(prog["nodes"], prog["max_qubits"], prog["max_regs"])
    for op in prog["ops"]:
        if ex.dead:
            break
        ex.step(op)
    return ex


# ---------------------------------------------------------------------------
# scenarios
# ---------------------------------------------------------------------------

class P(vc.P):
    def __init__(self, nodes, mq=6, mr=100):
        super().__init__(nodes, mq, mr)
        self.p["pipe"] = 1

    def lab(self):
        self.n += 1
        return self.n - 1

    def pipe(self, dep, follows, sched=("fifo",)):
        self.p["ops"].append(["pipe", list(dep), [list(f) for f in follows], list(sched)])


DEPS = [("measD", "local"), ("measD", "remote"), ("measD", "third"),
        ("send", "local-simulated"), ("send", "receiver-simulated"), ("send", "third-node-simulated")]
LAYOUTS = [(n, pos, ent) for n in (2, 3) for pos in range(n) for ent in (0, 1)]
FOLLOWS1 = ["Z", "X", "H", "K", "Y", "T", "Rot", "measI", "measD", "g2same", "send", "g2c", "g2t"]
PREPS = [[], ["H"], ["X"], ["K"], ["X", "H"], ["H", "K"]]


def follow_op(p, name, lab, holder, mate, others):
    if name in ("Z", "X", "H", "K", "Y", "T", "Rot"):
        return ["g1", lab, name]
    if name == "measI":
        return ["meas", lab, 1, 1]
    if name == "measD":
        return ["meas", lab, 0, 0]
    if name == "g2same":
        return ["g2", lab, lab, "CNOT"]
    if name == "send":
        return ["send", lab, others[0], p.lab()]
    if name == "g2c":
        return ["g2", lab, mate, "CNOT"]
    if name == "g2t":
        return ["g2", mate, lab, "CPHASE"]
    raise ValueError(name)


def allowed(dk, name, place=None):
    kind = {"Z": "g1", "X": "g1", "H": "g1", "K": "g1", "Y": "g1", "T": "g1u", "Rot": "g1u"}.get(name, name)
    if (dk, place) == ("measD", "local"):
        return True          # handle and simulator on one node: the measurement completes on delivery, nothing is in flight
    return (dk, kind) not in EXCLUDED


def scenario(dk, place, n, pos, ent, follows, sched, variant=0, allow_excluded=False):
    """-> (name, program) or None.  Simulator = Alice (0); Bob (1), Charlie (2)"""
    if not allow_excluded and not all(allowed(dk, f, place) for f in follows):
        return None
    p = P(3)
    qs = [p.new(0) for _ in range(n)]
    preps = [PREPS[(variant + 2 * j + (0 if j == pos else 1)) % len(PREPS)] for j in range(n)]
    if not ent:
        for j in range(1, n):
            p.g2(qs[0], qs[j], "CPHASE")              # control |0>: identity on the state, merges the registers
        for j in range(n):
            for g in preps[j]:
                p.g1(qs[j], g)
        if variant % 2 == 0 and n == 3:                # the asymmetric product state |0>|+>|1> of the demonstration
            pass
    else:
        for j in range(n):
            p.g1(qs[j], ["H", "K", "H"][(j + variant) % 3])
        for j in range(1, n):
            p.g2(qs[j - 1] if variant % 2 else qs[0], qs[j], "CNOT" if (j + variant) % 2 else "CPHASE")
        for j in range(n):
            for g in preps[j][:1]:
                p.g1(qs[j], g)
    d = qs[pos]
    rest = [q for q in qs if q != d]
    holder = 0
    if dk == "measD":
        if place in ("remote", "third"):
            d = p.send(d, 1)
            holder = 1
        if place == "third":
            rest = [p.send(q, 2) for q in rest]
        dep = ["meas", d, 0, variant % 2]
        others = [x for x in (1, 2, 0) if x != holder]
    else:
        if place == "local-simulated":
            target = 1
        elif place == "receiver-simulated":
            d = p.send(d, 1)
            holder, target = 1, 0
        else:
            d = p.send(d, 1)
            holder, target = 1, 2
        dep = ["send", d, target, p.lab()]
        others = [x for x in range(3) if x not in (holder, target)]
    mate = p.new(holder, "K") if any(f in ("g2c", "g2t") for f in follows) else None
    fops = [follow_op(p, f, d, holder, mate, others) for f in follows]
    p.pipe(dep, fops, sched)
    # the old handle, sequentially: every op kind must be inert
    p.g1(d, "X")
    p.meas(d, 1, 1)
    if rest and holder == 0 and place != "third":
        p.g2(d, rest[0])
        p.g2(rest[0], d, "CPHASE")
    p.send(d, others[0])
    p.meas(d, 0, 1)
    # everything that is left: basis change + measurement makes damage visible
    left = list(rest) + ([dep[3]] if dk == "send" else []) + ([mate] if mate is not None else [])
    for q in left:
        p.g1(q, "H" if variant % 2 else "K")
    for a, b in zip(left, left[1:]):
        if a in rest and b in rest and place != "third":
            p.g2(a, b, "CPHASE")
    for j, q in enumerate(left):
        p.meas(q, 1, (j + variant) % 2)
    for j, q in enumerate(left):
        p.meas(q, 0, j % 2)
    name = "pipe:%s:%s:n%d:pos%d:%s:%s:%s" % (dk, place, n, pos, "ent" if ent else "prod", "+".join(follows), "-".join(str(x) for x in sched))
    return name, p.p


def schedules(rng):
    return [["fifo"], ["random", rng.getrandbits(24)], ["pct", rng.getrandbits(24)],
            ["delay", rng.choice(["answer", "call:get_global_lock", "call:isActive", "call:lock", "call:release_global_lock",
                                  "call:remove_sim_qubit_num", "call:measure_inplace", "call:add_qubit", "call:unlock"]),
             rng.randrange(3), rng.randint(1, 6)]]


def scenarios(ctx):
    rng = random.Random(ctx.rng.getrandbits(48))
    out = []

    def add(s):
        if s is not None:
            out.append(s)
    singles = [[f] for f in FOLLOWS1]
    pairs = [[a, b] for a in ("Z", "H", "measI", "T", "X", "measD") for b in ("H", "Z", "measI", "K", "g2same") if a != b]
    if ctx.thorough:
        v = 0
        for dk, place in DEPS:
            for (n, pos, ent) in LAYOUTS:
                for fl in singles + pairs:
                    for sch in schedules(rng):
                        v += 1
                        add(scenario(dk, place, n, pos, ent, fl, sch, variant=v))
        return out
    # the demonstration of the property text: |0>|+>|1>, the first qubit held by Bob, Z / H / measure pipelined
    add(scenario("measD", "remote", 3, 0, 0, ["Z", "H"], ["fifo"], variant=0))
    v = 0
    for dk, place in DEPS:
        ok1 = [f for f in singles if allowed(dk, f[0], place)]
        ok2 = [f for f in pairs if all(allowed(dk, x, place) for x in f)]
        rng.shuffle(ok1)
        rng.shuffle(ok2)
        local = place in ("local", "local-simulated")
        for li, (n, pos, ent) in enumerate(LAYOUTS):
            # every (departure, placement, layout): one single op under FIFO, one pair / single under another schedule
            v += 1
            add(scenario(dk, place, n, pos, ent, ok1[li % len(ok1)], ["fifo"], variant=v))
            if not local or li % 3 == 0:
                v += 1
                add(scenario(dk, place, n, pos, ent, ok1[(li + 3) % len(ok1)], schedules(rng)[1 + li % 3], variant=v))
            if not local:
                v += 1
                add(scenario(dk, place, n, pos, ent, ok2[li % len(ok2)], schedules(rng)[(li + v) % 4], variant=v))
        # every clean op kind in this (departure, placement) at least once, layouts rotating
        for fi, fl in enumerate(ok1):
            n, pos, ent = LAYOUTS[(fi * 3 + 1) % len(LAYOUTS)]
            v += 1
            add(scenario(dk, place, n, pos, ent, fl, ["fifo"] if fi % 2 else schedules(rng)[1 + fi % 3], variant=v))
    return out


# ---------------------------------------------------------------------------
# the excluded combinations on the unchanged tree (documentation, not a verdict)
# ---------------------------------------------------------------------------

def probe_clean():
    """run every EXCLUDED combination (remote placement, 3-qubit product register) and return
    {(departure, op): symptom keys}; used to justify the exclusion list"""
    core.scratch_repo()
    vc.instrument()
    out = {}
    for (dk, fk) in sorted(EXCLUDED):
        for place in [pl for d, pl in DEPS if d == dk]:
            s = scenario(dk, place, 3, 0, 0, [fk], ["fifo"], variant=1, allow_excluded=True)
            ex = run_program(s[1])
            out[(dk, fk, place)] = sorted({key for (_i, kind, key, _w) in ex.fails})
    return out


# ---------------------------------------------------------------------------
# shrinking, the stage
# ---------------------------------------------------------------------------

def _out(ex, tag):
    return {"tag": tag, "prog": ex.program(), "recs": [(r["q"], r["impl"]) for r in ex.records],
            "cells": [r["cell"] for r in ex.records], "fails": list(ex.fails), "dead": ex.dead}


def _run_chunk(progs):
    return [_out(run_program(p), "pipe") for p in progs]


def fails_with(prog, kind, key):
    ex = run_program(prog)
    for (i, kd, ky, what) in ex.fails:
        if kd == kind and ky == key:
            p = ex.program()
            p["ops"] = p["ops"][:i + 1]
            return p, what
    return None


def shrink(prog, kind, key, budget_s=8.0):
    t0 = time.time()
    got = fails_with(prog, kind, key)
    if got is None:
        return prog, None
    best, what = got

    def attempt(cand):
        nonlocal best, what
        g = fails_with(cand, kind, key)
        if g is not None and len(g[0]["ops"]) <= len(best["ops"]):
            best, what = g
            return True
        return False
    # plain schedule, one pipelined op (the key names the op kinds, so only equal-kind reductions survive)
    for j, op in enumerate(best["ops"]):
        if op[0] == "pipe" and op[3] != ["fifo"]:
            cand = dict(best)
            cand["ops"] = [list(o) for o in best["ops"]]
            cand["ops"][j] = ["pipe", op[1], op[2], ["fifo"]]
            attempt(cand)
    progress = True
    while progress and time.time() - t0 < budget_s:
        progress = False
        s = 0
        while s < len(best["ops"]) - 1 and time.time() - t0 < budget_s:
            ops = best["ops"]
            cand = dict(best)
            cand["ops"] = ops[:s] + ops[s + 1:]
            g = fails_with(cand, kind, key)
            if g is not None and len(g[0]["ops"]) < len(best["ops"]):
                best, what = g
                progress = True
            else:
                s += 1
    for k in range(1, best["nodes"]):
        used = [op[1] for op in best["ops"] if op[0] == "new"] + [op[2] for op in best["ops"] if op[0] == "send"] + \
            [o[2] for op in best["ops"] if op[0] == "pipe" for o in [op[1]] + op[2] if o[0] == "send"]
        if all(u < k for u in used):
            cand = dict(best)
            cand["nodes"] = k
            if attempt(cand):
                break
    return best, what


def is_pipe(replay):
    inp = replay.get("input", replay) if isinstance(replay, dict) else {}
    prog = inp.get("program", inp) if isinstance(inp, dict) else {}
    return bool(isinstance(prog, dict) and prog.get("pipe"))


def stage(ctx, res):
    """run the pipeline stage of C06 and fold its verdicts into `res`"""
    core.scratch_repo()
    vc.instrument()
    t0 = time.time()
    rp = getattr(ctx, "replay", None)
    if rp:
        prog = rp.get("input", rp)
        prog = prog.get("program", prog)
        outs = [_out(run_program(prog), "replay")]
    else:
        progs = [p for _name, p in scenarios(ctx)]
        if ctx.thorough and len(progs) >= 200 and vc.procs() > 1:
            size = max(20, min(200, len(progs) // (vc.procs() * 4)))
            chunks = [progs[i:i + size] for i in range(0, len(progs), size)]
            with multiprocessing.get_context("fork").Pool(vc.procs()) as pool:
                outs = [o for part in pool.map(_run_chunk, chunks) for o in part]
        else:
            outs = _run_chunk(progs)
    res.rule = (res.rule + " || " if res.rule else "") + RULE
    cand, nops = {}, 0
    for o in outs:
        nops += len(o["recs"])
        for c in o["cells"]:
            res.count("p:" + c if not c.startswith("pipe:") else "p:" + ":".join(c.split(":")[:4 if ":3rd:" in c else 3]))
            if c.startswith("pipe:"):
                res.count("p:pipelined-ops:" + c.split(":")[-2])
                res.count("p:schedule:" + c.split(":")[-1])
                res.count("p:layout:" + [x for x in c.split(":") if x.startswith("pos")][0])
        res.count("programs:pipe")
        res.case(o["prog"], nontrivial=True)
        for (i, kind, key, what) in o["fails"]:
            size = (i + 1, o["prog"]["nodes"])
            cur = cand.get((kind, key))
            if cur is None or size < cur[0]:
                p = dict(o["prog"])
                p["ops"] = p["ops"][:i + 1]
                cand[(kind, key)] = (size, p, what, (cur[3] if cur else 0) + 1)
            else:
                cand[(kind, key)] = cur[:3] + (cur[3] + 1,)
    res.count("p:ops", nops)
    if ctx.lean_ok:
        vc.tie(res, outs, "C06 pipeline stage (ops before the pipe step)")
    own = vc.OWN["C06"]
    for (kind, key) in sorted(cand, key=lambda kk: (cand[kk][0], kk)):
        size, p, what, count = cand[(kind, key)]
        if kind not in own:
            res.notes.append("pipeline-stage oracle failure owned by another check: %s %s x%d e.g. %s" % (kind, key, count, prog_text(p)))
            res.count("p:foreign:%s" % kind, count)
            continue
        small, what2 = shrink(p, kind, key, budget_s=10.0 / max(1, len(cand)) + 3)
        res.violation(key, (what2 or what) + (" (+%d more failing programs with this key)" % (count - 1) if count > 1 else ""),
                      {"program": small, "text": prog_text(small), "kind": kind})
    res.notes.append("pipeline stage: %d real ops in %d programs, %.1fs; left out (open same-handle findings of C03/C04): %s" % (
        nops, len(outs), time.time() - t0, ", ".join("%s then %s (%s)" % (d, f, w) for (d, f), w in sorted(EXCLUDED.items()))))
    return res

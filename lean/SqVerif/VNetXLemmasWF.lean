import SqVerif.VNetXLemmas
import SqVerif.VNetWF
/-
L2x — helper lemmas (2): the manipulations of the BASE state made by the extended
operations preserve the base well-formedness `WFp`:

* `wfp_modNode_fields`  changing only `maxRegs` / growing `nextReg` of a node
                        (`newReg`, `delReg` of a free register);
* `wfp_adoptReg`        moving an empty client register into the register table
                        (the one register that may be empty: `WFp (some (a, k))`);
* `wfp_addFreshIn`      `make_fresh` into an existing register + new simulated
                        qubit + new handle (`newInReg`), from `WFp none` or from
                        the state just after `adoptReg`.
-/
namespace SqVerif.VNetX
open SqVerif.VNet SqVerif.VNet.WFP List

/-! ### node fields that the invariant does not read -/

theorem nodeP_of_fields {E s i} {n n' : Node} (w : NodeP E s i n) (h1 : n'.virt = n.virt) (h2 : n'.sim = n.sim)
    (h3 : n'.regs = n.regs) (h4 : n'.numRegs = n.numRegs) (h5 : n'.maxQubits = n.maxQubits)
    (h6 : n.nextReg ≤ n'.nextReg) : NodeP E s i n' := by
  refine { virtNodup := by rw [h1]; exact w.virtNodup, simNodup := by rw [h2]; exact w.simNodup,
           virtNumsInj := by rw [h1]; exact w.virtNumsInj, simNumsInj := by rw [h2]; exact w.simNumsInj,
           numRegs := by rw [h4, h3]; exact w.numRegs, regNumsInj := by rw [h3]; exact w.regNumsInj,
           regNumsNodup := by rw [h3]; exact w.regNumsNodup,
           regNumsFresh := by rw [h3]; exact fun r hr => Nat.lt_of_lt_of_le (w.regNumsFresh r hr) h6,
           regsNonEmpty := by rw [h3]; exact w.regsNonEmpty, regsWithinMax := by rw [h3]; exact w.regsWithinMax,
           cap := by rw [h1, h5]; exact w.cap, virtOK := by rw [h1]; exact w.virtOK,
           simOK := by rw [h2, h3]; exact w.simOK, posInj := by rw [h2]; exact w.posInj,
           posLt := by rw [h2, h3]; exact w.posLt, posSurj := by rw [h2, h3]; exact w.posSurj }

theorem allToks_modNode_regs (s : Net) (a : Nat) (f : Node → Node) (hf : ∀ n, (f n).regs = n.regs) :
    allToks (modNode s a f) = allToks s := by
  unfold allToks
  rw [List.flatMap_def, List.flatMap_def, modNode_nodes,
    map_modify_of_eq _ _ _ (fun n : Node => n.regs.flatMap (·.toks)) (fun n => by rw [hf])]

theorem wfp_modNode_fields {E} {s : Net} {a : Nat} {f : Node → Node} (w : WFp E s)
    (hf : ∀ n, (f n).virt = n.virt ∧ (f n).sim = n.sim ∧ (f n).regs = n.regs ∧ (f n).numRegs = n.numRegs ∧
      (f n).maxQubits = n.maxQubits ∧ n.nextReg ≤ (f n).nextReg) : WFp E (modNode s a f) := by
  have hnd : ∀ i : Nat, (modNode s a f).nodes[i]? = if a = i then (s.nodes[i]?).map f else s.nodes[i]? :=
    fun i => modNode_get s a i f
  have hvirt : ∀ i : Nat, ((modNode s a f).nodes[i]?).map (·.virt) = (s.nodes[i]?).map (·.virt) := by
    intro i; rw [hnd]; split
    · cases s.nodes[i]? with
      | none => rfl
      | some n => simp [(hf n).1]
    · rfl
  have hsim : ∀ i : Nat, ((modNode s a f).nodes[i]?).map (·.sim) = (s.nodes[i]?).map (·.sim) := by
    intro i; rw [hnd]; split
    · cases s.nodes[i]? with
      | none => rfl
      | some n => simp [(hf n).2.1]
    · rfl
  have hlive : ∀ (j o : Nat) (m : Node), s.nodes[j]? = some m → o ∈ m.sim →
      ∃ m', (modNode s a f).nodes[j]? = some m' ∧ o ∈ m'.sim := by
    intro j o m e ho
    have := hsim j
    rw [e] at this
    cases e' : (modNode s a f).nodes[j]? with
    | none => rw [e'] at this; cases this
    | some m' => rw [e'] at this; simp at this; exact ⟨m', rfl, this ▸ ho⟩
  have hheld := mem_allHeld_congr hvirt
  have hallsim := mem_allSim_congr hsim
  have htoks := allToks_modNode_regs s a f (fun n => (hf n).2.2.1)
  refine { nodes := ?_, backInj := ?_, backSurj := ?_, staleInactive := ?_, toksNodup := ?_, toksFresh := ?_ }
  · intro i m e
    rw [hnd] at e
    split at e
    · cases e0 : s.nodes[i]? with
      | none => rw [e0] at e; cases e
      | some n =>
        rw [e0] at e; simp only [Option.map_some, Option.some.injEq] at e
        have wn : NodeP E (modNode s a f) i n :=
          (w.nodes i n e0).frame (fun _ _ => rfl) (fun _ _ => rfl) (fun h vq m _ _ e2 e3 => hlive _ _ m e2 e3)
        obtain ⟨g1, g2, g3, g4, g5, g6⟩ := hf n
        rw [← e]; exact nodeP_of_fields wn g1 g2 g3 g4 g5 g6
    · exact (w.nodes i m e).frame (fun _ _ => rfl) (fun _ _ => rfl) (fun h vq m _ _ e2 e3 => hlive _ _ m e2 e3)
  · intro h h' vq vq' hh hh'
    rw [hheld] at hh hh'
    exact w.backInj h h' vq vq' hh hh'
  · intro o ho
    rw [hallsim] at ho
    obtain ⟨h, vq, e1, e2, e3⟩ := w.backSurj o ho
    exact ⟨h, vq, (hheld h).2 e1, e2, e3⟩
  · intro h vq e hh
    rw [hheld] at hh
    exact w.staleInactive h vq e hh
  · rw [htoks]; exact w.toksNodup
  · intro t ht; rw [htoks] at ht; exact w.toksFresh t ht

/-! ### adopting an empty client register -/

def adNode (k max : Nat) (n : Node) : Node :=
  { n with regs := n.regs ++ [{ num := k, max := max, toks := [] }], numRegs := n.numRegs + 1, maxRegs := n.maxRegs + 1 }

theorem adoptReg_eq (s : Net) (a k max : Nat) : adoptReg s a k max = modNode s a (adNode k max) := rfl

theorem adNet_nodes {s : Net} {a : Nat} {n : Node} (k max : Nat) (hn : s.nodes[a]? = some n) (i : Nat) :
    (modNode s a (adNode k max)).nodes[i]? = if i = a then some (adNode k max n) else s.nodes[i]? := by
  simp only [modNode]; exact getElem?_modify' _ hn i

theorem wfp_adoptReg {s : Net} {a k max : Nat} {n : Node} (w : WFp none s) (hn : s.nodes[a]? = some n)
    (hk : k < n.nextReg) (hnew : ∀ r, r ∈ n.regs → r.num ≠ k) :
    WFp (some (a, k)) (adoptReg s a k max) := by
  rw [adoptReg_eq]
  have hnd := adNet_nodes k max hn
  have hvirt : ∀ i : Nat, ((modNode s a (adNode k max)).nodes[i]?).map (·.virt) = (s.nodes[i]?).map (·.virt) := by
    intro i; rw [hnd]; by_cases h : i = a
    · subst h; simp [hn, adNode]
    · simp [h]
  have hsim : ∀ i : Nat, ((modNode s a (adNode k max)).nodes[i]?).map (·.sim) = (s.nodes[i]?).map (·.sim) := by
    intro i; rw [hnd]; by_cases h : i = a
    · subst h; simp [hn, adNode]
    · simp [h]
  have hlive : ∀ (j o : Nat) (m : Node), s.nodes[j]? = some m → o ∈ m.sim →
      ∃ m', (modNode s a (adNode k max)).nodes[j]? = some m' ∧ o ∈ m'.sim := by
    intro j o m e ho
    have := hsim j
    rw [e] at this
    cases e' : (modNode s a (adNode k max)).nodes[j]? with
    | none => rw [e'] at this; cases this
    | some m' => rw [e'] at this; simp at this; exact ⟨m', rfl, this ▸ ho⟩
  have hheld := mem_allHeld_congr hvirt
  have hallsim := mem_allSim_congr hsim
  refine { nodes := ?_, backInj := ?_, backSurj := ?_, staleInactive := ?_, toksNodup := ?_, toksFresh := ?_ }
  · intro i m e
    rw [hnd] at e
    by_cases hi : i = a
    · rw [if_pos hi] at e; cases e; subst hi
      have wn := w.nodes i n hn
      have hv : VirtP (modNode s i (adNode k max)) i (adNode k max n) := by
        have : VirtP (modNode s i (adNode k max)) i n :=
          wn.virtP.frame (fun _ _ => rfl) (fun h vq m _ _ e2 e3 => hlive _ _ m e2 e3)
        exact { virtNodup := this.virtNodup, virtNumsInj := this.virtNumsInj, cap := this.cap, virtOK := this.virtOK }
      refine NodeP.ofParts hv ?_
      have ws := wn.simP
      refine { simNodup := ws.simNodup, simNumsInj := ws.simNumsInj, numRegs := ?_, regNumsNodup := ?_,
               regNumsFresh := ?_, regsNonEmpty := ?_, regsWithinMax := ?_, simOK := ?_,
               posInj := ws.posInj, posLt := ?_, posSurj := ?_ }
      · simp [adNode, ws.numRegs]
      · simp only [adNode, map_append, map_cons, map_nil, nodup_append]
        refine ⟨ws.regNumsNodup, by simp, ?_⟩
        intro x hx y hy
        simp only [mem_singleton] at hy
        obtain ⟨r, hr, rfl⟩ := mem_map.1 hx
        rw [hy]; exact hnew r hr
      · intro r hr
        simp only [adNode, mem_append, mem_singleton] at hr ⊢
        rcases hr with hr | rfl
        · exact ws.regNumsFresh r hr
        · exact hk
      · intro r hr he
        simp only [adNode, mem_append, mem_singleton] at hr
        rcases hr with hr | rfl
        · exact absurd (ws.regsNonEmpty r hr he) (by simp)
        · rfl
      · intro r hr
        simp only [adNode, mem_append, mem_singleton] at hr
        rcases hr with hr | rfl
        · exact ws.regsWithinMax r hr
        · simp
      · intro o ho
        obtain ⟨sq, e1, e2, e3, r, e4, e5⟩ := ws.simOK o ho
        exact ⟨sq, e1, e2, e3, r, by simp [adNode, e4], e5⟩
      · intro o q r ho e hr hrn
        simp only [adNode, mem_append, mem_singleton] at hr
        rcases hr with hr | rfl
        · exact ws.posLt o q r ho e hr hrn
        · exfalso
          obtain ⟨sq, e1, _, _, r, e4, e5⟩ := ws.simOK o ho
          have e : s.sqs[o]? = some q := e
          rw [e] at e1; cases e1
          exact hnew r e4 (e5.trans hrn.symm)
      · intro r p hr hp
        simp only [adNode, mem_append, mem_singleton] at hr
        rcases hr with hr | rfl
        · exact ws.posSurj r p hr hp
        · simp at hp
    · rw [if_neg hi] at e
      have wm := w.nodes i m e
      have : NodeP none (modNode s a (adNode k max)) i m :=
        wm.frame (fun _ _ => rfl) (fun _ _ => rfl) (fun h vq m _ _ e2 e3 => hlive _ _ m e2 e3)
      exact this.mono (fun r hr he hE => by cases hE)
  · intro h h' vq vq' hh hh'
    rw [hheld] at hh hh'
    exact w.backInj h h' vq vq' hh hh'
  · intro o ho
    rw [hallsim] at ho
    obtain ⟨h, vq, e1, e2, e3⟩ := w.backSurj o ho
    exact ⟨h, vq, (hheld h).2 e1, e2, e3⟩
  · intro h vq e hh
    rw [hheld] at hh
    exact w.staleInactive h vq e hh
  · have hp : (allToks (modNode s a (adNode k max)) ++ []).Perm (allToks s ++ []) :=
      perm_flatMap_modify (g := WFP.nodeToks) hn (by simp [WFP.nodeToks, adNode])
    simp only [append_nil] at hp
    exact hp.nodup_iff.2 w.toksNodup
  · intro t ht
    have hp : (allToks (modNode s a (adNode k max)) ++ []).Perm (allToks s ++ []) :=
      perm_flatMap_modify (g := WFP.nodeToks) hn (by simp [WFP.nodeToks, adNode])
    simp only [append_nil] at hp
    exact w.toksFresh t (hp.mem_iff.1 ht)

/-! ### `make_fresh` into an existing register -/

def fiReg (rg : Reg) (tok : Nat) : Reg := { rg with toks := rg.toks ++ [tok] }

def fiNode (s : Net) (n : Node) (r : Nat) : Node :=
  { (n.modReg r fun rg => { rg with toks := rg.toks ++ [s.nextTok] }) with
    sim := n.sim ++ [s.sqs.length], virt := n.virt ++ [s.vqs.length] }

def fiSQ (s : Net) (a : Nat) (n : Node) (r len : Nat) : SQ :=
  { node := a, simNum := firstFree (simNums s n), reg := r, pos := len, active := true }

def fiVQ (s : Net) (a : Nat) (n : Node) : VQ :=
  { virtNode := a, num := firstFree (virtNums s n), simNode := a, simObj := s.sqs.length, active := true }

def fiNet (s : Net) (a : Nat) (n : Node) (r len : Nat) : Net :=
  { nodes := s.nodes.set a (fiNode s n r), sqs := s.sqs ++ [fiSQ s a n r len], vqs := s.vqs ++ [fiVQ s a n],
    nextTok := s.nextTok + 1 }

theorem addFreshIn_eq {s : Net} {a : Nat} {n : Node} (r len : Nat) (hn : s.nodes[a]? = some n) :
    addFreshIn s a n r len = fiNet s a n r len := by
  unfold addFreshIn fiNet
  simp only [modNode]
  congr 1
  rw [modify_eq_set' _ hn]
  rfl

/-- the hypotheses of a successful `make_fresh` into register `rg` of node `a` -/
structure FiCtx (E : Option (Nat × Nat)) (s : Net) (a : Nat) (n : Node) (rg : Reg) : Prop where
  w : WFp E s
  hn : s.nodes[a]? = some n
  hrg : rg ∈ n.regs
  hE : E = none ∨ E = some (a, rg.num)
  hcap : n.virt.length < n.maxQubits
  hmax : rg.toks.length < rg.max

namespace FiCtx
variable {E : Option (Nat × Nat)} {s : Net} {a : Nat} {n : Node} {rg : Reg}

theorem wn (c : FiCtx E s a n rg) : NodeP E s a n := c.w.nodes a n c.hn

theorem nodes' (c : FiCtx E s a n rg) (i : Nat) :
    (fiNet s a n rg.num rg.toks.length).nodes[i]? = if i = a then some (fiNode s n rg.num) else s.nodes[i]? := by
  unfold fiNet
  simp only [getElem?_set]
  have : a < s.nodes.length := lt_length_of_getElem? c.hn
  by_cases h : a = i
  · subst h; simp [this]
  · have : ¬ i = a := fun e => h e.symm
    simp [h, this]

theorem vqs_old (_c : FiCtx E s a n rg) {h : Nat} (hh : h < s.vqs.length) :
    (fiNet s a n rg.num rg.toks.length).vqs[h]? = s.vqs[h]? := by
  simp [fiNet, getElem?_append_left hh]

theorem sqs_old (_c : FiCtx E s a n rg) {o : Nat} (ho : o < s.sqs.length) :
    (fiNet s a n rg.num rg.toks.length).sqs[o]? = s.sqs[o]? := by
  simp [fiNet, getElem?_append_left ho]

theorem vqs_new (_c : FiCtx E s a n rg) :
    (fiNet s a n rg.num rg.toks.length).vqs[s.vqs.length]? = some (fiVQ s a n) := getElem?_concat_length

theorem sqs_new (_c : FiCtx E s a n rg) :
    (fiNet s a n rg.num rg.toks.length).sqs[s.sqs.length]? = some (fiSQ s a n rg.num rg.toks.length) :=
  getElem?_concat_length

theorem regs' (c : FiCtx E s a n rg) :
    ∃ l1 l2, n.regs = l1 ++ rg :: l2 ∧ (∀ x, x ∈ l1 → x.num ≠ rg.num) ∧ (∀ x, x ∈ l2 → x.num ≠ rg.num) ∧
      (fiNode s n rg.num).regs = l1 ++ fiReg rg s.nextTok :: l2 := by
  obtain ⟨l1, l2, e, g1, g2⟩ := split_reg c.wn.regNumsNodup c.hrg
  refine ⟨l1, l2, e, g1, g2, ?_⟩
  simp only [fiNode, Node.modReg]
  rw [e, map_split g1 g2]; rfl

theorem mem_regs' (c : FiCtx E s a n rg) {r : Reg} :
    r ∈ (fiNode s n rg.num).regs ↔ (r ∈ n.regs ∧ r.num ≠ rg.num) ∨ r = fiReg rg s.nextTok := by
  obtain ⟨l1, l2, e, g1, g2, e'⟩ := c.regs'
  rw [e', e]
  simp only [mem_append, mem_cons]
  constructor
  · rintro (h | h | h)
    · exact Or.inl ⟨Or.inl h, g1 r h⟩
    · exact Or.inr h
    · exact Or.inl ⟨Or.inr (Or.inr h), g2 r h⟩
  · rintro (⟨h | h | h, hn⟩ | h)
    · exact Or.inl h
    · subst h; exact absurd rfl hn
    · exact Or.inr (Or.inr h)
    · exact Or.inr (Or.inl h)

theorem live_mono (c : FiCtx E s a n rg) {j o : Nat} {m : Node} (e : s.nodes[j]? = some m) (ho : o ∈ m.sim) :
    ∃ m', (fiNet s a n rg.num rg.toks.length).nodes[j]? = some m' ∧ o ∈ m'.sim := by
  rw [c.nodes']
  by_cases hj : j = a
  · subst hj
    rw [c.hn] at e; cases e
    exact ⟨_, by rw [if_pos rfl], by simp [fiNode, ho]⟩
  · exact ⟨m, by rw [if_neg hj]; exact e, ho⟩

theorem mem_held' (c : FiCtx E s a n rg) {h : Nat} :
    h ∈ allHeld (fiNet s a n rg.num rg.toks.length) ↔ h ∈ allHeld s ∨ h = s.vqs.length := by
  simp only [WFP.mem_allHeld, c.nodes']
  constructor
  · rintro ⟨i, m, e, hm⟩
    by_cases hi : i = a
    · rw [if_pos hi] at e; cases e
      simp only [fiNode, mem_append, mem_singleton] at hm
      rcases hm with hm | hm
      · exact Or.inl ⟨a, n, c.hn, hm⟩
      · exact Or.inr hm
    · rw [if_neg hi] at e; exact Or.inl ⟨i, m, e, hm⟩
  · rintro (⟨i, m, e, hm⟩ | rfl)
    · by_cases hi : i = a
      · subst hi; rw [c.hn] at e; cases e
        exact ⟨i, _, by rw [if_pos rfl], by simp [fiNode, hm]⟩
      · exact ⟨i, m, by rw [if_neg hi]; exact e, hm⟩
    · exact ⟨a, _, by rw [if_pos rfl], by simp [fiNode]⟩

theorem mem_sim' (c : FiCtx E s a n rg) {o : Nat} :
    o ∈ allSim (fiNet s a n rg.num rg.toks.length) ↔ o ∈ allSim s ∨ o = s.sqs.length := by
  simp only [mem_allSim, c.nodes']
  constructor
  · rintro ⟨i, m, e, hm⟩
    by_cases hi : i = a
    · rw [if_pos hi] at e; cases e
      simp only [fiNode, mem_append, mem_singleton] at hm
      rcases hm with hm | hm
      · exact Or.inl ⟨a, n, c.hn, hm⟩
      · exact Or.inr hm
    · rw [if_neg hi] at e; exact Or.inl ⟨i, m, e, hm⟩
  · rintro (⟨i, m, e, hm⟩ | rfl)
    · by_cases hi : i = a
      · subst hi; rw [c.hn] at e; cases e
        exact ⟨i, _, by rw [if_pos rfl], by simp [fiNode, hm]⟩
      · exact ⟨i, m, by rw [if_neg hi]; exact e, hm⟩
    · exact ⟨a, _, by rw [if_pos rfl], by simp [fiNode]⟩

theorem virtP_a (c : FiCtx E s a n rg) : VirtP (fiNet s a n rg.num rg.toks.length) a (fiNode s n rg.num) := by
  have wn := c.wn
  have hvl : ∀ h, h ∈ n.virt → h < s.vqs.length := fun h hh => wn.virt_lt hh
  have hff := firstFree_not_mem (virtNums s n)
  have hvirt : (fiNode s n rg.num).virt = n.virt ++ [s.vqs.length] := rfl
  refine { virtNodup := ?_, virtNumsInj := ?_, cap := ?_, virtOK := ?_ }
  · rw [hvirt, nodup_append]
    refine ⟨wn.virtNodup, by simp, ?_⟩
    intro x hx y hy
    simp only [mem_singleton] at hy
    have := hvl x hx; omega
  · rw [hvirt]
    intro h h' vq vq' hh hh' e e' en
    simp only [mem_append, mem_singleton] at hh hh'
    rcases hh with hh | rfl <;> rcases hh' with hh' | rfl
    · rw [c.vqs_old (hvl h hh)] at e; rw [c.vqs_old (hvl h' hh')] at e'
      exact wn.virtNumsInj h h' vq vq' hh hh' e e' en
    · exfalso
      rw [c.vqs_old (hvl h hh)] at e
      rw [c.vqs_new] at e'; cases e'
      apply hff
      exact SendCtx.mem_virtNums.2 ⟨h, vq, hh, e, en⟩
    · exfalso
      rw [c.vqs_old (hvl h' hh')] at e'
      rw [c.vqs_new] at e; cases e
      apply hff
      exact SendCtx.mem_virtNums.2 ⟨h', vq', hh', e', en.symm⟩
    · rfl
  · rw [hvirt]
    simp only [length_append, length_cons, length_nil]
    have : (fiNode s n rg.num).maxQubits = n.maxQubits := rfl
    rw [this]; have := c.hcap; omega
  · rw [hvirt]
    intro h hh
    simp only [mem_append, mem_singleton] at hh
    rcases hh with hh | rfl
    · obtain ⟨vq, e1, e2, e3, sn, e4, e5⟩ := wn.virtOK h hh
      exact ⟨vq, (c.vqs_old (hvl h hh)).trans e1, e2, e3, c.live_mono e4 e5⟩
    · refine ⟨_, c.vqs_new, rfl, rfl, ?_⟩
      simp only [fiVQ, c.nodes', if_true]
      exact ⟨_, rfl, by simp [fiNode]⟩

theorem simP_a (c : FiCtx E s a n rg) : SimP none (fiNet s a n rg.num rg.toks.length) a (fiNode s n rg.num) := by
  have wn := c.wn
  have hsl : ∀ o, o ∈ n.sim → o < s.sqs.length := fun o ho => wn.sim_lt ho
  have hsq : ∀ o, o ∈ n.sim → (fiNet s a n rg.num rg.toks.length).sqs[o]? = s.sqs[o]? :=
    fun o ho => c.sqs_old (hsl o ho)
  have hff := firstFree_not_mem (simNums s n)
  have hsim : (fiNode s n rg.num).sim = n.sim ++ [s.sqs.length] := rfl
  have hregs := @mem_regs' _ _ _ _ _ c
  obtain ⟨l1, l2, e, g1, g2, e'⟩ := c.regs'
  have hat : (fiReg rg s.nextTok).toks = rg.toks ++ [s.nextTok] := rfl
  have han : (fiReg rg s.nextTok).num = rg.num := rfl
  have ham : (fiReg rg s.nextTok).max = rg.max := rfl
  have hcase : ∀ o, o ∈ n.sim ++ [s.sqs.length] → ∀ q, (fiNet s a n rg.num rg.toks.length).sqs[o]? = some q →
      (o ∈ n.sim ∧ s.sqs[o]? = some q) ∨ (o = s.sqs.length ∧ q = fiSQ s a n rg.num rg.toks.length) := by
    intro o ho q hq
    simp only [mem_append, mem_singleton] at ho
    rcases ho with h | rfl
    · exact Or.inl ⟨h, (hsq o h).symm.trans hq⟩
    · rw [c.sqs_new] at hq; cases hq; exact Or.inr ⟨rfl, rfl⟩
  refine { simNodup := ?_, simNumsInj := ?_, numRegs := ?_, regNumsNodup := ?_, regNumsFresh := ?_,
           regsNonEmpty := ?_, regsWithinMax := ?_, simOK := ?_, posInj := ?_, posLt := ?_, posSurj := ?_ }
  · rw [hsim, nodup_append]
    refine ⟨wn.simNodup, by simp, ?_⟩
    intro x hx y hy
    simp only [mem_singleton] at hy
    have := hsl x hx; omega
  · rw [hsim]
    intro o o' q q' ho ho' e1 e2 en
    rcases hcase o ho q e1 with ⟨h1, f1⟩ | ⟨rfl, rfl⟩ <;> rcases hcase o' ho' q' e2 with ⟨h1', f1'⟩ | ⟨rfl, rfl⟩
    · exact wn.simNumsInj o o' q q' h1 h1' f1 f1' en
    · exfalso; apply hff
      exact mem_simNums.2 ⟨o, q, h1, f1, en⟩
    · exfalso; apply hff
      exact mem_simNums.2 ⟨o', q', h1', f1', en.symm⟩
    · rfl
  · rw [e', show (fiNode s n rg.num).numRegs = n.numRegs from rfl, wn.numRegs, e]; simp
  · rw [e']
    have := wn.regNumsNodup
    rw [e] at this
    simpa [han] using this
  · intro r hr
    have hnx : (fiNode s n rg.num).nextReg = n.nextReg := rfl
    rw [hnx]
    rcases hregs.1 hr with ⟨h, _⟩ | rfl
    · exact wn.regNumsFresh r h
    · exact wn.regNumsFresh rg c.hrg
  · intro r hr he
    exfalso
    rcases hregs.1 hr with ⟨h, hn⟩ | rfl
    · have := wn.regsNonEmpty r h he
      rcases c.hE with h' | h' <;> rw [h'] at this
      · cases this
      · simp only [Option.some.injEq, Prod.mk.injEq, true_and] at this
        exact hn this.symm
    · rw [hat] at he
      simp at he
  · intro r hr
    rcases hregs.1 hr with ⟨h, _⟩ | rfl
    · exact wn.regsWithinMax r h
    · rw [hat, ham, length_append]
      have := c.hmax; simp only [length_cons, length_nil]; omega
  · rw [hsim]
    intro o ho
    simp only [mem_append, mem_singleton] at ho
    rcases ho with h | rfl
    · obtain ⟨sq, e1, e2, e3, r, e4, e5⟩ := wn.simOK o h
      refine ⟨sq, (hsq o h).trans e1, e2, e3, ?_⟩
      by_cases hr : r.num = rg.num
      · exact ⟨_, hregs.2 (Or.inr rfl), by rw [han, ← hr, e5]⟩
      · exact ⟨r, hregs.2 (Or.inl ⟨e4, hr⟩), e5⟩
    · exact ⟨_, c.sqs_new, rfl, rfl, _, hregs.2 (Or.inr rfl), rfl⟩
  · rw [hsim]
    intro o o' q q' ho ho' e1 e2 er ep
    rcases hcase o ho q e1 with ⟨h1, f1⟩ | ⟨rfl, rfl⟩ <;> rcases hcase o' ho' q' e2 with ⟨h1', f1'⟩ | ⟨rfl, rfl⟩
    · exact wn.posInj o o' q q' h1 h1' f1 f1' er ep
    · have := wn.posLt o q rg h1 f1 c.hrg er.symm
      simp only [fiSQ] at ep; omega
    · have := wn.posLt o' q' rg h1' f1' c.hrg er
      simp only [fiSQ] at ep; omega
    · rfl
  · rw [hsim]
    intro o q r ho e1 hr hrn
    rcases hcase o ho q e1 with ⟨h1, f1⟩ | ⟨rfl, rfl⟩
    · rcases hregs.1 hr with ⟨h, _⟩ | rfl
      · exact wn.posLt o q r h1 f1 h hrn
      · have := wn.posLt o q rg h1 f1 c.hrg (by rw [← hrn, han])
        rw [hat, length_append]; omega
    · rcases hregs.1 hr with ⟨h, hn⟩ | rfl
      · exact absurd hrn hn
      · rw [hat, length_append]; simp [fiSQ]
  · rw [hsim]
    intro r p hr hp
    rcases hregs.1 hr with ⟨h, hn⟩ | rfl
    · obtain ⟨o, q, f1, f2, f3, f4⟩ := wn.posSurj r p h hp
      exact ⟨o, q, mem_append_left _ f1, (hsq o f1).trans f2, f3, f4⟩
    · rw [hat, length_append] at hp
      simp only [length_cons, length_nil] at hp
      by_cases hlt : p < rg.toks.length
      · obtain ⟨o, q, f1, f2, f3, f4⟩ := wn.posSurj rg p c.hrg hlt
        exact ⟨o, q, mem_append_left _ f1, (hsq o f1).trans f2, by rw [han, f3], f4⟩
      · exact ⟨_, _, mem_append_right _ (mem_singleton_self _), c.sqs_new, rfl, by simp only [fiSQ]; omega⟩

theorem toks_perm (c : FiCtx E s a n rg) :
    (allToks (fiNet s a n rg.num rg.toks.length)).Perm (allToks s ++ [s.nextTok]) := by
  obtain ⟨l1, l2, e, _, _, e'⟩ := c.regs'
  have := @perm_flatMap_set _ _ WFP.nodeToks n (fiNode s n rg.num) [s.nextTok] [] s.nodes a c.hn (by
    simp only [WFP.nodeToks, e', e, flatMap_append, flatMap_cons, fiReg, append_nil, append_assoc]
    refine Perm.append_left _ (Perm.append_left _ ?_)
    exact perm_append_comm)
  simpa [WFP.allToks_eq, fiNet] using this

theorem wfp' (c : FiCtx E s a n rg) : WFp none (fiNet s a n rg.num rg.toks.length) := by
  have w := c.w
  refine { nodes := ?_, backInj := ?_, backSurj := ?_, staleInactive := ?_, toksNodup := ?_, toksFresh := ?_ }
  · intro i m e
    rw [c.nodes'] at e
    by_cases hi : i = a
    · rw [if_pos hi] at e; cases e; subst hi
      exact NodeP.ofParts c.virtP_a c.simP_a
    · rw [if_neg hi] at e
      have wm := w.nodes i m e
      have : NodeP E (fiNet s a n rg.num rg.toks.length) i m := by
        apply wm.frame
        · intro h hh; exact c.vqs_old (wm.virt_lt hh)
        · intro o ho; exact c.sqs_old (wm.sim_lt ho)
        · intro h vq m' hh e1 e2 e3; exact c.live_mono e2 e3
      refine this.mono ?_
      intro r hr he hE
      exfalso
      rcases c.hE with h' | h' <;> rw [h'] at hE
      · cases hE
      · simp only [Option.some.injEq, Prod.mk.injEq] at hE
        exact hi hE.1.symm
  · intro h h' vq vq' hh hh' e e' eo
    rw [c.mem_held'] at hh hh'
    rcases hh with hh | rfl <;> rcases hh' with hh' | rfl
    · rw [c.vqs_old (w.held_lt hh)] at e; rw [c.vqs_old (w.held_lt hh')] at e'
      exact w.backInj h h' vq vq' hh hh' e e' eo
    · rw [c.vqs_old (w.held_lt hh)] at e
      rw [c.vqs_new] at e'; cases e'
      have := w.sim_lt (w.held_simObj hh e)
      simp only [fiVQ] at eo; omega
    · rw [c.vqs_old (w.held_lt hh')] at e'
      rw [c.vqs_new] at e; cases e
      have := w.sim_lt (w.held_simObj hh' e')
      simp only [fiVQ] at eo; omega
    · rfl
  · intro o ho
    rw [c.mem_sim'] at ho
    rcases ho with ho | rfl
    · obtain ⟨h, vq, e1, e2, e3⟩ := w.backSurj o ho
      exact ⟨h, vq, c.mem_held'.2 (Or.inl e1), (c.vqs_old (w.held_lt e1)).trans e2, e3⟩
    · exact ⟨s.vqs.length, _, c.mem_held'.2 (Or.inr rfl), c.vqs_new, rfl⟩
  · intro h vq e hh
    rw [c.mem_held'] at hh
    have hlt : h < s.vqs.length := by
      have := lt_length_of_getElem? e
      simp only [fiNet, length_append, length_cons, length_nil] at this
      omega
    rw [c.vqs_old hlt] at e
    exact w.staleInactive h vq e (fun hc => hh (Or.inl hc))
  · rw [c.toks_perm.nodup_iff, nodup_append]
    refine ⟨w.toksNodup, by simp, ?_⟩
    intro x hx y hy
    simp only [mem_singleton] at hy
    have := w.toksFresh x hx
    omega
  · intro t ht
    rw [c.toks_perm.mem_iff, mem_append, mem_singleton] at ht
    simp only [fiNet]
    rcases ht with ht | rfl
    · have := w.toksFresh t ht; omega
    · omega

end FiCtx

theorem wfp_addFreshIn {E} {s : Net} {a : Nat} {n : Node} {rg : Reg} (c : FiCtx E s a n rg) :
    WFp none (addFreshIn s a n rg.num rg.toks.length) := by
  rw [addFreshIn_eq _ _ c.hn]; exact c.wfp'

end SqVerif.VNetX

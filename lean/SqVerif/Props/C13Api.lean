import SqVerif.StabApiLemmas
import SqVerif.Props.C13Gauss
/-
C13 (API part) — the constructors, string forms, standard form and composite
gates of `simulaqron/toolbox/stabilizer_states.py` build, print and normalise
stabilizer states according to the group they denote.

Model: `SqVerif/StabApi.lean` (mirrors `__init__` 87-160, `_str_to_operator`
161-195, `_row_to_string` / `to_string` / `__str__` 216-242, `Pauli_phase_tracking`
244-260, the pivot columns of `boolean_gaussian_elimination`, `check_symplectic`,
`contains` 420-429, `_assert_valid_stabilizer`, `put_in_standard_form`,
`to_array`, `apply_sqrt_minIX`, `apply_sqrt_IZ`, `__mul__`).
Vocabulary: `StabSpec.lean` (`InGroup`, `SameGroup`, `Commuting`, `Valid`,
`ValidMax`), `Api.Comm rows` (pairwise commuting), `Api.Uniform data w` (all
rows of length `w`), `Api.rowsOfBits data` (the rows denoted by an `m x 2m` /
`m x (2m+1)` boolean matrix), `Api.SimpleGraph n es` (edge list of a simple
undirected graph on the nodes `0..n-1`, every edge once), `Api.graphCircuit`
(H on every qubit of `|0..0>`, then CZ on every edge), `Api.conjH`/`Api.conjCZ`
(conjugation by these layers, gate by gate, with the tables that
`C13Gates.lean` proves equal to matrix conjugation).

The graph constructor is modelled as FIXED (branch fix-graph-node-order): qubit
`i` is node `i`.  The unfixed code numbers the qubits by the order in which the
nodes were inserted into the networkx graph.

Two facts about the real string format are theorems here, not defects of the
gate algebra: `to_string` writes `"+1 XZ"` with a blank that `_str_to_operator`
refuses (`strToOperator_rowToString_none`), so the round trip through strings
needs the blank removed (`strToOperator_rowToString_dropBlanks`).
-/
namespace SqVerif.C13
open SqVerif.Stab SqVerif.Stab.Api

/-! ## `StabilizerState()`, `StabilizerState(n)`, `StabilizerState(other)` -/

/-- the 0-qubit state -/
theorem ofNone_validMax : ofNone.n = 0 ∧ ValidMax 0 ofNone.rows := ⟨rfl, empty_validMax⟩

/-- `StabilizerState(n)` is a stabilizer state on `n` qubits … -/
theorem ofInt_validMax (n : Nat) : (ofInt n).n = n ∧ ValidMax n (ofInt n).rows := ⟨rfl, ofInt_validMax' n⟩

/-- … whose `i`-th generator is `+Z_i` … -/
theorem ofInt_row_den (n i : Nat) (hi : i < n) : ((ofInt n).rows.getD i ⟨[], false⟩).den = zAt n i false := by
  simp [ofInt, List.getD_eq_getElem?_getD, hi, Row.den, zAt]

/-- … and whose group is exactly `<Z_1, …, Z_n>`: the `+1`-signed strings over {I, Z}, i.e. `|0…0>` -/
theorem ofInt_group (n : Nat) (p : POp) :
    InGroup n (ofInt n).rows p ↔ ∃ zs : List Bool, zs.length = n ∧ p ≈ₚ zString zs := ofInt_group' n p

/-- `StabilizerState(n)` is what `n` calls of `add_qubit` build from the empty state -/
theorem ofInt_succ_eq_addQubit (n : Nat) : ofInt (n + 1) = addQubit (ofInt n) := ofInt_succ n

/-- copying keeps number of qubits and generators -/
theorem ofState_eq (s : St) : ofState s = s := rfl

example : (ofInt 3).rows = [⟨[(false, true), (false, false), (false, false)], false⟩,
    ⟨[(false, false), (false, true), (false, false)], false⟩,
    ⟨[(false, false), (false, false), (false, true)], false⟩] := by decide
example : InGroup 3 (ofInt 3).rows ⟨0, [(false, true), (false, false), (false, true)]⟩ :=
  (ofInt_group 3 _).2 ⟨[true, false, true], rfl, eqv_refl _⟩

/-! ## strings: `_str_to_operator`, `_row_to_string` -/

/-- `"+1" ++ letters` / `"-1" ++ letters` is read as the signed Pauli string written -/
theorem strToOperator_signed (neg : Bool) (letters : List Char) (h : isPaulis letters = true) :
    strToOperator (String.ofList (signL neg ++ letters)) = some ⟨letters.map letterOf, neg⟩ := by
  rw [strToOperator, String.toList_ofList]; exact strToOperatorL_signed neg letters h

/-- letters without prefix are read with sign `+1` -/
theorem strToOperator_unsigned (letters : List Char) (h : isPaulis letters = true) :
    strToOperator (String.ofList letters) = some ⟨letters.map letterOf, false⟩ := by
  rw [strToOperator, String.toList_ofList]; exact strToOperatorL_unsigned letters h

/-- nothing else is accepted: a string that parses is an optional `+1` / `-1` followed by letters `IXYZ`, and
the row is the one written -/
theorem strToOperator_some (s : String) (r : Row) (h : strToOperator s = some r) :
    ∃ letters, isPaulis letters = true ∧ r = ⟨letters.map letterOf, r.neg⟩ ∧
      (s.toList = signL r.neg ++ letters ∨ (r.neg = false ∧ s.toList = letters)) :=
  strToOperatorL_some h

/-- the denotation of a parsed string: sign `(-1)^neg`, letter by letter `I, X, Y, Z` -/
theorem strToOperator_den (s : String) (r : Row) (h : strToOperator s = some r) :
    ∃ letters, isPaulis letters = true ∧ r.den = ⟨if r.neg then 2 else 0, letters.map letterOf⟩ := by
  obtain ⟨letters, hp, hr, _⟩ := strToOperator_some s r h
  refine ⟨letters, hp, ?_⟩
  rw [Row.den]
  congr 1
  rw [hr]

/-- what `to_string` emits for a row (`"+1 XZ"`: sign, a blank, letters) is REFUSED by `_str_to_operator`,
for every row -/
theorem strToOperator_rowToString_none (r : Row) : strToOperator (rowToString r) = none := by
  rw [strToOperator, rowToString, String.toList_ofList]; exact strToOperatorL_rowToStringL r

/-- with the blank removed the round trip is exact, for every row -/
theorem strToOperator_rowToString_dropBlanks (r : Row) :
    strToOperator (String.ofList (dropBlanks (rowToString r).toList)) = some r := by
  rw [strToOperator, rowToString, String.toList_ofList, String.toList_ofList]; exact strToOperatorL_dropBlanks r

/-- `_row_to_string` of a parsed string writes the sign out (`"XZ"` comes back as `"+1 XZ"`, `"-1XZ"` as `"-1 XZ"`) -/
theorem rowToString_normalises (s : String) (r : Row) (h : strToOperator s = some r) :
    dropBlanks (rowToString r).toList = if startsPM s.toList then s.toList else ['+', '1'] ++ s.toList := by
  rw [rowToString, String.toList_ofList]; exact rowToStringL_of_parsed h

example : strToOperator "-1XIZY" = some ⟨[(true, false), (false, false), (false, true), (true, true)], true⟩ := by decide
example : strToOperator "+1 XZ" = none := by decide
example : strToOperator "+XZ" = none := by decide
example : strToOperator "xz" = none := by decide
example : (rowToString ⟨[(true, false), (false, true)], true⟩).toList = "-1 XZ".toList := by decide

/-! ## boolean arrays (111-159) -/

theorem ofBoolRows_nil (check : Bool) : ofBoolRows [] check = .ok empty := rfl

/-- acceptance: the rows all have the same length, `2m` or `2m+1` for `m` rows, and — if `check_symplectic` —
commute pairwise; the state holds exactly the matrix given, an `m x 2m` matrix with a zero phase column appended -/
theorem ofBoolRows_ok_iff (data : List (List Bool)) (check : Bool) (s : St) (hne : data ≠ []) :
    ofBoolRows data check = .ok s ↔
      (Uniform data (2 * data.length) ∨ Uniform data (2 * data.length + 1)) ∧
      (check = true → Comm (rowsOfBits data)) ∧ s = ⟨data.length, rowsOfBits data⟩ := by
  match data, hne with
  | r0 :: rest, _ =>
    rw [ofBoolRows_cons]
    by_cases h1 : (r0 :: rest).any (fun r => r.length != r0.length) = true
    · rw [if_pos h1]
      have hnu : ∀ w, ¬ Uniform (r0 :: rest) w := by
        intro w hu
        have : Uniform (r0 :: rest) r0.length := fun r hr => (hu r hr).trans (hu r0 (by simp)).symm
        rw [← any_ne_false_iff] at this
        rw [this] at h1; cases h1
      constructor
      · intro h; cases h
      · rintro ⟨h | h, _⟩ <;> exact absurd h (hnu _)
    · rw [if_neg h1]
      have hu : Uniform (r0 :: rest) r0.length := (any_ne_false_iff _ _).1 (by simpa using h1)
      have hw : ∀ w, Uniform (r0 :: rest) w ↔ r0.length = w :=
        fun w => ⟨fun h => h r0 (by simp), fun h => h ▸ hu⟩
      simp only [hw, List.length_cons]
      by_cases h2 : 2 * (rest.length + 1) = r0.length
      · rw [if_pos h2, finish_ok_iff]
        have := rowsOfBits_2m (r0 :: rest) (by rw [List.length_cons, h2]; exact hu)
        simp only [List.length_cons] at this
        rw [this]
        constructor
        · rintro ⟨a, b⟩; exact ⟨Or.inl h2.symm, a, b⟩
        · rintro ⟨_, a, b⟩; exact ⟨a, b⟩
      · rw [if_neg h2]
        by_cases h3 : 2 * (rest.length + 1) + 1 = r0.length
        · rw [if_pos h3, finish_ok_iff]
          have := rowsOfBits_2m1 (r0 :: rest) (by rw [List.length_cons, h3]; exact hu)
          simp only [List.length_cons] at this
          rw [this]
          constructor
          · rintro ⟨a, b⟩; exact ⟨Or.inr h3.symm, a, b⟩
          · rintro ⟨_, a, b⟩; exact ⟨a, b⟩
        · rw [if_neg h3]
          constructor
          · intro h; cases h
          · rintro ⟨h | h, _⟩
            · exact absurd h.symm h2
            · exact absurd h.symm h3

/-- every refusal is one of the three `ValueError`s of lines 133, 148, 159, and each is raised exactly when:
rows of unequal length … -/
theorem ofBoolRows_ragged_iff (data : List (List Bool)) (check : Bool) :
    ofBoolRows data check = .error .ragged ↔ data ≠ [] ∧ ¬ ∃ w, Uniform data w := by
  match data with
  | [] => simp [ofBoolRows]
  | r0 :: rest =>
    rw [ofBoolRows_cons]
    by_cases h1 : (r0 :: rest).any (fun r => r.length != r0.length) = true
    · rw [if_pos h1]
      refine ⟨fun _ => ⟨by simp, ?_⟩, fun _ => rfl⟩
      rintro ⟨w, hu⟩
      have : Uniform (r0 :: rest) r0.length := fun r hr => (hu r hr).trans (hu r0 (by simp)).symm
      rw [← any_ne_false_iff] at this
      rw [this] at h1; cases h1
    · rw [if_neg h1]
      have hu : Uniform (r0 :: rest) r0.length := (any_ne_false_iff _ _).1 (by simpa using h1)
      constructor
      · intro h
        split at h
        · rw [finish_error_iff] at h; cases h.1
        · split at h
          · rw [finish_error_iff] at h; cases h.1
          · cases h
      · rintro ⟨_, h⟩; exact absurd ⟨_, hu⟩ h

/-- … a homogeneous matrix that is neither `m x 2m` nor `m x (2m+1)` … -/
theorem ofBoolRows_width_iff (data : List (List Bool)) (check : Bool) :
    ofBoolRows data check = .error .width ↔
      data ≠ [] ∧ ∃ w, Uniform data w ∧ w ≠ 2 * data.length ∧ w ≠ 2 * data.length + 1 := by
  match data with
  | [] => simp [ofBoolRows]
  | r0 :: rest =>
    rw [ofBoolRows_cons]
    by_cases h1 : (r0 :: rest).any (fun r => r.length != r0.length) = true
    · rw [if_pos h1]
      constructor
      · intro h; cases h
      · rintro ⟨_, w, hu, _⟩
        have : Uniform (r0 :: rest) r0.length := fun r hr => (hu r hr).trans (hu r0 (by simp)).symm
        rw [← any_ne_false_iff] at this
        rw [this] at h1; cases h1
    · rw [if_neg h1]
      have hu : Uniform (r0 :: rest) r0.length := (any_ne_false_iff _ _).1 (by simpa using h1)
      simp only [List.length_cons]
      constructor
      · intro h
        split at h
        · rw [finish_error_iff] at h; cases h.1
        · next h2 =>
          split at h
          · rw [finish_error_iff] at h; cases h.1
          · next h3 => exact ⟨by simp, r0.length, hu, fun e => h2 e.symm, fun e => h3 e.symm⟩
      · rintro ⟨_, w, hw, a, b⟩
        have e : r0.length = w := hw r0 (by simp)
        rw [if_neg (by omega), if_neg (by omega)]

/-- … `check_symplectic=True` and two of the generators given do not commute.  Together with `ofBoolRows_ok_iff`:
`check_symplectic` refuses exactly the non-commuting generator sets. -/
theorem ofBoolRows_notCommuting_iff (data : List (List Bool)) (check : Bool) :
    ofBoolRows data check = .error .notCommuting ↔
      data ≠ [] ∧ (Uniform data (2 * data.length) ∨ Uniform data (2 * data.length + 1)) ∧
      check = true ∧ ¬ Comm (rowsOfBits data) := by
  match data with
  | [] => simp [ofBoolRows]
  | r0 :: rest =>
    rw [ofBoolRows_cons]
    by_cases h1 : (r0 :: rest).any (fun r => r.length != r0.length) = true
    · rw [if_pos h1]
      have hnu : ∀ w, ¬ Uniform (r0 :: rest) w := by
        intro w hu
        have : Uniform (r0 :: rest) r0.length := fun r hr => (hu r hr).trans (hu r0 (by simp)).symm
        rw [← any_ne_false_iff] at this
        rw [this] at h1; cases h1
      constructor
      · intro h; cases h
      · rintro ⟨_, h | h, _⟩ <;> exact absurd h (hnu _)
    · rw [if_neg h1]
      have hu : Uniform (r0 :: rest) r0.length := (any_ne_false_iff _ _).1 (by simpa using h1)
      have hw : ∀ w, Uniform (r0 :: rest) w ↔ r0.length = w :=
        fun w => ⟨fun h => h r0 (by simp), fun h => h ▸ hu⟩
      simp only [hw, List.length_cons]
      by_cases h2 : 2 * (rest.length + 1) = r0.length
      · rw [if_pos h2, finish_error_iff]
        have := rowsOfBits_2m (r0 :: rest) (by rw [List.length_cons, h2]; exact hu)
        simp only [List.length_cons] at this
        rw [this]
        constructor
        · rintro ⟨_, a, b⟩; exact ⟨by simp, Or.inl h2.symm, a, b⟩
        · rintro ⟨_, _, a, b⟩; exact ⟨rfl, a, b⟩
      · rw [if_neg h2]
        by_cases h3 : 2 * (rest.length + 1) + 1 = r0.length
        · rw [if_pos h3, finish_error_iff]
          have := rowsOfBits_2m1 (r0 :: rest) (by rw [List.length_cons, h3]; exact hu)
          simp only [List.length_cons] at this
          rw [this]
          constructor
          · rintro ⟨_, a, b⟩; exact ⟨by simp, Or.inr h3.symm, a, b⟩
          · rintro ⟨_, _, a, b⟩; exact ⟨rfl, a, b⟩
        · rw [if_neg h3]
          constructor
          · intro h; cases h
          · rintro ⟨_, h | h, _⟩
            · exact absurd h.symm h2
            · exact absurd h.symm h3

/-- a state accepted with `check_symplectic=True` has `m` rows of `m` letters that commute pairwise -/
theorem ofBoolRows_checked_commuting (data : List (List Bool)) (s : St) (h : ofBoolRows data true = .ok s) :
    s.rows.length = s.n ∧ Commuting s.n s.rows := by
  by_cases hne : data = []
  · subst hne
    cases h
    exact ⟨rfl, empty_validMax.toCommuting⟩
  · obtain ⟨_, hc, rfl⟩ := (ofBoolRows_ok_iff data true s hne).1 h
    refine ⟨by simp [rowsOfBits], ?_, hc rfl⟩
    intro r hr
    simp only [rowsOfBits, List.mem_map] at hr
    obtain ⟨_, _, rfl⟩ := hr
    simp [unflat]

/-- rank-1 data (`[0, 1]`) and data nested three deep are refused; only the empty list is the 0-qubit state -/
theorem ofBoolFlat_refused (data : List Bool) (hne : data ≠ []) : ofBoolFlat data = .error .rank := by
  cases data with
  | nil => exact absurd rfl hne
  | cons a as => rfl

theorem ofBoolCube_refused (data : List (List (List Bool))) (hne : data ≠ []) : ∃ e, ofBoolCube data = .error e := by
  match data, hne with
  | [] :: rest, _ =>
    simp only [ofBoolCube]
    split <;> exact ⟨_, rfl⟩
  | (v0 :: vs) :: rest, _ =>
    simp only [ofBoolCube]
    split
    · exact ⟨_, rfl⟩
    · split <;> exact ⟨_, rfl⟩

example : ofBoolRows [[false, true]] true = .ok zero1 := by decide
example : ofBoolRows [[false, true, true]] true = .ok ⟨1, [⟨[(false, true)], true⟩]⟩ := by decide
example : ofBoolRows [[true, false, false, false], [false, false, true, false]] true = .error .notCommuting := by decide
example : ∃ s, ofBoolRows [[true, false, false, false], [false, false, true, false]] false = .ok s := ⟨_, rfl⟩
example : ofBoolRows [[false, true], [true]] true = .error .ragged := by decide
example : ofBoolRows [[false, true, true, true]] true = .error .width := by decide

/-! ## lists of strings (118-128) -/

/-- acceptance: every string parses, each has exactly `n` letters for `n` strings (so each string has length `n`,
or `n + 2` with a sign prefix) and — if `check_symplectic` — the operators commute; the state holds exactly the
parsed rows, in order -/
theorem ofStrings_ok_iff (data : List String) (check : Bool) (s : St) (hne : data ≠ []) :
    ofStrings data check = .ok s ↔
      ∃ rows, data.map strToOperator = rows.map some ∧ (∀ r, r ∈ rows → r.ps.length = data.length) ∧
        (check = true → Comm rows) ∧ s = ⟨data.length, rows⟩ := by
  unfold ofStrings
  cases hm : data.mapM strToOperator with
  | none =>
    constructor
    · intro h; cases h
    · rintro ⟨rows, hr, _⟩
      rw [(mapM_some_iff _ _ _).2 hr] at hm; cases hm
  | some rows =>
    have hmap := (mapM_some_iff _ _ _).1 hm
    have hlen : rows.length = data.length := by
      have := congrArg List.length hmap; simpa using this.symm
    have hne' : rows.map Row.flat ≠ [] := by
      intro e
      have : rows.length = 0 := by simpa using congrArg List.length e
      rw [hlen] at this
      exact hne (List.eq_nil_of_length_eq_zero this)
    show ofBoolRows (rows.map Row.flat) check = .ok s ↔ _
    rw [ofBoolRows_ok_iff _ _ _ hne']
    simp only [List.length_map, hlen]
    have huni : (Uniform (rows.map Row.flat) (2 * data.length) ∨ Uniform (rows.map Row.flat) (2 * data.length + 1)) ↔
        ∀ r, r ∈ rows → r.ps.length = data.length := by
      constructor
      · rintro (h | h)
        · obtain ⟨r, hr⟩ := List.exists_mem_of_ne_nil rows (fun (e : rows = []) => hne' (by rw [e]; rfl))
          have := h r.flat (List.mem_map.2 ⟨r, hr, rfl⟩)
          rw [flat_length] at this; omega
        · intro r hr
          have := h r.flat (List.mem_map.2 ⟨r, hr, rfl⟩)
          rw [flat_length] at this; omega
      · intro h
        right
        intro b hb
        obtain ⟨r, hr, rfl⟩ := List.mem_map.1 hb
        rw [flat_length, h r hr]
    have hrows : (∀ r, r ∈ rows → r.ps.length = data.length) → rowsOfBits (rows.map Row.flat) = rows := by
      intro h
      simp only [rowsOfBits, List.map_map, List.length_map, hlen]
      conv => rhs; rw [← List.map_id rows]
      apply List.map_congr_left
      intro r hr
      simp only [Function.comp, id]
      rw [if_neg (by rw [flat_length]; omega), ← h r hr, unflat_flat]
    constructor
    · rintro ⟨hu, hc, hs⟩
      have hl := huni.1 hu
      rw [hrows hl] at hc hs
      exact ⟨rows, hmap, hl, hc, hs⟩
    · rintro ⟨rows', hr', hl, hc, hs⟩
      have : rows' = rows := by
        exact (map_some_inj _ _ (hmap.symm.trans hr')).symm
      subst this
      rw [hrows hl]
      exact ⟨huni.2 hl, hc, hs⟩

/-- so every string of an accepted list of `n` strings has length `n`, or `n + 2` (with its sign prefix), as the
error message of line 125 says -/
theorem ofStrings_lengths (data : List String) (check : Bool) (s : St) (hne : data ≠ [])
    (h : ofStrings data check = .ok s) (str : String) (hs : str ∈ data) :
    str.toList.length = data.length ∨ str.toList.length = data.length + 2 := by
  obtain ⟨rows, hmap, hl, _, _⟩ := (ofStrings_ok_iff data check s hne).1 h
  have hmem : strToOperator str ∈ rows.map some := hmap ▸ List.mem_map.2 ⟨str, hs, rfl⟩
  obtain ⟨r, hr, e⟩ := List.mem_map.1 hmem
  obtain ⟨letters, _, hrow, hcs⟩ := strToOperator_some str r e.symm
  have hlen : letters.length = data.length := by
    have := hl r hr
    rw [hrow] at this
    simpa using this
  rcases hcs with e1 | ⟨_, e1⟩
  · right
    rw [e1, List.length_append, hlen]
    cases r.neg <;> simp [signL] <;> omega
  · left
    rw [e1, hlen]

/-- the refusal of line 125 is raised exactly when one of the strings does not parse -/
theorem ofStrings_parse_error_iff (data : List String) (check : Bool) :
    ofStrings data check = .error .parse ↔ ∃ str, str ∈ data ∧ strToOperator str = none := by
  unfold ofStrings
  cases hm : data.mapM strToOperator with
  | none => exact ⟨fun _ => (mapM_none_iff _ _).1 hm, fun _ => rfl⟩
  | some rows =>
    constructor
    · intro h
      show (∃ str, str ∈ data ∧ strToOperator str = none)
      have h' : ofBoolRows (rows.map Row.flat) check = .error .parse := h
      exfalso
      cases hd : rows.map Row.flat with
      | nil => rw [hd] at h'; cases h'
      | cons r0 rest =>
        rw [hd, ofBoolRows_cons] at h'
        split at h'
        · cases h'
        · split at h'
          · rw [finish_error_iff] at h'; cases h'.1
          · split at h'
            · rw [finish_error_iff] at h'; cases h'.1
            · cases h'
    · intro h
      have := (mapM_none_iff _ _).2 h
      rw [hm] at this; cases this

/-- the empty list of strings is the 0-qubit state -/
theorem ofStrings_nil (check : Bool) : ofStrings [] check = .ok empty := rfl

/-- Bell pair from strings -/
example : ofStrings ["XX", "ZZ"] true = .ok gtBell := by decide
example : ofStrings ["+1XX", "-1ZZ"] true = .ok gxBellMinus := by decide
/-- strings of unequal length, a wrong number of letters, a bad letter, non-commuting operators -/
example : ofStrings ["X", "ZZ"] true = .error .ragged := by decide
example : ofStrings ["XXX", "ZZZ"] true = .error .width := by decide
example : ofStrings ["XX", "Zz"] true = .error .parse := by decide
example : ofStrings ["XI", "ZI"] true = .error .notCommuting := by decide
example : ∃ s, ofStrings ["XI", "ZI"] false = .ok s := ⟨_, rfl⟩

/-! ## graphs (102-110, as fixed) -/

/-- generator `i` is `X_i ∏_{j ~ i} Z_j` with sign `+` -/
theorem ofGraph_rows (n : Nat) (es : List (Nat × Nat)) (i j : Nat) (hj : j < n) :
    (graphRow n es i).x j = (i == j) ∧ (graphRow n es i).z j = adj es i j ∧ (graphRow n es i).neg = false :=
  ⟨graphRow_x n es i j hj, graphRow_z n es i j hj, rfl⟩

/-- the state built for a simple undirected graph is LITERALLY the output of the preparation circuit:
H on every qubit of `|0…0>`, then CZ on every edge -/
theorem ofGraph_eq_circuit (n : Nat) (es : List (Nat × Nat)) (h : SimpleGraph n es) :
    graphCircuit n es = some (ofGraph n es) := graphCircuit_eq n es h

theorem ofGraph_gateBuilt (n : Nat) (es : List (Nat × Nat)) (h : SimpleGraph n es) : GateBuilt (ofGraph n es) :=
  ofGraph_gateBuilt' n es h

/-- hence a stabilizer state: `n` independent commuting generators, maximal -/
theorem ofGraph_validMax (n : Nat) (es : List (Nat × Nat)) (h : SimpleGraph n es) :
    (ofGraph n es).n = n ∧ ValidMax n (ofGraph n es).rows :=
  ⟨rfl, gateBuilt_validMax _ (ofGraph_gateBuilt n es h)⟩

theorem ofGraph_valid (n : Nat) (es : List (Nat × Nat)) (h : SimpleGraph n es) : Valid n (ofGraph n es).rows :=
  (ofGraph_validMax n es h).2.toValid

/-- its group is `<Z_1..Z_n>` conjugated by the circuit unitary (H layer, then the CZs in order) -/
theorem ofGraph_group (n : Nat) (es : List (Nat × Nat)) (h : SimpleGraph n es) (p : POp) :
    InGroup n (ofGraph n es).rows p ↔
      ∃ q, InGroup n (ofInt n).rows q ∧ p ≈ₚ conjCZ es (conjH (List.range n) q) := ofGraph_group' n es h p

/-- the 5-cycle -/
def c5 : List (Nat × Nat) := [(0, 1), (1, 2), (2, 3), (3, 4), (4, 0)]
example : SimpleGraph 5 c5 := by decide
example : ValidMax 5 (ofGraph 5 c5).rows := (ofGraph_validMax 5 c5 (by decide)).2
example : toStrings (ofGraph 5 c5) = ["+1 XZIIZ", "+1 ZXZII", "+1 IZXZI", "+1 IIZXZ", "+1 ZIIZX"] := by decide
example : graphCircuit 5 c5 = some (ofGraph 5 c5) := ofGraph_eq_circuit 5 c5 (by decide)
/-- not simple: a self-loop, an edge listed twice, an end point out of range -/
example : ¬ SimpleGraph 3 [(0, 0)] := by decide
example : ¬ SimpleGraph 3 [(0, 1), (1, 0)] := by decide
example : ¬ SimpleGraph 3 [(0, 3)] := by decide

/-! ## `put_in_standard_form`, `to_array`, pivot columns -/

/-- the standard form generates the same group -/
theorem putInStandardForm_sameGroup (s : St) (hc : Commuting s.n s.rows) :
    SameGroup s.n (putInStandardForm s).rows s.rows := gauss_sameGroup s.n s.rows hc

theorem putInStandardForm_validMax (s : St) (hv : ValidMax s.n s.rows) :
    (putInStandardForm s).n = s.n ∧ ValidMax s.n (putInStandardForm s).rows := ⟨rfl, gauss_validMax s.n s.rows hv⟩

/-- it is in reduced row echelon form over all `2n+1` columns, the sign column included -/
theorem putInStandardForm_reduced (s : St) (hw : ∀ r, r ∈ s.rows → r.ps.length = s.n) :
    Reduced s.n (putInStandardForm s).rows := gauss_reduced s.n s.rows hw

/-- idempotent -/
theorem putInStandardForm_idem (s : St) (hv : Valid s.n s.rows) :
    putInStandardForm (putInStandardForm s) = putInStandardForm s := by
  simp only [putInStandardForm]
  rw [gauss_idem s.n s.rows hv]

/-- it depends on the group only: two generator lists of the same group have the same standard form -/
theorem putInStandardForm_canonical (a b : St) (hn : a.n = b.n) (ha : Valid a.n a.rows) (hb : Valid b.n b.rows)
    (hs : SameGroup a.n a.rows b.rows) : putInStandardForm a = putInStandardForm b := by
  rcases a with ⟨an, ar⟩; rcases b with ⟨bn, br⟩
  simp only at hn; subst hn
  simp only [putInStandardForm]
  rw [gauss_canonical an ar br ha hb hs]

/-- a state in standard form still compares equal to the original -/
theorem putInStandardForm_stEq (s : St) (hv : Valid s.n s.rows) : stEq (putInStandardForm s) s = true :=
  (Gauss.stEq_iff _ _).2 ⟨rfl, gauss_idem s.n s.rows hv⟩

/-- `to_array()` is the matrix stored; `return_pivot_columns` alone changes nothing -/
theorem toArray_plain (s : St) (rp : Bool) : toArray s false rp = .arr s.rows := rfl

/-- `to_array(standard_form=True)` is the matrix `put_in_standard_form` would store, the state is not changed -/
theorem toArray_standardForm (s : St) : toArray s true false = .arr (putInStandardForm s).rows := rfl

theorem toArray_pivots (s : St) :
    toArray s true true = .arrPiv (putInStandardForm s).rows (pivotColumns s.n s.rows) := by
  simp only [toArray, putInStandardForm, pivotColumns, gaussP_fst]
  rfl

/-- the pivot columns returned are the pivot columns of the standard form: strictly increasing; row `i` has
its leading 1 in column `piv[i]` and no other row has a 1 there; the rows beyond the pivots are zero -/
theorem pivotColumns_spec (w : Nat) (rows : List Row) (hw : ∀ r, r ∈ rows → r.ps.length = w) :
    RedAt w (gauss w rows) (pivotColumns w rows).length (fun i => (pivotColumns w rows).getD i 0) :=
  pivotColumns_redAt w rows hw

/-- a stabilizer state on `n` qubits has `n` pivot columns, all among the `2n` letter columns -/
theorem pivotColumns_full (n : Nat) (rows : List Row) (hv : Valid n rows) :
    (pivotColumns n rows).length = n ∧ ∀ i, i < n → (pivotColumns n rows).getD i 0 < 2 * n := by
  have hl := pivotColumns_length n rows hv
  refine ⟨hl, fun i hi => ?_⟩
  have R := pivotColumns_redAt n rows hv.width
  exact (Gauss.valid_reduced_full (gauss_valid n rows hv) R).2 i (by rw [hl]; exact hi)

example : toArray gxBell' true true = .arrPiv [gxXX, gxZZ] [0, 2] := by decide
example : pivotColumns 2 [gxZZ, gxXX] = [0, 2] := by decide
example : putInStandardForm gxBell' = gxBell :=
  putInStandardForm_canonical gxBell' gxBell rfl
    (Gauss.valid_of_two (gxYY true) gxZZ rfl rfl (by decide) (by decide) (by decide) (by decide))
    (Gauss.valid_of_two gxXX gxZZ rfl rfl (by decide) (by decide) (by decide) (by decide))
    (stEq_sound gxBell' gxBell
      (Gauss.valid_of_two (gxYY true) gxZZ rfl rfl (by decide) (by decide) (by decide) (by decide))
      (Gauss.valid_of_two gxXX gxZZ rfl rfl (by decide) (by decide) (by decide) (by decide)) (by decide)).2
    ▸ (by decide : putInStandardForm gxBell = gxBell)

/-! ## `apply_sqrt_minIX` (K then Z), `apply_sqrt_IZ` (Z then S) -/

/-- refused exactly for an invalid position (and then nothing is changed: the result is `none`) -/
theorem sqrtMinIX_refused_iff (j : Nat) (s : St) : sqrtMinIX j s = none ↔ ¬ j < s.n := seq1_none_iff .K .Z j s
theorem sqrtIZ_refused_iff (j : Nat) (s : St) : sqrtIZ j s = none ↔ ¬ j < s.n := seq1_none_iff .Z .S j s

/-- the resulting group is exactly the group conjugated by K, then by Z -/
theorem sqrtMinIX_group (n j : Nat) (s s' : St) (hc : Commuting n s.rows) (hn : s.n = n)
    (h : sqrtMinIX j s = some s') (p : POp) :
    InGroup n s'.rows p ↔ ∃ q, InGroup n s.rows q ∧ p ≈ₚ conjAt1 .Z j (conjAt1 .K j q) :=
  seq1_group .K .Z n j s s' hc hn h p

/-- the resulting group is exactly the group conjugated by Z, then by S -/
theorem sqrtIZ_group (n j : Nat) (s s' : St) (hc : Commuting n s.rows) (hn : s.n = n)
    (h : sqrtIZ j s = some s') (p : POp) :
    InGroup n s'.rows p ↔ ∃ q, InGroup n s.rows q ∧ p ≈ₚ conjAt1 .S j (conjAt1 .Z j q) :=
  seq1_group .Z .S n j s s' hc hn h p

theorem sqrtMinIX_validMax (j : Nat) (s s' : St) (hv : ValidMax s.n s.rows) (h : sqrtMinIX j s = some s') :
    s'.n = s.n ∧ ValidMax s'.n s'.rows := seq1_validMax .K .Z j s s' hv h

theorem sqrtIZ_validMax (j : Nat) (s s' : St) (hv : ValidMax s.n s.rows) (h : sqrtIZ j s = some s') :
    s'.n = s.n ∧ ValidMax s'.n s'.rows := seq1_validMax .Z .S j s s' hv h

/-- the two conjugations act on letter `j` by the composed table `conj1Seq` -/
theorem sqrt_letter_table (g1 g2 : Gate1) (j : Nat) (q : POp) (hj : j < q.ps.length) :
    conjAt1 g2 j (conjAt1 g1 j q) =
      ⟨q.ph + (conj1Seq g1 g2 (getP q.ps j)).1, setP q.ps j (conj1Seq g1 g2 (getP q.ps j)).2⟩ :=
  conjAt1_seq g1 g2 j q hj

/-- K then Z is the unitary `Z·K`, and `√2·Z·K = I − iX = √2·exp(−iπ/4·X)` … -/
theorem sqrtMinIX_matrix : Mat.mmul 2 (Mat.gate1Mx .Z) (Mat.gate1Mx .K) = Mat.sqrtMinIXMx := Mat.sqrtMinIXMx_eq
/-- … whose square is `−2i·X`: the gate is a square root of `−iX`, as its name says -/
theorem sqrtMinIX_matrix_sq :
    Mat.mmul 2 Mat.sqrtMinIXMx Mat.sqrtMinIXMx = Mat.smul ⟨0, -2⟩ (Mat.pauli (true, false)) := Mat.sqrtMinIXMx_sq
/-- the composed table IS conjugation by that matrix (`M P M† = 2·i^ph·P'`): X ↦ X, Y ↦ Z, Z ↦ −Y -/
theorem sqrtMinIX_is_matrix_conjugation (a : P1) :
    Mat.conjBy 2 Mat.sqrtMinIXMx (Mat.pauli a) =
      Mat.smul (Mat.GI.ofInt 2) (Mat.smul (Mat.GI.ipow (conj1Seq .K .Z a).1) (Mat.pauli (conj1Seq .K .Z a).2)) :=
  Mat.sqrtMinIX_is_matrix_conjugation a

/-- Z then S is the unitary `S·Z = diag(1, −i)`, and `(1+i)·S·Z = I + iZ = √2·exp(iπ/4·Z)` … -/
theorem sqrtIZ_matrix :
    Mat.smul ⟨1, 1⟩ (Mat.mmul 2 (Mat.gate1Mx .S) (Mat.gate1Mx .Z)) = Mat.sqrtIZMx := Mat.sqrtIZMx_eq
/-- … whose square is `2i·Z`: up to the global phase the gate is a square root of `iZ` -/
theorem sqrtIZ_matrix_sq :
    Mat.mmul 2 Mat.sqrtIZMx Mat.sqrtIZMx = Mat.smul ⟨0, 2⟩ (Mat.pauli (false, true)) := Mat.sqrtIZMx_sq
/-- the composed table IS conjugation by that matrix: X ↦ −Y, Y ↦ X, Z ↦ Z -/
theorem sqrtIZ_is_matrix_conjugation (a : P1) :
    Mat.conjBy 2 Mat.sqrtIZMx (Mat.pauli a) =
      Mat.smul (Mat.GI.ofInt 2) (Mat.smul (Mat.GI.ipow (conj1Seq .Z .S a).1) (Mat.pauli (conj1Seq .Z .S a).2)) :=
  Mat.sqrtIZ_is_matrix_conjugation a

example : (conj1Seq .K .Z (true, false)).1 % 4 = 0 ∧ (conj1Seq .K .Z (true, false)).2 = (true, false) := by decide
example : conj1Seq .K .Z (true, true) = (0, (false, true)) := rfl       -- Y ↦ Z
example : conj1Seq .K .Z (false, true) = (2, (true, true)) := rfl       -- Z ↦ −Y
example : conj1Seq .Z .S (true, false) = (2, (true, true)) := rfl       -- X ↦ −Y
example : (conj1Seq .Z .S (true, true)).1 % 4 = 0 ∧ (conj1Seq .Z .S (true, true)).2 = (true, false) := by decide
example : ∃ s', sqrtMinIX 1 asym = some s' ∧ ValidMax 3 s'.rows ∧
    ∀ p, InGroup 3 s'.rows p ↔ ∃ q, InGroup 3 asym.rows q ∧ p ≈ₚ conjAt1 .Z 1 (conjAt1 .K 1 q) := by
  refine ⟨_, rfl, ?_, ?_⟩
  · exact (sqrtMinIX_validMax 1 asym _ asym_validMax rfl).2
  · exact sqrtMinIX_group 3 1 asym _ asym_valid.toCommuting rfl rfl
example : sqrtIZ 3 asym = none := (sqrtIZ_refused_iff 3 asym).2 (by decide)

/-! ## `Pauli_phase_tracking` -/

/-- `Pauli_phase_tracking(old, applied)` is the exponent of `i` in the product `applied · old`: the table
`iexp` of `Pauli.lean` (1 for XY, YZ, ZX, 3 for YX, ZY, XZ read as applied·old, 0 otherwise) -/
theorem pauliPhaseTracking_spec (old applied : P1) : pauliPhaseTracking old applied = iexp applied old :=
  pauliPhaseTracking_eq_iexp old applied

/-- hence, as matrices, `applied · old = i^k · (applied·old as a letter)` with `k` the value returned -/
theorem pauliPhaseTracking_is_matrix_product (old applied : P1) :
    Mat.mmul 2 (Mat.pauli applied) (Mat.pauli old) =
      Mat.smul (Mat.GI.ipow (pauliPhaseTracking old applied)) (Mat.pauli (mul1 applied old)) := by
  rw [pauliPhaseTracking_spec]; exact Mat.iexp_is_matrix_product applied old

example : pauliPhaseTracking (true, false) (true, true) = 3 := rfl     -- old X, applied Y: Y·X = −iZ

/-! ## `check_symplectic`, `*`, the arguments of `contains` -/

/-- `check_symplectic()` answers whether the generators commute pairwise -/
theorem checkSymplectic_iff (s : St) : checkSymplectic s = true ↔ Comm s.rows := Gauss.isSymplectic_iff s.rows

/-- `a * b` is `a.tensor_product(b)`: the product group, `a`'s qubits first (`tensor_group`, `tensor_validMax`) -/
theorem mulSt_eq_tensor (a b : St) : mulSt a b = tensor a b := rfl

theorem mulSt_validMax (a b : St) (hva : ValidMax a.n a.rows) (hvb : ValidMax b.n b.rows) :
    (mulSt a b).n = a.n + b.n ∧ ValidMax (a.n + b.n) (mulSt a b).rows := tensor_validMax a b hva hvb

/-- `_assert_valid_stabilizer` accepts exactly lists of `bool`s of the given length -/
theorem assertValidStabilizer_ok_iff (stab : List (Option Bool)) (k : Nat) :
    assertValidStabilizer stab k = .ok () ↔ (∀ b, b ∈ stab → b ≠ none) ∧ stab.length = k := by
  unfold assertValidStabilizer
  by_cases h1 : stab.any Option.isNone = true
  · rw [if_pos h1]
    simp only [List.any_eq_true, Option.isNone_iff_eq_none] at h1
    obtain ⟨b, hb, e⟩ := h1
    exact ⟨fun h => (by cases h), fun h => absurd e (h.1 b hb)⟩
  · rw [if_neg h1]
    have h1' : ∀ b, b ∈ stab → b ≠ none := by
      intro b hb e
      apply h1
      simp only [List.any_eq_true, Option.isNone_iff_eq_none]
      exact ⟨b, hb, e⟩
    by_cases h2 : stab.length = k
    · rw [if_neg (by simp [h2])]
      exact ⟨fun _ => ⟨h1', h2⟩, fun _ => rfl⟩
    · have : (stab.length != k) = true := by simpa using h2
      rw [if_pos this]
      exact ⟨fun h => (by cases h), fun h => absurd h.2 h2⟩

/-- `contains(str)`: a string that does not parse is refused (423) … -/
theorem containsStr_refuses_unparsable (s : St) (str : String) (h : strToOperator str = none) :
    containsStr s str = .error .containsParse := by
  unfold containsStr; rw [h]

/-- … a string with the wrong number of letters is refused (456) … -/
theorem containsStr_refuses_wrong_length (s : St) (str : String) (r : Row) (h : strToOperator str = some r)
    (hl : r.ps.length ≠ s.n) : containsStr s str = .error .stabLen := by
  unfold containsStr; rw [h]; exact containsBits_flat_wrongLen s r hl

/-- … and every other string is answered according to the group: `True` iff the signed operator written is an
element, whatever generators are stored -/
theorem containsStr_spec (s : St) (str : String) (r : Row) (hv : Valid s.n s.rows) (h : strToOperator str = some r)
    (hl : r.ps.length = s.n) :
    ∃ b, containsStr s str = .ok b ∧ (b = true ↔ InGroup s.n s.rows r.den) := by
  refine ⟨contains s.n s.rows r, ?_, ?_⟩
  · unfold containsStr; rw [h]; exact containsBits_flat s r hl
  · exact ⟨contains_sound s.n s.rows r hv hl, contains_complete s.n s.rows r hv hl⟩

example : containsStr gxBell "-1YY" = .ok true := by decide
example : containsStr gxBell "YY" = .ok false := by decide
example : containsStr gxBell "YYY" = .error .stabLen := by decide
example : containsStr gxBell "-YY" = .error .containsParse := by decide
example : containsBits gxBell [some true, some true, some true, some true] = .ok false := by decide
example : containsBits gxBell [some true, none, some true, some true] = .error .notBool := by decide

end SqVerif.C13

"""state-vector simulator of the stand-in, written after ProjectQ's `_pysim.py`
(map id -> bit position, new qubit = highest bit, joint sampling in measure)."""
import random

import numpy as _np


class Simulator:
    def __init__(self, rnd_seed=None, *args, **kwargs):
        if rnd_seed is not None:
            random.seed(rnd_seed)
        self._state = _np.ones(1, dtype=_np.complex128)
        self._map = dict()
        self._num_qubits = 0

    def cheat(self):
        return (dict(self._map), _np.array(self._state))

    def allocate_qubit(self, ID):
        self._map[ID] = self._num_qubits
        self._num_qubits += 1
        newstate = _np.zeros(1 << self._num_qubits, dtype=_np.complex128)
        newstate[:len(self._state)] = self._state
        self._state = newstate

    def get_classical_value(self, ID, tol=1.e-10):
        pos = self._map[ID]
        bit = (_np.arange(len(self._state)) >> pos) & 1
        down = bool(_np.any(_np.abs(self._state[bit == 0]) > tol))
        up = bool(_np.any(_np.abs(self._state[bit == 1]) > tol))
        if up and down:
            raise RuntimeError("Qubit has not been measured / uncomputed. Cannot access its classical value and/or "
                               "deallocate a qubit in superposition!")
        return up

    def deallocate_qubit(self, ID):
        pos = self._map[ID]
        cv = self.get_classical_value(ID)
        idx = _np.arange(len(self._state))
        self._state = _np.array(self._state[((idx >> pos) & 1) == int(cv)])
        newmap = dict()
        for key, value in self._map.items():
            if value > pos:
                newmap[key] = value - 1
            elif key != ID:
                newmap[key] = value
        self._map = newmap
        self._num_qubits -= 1

    def apply_controlled_gate(self, m, ids, ctrlids):
        m = _np.asarray(m, dtype=_np.complex128)
        k = len(ids)
        if m.shape != (1 << k, 1 << k):
            raise RuntimeError("gate matrix of shape %r applied to %d qubits" % (m.shape, k))
        pos = [self._map[i] for i in ids]
        cpos = [self._map[i] for i in ctrlids]
        if len(set(pos + cpos)) != len(pos) + len(cpos):
            raise RuntimeError("a gate was applied with repeated qubits")
        idx = _np.arange(len(self._state))
        cmask = _np.ones(len(idx), dtype=bool)
        for c in cpos:
            cmask &= ((idx >> c) & 1) == 1
        # local index of each basis state: bit i of the gate index = qubit ids[i]
        loc = _np.zeros(len(idx), dtype=int)
        base = idx.copy()
        for i, p in enumerate(pos):
            loc |= ((idx >> p) & 1) << i
            base &= ~(1 << p)
        new = _np.array(self._state)
        sel = idx[cmask]
        out = _np.zeros(len(sel), dtype=_np.complex128)
        for col in range(1 << k):
            src = base[sel].copy()
            for i, p in enumerate(pos):
                src |= ((col >> i) & 1) << p
            out += m[loc[sel], col] * self._state[src]
        new[sel] = out
        self._state = new

    def measure_qubits(self, ids):
        P = random.random()
        val = 0.0
        i_picked = 0
        while val < P and i_picked < len(self._state):
            val += _np.abs(self._state[i_picked]) ** 2
            i_picked += 1
        i_picked -= 1
        pos = [self._map[ID] for ID in ids]
        res = [bool((i_picked >> p) & 1) for p in pos]
        idx = _np.arange(len(self._state))
        keep = _np.ones(len(idx), dtype=bool)
        for p, r in zip(pos, res):
            keep &= ((idx >> p) & 1) == int(r)
        self._state = _np.where(keep, self._state, 0)
        nrm = _np.sqrt(_np.sum(_np.abs(self._state) ** 2))
        self._state = self._state * (1.0 / nrm)
        return res

    def prepare_state(self, ids, final_state, tol=1.e-10):
        """`StatePreparation`: the qubits `ids` must be in |0..0>; afterwards the
        amplitude of local basis state k (bit i = ids[i]) is final_state[k]."""
        final_state = _np.asarray(final_state, dtype=_np.complex128)
        pos = [self._map[i] for i in ids]
        idx = _np.arange(len(self._state))
        zero = _np.ones(len(idx), dtype=bool)
        for p in pos:
            zero &= ((idx >> p) & 1) == 0
        if _np.any(_np.abs(self._state[~zero]) > tol):
            raise RuntimeError("StatePreparation applied to qubits that are not in |0..0>")
        new = _np.zeros(len(idx), dtype=_np.complex128)
        for k in range(len(final_state)):
            dst = idx[zero].copy()
            for i, p in enumerate(pos):
                dst |= ((k >> i) & 1) << p
            new[dst] = self._state[idx[zero]] * final_state[k]
        self._state = new

    def get_probability(self, bit_string, ids):
        idx = _np.arange(len(self._state))
        keep = _np.ones(len(idx), dtype=bool)
        for b, i in zip(bit_string, ids):
            keep &= ((idx >> self._map[i]) & 1) == int(b)
        return float(_np.sum(_np.abs(self._state[keep]) ** 2))

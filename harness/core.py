"""Shared machinery of every check: scratch copy of the repository under test,
Lean build / axiom audit / model driver, verdict protocol, evidence files.

Nothing here knows about a particular property; the property modules live in
harness/props/cXX.py and expose

    LEAN_TARGETS : list[str]      lake targets that carry the theorems
    PROPS_FILE   : str            path (relative to lean/) of the Props file
    MODELS       : list[str]      driver models used (for the trusted-base text)
    def gen(ctx)                  optional: regenerate Gen/*.lean from the source
    def run(ctx) -> Result        tie + oracle on the real code
    def search(ctx, broken)       optional: targeted failing-input search
"""
import atexit
import fcntl
import hashlib
import json
import os
import random
import re
import shutil
import subprocess
import sys
import tempfile
import time

VERIF = os.path.dirname(os.path.dirname(os.path.abspath(__file__)))
REPO = os.environ.get("VERIF_REPO", "/repo")
LEAN_SRC = os.path.join(VERIF, "lean")
OUT_DIR = os.path.join(VERIF, "out")
# A run against another tree (VERIF_REPO=<scratch worktree>) works in a PRIVATE copy of the lake workspace (sources,
# generated files and build products, ~200 MB, refreshed from lean/ at the start of the run): files generated from
# that tree never touch lean/, and such runs can go on side by side with runs against /repo and with each other.
if os.path.realpath(REPO) == "/repo":
    LEAN_DIR = LEAN_SRC
else:
    import hashlib as _hl
    LEAN_DIR = os.path.join(OUT_DIR, "lean_" + _hl.sha1(os.path.realpath(REPO).encode()).hexdigest()[:12])
# evidence of runs against another tree (VERIF_REPO=<scratch worktree>: seeded changes, fix branches) never
# overwrites the committed evidence of /repo itself
EVIDENCE_DIR = os.path.join(VERIF, "evidence") if REPO == "/repo" else os.path.join(OUT_DIR, "evidence_other_tree")
ALLOWED_AXIOMS = {"propext", "Classical.choice", "Quot.sound"}
FORBIDDEN = re.compile(
    r"\bsorry\b|\badmit\b|^\s*axiom\s|native_decide|bv_decide|implemented_by|\bunsafe\s|maxHeartbeats\s+0\b",
    re.M,
)


class MachineryError(Exception):
    """Tool failure, time-out, audit failure: exit 2, never a verdict."""


class ImplementationFailure(Exception):
    """The code under test could not even be set up for a case the property quantifies over (a configured node
    missing from the parsed configuration, a constructor of the real code raising, ...).  That is a verdict about
    the code, not a tool failure: check.py reports it as a violation with the set-up as the failing input."""

    def __init__(self, key, what, replay):
        Exception.__init__(self, what)
        self.key, self.what, self.replay = key, what, replay

    def __reduce__(self):       # survives the trip back from a pool worker
        return (ImplementationFailure, (self.key, self.what, self.replay))


# --------------------------------------------------------------------------
# scratch copy of the code under test
# --------------------------------------------------------------------------

_scratch = None


def scratch_repo():
    """Copy REPO/simulaqron (working tree) to a fresh directory outside /repo
    and /verif, put it first on sys.path and return the directory.  Importing
    simulaqron writes settings.json / network.json into the package; they must
    never land in /repo."""
    global _scratch
    if _scratch:
        return _scratch
    base = os.environ.get("VERIF_TMP") or tempfile.gettempdir()
    d = tempfile.mkdtemp(prefix="sqv_", dir=base)
    shutil.copytree(
        os.path.join(REPO, "simulaqron"),
        os.path.join(d, "simulaqron"),
        ignore=lambda p, names: [
            n for n in names
            if n == "__pycache__" or (os.path.basename(p) == "config" and n in ("settings.json", "network.json"))
        ],
    )
    home = os.path.join(d, "home")
    os.makedirs(home)
    os.environ["HOME"] = home  # ~/.simulaqron.json of the real user must not leak in
    sys.path.insert(0, d)
    atexit.register(shutil.rmtree, d, True)
    _scratch = d
    return d


def source_digest(relpaths):
    h = hashlib.sha256()
    for r in relpaths:
        with open(os.path.join(REPO, r), "rb") as f:
            h.update(f.read())
    return h.hexdigest()[:16]


# --------------------------------------------------------------------------
# Lean
# --------------------------------------------------------------------------

def _strip_comments(src):
    src = re.sub(r"/-.*?-/", "", src, flags=re.S)
    return re.sub(r"--.*", "", src)


def prepare_lean_dir():
    """refresh the private lake workspace of a VERIF_REPO run from lean/ (no-op for /repo)"""
    if LEAN_DIR == LEAN_SRC:
        return
    os.makedirs(LEAN_DIR, exist_ok=True)
    main_lock = open(os.path.join(OUT_DIR, "lean.lock"), "w")
    fcntl.flock(main_lock, fcntl.LOCK_EX)      # never copy a half-built workspace
    try:
        subprocess.run(["rsync", "-a", "--delete", "--exclude", ".audit", LEAN_SRC + "/", LEAN_DIR + "/"], check=True)
    finally:
        fcntl.flock(main_lock, fcntl.LOCK_UN)
        main_lock.close()


def drop_lean_dir():
    if LEAN_DIR != LEAN_SRC and os.environ.get("VERIF_KEEP_LEAN") != "1":
        shutil.rmtree(LEAN_DIR, ignore_errors=True)


class LeanLock:
    """Exclusive, re-entrant (per process) lock on the lake workspace.  check.py holds it from the regeneration of
    Gen/*.lean through `lake build` and the axiom audit, so that two checks running side by side (possibly against
    different trees, VERIF_REPO) never build or audit against each other's generated files."""
    _depth = 0
    _f = None

    def __enter__(self):
        cls = LeanLock
        if cls._depth == 0:
            os.makedirs(OUT_DIR, exist_ok=True)
            cls._f = open(os.path.join(OUT_DIR, "lean.lock" if LEAN_DIR == LEAN_SRC
                                       else os.path.basename(LEAN_DIR) + ".lock"), "w")
            fcntl.flock(cls._f, fcntl.LOCK_EX)
        cls._depth += 1

    def __exit__(self, *a):
        cls = LeanLock
        cls._depth -= 1
        if cls._depth == 0:
            fcntl.flock(cls._f, fcntl.LOCK_UN)
            cls._f.close()
            cls._f = None


def lean_build(targets, timeout=1500):
    """lake build the given targets.  Returns (ok, log, broken) where broken is
    a list of {file, line, decl, msg} for every error location."""
    with LeanLock():
        try:
            p = subprocess.run(["lake", "build", *targets], cwd=LEAN_DIR, capture_output=True,
                               text=True, timeout=timeout)
        except subprocess.TimeoutExpired:
            raise MachineryError("lake build timed out")
    log = p.stdout + p.stderr
    broken = []
    if p.returncode != 0:
        for m in re.finditer(r"error: (\S+?\.lean):(\d+):(\d+): (.*)", log):
            f, line, msg = m.group(1), int(m.group(2)), m.group(4)
            broken.append({"file": f, "line": line, "decl": _decl_at(f, line), "msg": msg[:300]})
        if not broken:
            broken.append({"file": "?", "line": 0, "decl": "?", "msg": log[-600:]})
    return p.returncode == 0, log, broken


def _decl_at(relfile, line):
    path = relfile if os.path.isabs(relfile) else os.path.join(LEAN_DIR, relfile)
    try:
        lines = open(path).read().split("\n")
    except OSError:
        return "?"
    for i in range(min(line, len(lines)) - 1, -1, -1):
        m = re.match(r"\s*(?:private\s+|protected\s+)?(?:theorem|lemma|def|example|instance|abbrev)\s+(\S+)?", lines[i])
        if m:
            return m.group(1) or "example"
    return "?"


def theorems_in(props_file):
    """(namespace-qualified) names of every theorem declared in a Props file
    (or in each of a list of Props files)."""
    if isinstance(props_file, (list, tuple)):
        return [t for f in props_file for t in theorems_in(f)]
    src = _strip_comments(open(os.path.join(LEAN_DIR, props_file)).read())
    names, ns = [], []
    for line in src.split("\n"):
        m = re.match(r"\s*namespace\s+(\S+)", line)
        if m:
            ns.append(m.group(1))
            continue
        m = re.match(r"\s*end\s+(\S+)\s*$", line)
        if m and ns and ns[-1] == m.group(1):
            ns.pop()
            continue
        m = re.match(r"\s*(?:protected\s+)?theorem\s+(\S+)", line)
        if m:
            names.append(".".join(ns + [m.group(1)]))
    return names


def lean_sources():
    out = []
    for root, _, files in os.walk(LEAN_DIR):
        if ".lake" in root or "/.audit" in root or root.endswith("/proto"):
            continue
        for f in files:
            if f.endswith(".lean"):
                out.append(os.path.join(root, f))
    return sorted(out)


def lean_audit(props_file, module):
    """grep for forbidden constructs, then #print axioms on every theorem of
    the Props file.  Returns dict(theorems, discharged, axioms, problems)."""
    problems = []
    for f in lean_sources():
        src = _strip_comments(open(f).read())
        for m in FORBIDDEN.finditer(src):
            problems.append("forbidden construct %r in %s" % (m.group(0).strip(), os.path.relpath(f, LEAN_DIR)))
    thms = theorems_in(props_file)
    os.makedirs(os.path.join(LEAN_DIR, ".audit"), exist_ok=True)
    modules = [module] if isinstance(module, str) else list(module)
    tag = modules[0].replace(".", "_")
    path = os.path.join(LEAN_DIR, ".audit", tag + ".lean")
    with open(path, "w") as f:
        for m in modules:
            f.write("import %s\n" % m)
        for t in thms:
            f.write("#print axioms %s\n" % t)
    try:
        p = subprocess.run(["lake", "env", "lean", path], cwd=LEAN_DIR, capture_output=True, text=True, timeout=600)
    except subprocess.TimeoutExpired:
        raise MachineryError("axiom audit timed out")
    out = p.stdout + p.stderr
    axioms, discharged = {}, 0
    for t in thms:
        m = re.search(r"'%s' depends on axioms: \[(.*?)\]" % re.escape(t), out, re.S)
        if m:
            ax = {a.strip() for a in m.group(1).replace("\n", " ").split(",") if a.strip()}
        elif re.search(r"'%s' does not depend on any axioms" % re.escape(t), out):
            ax = set()
        else:
            problems.append("theorem %s not found in compiled environment" % t)
            continue
        axioms[t] = sorted(ax)
        if ax <= ALLOWED_AXIOMS:
            discharged += 1
        else:
            problems.append("theorem %s uses axioms %s" % (t, sorted(ax - ALLOWED_AXIOMS)))
    return {"theorems": thms, "discharged": discharged, "axioms": axioms, "problems": problems}


def lean_check_olean(modules, timeout=1800):
    """thorough tier: re-check compiled modules with leanchecker."""
    try:
        p = subprocess.run(["lake", "env", "leanchecker", *modules], cwd=LEAN_DIR, capture_output=True,
                           text=True, timeout=timeout)
    except subprocess.TimeoutExpired:
        raise MachineryError("leanchecker timed out")
    return p.returncode == 0, (p.stdout + p.stderr)[-400:]


def lean_run(model, lines, timeout=900):
    """Run the model driver (lean --run run/<model>.lean) on a list of input
    lines; returns the list of output lines (one per input line)."""
    env = dict(os.environ)
    data = "\n".join(lines) + "\n"
    try:
        p = subprocess.run(["lake", "env", "lean", "--run", "run/%s.lean" % model], cwd=LEAN_DIR, input=data,
                           capture_output=True, text=True, timeout=timeout, env=env)
    except subprocess.TimeoutExpired:
        raise MachineryError("model driver timed out (%s)" % model)
    if p.returncode != 0:
        raise MachineryError("model driver failed (%s): %s" % (model, (p.stderr or p.stdout)[-800:]))
    out = p.stdout.split("\n")
    if out and out[-1] == "":
        out.pop()
    if len(out) != len(lines):
        raise MachineryError("model driver %s: %d lines in, %d lines out; tail=%r" % (model, len(lines), len(out), out[-3:]))
    return out


# --------------------------------------------------------------------------
# results, verdicts, evidence
# --------------------------------------------------------------------------

class Result:
    def __init__(self):
        self.evaluations = 0
        self.distinct = set()          # hashes of distinct non-trivial cases
        self.samples = []
        self.violations = []           # {key, what, replay}
        self.tie_breaks = []           # {what, input, model, impl}
        self.traces = 0                # executions of the real code compared with the model
        self.dist = {}                 # input distribution histogram
        self.notes = []
        self.rule = ""
        self.exhaustive = False

    def case(self, obj, nontrivial=True):
        self.evaluations += 1
        if nontrivial:
            self.distinct.add(hashlib.md5(json.dumps(obj, sort_keys=True, default=str).encode()).hexdigest())
        if len(self.samples) < 4 and nontrivial:
            self.samples.append(obj)

    def count(self, key, n=1):
        self.dist[key] = self.dist.get(key, 0) + n

    def violation(self, key, what, replay):
        self.violations.append({"key": key, "what": what, "replay": replay})

    def tie_break(self, what, inp, model, impl):
        self.tie_breaks.append({"what": what, "input": inp, "model": model, "impl": impl})


class Ctx:
    def __init__(self, prop, tier, seed):
        self.prop, self.tier, self.seed = prop, tier, seed
        self.rng = random.Random(seed)
        self.t0 = time.time()
        self.thorough = tier == "thorough"

    def scale(self, quick, thorough):
        return thorough if self.thorough else quick


def known_findings(prop):
    path = os.path.join(VERIF, "known_findings.json")
    if not os.path.exists(path):
        return []
    return [e for e in json.load(open(path))["findings"] if e["property"] == prop]


def write_replay(prop, n, obj):
    d = os.path.join(OUT_DIR, "replays")
    os.makedirs(d, exist_ok=True)
    path = os.path.join(d, "%s-%d.json" % (prop, n))
    with open(path, "w") as f:
        json.dump(obj, f, indent=1, default=str)
    return path


def write_evidence(ctx, level, coverage, assumptions, violations):
    os.makedirs(EVIDENCE_DIR, exist_ok=True)
    ev = {
        "property_id": ctx.prop,
        "tier": ctx.tier,
        "seed": ctx.seed,
        "level": level,
        "coverage": coverage,
        "assumptions": assumptions,
        "wall_s": round(time.time() - ctx.t0, 2),
        "violations": violations,
    }
    with open(os.path.join(EVIDENCE_DIR, ctx.prop + ".json"), "w") as f:
        json.dump(ev, f, indent=1, default=str)
        f.write("\n")

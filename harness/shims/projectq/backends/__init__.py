from ._sim import Simulator  # noqa: F401

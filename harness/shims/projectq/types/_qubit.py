"""Qubit / Qureg of the ProjectQ stand-in (see projectq/__init__.py)."""


class BasicQubit:
    def __init__(self, engine, idx):
        self.id = idx
        self.engine = engine

    def __str__(self):
        return str(self.id)

    def __bool__(self):
        return self.engine.main_engine.get_measurement_result(self)

    def __int__(self):
        return int(bool(self))

    def __eq__(self, other):
        if self.id == -1:
            return self is other
        return isinstance(other, BasicQubit) and self.id == other.id and self.engine == other.engine

    def __ne__(self, other):
        return not self.__eq__(other)

    def __hash__(self):
        if self.id == -1:
            return object.__hash__(self)
        return hash((self.engine, self.id))


class Qubit(BasicQubit):
    """deallocates itself when the last reference goes away"""

    def __del__(self):
        if self.id == -1:
            return
        try:
            self.engine.main_engine.active_qubits.discard(self)
        except Exception:
            pass
        weak_copy = WeakQubitRef(self.engine, self.id)
        self.id = -1
        self.engine.deallocate_qubit(weak_copy)


class WeakQubitRef(BasicQubit):
    pass


class Qureg(list):
    def __bool__(self):
        if len(self) == 1:
            return bool(self[0])
        raise Exception("__bool__(qureg): Quantum register contains more than 1 qubit. Use __bool__(qureg[idx])")

    def __int__(self):
        if len(self) == 1:
            return int(self[0])
        raise Exception("__int__(qureg): Quantum register contains more than 1 qubit. Use __int__(qureg[idx])")

    @property
    def engine(self):
        return self[0].engine

import SqVerif.Drive.FramingErr
/- `lake env lean --run run/framingerr.lean`: one operation per input line, one canonical observation per output line. -/
def main : IO Unit := SqVerif.Drive.loopStateless SqVerif.Drive.FramingErr.handle

/-!
# LockProto — the RUNNING node-lock protocol of the virtual nodes (layer L3, serves C04 liveness)

Core Lean only.  `Skel.lean` / `Props/C04Skel.lean` account for the locks of ONE method in isolation; this file
models several operations running concurrently against the node locks
(`simulaqron/virtual_node/virtual.py`):

* a node lock is `virtualNode._lock`, a Twisted `DeferredLock` used without owner:
  `_get_global_lock` (virtual.py:324-329) polls `while self._lock.locked: wait` and then acquires — abstracted to
  "an acquire is enabled iff the lock is free"; `_release_global_lock` (virtual.py:335-338) is
  `if self._lock.locked: self._lock.release()` — it frees the lock *whoever* took it.
  In the model a lock table entry `(n, o)` says: the flag of node `n` is set, and `o` is the GHOST owner (who
  set it).  No transition ever reads `o`: enabledness looks at the flag only (`lockedB`), a release removes the
  entry whatever `o` is.
* an operation is a small program over `Instr`, derived from the method skeletons (`Gen/Skeleton.lean`; the
  agreement is a `decide`d obligation in `Props/C04Live.lean`):
  - `gate1 sim` (`_single_gate`, `remote_measure`, virtual.py `_lock_simulating_node` + `finally` release):
    acquire sim → work → release sim;
  - `new n` / `addQubit n` (`remote_new_qubit`, `remote_add_qubit`): acquire n → work → release n;
  - `send self sim? recv` (`remote_send_qubit`, virtual.py:673-735): acquire self → [acquire sim] → acquire recv
    (inside `add_qubit`, reached directly or through the simulator's `transfer_qubit`) → work → release recv →
    [release sim] → release self; none of the three waits has a time-out;
  - `gate2 ns` (`_two_qubit_gate` via `_lock_nodes`, virtual.py:1389-1440): request the locks of the set
    `{virtNode, control's simulator, target's simulator}` all at once (`acqT`), race them against a timer;
    all granted → work → release all; timer first → back off and retry.
* the two time-out paths (selected by the flag `faithful`):
  - `faithful = true`, the code as it is (F15): `d_lock.cancel()` marks every request as `called`, so the loop
    `for node, d in ds.items(): if d.called: release` releases EVERY requested node — also locks this operation
    was never granted (the release is ownerless, so it frees other operations' locks) — and the cancelled
    requests that had not been granted keep polling at the remote node (`zombies`) and may acquire later; nobody
    ever releases what a zombie acquires;
  - `faithful = false`, idealised: release exactly what was granted, cancelled requests die.
* scheduling: `fire` executes ONE transition, chosen by the adversary among the enabled ones (`Label`).
  A time-out of a waiting `gate2` attempt is enabled as long as not all its requests have been granted (the
  adversary may fire the timer at any time after the request).  What is assumed about timers ("the back-off
  draws are random, not adversarial") is made explicit where it is used: a bound `K` on the NUMBER OF TIME-OUT
  TRANSITIONS in the run (`timeouts ls ≤ K`, see `Props/C04Live.lean`).

Not modelled (abstractions, stated): qubit locks; failures (every call succeeds: the exceptional paths are
covered per method by `all_methods_balanced`); re-validation of the simulator after an acquire
(`_lock_simulating_node` / `_lock_nodes` release and retry when the simulator changed meanwhile: the placement
is static during a run of the model); the 1 s polling period and the 1–4 s back-off as durations (steps are
counted, not seconds).
-/
namespace SqVerif.LockProto

abbrev Node := Nat

/-- one instruction of an operation's program -/
inductive Instr where
  | acq (n : Node)            -- `_get_global_lock` of node `n`, no time-out
  | work                      -- the operation's effect, done while holding its locks
  | rel (n : Node)            -- `_release_global_lock` of node `n` (release if locked, ownerless)
  | acqT (ns : List Node)     -- `_lock_nodes`: all of `ns` requested at once, raced against a timer
  deriving DecidableEq, Repr

/-- the operations a client can issue -/
inductive Op where
  | gate1 (sim : Node)
  | new (n : Node)
  | addQubit (n : Node)
  | send (self : Node) (sim : Option Node) (recv : Node)
  | gate2 (ns : List Node)
  deriving DecidableEq, Repr

/-- `set([local_node, control_sim_node, target_sim_node])` (virtual.py:1415) -/
def dedup : List Node → List Node
  | [] => []
  | a :: l => if a ∈ l then dedup l else a :: dedup l

/-- the program of an operation (normal path) -/
def prog : Op → List Instr
  | .gate1 s => [.acq s, .work, .rel s]
  | .new n => [.acq n, .work, .rel n]
  | .addQubit n => [.acq n, .work, .rel n]
  | .send a none r => [.acq a, .acq r, .work, .rel r, .rel a]
  | .send a (some s) r => [.acq a, .acq s, .acq r, .work, .rel r, .rel s, .rel a]
  | .gate2 ns => .acqT (dedup ns) :: .work :: (dedup ns).map .rel

/-- ghost owner of a set lock flag -/
inductive Owner where
  | op (i : Nat)              -- operation number `i`
  | zombie (i : Nat)          -- a cancelled request of operation `i` that acquired after the cancel (F15)
  deriving DecidableEq, Repr

/-- local state of an operation: the rest of its program and the locks it has been granted and not released
    (for `gate2` this is real data — which of the request Deferreds have fired —, for the others it is ghost) -/
structure PSt where
  rest : List Instr
  held : List Node
  deriving DecidableEq, Repr

structure St where
  procs : List PSt
  locks : List (Node × Owner)          -- the set lock flags, each with its ghost owner
  zombies : List (Nat × Node)          -- cancelled, still polling requests `(operation, node)`
  deriving DecidableEq, Repr

def init (ops : List Op) : St := ⟨ops.map (fun o => ⟨prog o, []⟩), [], []⟩

/-- the real flag `self._lock.locked` of node `n` -/
def St.lockedB (s : St) (n : Node) : Bool := s.locks.any (fun e => e.1 == n)

/-- `if self._lock.locked: self._lock.release()` -/
def unlock (n : Node) (locks : List (Node × Owner)) : List (Node × Owner) := locks.filter (fun e => e.1 != n)

inductive Label where
  | step (i : Nat)                  -- operation `i` executes its head instruction (`acqT`: all granted, go on)
  | grant (i : Nat) (n : Node)      -- one of the requests of `i`'s `acqT` is granted
  | timeout (i : Nat)               -- the timer of `i`'s `acqT` fires first
  | zgrant (i : Nat) (n : Node)     -- a cancelled request acquires (faithful path only: no zombies otherwise)
  deriving DecidableEq, Repr

def Label.isTimeout : Label → Bool
  | .timeout _ => true
  | _ => false

def setProc (s : St) (i : Nat) (p : PSt) : St := { s with procs := s.procs.set i p }

/-- one transition; `none` = not enabled -/
def fire (faithful : Bool) (s : St) : Label → Option St
  | .step i =>
    match s.procs[i]? with
    | none => none
    | some p =>
      match p.rest with
      | [] => none
      | .acq n :: r =>
        if s.lockedB n then none
        else some { setProc s i ⟨r, n :: p.held⟩ with locks := (n, .op i) :: s.locks }
      | .work :: r => some (setProc s i ⟨r, p.held⟩)
      | .rel n :: r => some { setProc s i ⟨r, p.held.erase n⟩ with locks := unlock n s.locks }
      | .acqT ns :: r => if ns.all (fun n => decide (n ∈ p.held)) then some (setProc s i ⟨r, p.held⟩) else none
  | .grant i n =>
    match s.procs[i]? with
    | none => none
    | some p =>
      match p.rest with
      | .acqT ns :: r =>
        if n ∈ ns ∧ n ∉ p.held ∧ s.lockedB n = false then
          some { setProc s i ⟨.acqT ns :: r, n :: p.held⟩ with locks := (n, .op i) :: s.locks }
        else none
      | _ => none
  | .timeout i =>
    match s.procs[i]? with
    | none => none
    | some p =>
      match p.rest with
      | .acqT ns :: r =>
        if ns.all (fun n => decide (n ∈ p.held)) then none
        else if faithful then
          -- F15: release every requested node; the ungranted requests stay behind
          some { setProc s i ⟨ns.map .rel ++ .acqT ns :: r, p.held⟩ with
                 zombies := s.zombies ++ (ns.filter (fun n => decide (n ∉ p.held))).map (fun n => (i, n)) }
        else
          some (setProc s i ⟨(ns.filter (fun n => decide (n ∈ p.held))).map .rel ++ .acqT ns :: r, p.held⟩)
      | _ => none
  | .zgrant i n =>
    if (i, n) ∈ s.zombies ∧ s.lockedB n = false then
      some { s with locks := (n, .zombie i) :: s.locks, zombies := s.zombies.erase (i, n) }
    else none

def Step (f : Bool) (s s' : St) : Prop := ∃ l, fire f s l = some s'

/-- reachable from the initial state of `ops` under every schedule -/
inductive Reachable (f : Bool) (ops : List Op) : St → Prop where
  | init : Reachable f ops (init ops)
  | step {s s'} (l : Label) : Reachable f ops s → fire f s l = some s' → Reachable f ops s'

/-- a finite run with its labels -/
inductive Run (f : Bool) : St → List Label → St → Prop where
  | nil (s) : Run f s [] s
  | cons {s s' s'' l ls} : fire f s l = some s' → Run f s' ls s'' → Run f s (l :: ls) s''

def timeouts (ls : List Label) : Nat := (ls.filter Label.isTimeout).length

/-- executable run -/
def run (f : Bool) (s : St) : List Label → Option St
  | [] => some s
  | l :: ls => match fire f s l with
    | none => none
    | some s' => run f s' ls

/-! ### observations -/

def PSt.done (p : PSt) : Bool := p.rest.isEmpty

/-- no operation in flight -/
def St.idle (s : St) : Bool := s.procs.all PSt.done

/-- every lock flag clear -/
def St.allFree (s : St) : Bool := s.locks.isEmpty

/-- nothing at all is enabled (time-outs included) -/
def Stuck (f : Bool) (s : St) : Prop := ∀ l, fire f s l = none

/-- candidate labels of a state (every enabled label is among them: `stuckB_sound`) -/
def labelsOf (s : St) : List Label :=
  (List.range s.procs.length).flatMap (fun i =>
    match (s.procs[i]?).map PSt.rest with
    | some (.acqT ns :: _) => .step i :: .timeout i :: ns.map (fun n => .grant i n)
    | _ => [.step i]) ++ s.zombies.map (fun z => .zgrant z.1 z.2)

def stuckB (f : Bool) (s : St) : Bool := (labelsOf s).all (fun l => (fire f s l).isNone)

/-! ### the static wait-for graph of the sends -/

abbrev NEdge := Node × Node

/-- hold-and-wait edges (held node, awaited node) of an operation: only `send` has any
    (`hold_and_wait_edges` / `send_hold_and_wait_edges` in `Props/C04Skel.lean`) -/
def edgesOf : Op → List NEdge
  | .send a none r => [(a, r)]
  | .send a (some s) r => [(a, s), (a, r), (s, r)]
  | _ => []

def sendEdges (ops : List Op) : List NEdge := ops.flatMap edgesOf

def bump (rk : Node → Nat) (e : NEdge) : Node → Nat :=
  if rk e.1 < rk e.2 then rk else fun n => if n = e.2 then rk e.1 + 1 else rk n

/-- longest-path ranks by `fuel` rounds of relaxation -/
def ranks (E : List NEdge) : Nat → (Node → Nat)
  | 0 => fun _ => 0
  | k + 1 => E.foldl bump (ranks E k)

/-- the directed graph self→sim, self→recv, sim→recv over all sends of `ops` has no cycle: decided by
    computing candidate ranks and CHECKING that every edge goes strictly up -/
def sendGraphAcyclic (ops : List Op) : Bool :=
  let E := sendEdges ops
  E.all (fun e => decide (ranks E E.length e.1 < ranks E E.length e.2))

/-! ### the ranking function -/

/-- static weight of an instruction -/
def Instr.w : Instr → Nat
  | .acqT ns => 1 + ns.length
  | _ => 1

def weight (l : List Instr) : Nat := (l.map Instr.w).sum

/-- remaining work of one operation: remaining instructions, a waiting `acqT` counted with its outstanding
    requests only -/
def PSt.mu (p : PSt) : Nat :=
  match p.rest with
  | .acqT ns :: r => 1 + (ns.filter (fun n => decide (n ∉ p.held))).length + weight r
  | l => weight l

def St.mu (s : St) : Nat := (s.procs.map PSt.mu).sum + s.zombies.length

/-- cost of one time-out of operation `o` in the ranking: the releases of the back-off plus the requests to be
    granted again -/
def toCost : Op → Nat
  | .gate2 ns => 2 * (dedup ns).length
  | _ => 0

def maxCost (ops : List Op) : Nat := (ops.map toCost).foldl max 0

/-- `bound ops K`: no run of `ops` with at most `K` time-out firings has more steps than this -/
def bound (ops : List Op) (K : Nat) : Nat := (init ops).mu + K * (maxCost ops + 1)

end SqVerif.LockProto

/-
L5 — NqExec: a reference interpreter for NetQASM subroutines as executed by
SimulaQron's QNodeOS (`netqasm 2.3.0` `Executor` + the overrides of
`simulaqron/netqasm_backend/executioner.py`, `qnodeos.py`, the factory's
`qubitList`).  Core Lean only.

The interpreter is written ONCE, generic in a *quantum backend* (`Backend σ`):
all classical NetQASM semantics (registers, arrays, branches, returns — the
part netqasm implements) lives in `instrStep` / `runProg` / `runMsg`; every
quantum instruction becomes one request (`QReq`) to the backend.  Two backends:

* `CQ` (concrete): netqasm's unit module (virtual address → physical id, with
  the allocation policy `_get_unused_physical_qubit`), the set
  `_used_physical_qubit_addresses`, the factory's `qubitList` (physical id →
  handle; a handle is identified with the *token* of the virtual qubit it
  denotes) and the node (tokens held, capacity, receive queue);
* `AQ` (token level): virtual addresses name tokens directly.

The virtual node under the executioner is kept abstract: it hands out fresh
tokens (`new_qubit`), refuses at capacity, and drops a token on a destructive
measurement or a successful hand-over to a peer.  Measurement outcomes and the
peer's answers are INPUTS (`Env`), consumed in order.

The model mirrors the code AFTER the repairs
  * F4  (`apply_S` exists on virtualQubit / simulatedQubit / engines),
  * qalloc roll-back (a `qalloc` whose `cmd_new` fails un-maps the address),
  * application IDs can be used again after StopApp (InitNewApp is always answered);
and the code AS IT IS for F13 (a `create_epr`/`recv_epr` that fails between
`cmd_new` / registration and the hand-over to the unit module leaves its
qubits in `qubitList`; counted in the ghost field `leaked`), including what
netqasm keeps after such a failure: the request record of the finished
subroutine stays at the head of its list (`St.stale`), and a response whose
handling raised stays in `_pending_epr_responses` (`St.broken`) — the next
request on that key, resp. every later request, then fails at the hand-over.

Entanglement requests are modelled for create-and-keep only, as far as C11
needs them (who holds which qubit); sequence numbers, create ids and the
contents of the link-layer records are C08's business and enter as inputs.
-/
namespace SqVerif.NqExec

/-! ### Python list indexing, association lists -/

/-- `l[i]` for a Python list of length `len`: negative indices count from the end -/
def pyIdx (len : Nat) (i : Int) : Option Nat :=
  if 0 ≤ i then (if i.toNat < len then some i.toNat else none)
  else if (-i).toNat ≤ len then some (len - (-i).toNat) else none

/-- `d.get(k)` for a dict kept as an association list -/
def aGet {κ β : Type} [DecidableEq κ] : List (κ × β) → κ → Option β
  | [], _ => none
  | (k', v) :: l, k => if k' = k then some v else aGet l k

/-- `d.pop(k)` -/
def aDel {κ β : Type} [DecidableEq κ] (l : List (κ × β)) (k : κ) : List (κ × β) :=
  l.filter fun e => decide (e.1 ≠ k)

/-- `d[k] = v` (iteration order of the dict is not observable here) -/
def aSet {κ β : Type} [DecidableEq κ] (l : List (κ × β)) (k : κ) (v : β) : List (κ × β) :=
  aDel l k ++ [(k, v)]

/-- `_get_unused_physical_qubit` (executor.py:1474-1481): smallest natural number not in use -/
def firstFree (used : List Nat) : Nat :=
  ((List.range (used.length + 1)).find? fun j => !used.contains j).getD used.length

/-! ### instructions -/

inductive G1 where | X | Y | Z | H | K | S | T | Rot deriving DecidableEq, Repr
inductive G2 where | cnot | cphase deriving DecidableEq, Repr

/-- the stabilizer backend refuses T and rotations (stabilizer_simulator.py:143-161) -/
def G1.supported : G1 → Bool
  | .T => false | .Rot => false | _ => true

/-- index operand of an array entry: `@a[3]` or `@a[R1]` -/
inductive Idx where | imm (n : Int) | reg (r : Nat) deriving DecidableEq, Repr
inductive BrU where | bez | bnz deriving DecidableEq, Repr
inductive BrB where | beq | bne | blt | bge deriving DecidableEq, Repr
inductive COp where | add | sub deriving DecidableEq, Repr

/-- registers are numbered `16 * group + index` (groups R C Q M = 0 1 2 3) -/
inductive Instr where
  | set (r : Nat) (v : Int)
  | qalloc (r : Nat)
  | init (r : Nat)
  | gate1 (g : G1) (r : Nat)            -- x y z h k s t, and rot_x/rot_y/rot_z as `Rot`
  | gate2 (g : G2) (r0 r1 : Nat)
  | meas (q c : Nat)
  | qfree (r : Nat)
  | store (r : Nat) (a : Int) (i : Idx)
  | load (r : Nat) (a : Int) (i : Idx)
  | lea (r : Nat) (a : Int)
  | undef (a : Int) (i : Idx)
  | array (r : Nat) (a : Int)
  | cop (op : COp) (ro r0 r1 : Nat)
  | copm (op : COp) (ro r0 r1 rm : Nat)
  | jmp (l : Nat)
  | bru (c : BrU) (r : Nat) (l : Nat)
  | brb (c : BrB) (r0 r1 : Nat) (l : Nat)
  | retReg (r : Nat)
  | retArr (a : Int)
  | createEpr (r0 r1 r2 r3 r4 : Nat)
  | recvEpr (r0 r1 r2 r3 : Nat)
  | other                                -- anything else: outside the model
  deriving DecidableEq, Repr

/-- the vanilla subset of C09 (no entanglement instructions, nothing unmodelled) -/
def Instr.vanilla : Instr → Bool
  | .createEpr .. => false | .recvEpr .. => false | .other => false | _ => true

/-! ### what the host and the node see -/

inductive Reply where
  | retReg (r : Nat) (v : Int)                 -- ReturnRegMessage
  | retArr (a : Int) (vs : List (Option Int))  -- ReturnArrayMessage
  | error                                      -- ErrorMessage
  | done                                       -- MsgDoneMessage
  deriving DecidableEq, Repr

/-- operations issued to the virtual node, on tokens -/
inductive TOp where
  | new (t : Nat)                               -- new_qubit created token t
  | gate1 (g : G1) (t : Nat)
  | gate2 (g : G2) (c t : Nat)
  | meas (t : Nat) (inplace : Bool) (o : Bool)
  | send (t : Nat) (ok : Bool)                  -- netqasm_send_epr_half
  | claim (t : Nat)                             -- netqasm_get_epr_recv returned token t
  deriving DecidableEq, Repr

/-- inputs: measurement outcomes, the peer's answer to each `send_epr_half`,
the link-layer record stored for each delivered pair -/
structure Env where
  outs : List Bool
  sends : List Bool
  infos : List (List Int)
  deriving DecidableEq, Repr

/-- the virtual node, seen from its QNodeOS -/
structure Node where
  cap : Nat
  held : List Nat                        -- tokens of the virtual qubits at this node
  next : Nat                             -- next fresh token
  inbox : List (Int × Int × Nat)         -- qubit_recv_epr: (socket id, sender node id, token)
  deriving DecidableEq, Repr

/-- `remote_new_qubit`: refused at capacity (virtual.py:436-446) -/
def Node.new (n : Node) : Option (Node × Nat) :=
  if n.held.length ≥ n.cap then none
  else some ({ n with held := n.held ++ [n.next], next := n.next + 1 }, n.next)

/-- the token leaves the node (destructive measurement / handed to a peer) -/
def Node.drop (n : Node) (t : Nat) : Node := { n with held := n.held.erase t }

/-! ### backend interface -/

inductive QReq where
  | initApp (maxq : Nat)
  | stopApp
  | arrive (sock sender : Int)
  | alloc (v : Int)
  | init (v : Int)
  | gate1 (g : G1) (v : Int)
  | gate2 (g : G2) (v w : Int)
  | meas (v : Int)
  | free (v : Int)
  | eprCreate (remoteOk bad : Bool) (v : Option Int)
  | eprRecv (sock remote : Int) (bad : Bool) (v : Option Int)
  deriving DecidableEq, Repr

def QReq.vanilla : QReq → Bool
  | .arrive .. => false | .eprCreate .. => false | .eprRecv .. => false | _ => true

inductive QRes where
  | ok (val : Option Int)
  | err          -- a Python exception: the subroutine is aborted with an ErrorMessage
  | errPending   -- the same, raised while netqasm handled a link-layer response (which therefore stays pending)
  | blocked      -- EPR hand-over postponed by netqasm (polling timer): outside the model
  | envShort     -- the input streams are exhausted
  | unmodelled
  deriving DecidableEq, Repr

structure QOut (σ : Type) where
  st : σ
  env : Env
  ops : List TOp
  res : QRes

structure Backend (σ : Type) where
  q : σ → QReq → Env → QOut σ

/-- result of looking a virtual address up in a unit module -/
inductive Slot (α : Type) where
  | bad                          -- IndexError / ValueError: outside the unit module
  | empty (i : Nat)              -- slot i, not allocated
  | full (i : Nat) (a : α)
  deriving DecidableEq, Repr

/-- `unit_module[address]` with Python indexing (executor.py:1313-1324, 1422-1432, 1446) -/
def slotGet {α : Type} (um : List (Option α)) (v : Int) : Slot α :=
  match pyIdx um.length v with
  | none => .bad
  | some i =>
    match um[i]? with
    | some (some a) => .full i a
    | some none => .empty i
    | none => .bad

/-! ### concrete backend -/

structure CQ where
  um : Option (List (Option Nat))      -- unit module of the active application
  used : List Nat                      -- _used_physical_qubit_addresses
  qlist : List (Int × Nat)             -- factory.qubitList: physical id → token of the handle
  node : Node
  leaked : Nat                         -- ghost: qubitList entries no unit module knows (F13)
  deriving DecidableEq, Repr

namespace CQ

def out (c : CQ) (env : Env) (ops : List TOp) (r : QRes) : QOut CQ := ⟨c, env, ops, r⟩

/-- ghost: `n` more qubitList entries that no unit module knows -/
def leak (c : CQ) (n : Nat) : CQ := { c with leaked := c.leaked + n }

/-- `cmd_new` (executioner.py:132-149) -/
def cmdNew (c : CQ) (k : Int) : Option (CQ × Nat) :=
  match c.node.new with
  | none => none
  | some (n', t) => some ({ c with node := n', qlist := aSet c.qlist k t }, t)

/-- virtual address → token: `_get_position` then `get_virt_qubit` (executioner.py:218-229) -/
def resolve (c : CQ) (v : Int) : Option (Nat × Nat) :=
  match c.um with
  | none => none
  | some um =>
    match slotGet um v with
    | .full _ p =>
      match aGet c.qlist (p : Int) with
      | some t => some (p, t)
      | none => none                       -- UnknownQubitError
    | _ => none

def initApp (c : CQ) (maxq : Nat) (env : Env) : QOut CQ :=
  match c.um with
  | some _ => c.out env [] .unmodelled     -- a second application while one is active
  | none => out { c with um := some (List.replicate maxq none) } env [] (.ok none)

/-- `_clear_qubits` (executor.py:331-339) with `_clear_phys_qubit_in_memory`
(executioner.py:806-809): for every mapped address (paired with the outcome it will report),
destructive measurement + `remove_qubit_id`.  Returns the state, the operations and `false`
if an exception aborted the handler (the qubits not cleared yet then stay in qubitList). -/
def stopLoop (c : CQ) : List (Nat × Bool) → List TOp → CQ × List TOp × Bool
  | [], ops => (c, ops, true)
  | (p, o) :: ps, ops =>
    if p ∉ c.used then (c, ops, false)                                  -- set.remove: KeyError
    else
      let c1 := { c with used := c.used.erase p }
      match aGet c1.qlist (p : Int) with
      | none => (c1, ops, false)                                         -- UnknownQubitError
      | some t =>
        stopLoop { c1 with node := c1.node.drop t, qlist := aDel c1.qlist (p : Int) } ps (ops ++ [.meas t false o])

def stopApp (c : CQ) (env : Env) : QOut CQ :=
  match c.um with
  | none => c.out env [] .unmodelled
  | some um =>
    let ps := um.filterMap id
    if env.outs.length < ps.length then c.out env [] .envShort           -- not enough reported outcomes: no step
    else
      let r := stopLoop { c with um := none } (ps.zip env.outs) []
      r.1.out { env with outs := env.outs.drop ps.length } r.2.1 (if r.2.2 then .ok none else .err)

/-- a peer's `netqasm_send_epr_half` succeeded: the half sits in the receive queue -/
def arrive (c : CQ) (sock sender : Int) (env : Env) : QOut CQ :=
  if c.node.held.length ≥ c.node.cap then c.out env [] .err
  else
    let t := c.node.next
    out { c with node := { c.node with held := c.node.held ++ [t], next := t + 1,
                                        inbox := c.node.inbox ++ [(sock, sender, t)] } } env [] (.ok none)

/-- `_instr_qalloc` (executioner.py:125-130 after the roll-back repair; executor.py:1406-1440) -/
def alloc (c : CQ) (v : Int) (env : Env) : QOut CQ :=
  match c.um with
  | none => c.out env [] .err
  | some um =>
    match slotGet um v with
    | .bad => c.out env [] .err                   -- ValueError / IndexError
    | .full _ _ => c.out env [] .err              -- RuntimeError: already allocated
    | .empty i =>
      let p := firstFree c.used
      -- unit module and used-set are updated first, then cmd_new; on failure both are rolled back
      match cmdNew { c with um := some (um.set i (some p)), used := p :: c.used } (p : Int) with
      | none => c.out env [] .err                 -- node full: allocation undone
      | some (c', t) => c'.out env [.new t] (.ok none)

/-- `cmd_reset` (executioner.py:260-271): in-place measurement, X if 1 -/
def init (c : CQ) (v : Int) (env : Env) : QOut CQ :=
  match c.resolve v with
  | none => c.out env [] .err
  | some (_, t) =>
    match env.outs with
    | [] => c.out env [] .envShort
    | o :: rest =>
      c.out { env with outs := rest } ([.meas t true o] ++ (if o then [.gate1 .X t] else [])) (.ok none)

/-- `_do_single_qubit_instr` / `_do_single_qubit_rotation` (executioner.py:151-169, 213-216) -/
def gate1 (c : CQ) (g : G1) (v : Int) (env : Env) : QOut CQ :=
  match c.resolve v with
  | none => c.out env [] .err
  | some (_, t) => if g.supported then c.out env [.gate1 g t] (.ok none) else c.out env [] .err

/-- `_do_two_qubit_instr` / `apply_two_qubit_gate` (executioner.py:188-204) -/
def gate2 (c : CQ) (g : G2) (v w : Int) (env : Env) : QOut CQ :=
  match c.resolve v, c.resolve w with
  | some (p1, t1), some (p2, t2) =>
    if p1 = p2 then c.out env [] .err             -- control == target (same handle object)
    else c.out env [.gate2 g t1 t2] (.ok none)
  | _, _ => c.out env [] .err

/-- `_do_meas` / `cmd_measure(inplace=True)` (executioner.py:242-258) -/
def meas (c : CQ) (v : Int) (env : Env) : QOut CQ :=
  match c.resolve v with
  | none => c.out env [] .err
  | some (_, t) =>
    match env.outs with
    | [] => c.out env [] .envShort
    | o :: rest => c.out { env with outs := rest } [.meas t true o] (.ok (some (if o then 1 else 0)))

/-- `_free_physical_qubit` (executor.py:1442-1460) + `_clear_phys_qubit_in_memory` -/
def free (c : CQ) (v : Int) (env : Env) : QOut CQ :=
  match c.um with
  | none => c.out env [] .err
  | some um =>
    match slotGet um v with
    | .bad => c.out env [] .err
    | .empty _ => c.out env [] .err               -- RuntimeError: not allocated
    | .full i p =>
      match env.outs with
      | [] => c.out env [] .envShort
      | o :: rest =>
        let c0 := { c with um := some (um.set i none) }
        if p ∉ c0.used then c0.out env [] .err
        else
          let c1 := { c0 with used := c0.used.erase p }
          match aGet c1.qlist (p : Int) with
          | none => c1.out env [] .err
          | some t =>
            out { c1 with node := c1.node.drop t, qlist := aDel c1.qlist (p : Int) }
              { env with outs := rest } [.meas t false o] (.ok none)

/-- `_handle_epr_ok_k_response` (executor.py:1620-1651): map the pair's virtual address to physical id `q`.
`bad`: the request record at the head of the list is stale, or an earlier response is stuck in the pending
list — `_get_app_id` raises before anything is mapped. -/
def handOver (c : CQ) (q : Nat) (bad : Bool) (v : Option Int) : QRes × CQ :=
  if bad then (.errPending, c.leak 1)
  else
    match v, c.um with
    | some v, some um =>
      match slotGet um v with
      | .bad => (.errPending, c.leak 1)                         -- outside the unit module
      | .full _ _ => if 0 ≤ v then (.blocked, c.leak 1)         -- `_has_virtual_address`: wait and retry
                     else (.errPending, c.leak 1)               -- negative alias: already allocated
      | .empty i => (.ok none, { c with um := some (um.set i (some q)) })
    | _, _ => (.errPending, c.leak 1)                           -- address undefined / no unit module

/-- one pair of `_do_create_epr` (executioner.py:327-337) = `cmd_epr` (376-500), type K -/
def eprCreate (c : CQ) (remoteOk bad : Bool) (v : Option Int) (env : Env) : QOut CQ :=
  let q := firstFree c.used
  let c1 := { c with used := q :: c.used }
  if !remoteOk then c1.out env [] .err               -- unknown / own / non-adjacent node: before cmd_new
  else
    match c1.cmdNew (q : Int) with
    | none => c1.out env [] .err
    | some (c2, t1) =>
      match c2.cmdNew (-(1 + (q : Int))) with
      | none => (c2.leak 1).out env [.new t1] .err   -- F13: the first temporary qubit stays
      | some (c3, t2) =>
        let ops := [TOp.new t1, .new t2, .gate1 .H t1, .gate2 .cnot t1 t2]
        match env.sends with
        | [] => (c3.leak 2).out env ops .envShort
        | okS :: rest =>
          let env' := { env with sends := rest }
          if !okS then (c3.leak 2).out env' (ops ++ [.send t2 false]) .err     -- F13: receiver full
          else
            let c4 := { c3 with node := c3.node.drop t2, qlist := aDel c3.qlist (-(1 + (q : Int))) }
            let (r, c5) := c4.handOver q bad v
            c5.out env' (ops ++ [.send t2 true]) r

/-- one pair of `_do_recv_epr` (executioner.py:363-368) = `cmd_epr_recv` (732-782), type K -/
def eprRecv (c : CQ) (sock remote : Int) (bad : Bool) (v : Option Int) (env : Env) : QOut CQ :=
  let q := firstFree c.used
  let c1 := { c with used := q :: c.used }
  match c1.node.inbox.find? fun e => decide (e.1 = sock) with
  | none => c1.out env [] .err                       -- TimeoutError
  | some (s, sender, t) =>
    let c2 := { c1 with node := { c1.node with inbox := c1.node.inbox.erase (s, sender, t) } }
    if (aGet c2.qlist (q : Int)).isSome then c2.out env [.claim t] .unmodelled   -- "already in use": the popped qubit is lost
    else
      let c3 := { c2 with qlist := aSet c2.qlist (q : Int) t }
      if sender ≠ remote then (c3.leak 1).out env [.claim t] .blocked   -- no matching recv request: retried forever
      else
        let (r, c4) := c3.handOver q bad v
        c4.out env [.claim t] r

def q (c : CQ) : QReq → Env → QOut CQ
  | .initApp m, env => c.initApp m env
  | .stopApp, env => c.stopApp env
  | .arrive s d, env => c.arrive s d env
  | .alloc v, env => c.alloc v env
  | .init v, env => c.init v env
  | .gate1 g v, env => c.gate1 g v env
  | .gate2 g v w, env => c.gate2 g v w env
  | .meas v, env => c.meas v env
  | .free v, env => c.free v env
  | .eprCreate ok bad v, env => c.eprCreate ok bad v env
  | .eprRecv s r bad v, env => c.eprRecv s r bad v env

end CQ

def concrete : Backend CQ := ⟨CQ.q⟩

/-! ### token-level backend: addresses name tokens directly -/

structure AQ where
  aum : Option (List (Option Nat))
  node : Node
  deriving DecidableEq, Repr

namespace AQ

def out (a : AQ) (env : Env) (ops : List TOp) (r : QRes) : QOut AQ := ⟨a, env, ops, r⟩

def resolve (a : AQ) (v : Int) : Option (Nat × Nat) :=
  match a.aum with
  | none => none
  | some um => match slotGet um v with
    | .full i t => some (i, t)
    | _ => none

def initApp (a : AQ) (maxq : Nat) (env : Env) : QOut AQ :=
  match a.aum with
  | some _ => a.out env [] .unmodelled
  | none => out { a with aum := some (List.replicate maxq none) } env [] (.ok none)

def stopLoop (a : AQ) : List (Nat × Bool) → List TOp → AQ × List TOp
  | [], ops => (a, ops)
  | (t, o) :: ts, ops => stopLoop { a with node := a.node.drop t } ts (ops ++ [.meas t false o])

def stopApp (a : AQ) (env : Env) : QOut AQ :=
  match a.aum with
  | none => a.out env [] .unmodelled
  | some um =>
    let ts := um.filterMap id
    if env.outs.length < ts.length then a.out env [] .envShort
    else
      let r := stopLoop { a with aum := none } (ts.zip env.outs) []
      r.1.out { env with outs := env.outs.drop ts.length } r.2 (.ok none)

def alloc (a : AQ) (v : Int) (env : Env) : QOut AQ :=
  match a.aum with
  | none => a.out env [] .err
  | some um =>
    match slotGet um v with
    | .bad => a.out env [] .err
    | .full _ _ => a.out env [] .err
    | .empty i =>
      match a.node.new with
      | none => a.out env [] .err
      | some (n', t) => out { aum := some (um.set i (some t)), node := n' } env [.new t] (.ok none)

def init (a : AQ) (v : Int) (env : Env) : QOut AQ :=
  match a.resolve v with
  | none => a.out env [] .err
  | some (_, t) =>
    match env.outs with
    | [] => a.out env [] .envShort
    | o :: rest =>
      a.out { env with outs := rest } ([.meas t true o] ++ (if o then [.gate1 .X t] else [])) (.ok none)

def gate1 (a : AQ) (g : G1) (v : Int) (env : Env) : QOut AQ :=
  match a.resolve v with
  | none => a.out env [] .err
  | some (_, t) => if g.supported then a.out env [.gate1 g t] (.ok none) else a.out env [] .err

def gate2 (a : AQ) (g : G2) (v w : Int) (env : Env) : QOut AQ :=
  match a.resolve v, a.resolve w with
  | some (_, t1), some (_, t2) =>
    if t1 = t2 then a.out env [] .err
    else a.out env [.gate2 g t1 t2] (.ok none)
  | _, _ => a.out env [] .err

def meas (a : AQ) (v : Int) (env : Env) : QOut AQ :=
  match a.resolve v with
  | none => a.out env [] .err
  | some (_, t) =>
    match env.outs with
    | [] => a.out env [] .envShort
    | o :: rest => a.out { env with outs := rest } [.meas t true o] (.ok (some (if o then 1 else 0)))

def free (a : AQ) (v : Int) (env : Env) : QOut AQ :=
  match a.aum with
  | none => a.out env [] .err
  | some um =>
    match slotGet um v with
    | .bad => a.out env [] .err
    | .empty _ => a.out env [] .err
    | .full i t =>
      match env.outs with
      | [] => a.out env [] .envShort
      | o :: rest =>
        out { aum := some (um.set i none), node := a.node.drop t } { env with outs := rest }
          [.meas t false o] (.ok none)

/-- the token-level machine interprets the vanilla requests only -/
def q (a : AQ) : QReq → Env → QOut AQ
  | .initApp m, env => a.initApp m env
  | .stopApp, env => a.stopApp env
  | .alloc v, env => a.alloc v env
  | .init v, env => a.init v env
  | .gate1 g v, env => a.gate1 g v env
  | .gate2 g v w, env => a.gate2 g v w env
  | .meas v, env => a.meas v env
  | .free v, env => a.free v env
  | _, env => a.out env [] .unmodelled

end AQ

def tokenLevel : Backend AQ := ⟨AQ.q⟩

/-! ### classical state and the generic interpreter -/

structure Cl where
  regs : List (Nat × Int)                       -- RegisterGroup._register (defined entries only)
  arrays : List (Int × List (Option Int))       -- Arrays._arrays
  deriving DecidableEq, Repr

def Cl.empty : Cl := ⟨[], []⟩

structure St (σ : Type) where
  app : Option Nat          -- the active application
  socks : List Int          -- EPR sockets opened on this node (NetworkStack._sockets)
  peers : List Int          -- node ids this node may create entanglement with
  stale : List (Bool × Int × Int)   -- (create?, remote node, socket): a request record of a finished subroutine
                                    -- is still at the head of `_epr_create_requests` / `_epr_recv_requests`
  broken : Bool             -- a link-layer response is stuck in `_pending_epr_responses`
  cl : Cl
  q : σ

inductive Ctl where
  | next | goto (l : Nat) | err | unmodelled | envShort
  deriving DecidableEq, Repr

structure StepOut (σ : Type) where
  st : St σ
  env : Env
  replies : List Reply
  ops : List TOp
  ctl : Ctl

def regGet (cl : Cl) (r : Nat) : Option Int := aGet cl.regs r
def regSet (cl : Cl) (r : Nat) (v : Int) : Cl := { cl with regs := aSet cl.regs r v }

/-- `_expand_array_part` for an entry (executor.py:1350-1367) -/
def idxVal (cl : Cl) : Idx → Option Int
  | .imm n => some n
  | .reg r => regGet cl r

/-- `Arrays.__setitem__` for one entry: `none` = IndexError -/
def arrSetEntry (cl : Cl) (a : Int) (i : Int) (v : Option Int) : Option Cl :=
  match aGet cl.arrays a with
  | none => none
  | some arr =>
    match pyIdx arr.length i with
    | none => none
    | some j => some { cl with arrays := aSet cl.arrays a (arr.set j v) }

/-- `array[lo:lo+vals.length] = vals` with the length assertion of `Arrays.__setitem__` -/
def arrSetSlice (cl : Cl) (a : Int) (lo : Nat) (vals : List Int) : Option Cl :=
  match aGet cl.arrays a with
  | none => none
  | some arr =>
    if lo + vals.length ≤ arr.length then
      some { cl with arrays := aSet cl.arrays a (arr.take lo ++ vals.map some ++ arr.drop (lo + vals.length)) }
    else none

def pass {σ : Type} (s : St σ) (env : Env) : StepOut σ := ⟨s, env, [], [], .next⟩
def passCl {σ : Type} (s : St σ) (env : Env) (cl : Cl) : StepOut σ := ⟨{ s with cl := cl }, env, [], [], .next⟩
def fail {σ : Type} (s : St σ) (env : Env) : StepOut σ := ⟨s, env, [], [], .err⟩

/-- turn a backend answer into the outcome of the instruction -/
def ofQ {σ : Type} (s : St σ) (o : QOut σ) (upd : Option Int → Cl → Cl) : StepOut σ :=
  match o.res with
  | .ok val => ⟨{ s with q := o.st, cl := upd val s.cl }, o.env, [], o.ops, .next⟩
  | .err => ⟨{ s with q := o.st }, o.env, [], o.ops, .err⟩
  | .errPending => ⟨{ s with q := o.st }, o.env, [], o.ops, .err⟩
  | .blocked => ⟨{ s with q := o.st }, o.env, [], o.ops, .unmodelled⟩
  | .unmodelled => ⟨{ s with q := o.st }, o.env, [], o.ops, .unmodelled⟩
  | .envShort => ⟨{ s with q := o.st }, o.env, [], o.ops, .envShort⟩

/-- number of request arguments in the argument array of `create_epr`
(`len(LinkLayerCreate._fields) - 2` in netqasm 2.3.0) -/
def nCreateArgs : Nat := 22
/-- entries of one link-layer OK record (`OK_FIELDS_K`) -/
def okFields : Nat := 10

/-- the virtual address of pair `i`: entry `i` of the address array (`none`: no array / no entry / undefined) -/
def pairAddr (qarr : Option (List (Option Int))) (i : Nat) : Option Int :=
  match qarr with
  | none => none
  | some l => (l[i]?).join

/-- the pairs of one `create_epr` / `recv_epr`, one backend request each, followed by `_store_ent_info` -/
def eprLoop {σ : Type} (B : Backend σ) (mk : Option Int → QReq) (qarr : Option (List (Option Int))) (entA : Int) :
    Nat → Nat → St σ → Env → List TOp → StepOut σ
  | 0, _, s, env, ops => ⟨s, env, [], ops, .next⟩
  | n + 1, i, s, env, ops =>
    let o := B.q s.q (mk (pairAddr qarr i)) env
    match o.res with
    | .ok _ =>
      match o.env.infos with
      | [] => ⟨{ s with q := o.st }, o.env, [], ops ++ o.ops, .envShort⟩
      | info :: rest =>
        if info.length ≠ okFields then ⟨{ s with q := o.st }, o.env, [], ops ++ o.ops, .unmodelled⟩
        else
          match arrSetSlice s.cl entA (i * okFields) info with
          | none => ⟨{ s with q := o.st }, { o.env with infos := rest }, [], ops ++ o.ops, .unmodelled⟩   -- error now, then netqasm polls forever
          | some cl' => eprLoop B mk qarr entA n (i + 1) { s with q := o.st, cl := cl' } { o.env with infos := rest } (ops ++ o.ops)
    | .err => ⟨{ s with q := o.st }, o.env, [], ops ++ o.ops, .err⟩
    | .errPending => ⟨{ s with q := o.st, broken := true }, o.env, [], ops ++ o.ops, .err⟩
    | .envShort => ⟨{ s with q := o.st }, o.env, [], ops ++ o.ops, .envShort⟩
    | _ => ⟨{ s with q := o.st }, o.env, [], ops ++ o.ops, .unmodelled⟩

/-- after the pairs of one request: netqasm pops the request record only when all pairs were delivered
(executor.py:1587-1595); an aborted request leaves it at the head of its list -/
def eprDone {σ : Type} (key : Bool × Int × Int) (o : StepOut σ) : StepOut σ :=
  match o.ctl with
  | .next => o
  | _ => { o with st := { o.st with stale := key :: o.st.stale } }

/-- one instruction (executor.py `_execute_command` and the `_instr_*` / `_handle_*` methods) -/
def instrStep {σ : Type} (B : Backend σ) (s : St σ) (env : Env) : Instr → StepOut σ
  | .set r v => passCl s env (regSet s.cl r v)
  | .qalloc r =>
    match regGet s.cl r with
    | none => fail s env                                        -- RuntimeError: address not defined
    | some v => ofQ s (B.q s.q (.alloc v) env) fun _ cl => cl
  | .init r =>
    match regGet s.cl r with
    | none => fail s env
    | some v => ofQ s (B.q s.q (.init v) env) fun _ cl => cl
  | .gate1 g r =>
    match regGet s.cl r with
    | none => fail s env
    | some v => ofQ s (B.q s.q (.gate1 g v) env) fun _ cl => cl
  | .gate2 g r0 r1 =>
    match regGet s.cl r0, regGet s.cl r1 with
    | some v, some w => ofQ s (B.q s.q (.gate2 g v w) env) fun _ cl => cl
    | _, _ => fail s env
  | .meas qr c =>
    match regGet s.cl qr with
    | none => fail s env
    | some v => ofQ s (B.q s.q (.meas v) env) fun val cl =>
        match val with
        | some x => regSet cl c x
        | none => cl
  | .qfree r =>
    match regGet s.cl r with
    | none => fail s env
    | some v => ofQ s (B.q s.q (.free v) env) fun _ cl => cl
  | .store r a i =>
    match regGet s.cl r, idxVal s.cl i with
    | some x, some j =>
      match arrSetEntry s.cl a j (some x) with
      | some cl' => passCl s env cl'
      | none => fail s env
    | _, _ => fail s env
  | .load r a i =>
    match idxVal s.cl i with
    | none => fail s env
    | some j =>
      match aGet s.cl.arrays a with
      | none => fail s env                                     -- no such array: value None
      | some arr =>
        match pyIdx arr.length j with
        | none => fail s env
        | some k =>
          match arr[k]? with
          | some (some x) => passCl s env (regSet s.cl r x)
          | _ => fail s env                                    -- entry undefined
  | .lea r a => passCl s env (regSet s.cl r a)
  | .undef a i =>
    match idxVal s.cl i with
    | none => fail s env
    | some j =>
      match arrSetEntry s.cl a j none with
      | some cl' => passCl s env cl'
      | none => fail s env
  | .array r a =>
    match regGet s.cl r with
    | none => fail s env
    | some n => passCl s env { s.cl with arrays := aSet s.cl.arrays a (List.replicate n.toNat none) }
  | .cop op ro r0 r1 =>
    match regGet s.cl r0, regGet s.cl r1 with
    | some a, some b => passCl s env (regSet s.cl ro (match op with | .add => a + b | .sub => a - b))
    | _, _ => fail s env
  | .copm op ro r0 r1 rm =>
    match regGet s.cl rm with
    | none => fail s env                                       -- assert mod is not None
    | some m =>
      if m < 1 then fail s env
      else match regGet s.cl r0, regGet s.cl r1 with
        | some a, some b => passCl s env (regSet s.cl ro ((match op with | .add => a + b | .sub => a - b) % m))
        | _, _ => fail s env
  | .jmp l => ⟨s, env, [], [], .goto l⟩
  | .bru c r l =>
    let a := regGet s.cl r
    let cond := match c with
      | .bez => decide (a = some 0)
      | .bnz => decide (a ≠ some 0)
    ⟨s, env, [], [], if cond then .goto l else .next⟩
  | .brb c r0 r1 l =>
    let a := regGet s.cl r0
    let b := regGet s.cl r1
    match c with
    | .beq => ⟨s, env, [], [], if a = b then .goto l else .next⟩
    | .bne => ⟨s, env, [], [], if a = b then .next else .goto l⟩
    | .blt => match a, b with
      | some x, some y => ⟨s, env, [], [], if x < y then .goto l else .next⟩
      | _, _ => fail s env                                     -- TypeError: None < int
    | .bge => match a, b with
      | some x, some y => ⟨s, env, [], [], if x ≥ y then .goto l else .next⟩
      | _, _ => fail s env
  | .retReg r =>
    match regGet s.cl r with
    | none => fail s env
    | some x => ⟨s, env, [.retReg r x], [], .next⟩
  | .retArr a =>
    match aGet s.cl.arrays a with
    | none => fail s env
    | some arr => ⟨s, env, [.retArr a arr], [], .next⟩
  | .createEpr r0 r1 r2 r3 r4 =>
    match regGet s.cl r0, regGet s.cl r1, regGet s.cl r3, regGet s.cl r4 with
    | some remote, some sock, some argA, some entA =>
      match aGet s.cl.arrays argA with
      | some (typ :: num :: rest) =>
        if rest.length + 2 ≠ nCreateArgs then fail s env
        else if typ.getD 0 ≠ 0 then ⟨s, env, [], [], .unmodelled⟩       -- measure-directly / remote state preparation
        else
          let number : Int := num.getD 1
          if ¬ (s.socks.contains sock) then fail s env
          else
            match (regGet s.cl r2).bind (aGet s.cl.arrays) with
            | none => fail s env
            | some qs =>
              if (qs.length : Int) ≠ number then fail s env              -- "Not enough qubit addresses"
              else
                let key := (true, remote, sock)
                eprDone key (eprLoop B (fun v => .eprCreate (s.peers.contains remote) (s.broken || s.stale.contains key) v)
                  (some qs) entA qs.length 0 s env [])
      | _ => fail s env
    | _, _, _, _ => fail s env
  | .recvEpr r0 r1 r2 r3 =>
    match regGet s.cl r0, regGet s.cl r1, regGet s.cl r3 with
    | some remote, some sock, some entA =>
      match aGet s.cl.arrays entA with
      | none => fail s env
      | some ent =>
        let key := (false, remote, sock)
        eprDone key (eprLoop B (fun v => .eprRecv sock remote (s.broken || s.stale.contains key) v)
          ((regGet s.cl r2).bind (aGet s.cl.arrays)) entA (ent.length / okFields) 0 s env [])
    | _, _, _ => fail s env
  | .other => ⟨s, env, [], [], .unmodelled⟩

inductive Halt where
  | done | error | fuel | unmodelled | envShort
  deriving DecidableEq, Repr

structure RunOut (σ : Type) where
  st : St σ
  env : Env
  replies : List Reply
  ops : List TOp
  halt : Halt

/-- `_execute_commands` (executor.py:431-453): run until the program counter leaves the program
or an instruction raises; `fuel` bounds the number of executed instructions -/
def runProg {σ : Type} (B : Backend σ) (prog : List Instr) :
    Nat → Nat → St σ → Env → List Reply → List TOp → RunOut σ
  | 0, _, s, env, rs, ops => ⟨s, env, rs, ops, .fuel⟩
  | fuel + 1, pc, s, env, rs, ops =>
    match prog[pc]? with
    | none => ⟨s, env, rs, ops, .done⟩
    | some i =>
      let o := instrStep B s env i
      match o.ctl with
      | .next => runProg B prog fuel (pc + 1) o.st o.env (rs ++ o.replies) (ops ++ o.ops)
      | .goto l => runProg B prog fuel l o.st o.env (rs ++ o.replies) (ops ++ o.ops)
      | .err => ⟨o.st, o.env, rs ++ o.replies ++ [.error], ops ++ o.ops, .error⟩
      | .unmodelled => ⟨o.st, o.env, rs ++ o.replies, ops ++ o.ops, .unmodelled⟩
      | .envShort => ⟨o.st, o.env, rs ++ o.replies, ops ++ o.ops, .envShort⟩

inductive Msg where
  | init (app maxq : Nat)                -- InitNewAppMessage
  | openEpr (sock : Int)                 -- OpenEPRSocketMessage
  | sub (app : Nat) (prog : List Instr)  -- SubroutineMessage
  | stop (app : Nat)                     -- StopAppMessage
  | arrive (sock sender : Int)           -- environment: a peer delivered a pair half
  deriving DecidableEq, Repr

def Msg.vanilla : Msg → Bool
  | .init .. => true | .stop .. => true | .openEpr .. => true
  | .sub _ prog => prog.all Instr.vanilla
  | .arrive .. => false

def fromQ {σ : Type} (s : St σ) (o : QOut σ) (okSt : St σ → St σ) (okReplies : List Reply) : RunOut σ :=
  match o.res with
  | .ok _ => ⟨okSt { s with q := o.st }, o.env, okReplies, o.ops, .done⟩
  | .err => ⟨{ s with q := o.st }, o.env, [], o.ops, .error⟩
  | .errPending => ⟨{ s with q := o.st }, o.env, [], o.ops, .error⟩
  | .envShort => ⟨{ s with q := o.st }, o.env, [], o.ops, .envShort⟩
  | _ => ⟨{ s with q := o.st }, o.env, [], o.ops, .unmodelled⟩

/-- one host message (netqasm `QNodeController._handle_message` + qnodeos.py:39-41) -/
def runMsg {σ : Type} (B : Backend σ) (fuel : Nat) (s : St σ) (env : Env) : Msg → RunOut σ
  | .init app maxq =>
    match s.app with
    | some _ => ⟨s, env, [], [], .unmodelled⟩
    | none => fromQ s (B.q s.q (.initApp maxq) env) (fun s' => { s' with app := some app, cl := Cl.empty }) [.done]
  | .openEpr sock => ⟨{ s with socks := sock :: s.socks }, env, [.done], [], .done⟩
  | .sub app prog =>
    if s.app ≠ some app then ⟨s, env, [], [], .unmodelled⟩
    else
      let o := runProg B prog fuel 0 s env [] []
      match o.halt with
      | .done => { o with replies := o.replies ++ [.done] }
      | .error => { o with replies := o.replies ++ [.done] }       -- ErrorMessage, then MsgDone
      | _ => o
  | .stop app =>
    if s.app ≠ some app then ⟨s, env, [], [], .unmodelled⟩
    else
      -- `_remove_app` and the unit module's `pop` come first; on an exception nothing is answered
      fromQ { s with app := none, cl := Cl.empty } (B.q s.q .stopApp env) (fun s' => s') [.done]
  | .arrive sock sender => fromQ s (B.q s.q (.arrive sock sender) env) (fun s' => s') []

def Halt.continues : Halt → Bool
  | .done => true | .error => true | _ => false

/-- a history of messages; stops at the first message the model cannot follow -/
def runMsgs {σ : Type} (B : Backend σ) (fuel : Nat) : St σ → Env → List Msg → List (List Reply) → List TOp → RunOut σ × List (List Reply)
  | s, env, [], rss, ops => (⟨s, env, [], ops, .done⟩, rss)
  | s, env, m :: ms, rss, ops =>
    let o := runMsg B fuel s env m
    if o.halt.continues then runMsgs B fuel o.st o.env ms (rss ++ [o.replies]) (ops ++ o.ops)
    else (⟨o.st, o.env, o.replies, ops ++ o.ops, o.halt⟩, rss ++ [o.replies])

def CQ.fresh (cap : Nat) : CQ :=
  { um := none, used := [], qlist := [], node := ⟨cap, [], 0, []⟩, leaked := 0 }

def St.fresh (cap : Nat) (peers : List Int) : St CQ :=
  { app := none, socks := [], peers := peers, stale := [], broken := false, cl := Cl.empty, q := CQ.fresh cap }

end SqVerif.NqExec

import SqVerif.TwoPL
/-!
# From per-transaction lock discipline to the premises of the 2PL theorem — layer L3, serves C03

Core Lean only; generic over transactions (lists of `TwoPL.Act`), nothing about skeletons yet
(`SkelTwoPLTrans.lean` translates skeleton paths into such transactions).

`TwoPL.twoPL_serializable` needs three *schedule-level* premises: `AllWF`, `AllTwoPhase`, `Legal guard tbl`.
This file derives them from *per-transaction* facts plus lock exclusivity of the schedule:

* `LockExcl tbl s`      the lock steps of the schedule respect exclusivity (acquire only a free lock, release
                        only a lock one holds); effects are unconstrained.  This is what the lock objects
                        themselves (Twisted's `DeferredLock`) enforce.
* `selfGuarded guard a` inside transaction `a` alone, every effect happens while `a` holds the guard of every
                        resource in its footprint (held = acquired earlier in `a` and not released since).
* `noReacq a`           `a` never acquires a lock it already holds (true of every transaction of a
                        lock-exclusive schedule: `noReacq_of_lockExcl`).
* `legal_of_lockExcl`   `LockExcl` + all transactions `selfGuarded`  ⟹  `Legal guard`.
* `WeakTP a`            two-phase *modulo aborted attempts*: no acquire after a release that follows an effect
                        (this is what the skeleton monitor `Skel.twoPhase` checks).
* `dropAb`              removes the aborted attempts from a schedule: every release a transaction makes before
                        its first effect, together with the acquire it undoes.  `dropAb_legal`: the result is
                        still legal; `exec_dropAb`: it has the same effect on every state; `dropAb_twoPhase`:
                        it is two-phase in the strict sense of `TwoPL.TwoPhase`.
* `weak2pl_serializable`  the combination, obtained by instantiating `TwoPL.twoPL_serializable` at `dropAb [] s`.
-/
namespace SqVerif.SkelTwoPL
open SqVerif.TwoPL

variable {V : Type}

/-- a transaction: the steps of one operation, in program order -/
abbrev Txn (V : Type) := List (Act V)

/-- the transaction that `t` runs in schedule `s` -/
def acts (t : Tid) (s : Sched V) : Txn V := (proj t s).map (fun x => x.act)

theorem acts_nil (t : Tid) : acts t ([] : Sched V) = [] := rfl

theorem acts_cons_self (x : Step V) (xs : Sched V) : acts x.tid (x :: xs) = x.act :: acts x.tid xs := by
  simp [acts, proj]

theorem acts_cons_ne (t : Tid) (x : Step V) (xs : Sched V) (h : x.tid ≠ t) : acts t (x :: xs) = acts t xs := by
  simp [acts, proj, h]

theorem mem_acts (s : Sched V) (x : Step V) (hx : x ∈ s) : x.act ∈ acts x.tid s := by
  unfold acts proj
  exact List.mem_map.2 ⟨x, List.mem_filter.2 ⟨hx, by simp⟩, rfl⟩

/-- `s` is an interleaving of the transactions `ops` (transaction `i` runs under tid `i`) -/
def IsInterleaving (ops : List (Txn V)) (s : Sched V) : Prop := ∀ t, acts t s = ops.getD t []

/-! ### lock exclusivity -/

/-- one step of the lock table when only the lock steps are constrained -/
def stepLk (tbl : Tbl) (x : Step V) : Option Tbl :=
  match x.act with
  | .acq l => if tbl l = none then some (upd tbl l (some x.tid)) else none
  | .rel l => if tbl l = some x.tid then some (upd tbl l none) else none
  | .eff _ _ => some tbl

/-- the lock steps respect exclusivity: acquire only when free, release only by the holder -/
def LockExcl : Tbl → Sched V → Prop
  | _, [] => True
  | tbl, x :: xs => ∃ tbl', stepLk tbl x = some tbl' ∧ LockExcl tbl' xs

def lockExclB : Tbl → Sched V → Bool
  | _, [] => true
  | tbl, x :: xs =>
    match stepLk tbl x with
    | some tbl' => lockExclB tbl' xs
    | none => false

theorem lockExclB_sound (s : Sched V) : ∀ tbl, lockExclB tbl s = true → LockExcl tbl s := by
  induction s with
  | nil => intro _ _; trivial
  | cons x xs ih =>
    intro tbl h
    simp only [lockExclB] at h
    cases hs : stepLk tbl x with
    | none => rw [hs] at h; cases h
    | some tbl' => rw [hs] at h; exact ⟨tbl', hs, ih tbl' h⟩

/-- a legal schedule is in particular lock-exclusive -/
theorem lockExcl_of_legal (guard : Res → Lock) (s : Sched V) : ∀ tbl, Legal guard tbl s → LockExcl tbl s := by
  induction s with
  | nil => intro _ _; trivial
  | cons x xs ih =>
    intro tbl h
    obtain ⟨tbl', hs, hrest⟩ := h
    refine ⟨tbl', ?_, ih tbl' hrest⟩
    unfold stepTbl at hs
    unfold stepLk
    cases hx : x.act with
    | acq l => rw [hx] at hs; exact hs
    | rel l => rw [hx] at hs; exact hs
    | eff fp f =>
      rw [hx] at hs
      simp only at hs ⊢
      split at hs
      · exact hs
      · cases hs

/-! ### locks held inside one transaction -/

def holdStep (H : List Lock) : Act V → List Lock
  | .acq l => l :: H
  | .rel l => H.filter (fun l' => l' != l)
  | .eff _ _ => H

/-- the locks held after running the transaction prefix `a`, having started with `H` -/
def holds (H : List Lock) (a : Txn V) : List Lock := a.foldl holdStep H

theorem holds_append (H : List Lock) (a b : Txn V) : holds H (a ++ b) = holds (holds H a) b := by
  simp [holds, List.foldl_append]

/-- every effect happens while the transaction itself holds the guard of every resource it touches -/
def selfGuardedFrom (guard : Res → Lock) : List Lock → Txn V → Prop
  | _, [] => True
  | H, a :: r => (∀ x, x ∈ a.fp → guard x ∈ H) ∧ selfGuardedFrom guard (holdStep H a) r

def selfGuarded (guard : Res → Lock) (a : Txn V) : Prop := selfGuardedFrom guard [] a

theorem selfGuardedFrom_append (guard : Res → Lock) (a b : Txn V) : ∀ H,
    selfGuardedFrom guard H (a ++ b) ↔ selfGuardedFrom guard H a ∧ selfGuardedFrom guard (holds H a) b := by
  induction a with
  | nil => intro H; simp [selfGuardedFrom, holds]
  | cons x xs ih =>
    intro H
    simp only [List.cons_append, selfGuardedFrom, ih, holds, List.foldl_cons, and_assoc]

/-- the positional reading of `selfGuardedFrom` -/
theorem selfGuardedFrom_spec (guard : Res → Lock) (H : List Lock) (a : Txn V) (h : selfGuardedFrom guard H a)
    (pre : Txn V) (fp : List Res) (f : St V → St V) (post : Txn V) (hsplit : a = pre ++ Act.eff fp f :: post) :
    ∀ x, x ∈ fp → guard x ∈ holds H pre := by
  subst hsplit
  have := ((selfGuardedFrom_append guard pre _ H).1 h).2
  exact this.1

/-- the transaction never acquires a lock it already holds -/
def noReacqFrom : List Lock → Txn V → Prop
  | _, [] => True
  | H, a :: r => (∀ l, a = Act.acq l → l ∉ H) ∧ noReacqFrom (holdStep H a) r

def noReacq (a : Txn V) : Prop := noReacqFrom [] a

theorem noReacqFrom_append (a b : Txn V) : ∀ H,
    noReacqFrom H (a ++ b) ↔ noReacqFrom H a ∧ noReacqFrom (holds H a) b := by
  induction a with
  | nil => intro H; simp [noReacqFrom, holds]
  | cons x xs ih =>
    intro H
    simp only [List.cons_append, noReacqFrom, ih, holds, List.foldl_cons, and_assoc]

/-! ### the table agrees with what each transaction holds -/

/-- whatever transaction `t` holds by its own account is assigned to `t` in the lock table -/
def HInv (tbl : Tbl) (Hs : Tid → List Lock) : Prop := ∀ t l, l ∈ Hs t → tbl l = some t

def updH (Hs : Tid → List Lock) (x : Step V) : Tid → List Lock :=
  fun t => if t = x.tid then holdStep (Hs t) x.act else Hs t

theorem updH_self (Hs : Tid → List Lock) (x : Step V) : updH Hs x x.tid = holdStep (Hs x.tid) x.act := by
  simp [updH]

theorem updH_ne (Hs : Tid → List Lock) (x : Step V) (t : Tid) (h : x.tid ≠ t) : updH Hs x t = Hs t := by
  have : t ≠ x.tid := fun e => h e.symm
  simp [updH, this]

theorem hinv_step (tbl tbl' : Tbl) (Hs : Tid → List Lock) (x : Step V)
    (h : stepLk tbl x = some tbl') (hi : HInv tbl Hs) : HInv tbl' (updH Hs x) := by
  intro t l hl
  unfold stepLk at h
  cases hx : x.act with
  | acq l0 =>
    rw [hx] at h
    simp only at h
    split at h
    · rename_i hfree
      simp only [Option.some.injEq] at h
      subst h
      unfold upd
      by_cases ht : t = x.tid
      · subst ht
        rw [updH_self, hx] at hl
        simp only [holdStep, List.mem_cons] at hl
        rcases hl with rfl | hl
        · simp
        · have := hi _ _ hl
          split
          · rfl
          · exact this
      · rw [updH_ne Hs x t (fun e => ht e.symm)] at hl
        have := hi _ _ hl
        split
        · rename_i heq; subst heq; rw [hfree] at this; cases this
        · exact this
    · cases h
  | rel l0 =>
    rw [hx] at h
    simp only at h
    split at h
    · rename_i hown
      simp only [Option.some.injEq] at h
      subst h
      unfold upd
      by_cases ht : t = x.tid
      · subst ht
        rw [updH_self, hx] at hl
        simp only [holdStep, List.mem_filter, bne_iff_ne, ne_eq] at hl
        rw [if_neg hl.2]
        exact hi _ _ hl.1
      · rw [updH_ne Hs x t (fun e => ht e.symm)] at hl
        have := hi _ _ hl
        split
        · rename_i heq; subst heq; rw [hown] at this
          simp only [Option.some.injEq] at this
          exact absurd this.symm ht
        · exact this
    · cases h
  | eff fp f =>
    rw [hx] at h
    simp only [Option.some.injEq] at h
    subst h
    by_cases ht : t = x.tid
    · subst ht
      rw [updH_self, hx] at hl
      exact hi _ _ hl
    · rw [updH_ne Hs x t (fun e => ht e.symm)] at hl
      exact hi _ _ hl

/-- in a lock-exclusive schedule no transaction acquires a lock it already holds -/
theorem noReacqFrom_of_lockExcl (s : Sched V) : ∀ (tbl : Tbl) (Hs : Tid → List Lock),
    HInv tbl Hs → LockExcl tbl s → ∀ t, noReacqFrom (Hs t) (acts t s) := by
  induction s with
  | nil => intro _ _ _ _ t; trivial
  | cons x xs ih =>
    intro tbl Hs hi hle t
    obtain ⟨tbl', hs, hrest⟩ := hle
    have IH := ih tbl' (updH Hs x) (hinv_step tbl tbl' Hs x hs hi) hrest t
    by_cases ht : x.tid = t
    · subst ht
      rw [acts_cons_self]
      rw [updH_self] at IH
      refine ⟨?_, IH⟩
      intro l hl hmem
      have hheld := hi _ _ hmem
      unfold stepLk at hs
      rw [hl] at hs
      simp only at hs
      rw [hheld] at hs
      simp at hs
    · rw [acts_cons_ne t x xs ht]
      rw [updH_ne Hs x t ht] at IH
      exact IH

theorem noReacq_of_lockExcl (s : Sched V) (tbl : Tbl) (h : LockExcl tbl s) (t : Tid) : noReacq (acts t s) :=
  noReacqFrom_of_lockExcl s tbl (fun _ => []) (fun _ _ hl => by cases hl) h t

/-- **guards**: a lock-exclusive schedule all of whose transactions touch a resource only while they hold its
    guard themselves is `Legal` — the "`eff` needs the guard" part of `Legal` follows from the per-transaction
    discipline and the exclusivity of the lock objects. -/
theorem legal_of_lockExcl_from (guard : Res → Lock) (s : Sched V) : ∀ (tbl : Tbl) (Hs : Tid → List Lock),
    HInv tbl Hs → LockExcl tbl s → (∀ t, selfGuardedFrom guard (Hs t) (acts t s)) → Legal guard tbl s := by
  induction s with
  | nil => intro _ _ _ _ _; trivial
  | cons x xs ih =>
    intro tbl Hs hi hle hg
    obtain ⟨tbl', hs, hrest⟩ := hle
    have hgx := hg x.tid
    rw [acts_cons_self] at hgx
    obtain ⟨hfp, hgrest⟩ := hgx
    have hstep : stepTbl guard tbl x = some tbl' := by
      unfold stepLk at hs
      unfold stepTbl
      cases hx : x.act with
      | acq l => rw [hx] at hs; exact hs
      | rel l => rw [hx] at hs; exact hs
      | eff fp f =>
        rw [hx] at hs hfp
        simp only [Option.some.injEq] at hs
        subst hs
        simp only
        have : fp.all (fun r => tbl (guard r) == some x.tid) = true := by
          apply List.all_eq_true.2
          intro r hr
          have := hi _ _ (hfp r hr)
          simp [this]
        rw [if_pos this]
    refine ⟨tbl', hstep, ih tbl' (updH Hs x) (hinv_step tbl tbl' Hs x hs hi) hrest ?_⟩
    intro t
    by_cases ht : x.tid = t
    · subst ht
      rw [updH_self]
      exact hgrest
    · rw [updH_ne Hs x t ht]
      have := hg t
      rw [acts_cons_ne t x xs ht] at this
      exact this

theorem legal_of_lockExcl (guard : Res → Lock) (s : Sched V) (tbl : Tbl) (hle : LockExcl tbl s)
    (hg : ∀ t, selfGuarded guard (acts t s)) : Legal guard tbl s :=
  legal_of_lockExcl_from guard s tbl (fun _ => []) (fun _ _ hl => by cases hl) hle hg

end SqVerif.SkelTwoPL

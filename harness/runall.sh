#!/bin/bash
# runall.sh [tier] : every check once on /repo, sequentially; summary line per check
cd "$(dirname "$0")/.."
TIER=${1:-quick}
mkdir -p out
for p in C01 C02 C03 C04 C05 C06 C07 C08 C09 C10 C11 C12 C13 C14 C15 C16 C17 C18 C19 C20; do
  ./check $p --tier $TIER > out/runall_$p.log 2>&1; rc=$?
  echo "$p rc=$rc $(grep -c '^KNOWN-FINDING' out/runall_$p.log) known :: $(grep -E '^VIOLATION|^MACHINERY' out/runall_$p.log | head -2 | tr '\n' ' ') $(tail -1 out/runall_$p.log | cut -c1-150)"
done

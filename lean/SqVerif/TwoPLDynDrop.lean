import SqVerif.TwoPLDyn
import SqVerif.SkelTwoPLDrop
/-!
# T03.1′ modulo aborted attempts (optimistic "acquire, re-validate, else release and retry") — layer L3, serves C03

The optimistic readers of `virtual.py` (`_lock_simulating_node`, `_lock_nodes`) acquire the lock of the node the
pointer names, re-validate the pointer, and on failure release and retry.  A failed attempt is an `acq`/`rel`
pair with no effect in between; `SkelTwoPLDrop.dropAb` removes exactly those, `WeakTP` is the per-transaction
discipline "no acquire after a release that follows an effect".

This file transports `dropAb_legal` to the dynamic discipline through `freeze` (`dropAb` looks only at the
transaction id and the kind of a step, both of which `freeze` keeps; the dropped steps do not change the data
state) and combines it with `twoPLDyn_serializable`: `weak2plDyn_serializable`.

Also here (they need `SkelTwoPL`): `allWeakTPB` (executable check of `∀ t, WeakTP (acts t s)`), `lockRun` /
`legal_prefix` (the lock table after a prefix, to refute static guards on an instance) and `legalD_of_lockExcl`
(`LockExcl` + per-transaction account of the locks held ⟹ `LegalD`, from `legal_of_lockExcl` through `freeze`).
-/
namespace SqVerif.TwoPLDyn
open SqVerif.TwoPL SqVerif.SkelTwoPL

variable {V : Type}

theorem abortedAcq_freeze (guard : DGuard V) (t : Tid) (l : Lock) (s : Sched V) : ∀ (σ : St V),
    abortedAcq t l (freeze guard σ s) = abortedAcq t l s := by
  induction s with
  | nil => intro _; rfl
  | cons x xs ih =>
    intro σ
    simp only [freeze]
    cases hx : x.act with
    | acq l0 =>
      have hf : frzStep guard σ x = x := by unfold frzStep; rw [hx]
      rw [hf, abortedAcq_cons_acq t l l0 x _ hx, abortedAcq_cons_acq t l l0 x _ hx, ih]
    | rel l0 =>
      have hf : frzStep guard σ x = x := by unfold frzStep; rw [hx]
      rw [hf, abortedAcq_cons_rel t l l0 x _ hx, abortedAcq_cons_rel t l l0 x _ hx, ih]
    | eff fp f =>
      have hf : frzStep guard σ x = ⟨x.tid, .eff (needLocks guard σ fp f) f⟩ := by unfold frzStep; rw [hx]
      rw [hf, abortedAcq_cons_eff t l ⟨x.tid, .eff (needLocks guard σ fp f) f⟩ _ _ f rfl,
        abortedAcq_cons_eff t l x _ fp f hx, ih]

theorem pruneTbl_freeze (guard : DGuard V) (E : List Tid) (s : Sched V) (σ : St V) (tbl : Tbl) :
    pruneTbl E (freeze guard σ s) tbl = pruneTbl E s tbl := by
  funext l
  unfold pruneTbl
  cases tbl l with
  | none => rfl
  | some t => simp only [abortedAcq_freeze]

theorem dropAb_freeze (guard : DGuard V) (s : Sched V) : ∀ (E : List Tid) (σ : St V),
    dropAb E (freeze guard σ s) = freeze guard σ (dropAb E s) := by
  induction s with
  | nil => intro _ _; rfl
  | cons x xs ih =>
    intro E σ
    cases hx : x.act with
    | acq l0 =>
      have hf : frzStep guard σ x = x := by unfold frzStep; rw [hx]
      simp only [freeze, hf, dropAb, hx, abortedAcq_freeze]
      split
      · exact ih E σ
      · simp only [freeze, hf, hx, Act.run, ih]
    | rel l0 =>
      have hf : frzStep guard σ x = x := by unfold frzStep; rw [hx]
      simp only [freeze, hf, dropAb, hx]
      split
      · simp only [freeze, hf, hx, Act.run, ih]
      · exact ih E σ
    | eff fp f =>
      have hf : frzStep guard σ x = ⟨x.tid, .eff (needLocks guard σ fp f) f⟩ := by unfold frzStep; rw [hx]
      simp only [freeze, hf, dropAb, hx, ih]

/-- removing the aborted attempts keeps a schedule legal under the dynamic discipline (from the same data
    state: the dropped steps are lock steps) -/
theorem dropAb_legalD (guard : DGuard V) (s : Sched V) (E : List Tid) (tbl : Tbl) (σ : St V)
    (h : LegalD guard tbl σ s) : LegalD guard (pruneTbl E s tbl) σ (dropAb E s) := by
  have h1 := dropAb_legal idGuard (freeze guard σ s) E tbl ((legalD_iff_freeze guard s tbl σ).1 h)
  rw [pruneTbl_freeze, dropAb_freeze] at h1
  exact (legalD_iff_freeze guard _ _ σ).2 h1

theorem dropAb_gf (guard : DGuard V) (s : Sched V) (E : List Tid) (h : AllGF guard s) : AllGF guard (dropAb E s) :=
  fun x hx => h x (mem_dropAb s E x hx)

/-- **T03.1′ modulo aborted attempts.**  `s` is legal under the dynamic discipline, its effects are local and
    guard-framed, and every transaction is two-phase modulo aborted attempts (`WeakTP`: releases made before the
    first effect — the failed re-validations — are allowed).  Then `s' = dropAb [] s` (all effects kept, in
    order) satisfies every premise of `twoPLDyn_serializable`, and sorting it by lock point yields the effect
    of `s` on every state. -/
theorem weak2plDyn_serializable (guard : DGuard V) (s : Sched V) (tbl : Tbl) (σ0 : St V)
    (hwf : AllWF s) (hgf : AllGF guard s) (h2p : ∀ t, WeakTP (acts t s)) (hleg : LegalD guard tbl σ0 s) :
    AllWF (dropAb [] s) ∧ AllGF guard (dropAb [] s) ∧ AllTwoPhase (dropAb [] s) ∧
    LegalD guard (pruneTbl [] s tbl) σ0 (dropAb [] s) ∧
    ∀ st, exec (sortR (rankOf (dropAb [] s)) (dropAb [] s)) st = exec s st := by
  have h1 := dropAb_wf s [] hwf
  have h2 := dropAb_gf guard s [] hgf
  have h3 := dropAb_allTwoPhase s h2p
  have h4 := dropAb_legalD guard s [] tbl σ0 hleg
  refine ⟨h1, h2, h3, h4, ?_⟩
  intro st
  rw [twoPLDyn_serializable guard (dropAb [] s) _ σ0 h1 h2 h3 h4 st, exec_dropAb]

/-! ### executable check of `∀ t, WeakTP (acts t s)` -/

def allWeakTPB (s : Sched V) : Bool := s.all (fun x => weakTPB false false (acts x.tid s))

theorem acts_nil_of_absent (s : Sched V) (t : Tid) (h : ∀ x, x ∈ s → x.tid ≠ t) : acts t s = [] := by
  unfold acts proj
  rw [List.filter_eq_nil_iff.2]
  · rfl
  · intro x hx
    simpa using h x hx

theorem allWeakTPB_sound (s : Sched V) (h : allWeakTPB s = true) : ∀ t, WeakTP (acts t s) := by
  intro t
  by_cases ht : ∃ x, x ∈ s ∧ x.tid = t
  · obtain ⟨x, hx, rfl⟩ := ht
    exact (List.all_eq_true.1 h) x hx
  · rw [acts_nil_of_absent s t (fun x hx hxt => ht ⟨x, hx, hxt⟩)]
    rfl

/-! ### running the lock table over a prefix (for refuting static guards on an instance) -/

/-- the lock table after the lock steps of `p` (effects do not change it and are not checked) -/
def lockRun : Tbl → Sched V → Option Tbl
  | tbl, [] => some tbl
  | tbl, x :: xs =>
    match stepLk tbl x with
    | some tbl' => lockRun tbl' xs
    | none => none

theorem stepLk_of_stepTbl (g : Res → Lock) (tbl tbl' : Tbl) (x : Step V) (h : stepTbl g tbl x = some tbl') :
    stepLk tbl x = some tbl' := by
  unfold stepTbl at h
  unfold stepLk
  cases hx : x.act with
  | acq l => rw [hx] at h; exact h
  | rel l => rw [hx] at h; exact h
  | eff fp f =>
    rw [hx] at h
    simp only at h ⊢
    split at h
    · exact h
    · cases h

/-- in a statically legal schedule, the step after the prefix `p` is legal at the table `lockRun` computes -/
theorem legal_prefix (g : Res → Lock) (p : Sched V) : ∀ (tbl : Tbl) (x : Step V) (q : Sched V),
    Legal g tbl (p ++ x :: q) → ∃ tbl', lockRun tbl p = some tbl' ∧ stepTbl g tbl' x ≠ none := by
  induction p with
  | nil =>
    intro tbl x q h
    obtain ⟨tbl', hs, _⟩ := h
    exact ⟨tbl, rfl, by rw [hs]; simp⟩
  | cons y ys ih =>
    intro tbl x q h
    obtain ⟨tbl', hs, hrest⟩ := h
    obtain ⟨tbl'', h1, h2⟩ := ih tbl' x q hrest
    exact ⟨tbl'', by simp only [lockRun, stepLk_of_stepTbl g tbl tbl' y hs, h1], h2⟩

theorem stepTbl_eff_needs (g : Res → Lock) (tb : Tbl) (x : Step V) (fp : List Res) (f : St V → St V)
    (hx : x.act = .eff fp f) (h : stepTbl g tb x ≠ none) : ∀ r, r ∈ fp → tb (g r) = some x.tid := by
  intro r hr
  unfold stepTbl at h
  rw [hx] at h
  simp only at h
  split at h
  · rename_i hall
    simpa using (List.all_eq_true.1 hall) r hr
  · exact absurd rfl h

/-! ### from lock exclusivity + what each transaction holds by its own account to `LegalD` -/

theorem stepLk_frz (guard : DGuard V) (tbl : Tbl) (σ : St V) (x : Step V) :
    stepLk tbl (frzStep guard σ x) = stepLk tbl x := by
  unfold frzStep stepLk
  cases hx : x.act <;> simp [hx]

theorem lockExcl_freeze (guard : DGuard V) (s : Sched V) : ∀ (tbl : Tbl) (σ : St V),
    LockExcl tbl s → LockExcl tbl (freeze guard σ s) := by
  induction s with
  | nil => intro _ _ _; trivial
  | cons x xs ih =>
    intro tbl σ h
    obtain ⟨tbl', hs, hrest⟩ := h
    exact ⟨tbl', by rw [stepLk_frz]; exact hs, ih tbl' _ hrest⟩

/-- the transaction `t` as it ran in `s` from `σ`, every effect annotated with the locks the dynamic discipline
    asked of it at the state in which it ran -/
def frozenActs (guard : DGuard V) (σ : St V) (t : Tid) (s : Sched V) : Txn V := acts t (freeze guard σ s)

/-- **guards (dynamic)**: exclusivity of the lock objects + every transaction, by its own account (acquired
    earlier in the same transaction, not released since), holds at each of its effects the old and the new guard
    of the footprint ⟹ `LegalD`.  The per-transaction premise is a run-time fact about the trace (the locks
    needed are those of the state in which the effect ran) — it is what the re-validation establishes for a
    reader, and what "holds old and new" means for the writer. -/
theorem legalD_of_lockExcl (guard : DGuard V) (s : Sched V) (tbl : Tbl) (σ : St V) (hle : LockExcl tbl s)
    (hg : ∀ t, selfGuarded idGuard (frozenActs guard σ t s)) : LegalD guard tbl σ s :=
  (legalD_iff_freeze guard s tbl σ).2
    (legal_of_lockExcl idGuard (freeze guard σ s) tbl (lockExcl_freeze guard s tbl σ hle) hg)

end SqVerif.TwoPLDyn

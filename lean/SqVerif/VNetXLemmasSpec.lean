import SqVerif.VNetXLemmasQueue
/-
L2x — helper lemmas (5): case analyses of `remote_new_qubit_inreg` and of the NetQASM send
wrapper, the register budget, and the poll of a record whose qubit is still held.
-/
namespace SqVerif.VNetX
open SqVerif.VNet SqVerif.VNet.WFP List

/-- size and limit of register `r` of node `a`, as the node's register table has it (an empty
client register has size 0) -/
def regSlot (s : NetX) (a r : Nat) : Option (Nat × Nat) :=
  match s.base.nodes[a]? with
  | none => none
  | some n =>
    match (extOf s a).free.find? (fun p => p.1 == r) with
    | some p => some (0, p.2)
    | none => (n.reg? r).map fun rg => (rg.toks.length, rg.max)

/-- all outcomes of `remote_new_qubit_inreg` at an existing node -/
theorem stepNewInReg_cases (s : NetX) (a r : Nat) (n : Node) (hn : s.base.nodes[a]? = some n) :
    (regSlot s a r = none ∧ stepNewInReg s a r = fail s (.res (.err .quantum))) ∨
    (∃ len max, regSlot s a r = some (len, max) ∧ (n.maxQubits ≤ n.virt.length ∨ max ≤ len) ∧
      stepNewInReg s a r = fail s (.res (.err .noQubit))) ∨
    (∃ len max, regSlot s a r = some (len, max) ∧ n.virt.length < n.maxQubits ∧ len < max ∧
      (stepNewInReg s a r).res = .res (.handle s.base.vqs.length) ∧
      (stepNewInReg s a r).eops = [.addFresh a r] ∧ (stepNewInReg s a r).qev = [] ∧
      (∀ i, i ≠ a → (stepNewInReg s a r).st.base.nodes[i]? = s.base.nodes[i]?) ∧
      (∃ n', (stepNewInReg s a r).st.base.nodes[a]? = some n' ∧ n'.virt = n.virt ++ [s.base.vqs.length])) := by
  unfold stepNewInReg regSlot
  simp only [hn]
  cases hfind : (extOf s a).free.find? (fun p => p.1 == r) with
  | some p =>
    simp only
    rcases Nat.lt_or_ge n.virt.length n.maxQubits with h1 | h1
    · rcases Nat.lt_or_ge 0 p.2 with h2 | h2
      · right; right
        refine ⟨0, p.2, rfl, h1, h2, ?_⟩
        simp only [ge_iff_le, Nat.not_le.2 h1, Nat.not_le.2 h2, if_false]
        have hn1 : (adoptReg s.base a r p.2).nodes[a]? = some (adNode r p.2 n) := by
          rw [adoptReg_eq]; exact modNode_nodes_self _ hn
        have hnodes := addFreshIn_nodes (s := adoptReg s.base a r p.2) (n := adNode r p.2 n) r 0 hn1
        have hsame : addFreshIn (adoptReg s.base a r p.2) a n r 0 = addFreshIn (adoptReg s.base a r p.2) a (adNode r p.2 n) r 0 := rfl
        refine ⟨by first | rfl | trivial, by first | rfl | trivial, by first | rfl | trivial, ?_, ?_⟩
        · intro i hi
          simp only [hsame, hnodes, if_neg hi]
          rw [adoptReg_eq]; exact modNode_nodes_ne _ _ _ i hi
        · exact ⟨fiNode (adoptReg s.base a r p.2) (adNode r p.2 n) r, by simp only [hsame, hnodes, if_true], rfl⟩
      · right; left
        exact ⟨0, p.2, rfl, Or.inr h2, by simp [Nat.not_le.2 h1, h2]⟩
    · right; left
      exact ⟨0, p.2, rfl, Or.inl h1, by simp [h1]⟩
  | none =>
    cases hreg : n.reg? r with
    | none => left; exact ⟨rfl, rfl⟩
    | some rg =>
      simp only [Option.map_some]
      rcases Nat.lt_or_ge n.virt.length n.maxQubits with h1 | h1
      · rcases Nat.lt_or_ge rg.toks.length rg.max with h2 | h2
        · right; right
          refine ⟨_, _, rfl, h1, h2, ?_⟩
          simp only [ge_iff_le, Nat.not_le.2 h1, Nat.not_le.2 h2, if_false]
          have hnodes := addFreshIn_nodes (s := s.base) r rg.toks.length hn
          refine ⟨by first | rfl | trivial, by first | rfl | trivial, by first | rfl | trivial, ?_, ?_⟩
          · intro i hi; simp only [hnodes, if_neg hi]
          · exact ⟨fiNode s.base n r, by simp only [hnodes, if_true], rfl⟩
        · right; left
          exact ⟨_, _, rfl, Or.inr h2, by simp [Nat.not_le.2 h1, h2]⟩
      · right; left
        exact ⟨_, _, rfl, Or.inl h1, by simp [h1]⟩

/-! ### the NetQASM send wrapper -/

/-- the handle `remote_get_virtual_ref` finds is held, hence (C02) active -/
theorem getVirtualRef_active {s : Net} (w : WF s) {a num h : Nat} (e : getVirtualRef s a num = some h) :
    ∃ vq, s.vqs[h]? = some vq ∧ vq.active = true ∧ vq.virtNode = a ∧ vq.num = num := by
  obtain ⟨n, vq, hn, hh, hv, hnum⟩ := getVirtualRef_some e
  obtain ⟨vq', e1, e2, e3, _⟩ := (w.nodes a n hn).virtOK h hh
  rw [hv] at e1; cases e1
  exact ⟨vq, hv, e2, e3, hnum⟩

/-- every outcome of the `remote_send_qubit` inside the wrapper, for a handle found by
`remote_get_virtual_ref` in a well-formed network: it is never the do-nothing `none`, so the
wrapper's second test of the target name decides nothing -/
theorem send_of_ref {s : Net} (w : WF s) {a num h : Nat} (e : getVirtualRef s a num = some h) (b : Nat) :
    (∃ k, (step s (.send h b)).2.1 = .num k ∧ b < s.nodes.length ∧ b ≠ a) ∨
    ((step s (.send h b)).1 = s ∧ (step s (.send h b)).2.2 = [] ∧
      (((step s (.send h b)).2.1 = .err .virtNet ∧ s.nodes.length ≤ b) ∨
       ((step s (.send h b)).2.1 = .selfSend ∧ b = a) ∨
       ((step s (.send h b)).2.1 = .err .noQubit ∧ b < s.nodes.length ∧ b ≠ a))) := by
  obtain ⟨vq, hv, hact, hvn, _⟩ := getVirtualRef_active w e
  obtain ⟨_, _, o3, o4⟩ := @stepSend_other s h b
  simp only [step]
  rcases Nat.lt_or_ge b s.nodes.length with hb | hb
  · by_cases hne : b = vq.virtNode
    · right; rw [o4 vq hv hact hb hne]
      exact ⟨rfl, rfl, Or.inr (Or.inl ⟨rfl, hne.trans hvn⟩)⟩
    · have hnb : s.nodes[b]? = some s.nodes[b] := getElem?_eq_getElem hb
      rcases stepSend_cases hv hact hnb hne with ⟨_, e1⟩ | ⟨_, e1⟩
      · left; rw [e1]; exact ⟨_, rfl, hb, hvn ▸ hne⟩
      · right; rw [e1]; exact ⟨rfl, rfl, Or.inr (Or.inr ⟨rfl, hb, hvn ▸ hne⟩)⟩
  · right; rw [o3 vq hv hact hb]
    exact ⟨rfl, rfl, Or.inl ⟨rfl, hb⟩⟩

/-- the wrapper, in terms of the send it makes -/
theorem stepNqSend_spec {s : NetX} (w : WFX s) (k : Kind) {a num h : Nat} (b app rapp : Nat) (ent : Option Nat)
    (e : getVirtualRef s.base a num = some h) :
    (∃ nn, (step s.base (.send h b)).2.1 = .num nn ∧
      stepNqSend s k a num b app rapp ent =
        { st := enqueue { s with base := (step s.base (.send h b)).1 } b k rapp
                  { frm := a, fromSock := app, toSock := rapp, num := some nn, ent := ent,
                    ghost := getVirtualRef (step s.base (.send h b)).1 b nn },
          res := .res .none, eops := (step s.base (.send h b)).2.2,
          qev := [.app b k rapp { frm := a, fromSock := app, toSock := rapp, num := some nn, ent := ent,
                                  ghost := getVirtualRef (step s.base (.send h b)).1 b nn }] }) ∨
    ((∀ nn, (step s.base (.send h b)).2.1 ≠ .num nn) ∧
      stepNqSend s k a num b app rapp ent = fail s (.res (step s.base (.send h b)).2.1)) := by
  obtain ⟨n, _, hn, _⟩ := getVirtualRef_some e
  rcases send_of_ref w.base e b with ⟨nn, hr, _, _⟩ | ⟨hst, heo, hres⟩
  · left
    refine ⟨nn, hr, ?_⟩
    unfold stepNqSend
    simp only [hn, e]
    generalize hstep : step s.base (.send h b) = t at hr ⊢
    obtain ⟨s1, r, eo⟩ := t
    simp only at hr
    subst hr
    rfl
  · right
    have hne : ∀ nn, (step s.base (.send h b)).2.1 ≠ .num nn := by
      intro nn hc
      rcases hres with ⟨h1, _⟩ | ⟨h1, _⟩ | ⟨h1, _⟩ <;> rw [h1] at hc <;> cases hc
    refine ⟨hne, ?_⟩
    unfold stepNqSend
    simp only [hn, e]
    generalize hstep : step s.base (.send h b) = t at hst heo hres hne ⊢
    obtain ⟨s1, r, eo⟩ := t
    simp only at hst heo hres hne
    subst hst; subst heo
    rcases hres with ⟨h1, _⟩ | ⟨h1, _⟩ | ⟨h1, _⟩ <;> subst h1 <;> rfl

/-- the record the wrapper appends names the handle the send created: after a successful send of
`h` to `b` that returned the number `nn`, `remote_get_virtual_ref(nn)` at `b` is the new handle -/
theorem send_ghost {s : Net} (w : WF s) {h b nn : Nat} {vq : VQ} (hv : s.vqs[h]? = some vq) (hact : vq.active = true)
    (hr : (step s (.send h b)).2.1 = .num nn) :
    getVirtualRef (step s (.send h b)).1 b nn = some s.vqs.length := by
  obtain ⟨_, _, o3, o4⟩ := @stepSend_other s h b
  simp only [step] at hr ⊢
  rcases Nat.lt_or_ge b s.nodes.length with hb | hb
  · by_cases hne : b = vq.virtNode
    · rw [o4 vq hv hact hb hne] at hr; cases hr
    · have hnb : s.nodes[b]? = some s.nodes[b] := getElem?_eq_getElem hb
      rcases stepSend_cases hv hact hnb hne with ⟨hcap, e1⟩ | ⟨_, e1⟩
      · rw [e1] at hr ⊢
        simp only [Res.num.injEq] at hr
        obtain ⟨na, ha, hh⟩ := w.toP.active_held hv hact
        have c : SendCtx s h b vq na s.nodes[b] :=
          { w := w.toP, hv := hv, hact := hact, ha := ha, hh := hh, hb := hnb, hne := hne, hcap := hcap }
        have hnode := c.nodes' b
        rw [if_neg hne, if_pos rfl] at hnode
        have wn := c.wfp'.nodes b _ hnode
        refine getVirtualRef_eq hnode wn.virtNumsInj (by simp) c.vqs_new ?_
        rw [← hr]; rfl
      · rw [e1] at hr; cases hr
  · rw [o3 vq hv hact hb] at hr; cases hr

/-! ### polling a record whose qubit is still held -/

theorem refOf_delivered {s : NetX} (w : WFX s) {b : Nat} {k : Kind} {sock : Nat} {q : QRec} {rest : List QRec} {g : Nat}
    (hq : queueOf s b k sock = q :: rest) (hg : q.ghost = some g) (hheld : g ∈ heldAt s.base b) :
    refOf s.base b q.num = some g := by
  obtain ⟨n, hn, hm⟩ := mem_heldAt.1 hheld
  have hb : b < s.ext.length := by rw [w.len]; exact lt_length_of_getElem? hn
  have hx : s.ext[b]? = some (extOf s b) := by simp [extOf, getElem?_eq_getElem hb]
  have hmem : q ∈ qget ((extOf s b).q k) sock := by
    have : qget ((extOf s b).q k) sock = q :: rest := hq
    rw [this]; exact mem_cons_self
  obtain ⟨vq, e1, _, e3⟩ := w.queues b _ k sock q g hx hmem hg
  rw [e3]
  exact getVirtualRef_eq hn (w.base.toP.nodes b n hn).virtNumsInj hm e1 rfl

/-! ### the register budget -/

theorem extOf_modify' (s : NetX) (b : Nat) (f : NodeX → NodeX) (b' : Net) (i : Nat) (h : LenOK s)
    (hb : b < s.base.nodes.length) :
    extOf { base := b', ext := s.ext.modify b f } i = if i = b then f (extOf s i) else extOf s i :=
  extOf_modify s b f b' i (by rw [h]; exact hb)

theorem budget_base {s : NetX} (w : WFX s) (op : Op) (i : Nat) :
    budget { s with base := (step s.base op).1 } i = budget s i := by
  have r := step_rel w.base.toP op
  have := r.caps i
  unfold budget
  simp only
  cases e : s.base.nodes[i]? with
  | none => rw [e] at this; cases e' : (step s.base op).1.nodes[i]? with
    | none => rfl
    | some m => rw [e'] at this; cases this
  | some n =>
    rw [e] at this
    cases e' : (step s.base op).1.nodes[i]? with
    | none => rw [e'] at this; cases this
    | some m =>
      rw [e'] at this
      simp only [Option.map_some, Option.some.injEq, Prod.mk.injEq] at this
      simp only [this.2]; rfl

theorem budget_enqueue (s : NetX) (b : Nat) (k : Kind) (sock : Nat) (q : QRec) (i : Nat) :
    budget (enqueue s b k sock q) i = budget s i := by
  unfold budget enqueue extOf
  simp only [ext_modify_get]
  cases s.base.nodes[i]? with
  | none => rfl
  | some n =>
    simp only
    split
    · cases s.ext[i]? with
      | none => rfl
      | some x => simp [free_setQ]
    · rfl

theorem budget_dequeue (s : NetX) (b : Nat) (k : Kind) (sock : Nat) (i : Nat) :
    budget { s with ext := s.ext.modify b fun x => x.setQ k (qpop (x.q k) sock) } i = budget s i := by
  unfold budget extOf
  simp only [ext_modify_get]
  cases s.base.nodes[i]? with
  | none => rfl
  | some n =>
    simp only
    split
    · cases s.ext[i]? with
      | none => rfl
      | some x => simp [free_setQ]
    · rfl

theorem filter_ne_self' {l : List (Nat × Nat)} {r : Nat} (h : ∀ p, p ∈ l → p.1 ≠ r) :
    (l.filter fun p => p.1 != r) = l := by
  apply filter_eq_self.2
  intro p hp
  simpa using h p hp

/-- deleting the one entry with key `r` from a list with distinct keys -/
theorem filter_ne_length : ∀ {l : List (Nat × Nat)} {r : Nat}, (l.map (·.1)).Nodup →
    l.any (fun p => p.1 == r) = true → (l.filter fun p => p.1 != r).length + 1 = l.length
  | [], _, _, ha => by simp at ha
  | p :: l, r, hn, ha => by
    simp only [map_cons, nodup_cons, mem_map, not_exists, not_and] at hn
    by_cases hp : p.1 = r
    · have hrest : ∀ q, q ∈ l → q.1 ≠ r := fun q hq e => hn.1 q hq (e.trans hp.symm)
      simp [filter_cons, hp, filter_ne_self' hrest]
    · have ha' : l.any (fun p => p.1 == r) = true := by
        simp only [any_cons, Bool.or_eq_true, beq_iff_eq] at ha
        rcases ha with ha | ha
        · exact absurd ha hp
        · exact ha
      have := filter_ne_length hn.2 ha'
      simp [filter_cons, hp, this]

end SqVerif.VNetX

import SqVerif.Drive.Skel
/- `lake env lean --run run/skel.lean`: one recorded activation per input line, `accept` / `reject at …` per output line. -/
def main : IO Unit := SqVerif.Drive.loopStateless SqVerif.Drive.Skel.handle

import SqVerif.TwoPL
/-!
# Two-phase locking with STATE-DEPENDENT guards ⇒ serializability (T03.1′)   — layer L3, serves C03

Core Lean only.  Extends `TwoPL.lean` (same `Act`, `Step`, `Sched`, `exec`, `Tbl`, `sortR`, `rankOf`, `TwoPhase`)
from a static guard map `Res → Lock` to a guard that is read from the current data state:

    guard : St V → Res → Lock

The motivating case is a *pointer* resource `r` whose guard is the lock named by the current value of `r` itself
(`ptrGuard`: `guard σ r = lockOf (σ r)`), e.g. a handle's `simNode` in `virtual.py`, protected by the global lock
of the node it currently names.

## The discipline (`stepD`, `LegalD`)

An effect `eff fp f` of transaction `t`, executed at data state `σ` with lock table `tbl`, is legal iff for
every `r ∈ fp`

* `tbl (guard σ r)      = some t`   (`t` holds the guard `r` has NOW — the *old* guard), and
* `tbl (guard (f σ) r)  = some t`   (`t` holds the guard `r` has AFTERWARDS — the *new* guard).

For an effect that does not move the guard of `r` the two coincide (a reader, or a writer of a statically guarded
resource: one lock).  A re-pointing write must hold both the old and the new lock.  That a re-pointing write
"has `r` in its footprint" is the frame condition `Act.GF`: an effect leaves the guard of every resource OUTSIDE
its footprint unchanged (`∀ σ r, r ∉ fp → guard (f σ) r = guard σ r`).  For guards read from the resource's own
value (`SelfRead`) the frame condition follows from locality of the effect (`gf_of_selfRead`).

## Main results

* `handoffD`             the hand-off lemma for dynamic schedules (obtained from `TwoPL.handoff` through `freeze`).
* `adjacent_rank`        two accesses to `r` by different transactions with no access to `r` in between share a
                         lock held at both times (the earlier one's NEW guard = the later one's OLD guard), hence
                         the earlier transaction's lock point is strictly smaller.
* `conflict_rank`        along any chain of accesses to `r` lock points are non-decreasing, and strictly
                         increasing between different transactions: conflicts are ordered by lock point.
* `inversion_commutesD`, `invC_of_2plD`, `twoPLDyn_serializable`
                         **T03.1′**: a `LegalD` schedule of well-formed, guard-framed, two-phase transactions has
                         the same effect as the schedule stably sorted by lock point.
* `twoPLDyn_serial_equiv`, `twoPLDyn_results`, `conflict_order_kept`
                         packaging as in `TwoPL`: a serial permutation keeping every transaction's own order,
                         same final state, same per-transaction results; conflicting steps keep their order.
* `legalD_const`, `twoPL_static_special_case`
                         a guard that is constant in the state: `LegalD (fun _ => g) = Legal g`, and
                         `TwoPL.twoPL_serializable` is the special case.
* `validated_pointer_stable`
                         while `t` holds the current guard of `r` and releases nothing, no other transaction
                         touches `r`, and `t` still holds the (possibly moved, by `t` itself) guard of `r`.
* `LegalOld`             the WEAKER discipline "hold the old guard only", used for the negative example: it does
                         not imply serializability (`Props/C03Dyn.lean`).

## Technique: `freeze`

`freeze guard σ s` replaces the footprint of every effect of `s` by the list of LOCKS the dynamic discipline
asks for at the state in which the effect runs; with `Res = Lock = Nat` and the static guard `fun l => l`,
`LegalD guard tbl σ s ↔ Legal (fun l => l) tbl (freeze guard σ s)` (`legalD_iff_freeze`).  The frozen schedule has
the same lock steps at the same positions, so the purely lock-table lemmas of `TwoPL` / `SkelTwoPLDrop`
(`handoff`, `dropAb_legal`) are REUSED, not re-proved.  The frozen schedule is only used for lock-table facts;
commutation and `exec` are always about the original schedule.
-/
namespace SqVerif.TwoPLDyn
open SqVerif.TwoPL

variable {V : Type}

/-- a state-dependent guard map -/
abbrev DGuard (V : Type) := St V → Res → Lock

/-! ### the dynamic discipline -/

/-- the locks an effect `eff fp f` needs at state `σ`: old and new guard of every resource of the footprint -/
def needLocks (guard : DGuard V) (σ : St V) (fp : List Res) (f : St V → St V) : List Lock :=
  fp.map (guard σ) ++ fp.map (guard (f σ))

/-- one step of the lock table under the dynamic discipline; `none` = illegal -/
def stepD (guard : DGuard V) (tbl : Tbl) (σ : St V) (x : Step V) : Option Tbl :=
  match x.act with
  | .acq l => if tbl l = none then some (upd tbl l (some x.tid)) else none
  | .rel l => if tbl l = some x.tid then some (upd tbl l none) else none
  | .eff fp f => if (needLocks guard σ fp f).all (fun l => tbl l == some x.tid) then some tbl else none

/-- legality of a schedule from lock table `tbl` and data state `σ` -/
def LegalD (guard : DGuard V) : Tbl → St V → Sched V → Prop
  | _, _, [] => True
  | tbl, σ, x :: xs => ∃ tbl', stepD guard tbl σ x = some tbl' ∧ LegalD guard tbl' (x.act.run σ) xs

def legalDB (guard : DGuard V) : Tbl → St V → Sched V → Bool
  | _, _, [] => true
  | tbl, σ, x :: xs =>
    match stepD guard tbl σ x with
    | some tbl' => legalDB guard tbl' (x.act.run σ) xs
    | none => false

theorem legalDB_sound (guard : DGuard V) (s : Sched V) : ∀ tbl σ, legalDB guard tbl σ s = true → LegalD guard tbl σ s := by
  induction s with
  | nil => intro _ _ _; trivial
  | cons x xs ih =>
    intro tbl σ h
    simp only [legalDB] at h
    cases hs : stepD guard tbl σ x with
    | none => rw [hs] at h; cases h
    | some tbl' =>
      rw [hs] at h
      exact ⟨tbl', hs, ih tbl' _ h⟩

theorem legalDB_complete (guard : DGuard V) (s : Sched V) : ∀ tbl σ, LegalD guard tbl σ s → legalDB guard tbl σ s = true := by
  induction s with
  | nil => intro _ _ _; rfl
  | cons x xs ih =>
    intro tbl σ h
    obtain ⟨tbl', hs, hrest⟩ := h
    simp only [legalDB, hs]
    exact ih tbl' _ hrest

/-- the frame condition: an effect leaves the guard of every resource outside its footprint unchanged
    (so: an effect that may re-point `r` has `r` in its footprint) -/
def Act.GF (guard : DGuard V) : Act V → Prop
  | .eff fp f => ∀ σ r, r ∉ fp → guard (f σ) r = guard σ r
  | _ => True

def AllGF (guard : DGuard V) (s : Sched V) : Prop := ∀ x, x ∈ s → Act.GF guard x.act

/-- the guard of `r` is read from the current value of `r` itself -/
def SelfRead (guard : DGuard V) : Prop := ∀ σ σ' r, σ r = σ' r → guard σ r = guard σ' r

theorem gf_of_selfRead (guard : DGuard V) (h : SelfRead guard) (a : Act V) (hwf : a.WF) : Act.GF guard a := by
  cases a with
  | acq _ => trivial
  | rel _ => trivial
  | eff fp f =>
    intro σ r hr
    exact h _ _ r (hwf.1 σ r hr)

theorem allGF_of_selfRead (guard : DGuard V) (h : SelfRead guard) (s : Sched V) (hwf : AllWF s) : AllGF guard s :=
  fun x hx => gf_of_selfRead guard h x.act (hwf x hx)

/-- pointer resources: the guard of a pointer `r` (`isPtr r`) is `lockOf` of its current value, every other
    resource is guarded statically by `g` -/
def ptrGuard (isPtr : Res → Bool) (lockOf : V → Lock) (g : Res → Lock) : DGuard V :=
  fun σ r => if isPtr r then lockOf (σ r) else g r

theorem ptrGuard_selfRead (isPtr : Res → Bool) (lockOf : V → Lock) (g : Res → Lock) :
    SelfRead (ptrGuard isPtr lockOf g) := by
  intro σ σ' r h
  simp only [ptrGuard, h]

/-! ### positional readings of `stepD` -/

theorem stepD_eff (guard : DGuard V) (tbl tbl' : Tbl) (σ : St V) (x : Step V) (fp : List Res) (f : St V → St V)
    (hx : x.act = .eff fp f) (h : stepD guard tbl σ x = some tbl') :
    tbl' = tbl ∧ ∀ r, r ∈ fp → tbl (guard σ r) = some x.tid ∧ tbl (guard (f σ) r) = some x.tid := by
  unfold stepD at h
  rw [hx] at h
  simp only at h
  split at h
  · rename_i hall
    simp only [Option.some.injEq] at h
    refine ⟨h.symm, ?_⟩
    intro r hr
    have hall' := List.all_eq_true.1 hall
    constructor
    · have := hall' (guard σ r) (by unfold needLocks; simp only [List.mem_append, List.mem_map]; exact Or.inl ⟨r, hr, rfl⟩)
      simpa using this
    · have := hall' (guard (f σ) r) (by unfold needLocks; simp only [List.mem_append, List.mem_map]; exact Or.inr ⟨r, hr, rfl⟩)
      simpa using this
  · cases h

theorem stepD_eff_needs (guard : DGuard V) (tb : Tbl) (σ : St V) (x : Step V) (fp : List Res) (f : St V → St V)
    (hx : x.act = .eff fp f) (h : stepD guard tb σ x ≠ none) :
    ∀ r, r ∈ fp → tb (guard σ r) = some x.tid ∧ tb (guard (f σ) r) = some x.tid := by
  cases hs : stepD guard tb σ x with
  | none => exact absurd hs h
  | some tbl' => exact (stepD_eff guard tb tbl' σ x fp f hx hs).2

theorem legalD_append (guard : DGuard V) (p : Sched V) : ∀ (tbl : Tbl) (σ : St V) (q : Sched V),
    LegalD guard tbl σ (p ++ q) → ∃ tbl', LegalD guard tbl' (exec p σ) q := by
  induction p with
  | nil => intro tbl σ q h; exact ⟨tbl, h⟩
  | cons x xs ih =>
    intro tbl σ q h
    obtain ⟨tbl', _, hrest⟩ := h
    exact ih tbl' _ q hrest

/-! ### `freeze`: the locks needed, as a static footprint -/

def frzStep (guard : DGuard V) (σ : St V) (x : Step V) : Step V :=
  match x.act with
  | .eff fp f => ⟨x.tid, .eff (needLocks guard σ fp f) f⟩
  | _ => x

def freeze (guard : DGuard V) : St V → Sched V → Sched V
  | _, [] => []
  | σ, x :: xs => frzStep guard σ x :: freeze guard (x.act.run σ) xs

/-- the static guard of the frozen schedule: a "resource" of a frozen footprint IS the lock -/
def idGuard : Res → Lock := fun l => l

theorem stepTbl_frz (guard : DGuard V) (tbl : Tbl) (σ : St V) (x : Step V) :
    stepTbl idGuard tbl (frzStep guard σ x) = stepD guard tbl σ x := by
  unfold frzStep stepTbl stepD
  cases hx : x.act with
  | acq l => simp only [hx]
  | rel l => simp only [hx]
  | eff fp f => simp only [idGuard]; rfl

theorem legalD_iff_freeze (guard : DGuard V) (s : Sched V) : ∀ (tbl : Tbl) (σ : St V),
    LegalD guard tbl σ s ↔ Legal idGuard tbl (freeze guard σ s) := by
  induction s with
  | nil => intro _ _; exact Iff.rfl
  | cons x xs ih =>
    intro tbl σ
    simp only [LegalD, freeze, Legal, stepTbl_frz]
    constructor
    · rintro ⟨tbl', h1, h2⟩; exact ⟨tbl', h1, (ih tbl' _).1 h2⟩
    · rintro ⟨tbl', h1, h2⟩; exact ⟨tbl', h1, (ih tbl' _).2 h2⟩

theorem frzStep_tid (guard : DGuard V) (σ : St V) (x : Step V) : (frzStep guard σ x).tid = x.tid := by
  unfold frzStep; split <;> rfl

theorem frzStep_isRelBy (guard : DGuard V) (σ : St V) (t : Tid) (x : Step V) :
    isRelBy t (frzStep guard σ x) = isRelBy t x := by
  unfold frzStep isRelBy
  cases hx : x.act <;> simp [hx]

theorem frzStep_isAcqBy (guard : DGuard V) (σ : St V) (t : Tid) (x : Step V) :
    isAcqBy t (frzStep guard σ x) = isAcqBy t x := by
  unfold frzStep isAcqBy
  cases hx : x.act <;> simp [hx]

theorem freeze_append (guard : DGuard V) (a : Sched V) : ∀ (σ : St V) (b : Sched V),
    freeze guard σ (a ++ b) = freeze guard σ a ++ freeze guard (exec a σ) b := by
  induction a with
  | nil => intro _ _; rfl
  | cons x xs ih => intro σ b; simp only [List.cons_append, freeze, exec, ih]

/-- pull a split of the frozen schedule back to the schedule -/
theorem freeze_split (guard : DGuard V) (L1 : Sched V) : ∀ (a : Sched V) (σ : St V) (y : Step V) (L2 : Sched V),
    freeze guard σ a = L1 ++ y :: L2 →
    ∃ a1 x a2, a = a1 ++ x :: a2 ∧ a1.length = L1.length ∧ frzStep guard (exec a1 σ) x = y ∧
      freeze guard (exec (a1 ++ [x]) σ) a2 = L2 := by
  induction L1 with
  | nil =>
    intro a σ y L2 h
    cases a with
    | nil => simp [freeze] at h
    | cons x xs =>
      simp only [freeze, List.nil_append, List.cons.injEq] at h
      exact ⟨[], x, xs, rfl, rfl, h.1, by simpa [exec] using h.2⟩
  | cons z L1' ih =>
    intro a σ y L2 h
    cases a with
    | nil => simp [freeze] at h
    | cons x xs =>
      simp only [freeze, List.cons_append, List.cons.injEq] at h
      obtain ⟨a1, x', a2, he, hl, hf, hr⟩ := ih xs _ y L2 h.2
      exact ⟨x :: a1, x', a2, by simp [he], by simp [hl], by simpa [exec] using hf, by simpa [exec] using hr⟩

/-! ### hand-off for dynamic schedules -/

/-- **hand-off (dynamic)**: if `t1` holds `l` and later a step `y` of `t2 ≠ t1` is legal that needs `l` *at the
    state in which it runs*, then in between `t1` releases and afterwards `t2` acquires.  Obtained from
    `TwoPL.handoff` on the frozen schedule. -/
theorem handoffD (guard : DGuard V) (l : Lock) (t1 t2 : Tid) (hne : t1 ≠ t2)
    (a : Sched V) (y : Step V) (b : Sched V) (tbl : Tbl) (σ : St V)
    (hheld : tbl l = some t1)
    (hleg : LegalD guard tbl σ (a ++ y :: b))
    (hy : ∀ tbl', stepD guard tbl' (exec a σ) y ≠ none → tbl' l = some t2) :
    ∃ a1 r a2 c a3, a = a1 ++ r :: a2 ++ c :: a3 ∧ isRelBy t1 r = true ∧ isAcqBy t2 c = true := by
  have hL := (legalD_iff_freeze guard _ tbl σ).1 hleg
  rw [freeze_append] at hL
  simp only [freeze] at hL
  obtain ⟨f1, r, f2, c, f3, hf, hr, hc⟩ :=
    handoff idGuard l t1 t2 hne (freeze guard σ a) (frzStep guard (exec a σ) y) _ tbl hheld hL
      (fun tbl' h => hy tbl' (by rw [← stepTbl_frz]; exact h))
  have hf' : freeze guard σ a = f1 ++ r :: (f2 ++ c :: f3) := by rw [hf]; simp
  obtain ⟨a1, r', arest, he1, _, hr', hrest⟩ := freeze_split guard f1 a σ r _ hf'
  obtain ⟨a2, c', a3, he2, _, hc', _⟩ := freeze_split guard f2 arest _ c f3 hrest
  refine ⟨a1, r', a2, c', a3, by rw [he1, he2]; simp, ?_, ?_⟩
  · rw [← frzStep_isRelBy guard (exec a1 σ) t1 r', hr']; exact hr
  · rw [← frzStep_isAcqBy guard _ t2 c', hc']; exact hc

/-! ### lock points along conflicts -/

/-- a release by `t1` followed by an acquire by `t2`: `t1`'s lock point precedes `t2`'s -/
theorem rank_lt_of_rel_acq (s p m q : Sched V) (rl c : Step V) (t1 t2 : Tid)
    (hs : s = p ++ rl :: m ++ c :: q) (h2p : TwoPhase t1 s)
    (hrl : isRelBy t1 rl = true) (hc : isAcqBy t2 c = true) : rankOf s t1 < rankOf s t2 := by
  have hs1 : s = p ++ (rl :: (m ++ c :: q)) := by rw [hs]; simp
  have hnoacq : ∀ z, z ∈ (rl :: (m ++ c :: q)) → isAcqBy t1 z = false := by
    intro z hz
    rcases List.mem_cons.1 hz with h | h
    · subst h
      unfold isRelBy at hrl; unfold isAcqBy
      split at hrl <;> simp_all
    · obtain ⟨m1, m2, hm⟩ := List.append_of_mem h
      exact h2p p m1 m2 rl z (by rw [hs1, hm]; simp) hrl
  have h1 : rankOf s t1 ≤ p.length := by
    unfold rankOf
    rw [hs1, lp_append, lp_noacq _ _ _ hnoacq]
    have := lp_le t1 0 p
    simp at this ⊢; omega
  have hs2 : s = (p ++ rl :: m) ++ (c :: q) := by rw [hs]
  have h2 : p.length + 1 + m.length + 1 ≤ rankOf s t2 := by
    unfold rankOf
    rw [hs2, lp_append]
    have := lp_ge t2 (0 + (p ++ rl :: m).length) c q hc
    simp at this ⊢; omega
  omega

/-- steps that do not touch `r` leave its guard unchanged -/
theorem guard_untouched (guard : DGuard V) (r : Res) (a : Sched V) : ∀ (σ : St V),
    (∀ z, z ∈ a → Act.GF guard z.act) → (∀ z, z ∈ a → r ∉ z.act.fp) → guard (exec a σ) r = guard σ r := by
  induction a with
  | nil => intro _ _ _; rfl
  | cons x xs ih =>
    intro σ hgf hnt
    simp only [exec]
    rw [ih _ (fun z hz => hgf z (by simp [hz])) (fun z hz => hnt z (by simp [hz]))]
    have hg := hgf x (by simp)
    have hn := hnt x (by simp)
    cases hx : x.act with
    | acq _ => rfl
    | rel _ => rfl
    | eff fp f =>
      rw [hx] at hg hn
      exact hg σ r hn

theorem fp_eff_of_mem (x : Step V) (r : Res) (h : r ∈ x.act.fp) : ∃ fp f, x.act = .eff fp f ∧ r ∈ fp := by
  cases hx : x.act with
  | acq _ => rw [hx] at h; cases h
  | rel _ => rw [hx] at h; cases h
  | eff fp f => rw [hx] at h; exact ⟨fp, f, rfl, h⟩

/-- **consecutive accesses share a lock held at both times.**  `x` and `y` (different transactions) both touch
    `r`, nothing in between does: the guard `r` has after `x` — which `x.tid` holds, being `x`'s NEW guard — is
    the guard `r` has when `y` runs — which `y.tid` holds, being `y`'s OLD guard.  By hand-off and two-phase,
    `x.tid`'s lock point is strictly before `y.tid`'s. -/
theorem adjacent_rank (guard : DGuard V) (s : Sched V) (hgf : AllGF guard s) (h2p : AllTwoPhase s) (r : Res)
    (pre : Sched V) (x : Step V) (a : Sched V) (y : Step V) (b : Sched V) (tbl : Tbl) (σ : St V)
    (hs : s = pre ++ x :: a ++ y :: b) (hleg : LegalD guard tbl σ (x :: a ++ y :: b))
    (hx : r ∈ x.act.fp) (hy : r ∈ y.act.fp) (hnt : ∀ z, z ∈ a → r ∉ z.act.fp) (hne : x.tid ≠ y.tid) :
    rankOf s x.tid < rankOf s y.tid := by
  obtain ⟨fx, f, hxa, hrx⟩ := fp_eff_of_mem x r hx
  obtain ⟨fy, g, hya, hry⟩ := fp_eff_of_mem y r hy
  have hleg' : LegalD guard tbl σ (x :: (a ++ y :: b)) := by simpa using hleg
  obtain ⟨tbl', hsx, hrest⟩ := hleg'
  obtain ⟨htbl, hheldx⟩ := stepD_eff guard tbl tbl' σ x fx f hxa hsx
  subst htbl
  have hrun : x.act.run σ = f σ := by rw [hxa]; rfl
  rw [hrun] at hrest
  have hheld : tbl' (guard (f σ) r) = some x.tid := (hheldx r hrx).2
  have hgfa : ∀ z, z ∈ a → Act.GF guard z.act := fun z hz => hgf z (by rw [hs]; simp [hz])
  have hyneeds : ∀ tb, stepD guard tb (exec a (f σ)) y ≠ none → tb (guard (f σ) r) = some y.tid := by
    intro tb hn
    have := (stepD_eff_needs guard tb _ y fy g hya hn r hry).1
    rw [guard_untouched guard r a (f σ) hgfa hnt] at this
    exact this
  obtain ⟨a1, rl, a2, c, a3, ha, hrl, hc⟩ :=
    handoffD guard (guard (f σ) r) x.tid y.tid hne a y b tbl' (f σ) hheld hrest hyneeds
  exact rank_lt_of_rel_acq s (pre ++ x :: a1) a2 (a3 ++ y :: b) rl c x.tid y.tid
    (by rw [hs, ha]; simp) (h2p x.tid) hrl hc

/-- **lock points increase along every conflict chain**: if `x` precedes `y` in a legal two-phase schedule and
    both touch `r`, then `x.tid`'s lock point is ≤ `y.tid`'s, and `<` when the transactions differ — however
    often `r` was re-pointed in between. -/
theorem conflict_rank (guard : DGuard V) (s : Sched V) (hgf : AllGF guard s) (h2p : AllTwoPhase s) (r : Res) :
    ∀ (n : Nat) (a : Sched V), a.length ≤ n →
    ∀ (pre : Sched V) (x y : Step V) (b : Sched V) (tbl : Tbl) (σ : St V),
      s = pre ++ x :: a ++ y :: b → LegalD guard tbl σ (x :: a ++ y :: b) →
      r ∈ x.act.fp → r ∈ y.act.fp →
      rankOf s x.tid ≤ rankOf s y.tid ∧ (x.tid ≠ y.tid → rankOf s x.tid < rankOf s y.tid) := by
  intro n
  induction n with
  | zero =>
    intro a hlen pre x y b tbl σ hs hleg hx hy
    have ha : a = [] := List.eq_nil_of_length_eq_zero (Nat.le_zero.1 hlen)
    subst ha
    by_cases hne : x.tid = y.tid
    · rw [hne]; exact ⟨Nat.le_refl _, fun h => absurd rfl h⟩
    · have := adjacent_rank guard s hgf h2p r pre x [] y b tbl σ hs hleg hx hy (fun z hz => by cases hz) hne
      exact ⟨Nat.le_of_lt this, fun _ => this⟩
  | succ n ih =>
    intro a hlen pre x y b tbl σ hs hleg hx hy
    by_cases hex : ∃ z, z ∈ a ∧ r ∈ z.act.fp
    · obtain ⟨z, hz, hrz⟩ := hex
      obtain ⟨a', a'', haa⟩ := List.append_of_mem hz
      subst haa
      have hl : a'.length + a''.length + 1 ≤ n + 1 := by simpa [Nat.add_assoc] using hlen
      -- x … z
      have h1 := ih a' (by omega) pre x z (a'' ++ y :: b) tbl σ (by rw [hs]; simp) (by simpa using hleg) hx hrz
      -- z … y
      have hleg2 : LegalD guard tbl σ ((x :: a') ++ (z :: a'' ++ y :: b)) := by simpa using hleg
      obtain ⟨tbl2, hleg2⟩ := legalD_append guard (x :: a') tbl σ _ hleg2
      have h2 := ih a'' (by omega) (pre ++ x :: a') z y b tbl2 _ (by rw [hs]; simp) hleg2 hrz hy
      refine ⟨Nat.le_trans h1.1 h2.1, ?_⟩
      intro hne
      by_cases hxz : x.tid = z.tid
      · have := h2.2 (by rw [← hxz]; exact hne)
        rw [hxz]; exact this
      · exact Nat.lt_of_lt_of_le (h1.2 hxz) h2.1
    · have hnt : ∀ z, z ∈ a → r ∉ z.act.fp := fun z hz hrz => hex ⟨z, hz, hrz⟩
      by_cases hne : x.tid = y.tid
      · rw [hne]; exact ⟨Nat.le_refl _, fun h => absurd rfl h⟩
      · have := adjacent_rank guard s hgf h2p r pre x a y b tbl σ hs hleg hx hy hnt hne
        exact ⟨Nat.le_of_lt this, fun _ => this⟩

/-! ### T03.1′ -/

/-- main positional lemma (dynamic): in a `LegalD`, two-phase schedule `pre ++ x :: a ++ y :: b`, if `y`'s
    transaction has a strictly smaller lock point than `x`'s, then `x` and `y` commute (on every state): their
    footprints are disjoint — a shared resource would force the opposite order by `conflict_rank` — and
    disjoint local effects commute (`run_comm`).  No extra "neither changes the other's guard" premise is
    needed for the commutation itself: `Commute` is about data states, and the guard frame condition was
    already consumed in `conflict_rank`. -/
theorem inversion_commutesD (guard : DGuard V) (s pre a b : Sched V) (x y : Step V) (tbl : Tbl) (σ : St V)
    (hs : s = pre ++ x :: a ++ y :: b)
    (hwf : AllWF s) (hgf : AllGF guard s) (h2p : AllTwoPhase s)
    (hleg : LegalD guard tbl σ (x :: a ++ y :: b))
    (hrank : rankOf s y.tid < rankOf s x.tid) : Commute x y := by
  by_cases hd : Disjoint x.act.fp y.act.fp
  · intro st
    exact run_comm x.act y.act (hwf x (by simp [hs])) (hwf y (by simp [hs])) hd st
  · exfalso
    have : ∃ r, r ∈ x.act.fp ∧ r ∈ y.act.fp := by
      apply Classical.byContradiction
      intro hno
      apply hd
      intro r hr hr'
      exact hno ⟨r, hr, hr'⟩
    obtain ⟨r, hrx, hry⟩ := this
    have := (conflict_rank guard s hgf h2p r a.length a (Nat.le_refl _) pre x y b tbl σ hs hleg hrx hry).1
    omega

/-- `InvC` for every suffix of a `LegalD` two-phase schedule -/
theorem invC_of_2plD (guard : DGuard V) (s : Sched V) (hwf : AllWF s) (hgf : AllGF guard s) (h2p : AllTwoPhase s) :
    ∀ (pre suf : Sched V) (tbl : Tbl) (σ : St V), s = pre ++ suf → LegalD guard tbl σ suf → InvC (rankOf s) suf := by
  intro pre suf
  induction suf generalizing pre with
  | nil => intros; trivial
  | cons x xs ih =>
    intro tbl σ hs hleg
    constructor
    · intro y hy hr
      obtain ⟨a, b, hab⟩ := List.append_of_mem hy
      subst hab
      exact inversion_commutesD guard s pre a b x y tbl σ (by rw [hs]; simp) hwf hgf h2p (by simpa using hleg) hr
    · obtain ⟨tbl', _, hrest⟩ := hleg
      exact ih (pre ++ [x]) tbl' _ (by rw [hs]; simp) hrest

/-- **T03.1′ — 2PL with state-dependent guards ⇒ serializable.**  `s` is legal from lock table `tbl` and data
    state `σ0` under the dynamic discipline (every effect holds the old AND the new guard of every resource of
    its footprint), every effect is local to its footprint (`AllWF`) and leaves guards outside its footprint
    alone (`AllGF`), every transaction is two-phase.  Then the schedule stably sorted by lock point has the
    same effect as `s` — on EVERY data state `st` (the sort only swaps steps with disjoint footprints). -/
theorem twoPLDyn_serializable (guard : DGuard V) (s : Sched V) (tbl : Tbl) (σ0 : St V)
    (hwf : AllWF s) (hgf : AllGF guard s) (h2p : AllTwoPhase s) (hleg : LegalD guard tbl σ0 s) (st : St V) :
    exec (sortR (rankOf s) s) st = exec s st :=
  exec_sortR (rankOf s) s (invC_of_2plD guard s hwf hgf h2p [] s tbl σ0 rfl hleg) st

/-- packaging: a serial schedule of the same steps, every transaction's own order kept, same final state -/
theorem twoPLDyn_serial_equiv (guard : DGuard V) (s : Sched V) (tbl : Tbl) (σ0 : St V)
    (hwf : AllWF s) (hgf : AllGF guard s) (h2p : AllTwoPhase s) (hleg : LegalD guard tbl σ0 s) (hlock : AllLock s) :
    ∃ s' : Sched V, s'.Perm s ∧ (∀ t, proj t s' = proj t s) ∧ Serial s' ∧ ∀ st, exec s' st = exec s st :=
  ⟨sortR (rankOf s) s, sortR_perm _ s, fun t => sortR_filter_tid _ t s,
   sortR_serial _ s (fun x y hx _ h => rankOf_inj_of_acq s x.tid y.tid (hlock x hx) h),
   fun st => twoPLDyn_serializable guard s tbl σ0 hwf hgf h2p hleg st⟩

/-- per-transaction results (a result is a resource `res t`) -/
theorem twoPLDyn_results (guard : DGuard V) (s : Sched V) (tbl : Tbl) (σ0 : St V)
    (hwf : AllWF s) (hgf : AllGF guard s) (h2p : AllTwoPhase s) (hleg : LegalD guard tbl σ0 s)
    (st : St V) (res : Tid → Res) (t : Tid) :
    exec (sortR (rankOf s) s) st (res t) = exec s st (res t) := by
  rw [twoPLDyn_serializable guard s tbl σ0 hwf hgf h2p hleg st]

/-- **conflict equivalence**: if `x` precedes `y` in `s`, they belong to different transactions and share a
    resource, then in the sorted schedule no step of `y.tid` precedes a step of `x.tid`. -/
theorem conflict_order_kept (guard : DGuard V) (s : Sched V) (tbl : Tbl) (σ0 : St V)
    (hgf : AllGF guard s) (h2p : AllTwoPhase s) (hleg : LegalD guard tbl σ0 s)
    (pre : Sched V) (x : Step V) (a : Sched V) (y : Step V) (b : Sched V) (hs : s = pre ++ x :: a ++ y :: b)
    (r : Res) (hx : r ∈ x.act.fp) (hy : r ∈ y.act.fp) (hne : x.tid ≠ y.tid) :
    rankOf s x.tid < rankOf s y.tid ∧
    ∀ p y' m x' q, sortR (rankOf s) s = p ++ y' :: m ++ x' :: q → y'.tid = y.tid → x'.tid ≠ x.tid := by
  have hleg' : LegalD guard tbl σ0 (pre ++ (x :: a ++ y :: b)) := by rw [hs] at hleg; simpa using hleg
  obtain ⟨tbl', hl⟩ := legalD_append guard pre tbl σ0 _ hleg'
  have hlt := (conflict_rank guard s hgf h2p r a.length a (Nat.le_refl _) pre x y b tbl' _ hs hl hx hy).2 hne
  refine ⟨hlt, ?_⟩
  intro p y' m x' q hdec hy' hx'
  have hsorted := sortR_sorted (rankOf s) s
  unfold Sorted at hsorted
  rw [hdec] at hsorted
  have h1 : (y' :: m ++ x' :: q).Pairwise (fun a b => rankOf s a.tid ≤ rankOf s b.tid) := by
    have := (List.pairwise_append.1 (by simpa using hsorted)).2.1
    simpa using this
  have := (List.pairwise_cons.1 h1).1 x' (by simp)
  rw [hy', hx'] at this
  omega

/-! ### the static theorem is the special case of a guard that does not depend on the state -/

theorem stepD_const (g : Res → Lock) (tbl : Tbl) (σ : St V) (x : Step V) :
    stepD (fun _ => g) tbl σ x = stepTbl g tbl x := by
  unfold stepD stepTbl
  cases hx : x.act with
  | acq l => rfl
  | rel l => rfl
  | eff fp f =>
    simp only [needLocks, List.all_append, List.all_map, Bool.and_self]
    rfl

theorem legalD_const (g : Res → Lock) (s : Sched V) : ∀ (tbl : Tbl) (σ : St V),
    LegalD (fun _ => g) tbl σ s ↔ Legal g tbl s := by
  induction s with
  | nil => intro _ _; exact Iff.rfl
  | cons x xs ih =>
    intro tbl σ
    simp only [LegalD, Legal, stepD_const]
    constructor
    · rintro ⟨tbl', h1, h2⟩; exact ⟨tbl', h1, (ih tbl' _).1 h2⟩
    · rintro ⟨tbl', h1, h2⟩; exact ⟨tbl', h1, (ih tbl' _).2 h2⟩

theorem allGF_const (g : Res → Lock) (s : Sched V) : AllGF (fun _ => g) s := by
  intro x _
  cases hx : x.act with
  | acq _ => trivial
  | rel _ => trivial
  | eff fp f => intro _ _ _; rfl

/-- `TwoPL.twoPL_serializable`, re-derived as the instance `guard := fun _ => g` of T03.1′ -/
theorem twoPL_static_special_case (g : Res → Lock) (s : Sched V) (tbl : Tbl)
    (hwf : AllWF s) (h2p : AllTwoPhase s) (hleg : Legal g tbl s) (st : St V) :
    exec (sortR (rankOf s) s) st = exec s st :=
  twoPLDyn_serializable (fun _ => g) s tbl st hwf (allGF_const g s) h2p ((legalD_const g s tbl st).2 hleg) st

/-! ### a validated pointer stays valid while the lock is held -/

theorem stepD_keeps_holder (guard : DGuard V) (tbl tbl' : Tbl) (σ : St V) (z : Step V) (t : Tid) (l : Lock)
    (hs : stepD guard tbl σ z = some tbl') (hheld : tbl l = some t) (hnr : isRelBy t z = false) :
    tbl' l = some t := by
  unfold stepD at hs
  cases hz : z.act with
  | acq l0 =>
    rw [hz] at hs; simp only at hs
    split at hs
    · rename_i hfree
      simp only [Option.some.injEq] at hs; subst hs
      unfold upd
      split
      · rename_i heq; subst heq; rw [hheld] at hfree; cases hfree
      · exact hheld
    · cases hs
  | rel l0 =>
    rw [hz] at hs; simp only at hs
    split at hs
    · rename_i hown
      simp only [Option.some.injEq] at hs; subst hs
      unfold upd
      split
      · rename_i heq; subst heq
        rw [hheld] at hown
        simp only [Option.some.injEq] at hown
        unfold isRelBy at hnr; rw [hz] at hnr
        simp [hown] at hnr
      · exact hheld
    · cases hs
  | eff fp f =>
    rw [hz] at hs; simp only at hs
    split at hs
    · simp only [Option.some.injEq] at hs; subst hs; exact hheld
    · cases hs

/-- **stability of a validated pointer.**  `t` holds the guard `r` currently has and releases nothing during
    `a`.  Then no other transaction touches `r` during `a` (in particular none re-points it), and afterwards
    `t` still holds the guard of `r` — which only `t` itself may have moved.  This is what justifies trusting
    `locked_node == self.simNode` from the re-validation until the release in `virtual.py`. -/
theorem validated_pointer_stable (guard : DGuard V) (r : Res) (t : Tid) (a : Sched V) :
    ∀ (tbl : Tbl) (σ : St V) (rest : Sched V),
      LegalD guard tbl σ (a ++ rest) → (∀ z, z ∈ a → Act.GF guard z.act) →
      tbl (guard σ r) = some t → (∀ z, z ∈ a → isRelBy t z = false) →
      (∀ z, z ∈ a → z.tid ≠ t → r ∉ z.act.fp) ∧
      ∃ tbl', LegalD guard tbl' (exec a σ) rest ∧ tbl' (guard (exec a σ) r) = some t := by
  induction a with
  | nil => intro tbl σ rest h _ hh _; exact ⟨fun z hz => (by cases hz), tbl, h, hh⟩
  | cons x xs ih =>
    intro tbl σ rest hleg hgf hheld hnr
    obtain ⟨tbl', hsx, hrest⟩ := hleg
    -- x does not touch r unless it is t's own step; either way t holds r's guard afterwards
    have hx : (x.tid ≠ t → r ∉ x.act.fp) ∧ tbl' (guard (x.act.run σ) r) = some t := by
      cases hxa : x.act with
      | acq l =>
        refine ⟨fun _ h => (by cases h), ?_⟩
        exact stepD_keeps_holder guard tbl tbl' σ x t _ hsx hheld (hnr x (by simp))
      | rel l =>
        refine ⟨fun _ h => (by cases h), ?_⟩
        exact stepD_keeps_holder guard tbl tbl' σ x t _ hsx hheld (hnr x (by simp))
      | eff fp f =>
        obtain ⟨htb, hneed⟩ := stepD_eff guard tbl tbl' σ x fp f hxa hsx
        subst htb
        simp only [Act.run, Act.fp]
        by_cases hr : r ∈ fp
        · have h1 := hneed r hr
          have : x.tid = t := by
            have := h1.1; rw [hheld] at this; simpa using this.symm
          exact ⟨fun hne => absurd this hne, by rw [← this]; exact h1.2⟩
        · have hg := hgf x (by simp)
          rw [hxa] at hg
          refine ⟨fun _ => hr, ?_⟩
          rw [hg σ r hr]; exact hheld
    obtain ⟨h1, tbl'', h2, h3⟩ := ih tbl' _ rest hrest (fun z hz => hgf z (by simp [hz])) hx.2
      (fun z hz => hnr z (by simp [hz]))
    refine ⟨?_, tbl'', h2, h3⟩
    intro z hz hne
    rcases List.mem_cons.1 hz with rfl | hz
    · exact hx.1 hne
    · exact h1 z hz hne

/-! ### the weaker discipline: hold the OLD guard only (for the negative example) -/

def stepOld (guard : DGuard V) (tbl : Tbl) (σ : St V) (x : Step V) : Option Tbl :=
  match x.act with
  | .acq l => if tbl l = none then some (upd tbl l (some x.tid)) else none
  | .rel l => if tbl l = some x.tid then some (upd tbl l none) else none
  | .eff fp _ => if fp.all (fun r => tbl (guard σ r) == some x.tid) then some tbl else none

/-- every effect holds the guard each resource of its footprint has when the effect STARTS — and nothing is
    asked about the guard it has afterwards.  NOT sufficient for serializability. -/
def legalOldB (guard : DGuard V) : Tbl → St V → Sched V → Bool
  | _, _, [] => true
  | tbl, σ, x :: xs =>
    match stepOld guard tbl σ x with
    | some tbl' => legalOldB guard tbl' (x.act.run σ) xs
    | none => false

/-- the dynamic discipline implies the weaker one -/
theorem legalOld_of_legalD (guard : DGuard V) (s : Sched V) : ∀ (tbl : Tbl) (σ : St V),
    LegalD guard tbl σ s → legalOldB guard tbl σ s = true := by
  induction s with
  | nil => intro _ _ _; rfl
  | cons x xs ih =>
    intro tbl σ h
    obtain ⟨tbl', hs, hrest⟩ := h
    have : stepOld guard tbl σ x = some tbl' := by
      unfold stepOld
      cases hx : x.act with
      | acq l => unfold stepD at hs; rw [hx] at hs; exact hs
      | rel l => unfold stepD at hs; rw [hx] at hs; exact hs
      | eff fp f =>
        obtain ⟨htb, hneed⟩ := stepD_eff guard tbl tbl' σ x fp f hx hs
        subst htb
        simp only
        rw [if_pos]
        apply List.all_eq_true.2
        intro r hr
        simp [(hneed r hr).1]
    simp only [legalOldB, this]
    exact ih tbl' _ hrest

end SqVerif.TwoPLDyn

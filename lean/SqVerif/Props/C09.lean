import SqVerif.NqExecRefine
import SqVerif.NqExecAcct
import SqVerif.Gen.Dispatch
/-
C09 — NetQASM subroutines execute with reference semantics on the right qubits.

Model: `SqVerif.NqExec` — ONE interpreter for the classical NetQASM semantics
(netqasm's `Executor`), instantiated with two quantum backends:
`concrete` (unit module → physical id → factory.qubitList → token, as the code
does it) and `tokenLevel` (the reference: a virtual address names a token
directly).  Measurement outcomes are inputs.  A *token* is the identity of a
virtual qubit at the node; what an operation does to the quantum state of a
token is L2 / L0 (C01, C13, C14).

The model mirrors the code after the repairs of F4 (`apply_S`), of the qalloc
roll-back and of the application-ID reuse (see the harness).
-/
namespace SqVerif.C09

open SqVerif.NqExec List

variable {F : List Nat} {ext : Nat}

/-- the token virtual address `v` denotes in the concrete machine: unit module, then qubitList -/
def denotes (c : CQ) (v : Int) : Option Nat := (c.resolve v).map (·.2)

/-- the slot of the unit module virtual address `v` names (Python indexing: -1 is the last slot) -/
def slotOf (c : CQ) (v : Int) : Option Nat :=
  match c.um with
  | none => none
  | some um => pyIdx um.length v

/-- In a state satisfying the invariant the composite map
virtual address → physical id → handle/token is injective on allocated addresses. -/
theorem denotes_injective {c : CQ} (h : Inv F ext c) {v w : Int} {t : Nat}
    (hv : denotes c v = some t) (hw : denotes c w = some t) : slotOf c v = slotOf c w := by
  unfold denotes at hv hw
  cases hrv : c.resolve v with
  | none => rw [hrv] at hv; cases hv
  | some x =>
    cases hrw : c.resolve w with
    | none => rw [hrw] at hw; cases hw
    | some y =>
      obtain ⟨p1, t1⟩ := x
      obtain ⟨p2, t2⟩ := y
      rw [hrv] at hv; rw [hrw] at hw
      simp only [Option.map_some, Option.some.injEq] at hv hw
      have e1 := resolve_entry hrv
      have e2 := resolve_entry hrw
      rw [hv] at e1; rw [hw] at e2
      have hp : p1 = p2 := by exact_mod_cast h.tok_inj e1 e2
      subst hp
      unfold CQ.resolve at hrv hrw
      unfold slotOf
      cases hum : c.um with
      | none => rfl
      | some um =>
        rw [hum] at hrv hrw
        dsimp only at hrv hrw
        have key : ∀ {u : Int} {tt : Nat}, (match slotGet um u with
              | Slot.full _ p => (match aGet c.qlist (p : Int) with | some t => some (p, t) | none => none)
              | _ => none) = some (p1, tt) → ∃ i, pyIdx um.length u = some i ∧ um[i]? = some (some p1) := by
          intro u tt hu
          unfold slotGet at hu
          cases hpi : pyIdx um.length u with
          | none => rw [hpi] at hu; cases hu
          | some i =>
            rw [hpi] at hu
            dsimp only at hu
            cases hgi : um[i]? with
            | none => rw [hgi] at hu; cases hu
            | some o =>
              cases o with
              | none => rw [hgi] at hu; cases hu
              | some p =>
                rw [hgi] at hu
                dsimp only at hu
                cases hg : aGet c.qlist (p : Int) with
                | none => rw [hg] at hu; cases hu
                | some t =>
                  rw [hg] at hu
                  simp only [Option.some.injEq, Prod.mk.injEq] at hu
                  exact ⟨i, rfl, by rw [← hu.1]; exact hgi⟩
        obtain ⟨i, hi1, hi2⟩ := key hrv
        obtain ⟨j, hj1, hj2⟩ := key hrw
        have hn : (um.filterMap id).Nodup := by have := h.mapped_nodup; simpa [mapped, hum] using this
        dsimp only
        rw [hi1, hj1, index_unique_of_nodup hn hi2 hj2]

/-- Every state the QNodeOS of a node can reach — any history of InitNewApp / OpenEPRSocket / Subroutine /
StopApp messages and pair deliveries, any programs (entanglement instructions included), any outcomes —
satisfies the invariant: allocated virtual addresses map to distinct physical ids that all have handles, and
the handles denote distinct tokens the node holds. -/
theorem reachable_inv (cap : Nat) (peers : List Int) (fuel : Nat) (env : Env) (ms : List Msg) :
    Inv [] 0 (runMsgs concrete fuel (St.fresh cap peers) env ms [] []).1.st.q :=
  (runMsgs_inv preserves_inv fuel ms _ env [] [] (Inv.fresh cap) (by simp)).1

/-- T09.1  Address integrity, as a refinement: from any state satisfying the invariant, for any history of
vanilla messages (several subroutines per application: the unit module persists; several applications in
sequence; re-allocation of freed addresses), the real addressing chain and the machine whose addresses name
tokens directly issue the SAME token-level operation trace, stop in the same way and stay related; the
invariant is kept and the composite map address → token is injective on allocated addresses. -/
theorem address_integrity (fuel : Nat) (ms : List Msg) (hv : ms.all Msg.vanilla = true) (s : St CQ)
    (hs : Inv F ext s.q) (env : Env) :
    Inv F ext (runMsgs concrete fuel s env ms [] []).1.st.q ∧
    (runMsgs tokenLevel fuel (mapSt abs s) env ms [] []).1.ops = (runMsgs concrete fuel s env ms [] []).1.ops ∧
    (runMsgs tokenLevel fuel (mapSt abs s) env ms [] []).1.st = mapSt abs (runMsgs concrete fuel s env ms [] []).1.st ∧
    (runMsgs tokenLevel fuel (mapSt abs s) env ms [] []).1.halt = (runMsgs concrete fuel s env ms [] []).1.halt ∧
    (∀ v w t, denotes (runMsgs concrete fuel s env ms [] []).1.st.q v = some t →
       denotes (runMsgs concrete fuel s env ms [] []).1.st.q w = some t →
       slotOf (runMsgs concrete fuel s env ms [] []).1.st.q v = slotOf (runMsgs concrete fuel s env ms [] []).1.st.q w) := by
  obtain ⟨h, _⟩ := sim_runMsgs (simulates (F := F) (ext := ext)) fuel ms hv s env [] [] hs
  exact ⟨h.good, h.ops, h.st, h.halt, fun v w t h1 h2 => denotes_injective h.good h1 h2⟩

/-- T09.2  The stream of replies (ReturnReg / ReturnArray / Error / Done, per message) equals the one the
token-level reference interpreter yields given the same reported outcomes. -/
theorem returns_reference (fuel : Nat) (ms : List Msg) (hv : ms.all Msg.vanilla = true) (s : St CQ)
    (hs : Inv F ext s.q) (env : Env) :
    (runMsgs tokenLevel fuel (mapSt abs s) env ms [] []).2 = (runMsgs concrete fuel s env ms [] []).2 ∧
    (runMsgs tokenLevel fuel (mapSt abs s) env ms [] []).1.replies = (runMsgs concrete fuel s env ms [] []).1.replies := by
  obtain ⟨h, h2⟩ := sim_runMsgs (simulates (F := F) (ext := ext)) fuel ms hv s env [] [] hs
  exact ⟨h2, h.replies⟩

/-! a concrete non-trivial instance: two applications in sequence, an address freed and allocated again,
a branch on a measured value; the hypotheses hold and both machines give the same answers -/

def demo : List Msg :=
  [.init 0 2,
   .sub 0 [.set 32 1, .qalloc 32, .init 32, .set 33 0, .qalloc 33, .gate1 .H 33, .gate2 .cnot 33 32,
           .meas 32 48, .bru .bez 48 10, .gate1 .X 33, .qfree 32, .qalloc 32, .retReg 48],
   .sub 0 [.set 32 1, .gate1 .S 32, .meas 32 49, .retReg 49],
   .stop 0,
   .init 1 1,
   .sub 1 [.set 32 0, .qalloc 32, .meas 32 48, .retReg 48],
   .stop 1]

def demoEnv : Env := ⟨[false, true, false, true, false, true, false, true], [], []⟩

example : demo.all Msg.vanilla = true := by decide
example : (runMsgs concrete 100 (St.fresh 3 []) demoEnv demo [] []).2 =
    [[.done], [.retReg 48 1, .done], [.retReg 49 1, .done], [.done], [.done], [.retReg 48 0, .done], [.done]] := by
  decide +kernel
example : (runMsgs tokenLevel 100 (mapSt abs (St.fresh 3 [])) demoEnv demo [] []).1.ops =
    (runMsgs concrete 100 (St.fresh 3 []) demoEnv demo [] []).1.ops := by decide +kernel
example : (runMsgs concrete 100 (St.fresh 3 []) demoEnv demo [] []).1.ops =
    [.new 0, .meas 0 true false, .new 1, .gate1 .H 1, .gate2 .cnot 1 0, .meas 0 true true, .gate1 .X 1,
     .meas 0 false false, .new 2, .gate1 .S 2, .meas 2 true true, .meas 1 false false, .meas 2 false true,
     .new 3, .meas 3 true false, .meas 3 false true] := by decide +kernel

/-! ### T09.3  the dispatch chain, on the tables regenerated from the source -/

section dispatch
open SqVerif.Gen.Dispatch

def lookup {β : Type} (l : List (String × β)) (k : String) : Option β := (l.find? fun e => e.1 == k).map (·.2)

def stabilizer : Option Engine := engines.find? fun e => e.name == "stabilizerEngine"

/-- the instruction class is in `SIMULAQRON_OPS`, the method it names exists (as `remote_…`) on `virtualQubit`,
which forwards exactly one name that exists on `simulatedQubit`, which calls exactly one method the stabilizer
engine defines and does not refuse -/
def chainOk (cls : String) : Bool :=
  match lookup simulaqronOps cls with
  | none => false
  | some m =>
    match lookup remoteName m with
    | none => false
    | some rm =>
      virtualQubitMethods.contains rm &&
      match lookup virtualQubitForwards rm with
      | some [m2] =>
        (match lookup remoteName m2 with
         | none => false
         | some rm2 =>
           simulatedQubitMethods.contains rm2 &&
           match lookup simulatedQubitCalls rm2, stabilizer with
           | some [e], some eng => eng.defines.contains e && !eng.refuses.contains e
           | _, _ => false)
      | _ => false

/-- the instruction ends, through the same chain, in an engine method whose body only raises `SimUnsupportedError` -/
def chainRefuses (m : String) : Bool :=
  match lookup remoteName m with
  | none => false
  | some rm =>
    virtualQubitMethods.contains rm &&
    match lookup virtualQubitForwards rm with
    | some [m2] =>
      (match lookup remoteName m2 with
       | none => false
       | some rm2 =>
         simulatedQubitMethods.contains rm2 &&
         match lookup simulatedQubitCalls rm2, stabilizer with
         | some [e], some eng => eng.refuses.contains e
         | _, _ => false)
    | _ => false

/-- the vanilla gate instructions C09 calls supported -/
def supportedClasses : List String :=
  ["GateXInstruction", "GateYInstruction", "GateZInstruction", "GateHInstruction", "GateKInstruction",
   "GateSInstruction", "CnotInstruction", "CphaseInstruction"]

/-- T09.3  Every supported gate instruction maps, through `SIMULAQRON_OPS`, to a method that exists on
`virtualQubit` AND on `simulatedQubit` AND on the stabilizer engine (which does not refuse it).
(Before the repair of F4 this fails for `GateSInstruction`: no `remote_apply_S` anywhere.) -/
theorem dispatch_complete : ∀ cls ∈ supportedClasses, chainOk cls = true := by decide

/-- T and the rotations are the unsupported ones: their chain is intact too, and ends in a method of the
stabilizer engine that does nothing but raise `SimUnsupportedError`; the three rotation classes have an axis. -/
theorem unsupported_refused_at_source :
    lookup simulaqronOps "GateTInstruction" = some "apply_T" ∧ chainRefuses "apply_T" = true ∧
    chainRefuses "apply_rotation" = true ∧
    (∀ cls ∈ ["RotXInstruction", "RotYInstruction", "RotZInstruction"], ((lookup rotationAxis cls).bind id).isSome = true) := by
  decide

end dispatch

/-! ### T09.4  unsupported instructions are refused, nothing is executed -/

/-- T09.4  On the stabilizer backend T and rotations produce an error and leave the node state, the unit
module, qubitList and the input streams unchanged; no operation is issued. -/
theorem unsupported_refused (c : CQ) (g : G1) (hg : g.supported = false) (v : Int) (env : Env) :
    (c.gate1 g v env).res = .err ∧ (c.gate1 g v env).st = c ∧ (c.gate1 g v env).ops = [] ∧ (c.gate1 g v env).env = env := by
  unfold CQ.gate1
  split
  · exact ⟨rfl, rfl, rfl, rfl⟩
  · rw [hg]; exact ⟨rfl, rfl, rfl, rfl⟩

/-- … and the subroutine is aborted there: one ErrorMessage, then MsgDone, state as before the instruction -/
theorem unsupported_aborts (s : St CQ) (g : G1) (hg : g.supported = false) (r : Nat) (env : Env) :
    (instrStep concrete s env (.gate1 g r)).ctl = .err ∧ (instrStep concrete s env (.gate1 g r)).st.q = s.q ∧
    (instrStep concrete s env (.gate1 g r)).ops = [] ∧ (instrStep concrete s env (.gate1 g r)).replies = [] := by
  simp only [instrStep]
  split
  · exact ⟨rfl, rfl, rfl, rfl⟩
  · rename_i v _
    obtain ⟨h1, h2, h3, _⟩ := unsupported_refused s.q g hg v env
    have hq : concrete.q s.q (.gate1 g v) env = s.q.gate1 g v env := rfl
    unfold ofQ
    rw [hq, h1]
    exact ⟨rfl, h2, h3, rfl⟩

example : G1.T.supported = false ∧ G1.Rot.supported = false := by decide
example : (runMsgs concrete 100 (St.fresh 3 []) ⟨[false], [], []⟩
    [.init 0 1, .sub 0 [.set 32 0, .qalloc 32, .init 32, .gate1 .T 32, .gate1 .X 32]] [] []).2 =
    [[.done], [.error, .done]] := by decide +kernel

end SqVerif.C09

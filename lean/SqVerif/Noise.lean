/-
L9 — noise on idle qubits (simulaqron/virtual_node/quantum.py, class `simulatedQubit`).

Core Lean only.  Everything numeric is generic over the number type `α`, so that
ONE definition is
  * executed by the driver at `α := Float` (IEEE doubles, the arithmetic Python
    uses) and at `α := Int` (exact, scaled dyadic rationals), and
  * reasoned about in `NoiseLemmas.lean` / `Props/C19.lean` at any linearly
    ordered field and at `ℝ` with `Real.exp`.
Line numbers refer to quantum.py.
-/
namespace SqVerif.Noise

inductive Pauli | X | Y | Z
  deriving DecidableEq, Repr

/-- the operation methods of `simulatedQubit` (quantum.py:129-239): seven
single-qubit gates, the two measurements, and the control side of the two
two-qubit gates (argument = register position of the target). -/
inductive Op
  | X | K | Y | Z | H | T | rot | measInplace | meas
  | cnot (tgt : Nat) | cphase (tgt : Nat)
  deriving DecidableEq, Repr

/-- a call arriving at the register engine (`self.register.<method>(…)`) -/
inductive Call
  /-- issued by `_apply_random_pauli_noise` (lines 300, 303, 306) -/
  | pauli (P : Pauli) (pos : Nat)
  /-- the call every operation method ends with (lines 135 … 239) -/
  | req (o : Op) (pos : Nat)
  deriving DecidableEq, Repr

/-- position of the qubit the call acts on (for a two-qubit gate: the control) -/
def Call.pos : Call → Nat
  | .pauli _ n => n
  | .req _ n => n

/-- name of the `simulatedQubit` method -/
def Op.method : Op → String
  | .X => "remote_apply_X" | .K => "remote_apply_K" | .Y => "remote_apply_Y"
  | .Z => "remote_apply_Z" | .H => "remote_apply_H" | .T => "remote_apply_T"
  | .rot => "remote_apply_rotation"
  | .measInplace => "remote_measure_inplace" | .meas => "remote_measure"
  | .cnot _ => "remote_cnot_onto" | .cphase _ => "remote_cphase_onto"

/-- one representative of every operation kind (targets are irrelevant for the name) -/
def Op.kinds : List Op :=
  [.X, .K, .Y, .Z, .H, .T, .rot, .measInplace, .meas, .cnot 0, .cphase 0]

/-- engine method name and integer arguments, as observed at the register
(the axis/angle arguments of `apply_rotation` are not integers and are omitted) -/
def Call.engine : Call → String × List Nat
  | .pauli .X n => ("apply_X", [n])
  | .pauli .Y n => ("apply_Y", [n])
  | .pauli .Z n => ("apply_Z", [n])
  | .req .X n => ("apply_X", [n])
  | .req .K n => ("apply_K", [n])
  | .req .Y n => ("apply_Y", [n])
  | .req .Z n => ("apply_Z", [n])
  | .req .H n => ("apply_H", [n])
  | .req .T n => ("apply_T", [n])
  | .req .rot n => ("apply_rotation", [n])
  | .req .measInplace n => ("measure_qubit_inplace", [n])
  | .req .meas n => ("measure_qubit", [n])
  | .req (.cnot t) n => ("apply_CNOT", [n, t])
  | .req (.cphase t) n => ("apply_CPHASE", [n, t])

section Rule
variable {α : Type} [LT α] [DecidableLT α] [Mul α] [OfNat α 2] [OfNat α 3]

/-- the decision rule, lines 298-306, comparisons in the code's order:
```
if x < p: X   elif x < 2 * p: Y   elif x < 3 * p: Z
```
-/
def select (p x : α) : Option Pauli :=
  if x < p then some .X
  else if x < 2 * p then some .Y
  else if x < 3 * p then some .Z
  else none

end Rule

section Rate
variable {α : Type} [Sub α] [Neg α] [Div α] [OfNat α 1] [OfNat α 4]

/-- line 296: `p = (1 - np.exp(-t / self.T1)) / 4` -/
def rate (exp : α → α) (t T1 : α) : α := (1 - exp (-t / T1)) / 4

end Rate

/-- the fields of a `simulatedQubit` the noise code reads or writes (lines 65, 80-82) -/
structure Qubit (α : Type) where
  noisy : Bool
  T1 : α
  lastAccessed : α
  num : Nat
  deriving DecidableEq, Repr

/-- what one call of `_apply_random_pauli_noise` reads from outside: the two
`time.time()` readings (lines 294, 295) and the `random.random()` draw (297) -/
structure Env (α : Type) where
  now1 : α
  now2 : α
  x : α
  deriving DecidableEq, Repr

/-- outcome of `_apply_random_pauli_noise` -/
inductive NoiseObs
  /-- line 291-292: switch off, returned at once -/
  | skipped
  /-- lines 294-306 ran; `none` = no branch taken -/
  | applied (P : Option Pauli)
  /-- line 296 raised `ZeroDivisionError` (`T1 == 0`); `last_accessed` was already overwritten (295) -/
  | zeroDivision
  deriving DecidableEq, Repr

/-- what one operation method does, seen at the register -/
inductive StepObs
  | done (calls : List Call)
  /-- the noise step raised before any engine call -/
  | zeroDivision
  deriving DecidableEq, Repr

section Step
variable {α : Type} [LT α] [DecidableLT α] [BEq α] [Sub α] [Neg α] [Mul α] [Div α]
  [OfNat α 0] [OfNat α 1] [OfNat α 2] [OfNat α 3] [OfNat α 4]

/-- `_apply_random_pauli_noise`, lines 287-306, statement by statement -/
def applyNoise (exp : α → α) (q : Qubit α) (e : Env α) : Qubit α × NoiseObs :=
  if !q.noisy then (q, .skipped)                              -- 291-292
  else
    let t := e.now1 - q.lastAccessed                          -- 294
    let q' := { q with lastAccessed := e.now2 }               -- 295
    if q.T1 == 0 then (q', .zeroDivision)                     -- 296, float division by zero raises
    else
      let p := rate exp t q.T1                                -- 296
      (q', .applied (select p e.x))                           -- 297-306

/-- engine calls issued by the noise step: at most one, at the qubit's own position -/
def noiseCalls (num : Nat) : NoiseObs → List Call
  | .applied (some P) => [.pauli P num]
  | _ => []

/-- an operation method: noise first, then the requested engine call on `self.num`
(e.g. lines 134-135) -/
def step (exp : α → α) (q : Qubit α) (e : Env α) (o : Op) : Qubit α × StepObs :=
  match applyNoise exp q e with
  | (q', .zeroDivision) => (q', .zeroDivision)
  | (q', obs) => (q', .done (noiseCalls q.num obs ++ [.req o q.num]))

/-- a history of operations on one simulated qubit (each with its own clock readings and draw) -/
def run (exp : α → α) (q : Qubit α) : List (Env α × Op) → Qubit α × List StepObs
  | [] => (q, [])
  | (e, o) :: rest =>
    let (q', obs) := step exp q e o
    let (q'', more) := run exp q' rest
    (q'', obs :: more)

end Step

end SqVerif.Noise

import SqVerif.VNetXLemmasWF
import SqVerif.Props.C02
/-
L2x — helper lemmas (3): the invariant `WFX` of the extended state and its
preservation by every extended operation.
-/
namespace SqVerif.VNetX
open SqVerif.VNet SqVerif.VNet.WFP List

/-- well-formedness of the extended state: the base network is well-formed (C02), there is one
extension record per node, the free (client-made, empty) registers of a node have pairwise
distinct numbers that were handed out by this node (below `nextReg`) and are not in its register
table, and every queued record that was made by a send (`ghost = some g`) carries the virtual
number of the handle `g` that the send created AT THIS NODE.  (Nothing more is true of a record:
the application may have measured or sent that qubit on before polling, and the number may have been
given to another qubit since — see `stale_record_alias`.) -/
structure WFX (s : NetX) : Prop where
  base : WF s.base
  len : s.ext.length = s.base.nodes.length
  free : ∀ (i : Nat) (n : Node) (x : NodeX), s.base.nodes[i]? = some n → s.ext[i]? = some x →
      (x.free.map (·.1)).Nodup ∧ ∀ p, p ∈ x.free → p.1 < n.nextReg ∧ ∀ r, r ∈ n.regs → r.num ≠ p.1
  queues : ∀ (i : Nat) (x : NodeX) (k : Kind) (sock : Nat) (r : QRec) (g : Nat), s.ext[i]? = some x →
      r ∈ qget (x.q k) sock → r.ghost = some g →
      ∃ vq, s.base.vqs[g]? = some vq ∧ vq.virtNode = i ∧ r.num = some vq.num

/-- the one client call the invariant cannot survive: deleting a register that holds qubits -/
def Sane (s : NetX) : XOp → Prop
  | .delReg a r => ∀ n, s.base.nodes[a]? = some n →
      (extOf s a).free.any (fun p => p.1 == r) = true ∨ n.reg? r = none
  | _ => True

theorem extOf_of_get {s : NetX} {i : Nat} {x : NodeX} (h : s.ext[i]? = some x) : extOf s i = x := by
  simp [extOf, h]

theorem wfx_init (caps : List (Nat × Nat)) : WFX (initX caps) := by
  refine { base := C02.wf_init caps, len := by simp [initX, init], free := ?_, queues := ?_ }
  · intro i n x _ hx
    simp only [initX, getElem?_map, Option.map_eq_some_iff] at hx
    obtain ⟨_, _, rfl⟩ := hx
    simp [NodeX.empty]
  · intro i x k sock r g hx hr
    simp only [initX, getElem?_map, Option.map_eq_some_iff] at hx
    obtain ⟨_, _, rfl⟩ := hx
    cases k <;> simp [NodeX.empty, NodeX.q, qget] at hr

/-! ### base steps -/

theorem wfx_base {s : NetX} (w : WFX s) (op : Op) : WFX { s with base := (step s.base op).1 } := by
  have k := step_Keep s.base op
  refine { base := C02.wf_step s.base op w.base, len := by rw [k.len]; exact w.len, free := ?_, queues := ?_ }
  · intro i n' x hn' hx
    have hi : i < s.base.nodes.length := by
      rw [← k.len]; exact lt_length_of_getElem? hn'
    have hn : s.base.nodes[i]? = some s.base.nodes[i] := getElem?_eq_getElem hi
    obtain ⟨f1, f2⟩ := w.free i _ x hn hx
    have nk := k.node i _ n' hn hn'
    refine ⟨f1, fun p hp => ?_⟩
    obtain ⟨g1, g2⟩ := f2 p hp
    refine ⟨Nat.lt_of_lt_of_le g1 nk.next, fun r' hr' => ?_⟩
    rcases nk.regs r' hr' with ⟨r, hr, e⟩ | h
    · rw [← e]; exact g2 r hr
    · omega
  · intro i x kd sock r g hx hr hg
    obtain ⟨vq, e1, e2, e3⟩ := w.queues i x kd sock r g hx hr hg
    obtain ⟨vq', f1, f2, f3⟩ := k.vq g vq e1
    exact ⟨vq', f1, f2.trans e2, by rw [e3, f3]⟩

/-! ### queue updates -/

theorem ext_modify_get (s : NetX) (b i : Nat) (f : NodeX → NodeX) :
    (s.ext.modify b f)[i]? = if b = i then (s.ext[i]?).map f else s.ext[i]? :=
  VNet.getElem?_modify' _ _ _ _

theorem wfx_enqueue {s : NetX} (w : WFX s) (b : Nat) (k : Kind) (sock : Nat) (q : QRec)
    (hq : ∀ g, q.ghost = some g → ∃ vq, s.base.vqs[g]? = some vq ∧ vq.virtNode = b ∧ q.num = some vq.num) :
    WFX (enqueue s b k sock q) := by
  refine { base := w.base, len := by simp [enqueue, w.len], free := ?_, queues := ?_ }
  · intro i n x hn hx
    simp only [enqueue, ext_modify_get] at hx
    split at hx
    · cases e : s.ext[i]? with
      | none => rw [e] at hx; cases hx
      | some x0 =>
        rw [e] at hx; simp only [Option.map_some, Option.some.injEq] at hx
        rw [← hx, free_setQ]; exact w.free i n x0 hn e
    · exact w.free i n x hn hx
  · intro i x kd so r g hx hr hg
    simp only [enqueue, ext_modify_get] at hx
    split at hx
    · rename_i hbi
      cases e : s.ext[i]? with
      | none => rw [e] at hx; cases hx
      | some x0 =>
        rw [e] at hx; simp only [Option.map_some, Option.some.injEq] at hx
        rw [← hx, q_setQ] at hr
        split at hr
        · rename_i hk
          rw [qget_qapp] at hr
          split at hr
          · rcases mem_append.1 hr with h | h
            · rename_i hso; subst hso; subst hk
              exact w.queues i x0 kd so r g e h hg
            · simp only [mem_singleton] at h
              subst h; subst hbi
              exact hq g hg
          · subst hk; exact w.queues i x0 kd so r g e hr hg
        · exact w.queues i x0 kd so r g e hr hg
    · exact w.queues i x kd so r g hx hr hg

theorem wfx_dequeue {s : NetX} (w : WFX s) (b : Nat) (k : Kind) (sock : Nat) :
    WFX { s with ext := s.ext.modify b fun x => x.setQ k (qpop (x.q k) sock) } := by
  refine { base := w.base, len := by simp [w.len], free := ?_, queues := ?_ }
  · intro i n x hn hx
    simp only [ext_modify_get] at hx
    split at hx
    · cases e : s.ext[i]? with
      | none => rw [e] at hx; cases hx
      | some x0 =>
        rw [e] at hx; simp only [Option.map_some, Option.some.injEq] at hx
        rw [← hx, free_setQ]; exact w.free i n x0 hn e
    · exact w.free i n x hn hx
  · intro i x kd so r g hx hr hg
    simp only [ext_modify_get] at hx
    split at hx
    · cases e : s.ext[i]? with
      | none => rw [e] at hx; cases hx
      | some x0 =>
        rw [e] at hx; simp only [Option.map_some, Option.some.injEq] at hx
        rw [← hx, q_setQ] at hr
        split at hr
        · rename_i hk
          rw [qget_qpop] at hr
          split at hr
          · rename_i hso; subst hso; subst hk
            exact w.queues i x0 kd so r g e (mem_of_mem_tail hr) hg
          · subst hk; exact w.queues i x0 kd so r g e hr hg
        · exact w.queues i x0 kd so r g e hr hg
    · exact w.queues i x kd so r g hx hr hg

/-! ### registers made / deleted by a client -/

/-- a change of the base node `a` that the invariant of the OTHER components does not see, with a
new free list for node `a` -/
theorem wfx_regs {s : NetX} (w : WFX s) {a : Nat} {n : Node} (hn : s.base.nodes[a]? = some n)
    (b' : Net) (g : List (Nat × Nat) → List (Nat × Nat))
    (hb : WF b') (hv : b'.vqs = s.base.vqs)
    (hnodes : ∀ i, i ≠ a → b'.nodes[i]? = s.base.nodes[i]?) (hlen : b'.nodes.length = s.base.nodes.length)
    (hfree : ∀ n' x, b'.nodes[a]? = some n' → s.ext[a]? = some x →
      ((g x.free).map (·.1)).Nodup ∧ ∀ p, p ∈ g x.free → p.1 < n'.nextReg ∧ ∀ r, r ∈ n'.regs → r.num ≠ p.1) :
    WFX { base := b', ext := s.ext.modify a fun x => { x with free := g x.free } } := by
  refine { base := hb, len := by simp [w.len, hlen], free := ?_, queues := ?_ }
  · intro i n' x hn' hx
    simp only [ext_modify_get] at hx
    split at hx
    · rename_i hai; subst hai
      cases e : s.ext[a]? with
      | none => rw [e] at hx; cases hx
      | some x0 =>
        rw [e] at hx; simp only [Option.map_some, Option.some.injEq] at hx
        rw [← hx]; exact hfree n' x0 hn' e
    · rename_i hai
      rw [hnodes i (fun e => hai e.symm)] at hn'
      exact w.free i n' x hn' hx
  · intro i x kd so r g0 hx hr hg
    simp only [ext_modify_get] at hx
    split at hx
    · cases e : s.ext[i]? with
      | none => rw [e] at hx; cases hx
      | some x0 =>
        rw [e] at hx; simp only [Option.map_some, Option.some.injEq] at hx
        have hq : x.q kd = x0.q kd := by rw [← hx]; cases kd <;> rfl
        rw [hq] at hr
        rw [hv]; exact w.queues i x0 kd so r g0 e hr hg
    · rw [hv]; exact w.queues i x kd so r g0 hx hr hg

theorem modNode_nodes_ne (s : Net) (a : Nat) (f : Node → Node) (i : Nat) (h : i ≠ a) :
    (modNode s a f).nodes[i]? = s.nodes[i]? := by
  rw [modNode_get, if_neg (fun e => h e.symm)]

theorem modNode_nodes_self {s : Net} {a : Nat} {n : Node} (f : Node → Node) (hn : s.nodes[a]? = some n) :
    (modNode s a f).nodes[a]? = some (f n) := by
  rw [modNode_get]; simp [hn]

theorem wfx_newReg {s : NetX} (w : WFX s) (a max : Nat) : WFX (stepNewReg s a max).st := by
  unfold stepNewReg
  split
  · exact w
  · rename_i n hn
    split
    · exact w
    · simp only
      refine wfx_regs w hn _ (fun l => l ++ [(n.nextReg, max)]) ?_ rfl (modNode_nodes_ne _ _ _) (by simp) ?_
      · apply WFp.toWF
        exact wfp_modNode_fields w.base.toP (fun m => ⟨rfl, rfl, rfl, rfl, rfl, Nat.le_succ _⟩)
      · intro n' x hn' hx
        rw [modNode_nodes_self _ hn] at hn'; cases hn'
        obtain ⟨f1, f2⟩ := w.free a n x hn hx
        refine ⟨?_, ?_⟩
        · simp only [map_append, map_cons, map_nil, nodup_append]
          refine ⟨f1, by simp, ?_⟩
          intro u hu v hv
          simp only [mem_singleton] at hv
          obtain ⟨p, hp, rfl⟩ := mem_map.1 hu
          have := (f2 p hp).1; omega
        · intro p hp
          simp only [mem_append, mem_singleton] at hp
          rcases hp with hp | rfl
          · exact ⟨Nat.lt_succ_of_lt (f2 p hp).1, (f2 p hp).2⟩
          · refine ⟨Nat.lt_succ_self _, fun r hr => ?_⟩
            have := (w.base.nodes a n hn).regNumsFresh r hr
            simp only; omega

theorem wfx_delReg {s : NetX} (w : WFX s) (a r : Nat) (hs : Sane s (.delReg a r)) : WFX (stepDelReg s a r).st := by
  unfold stepDelReg
  split
  · exact w
  · rename_i n hn
    split
    · simp only
      refine wfx_regs w hn _ (fun l => l.filter fun p => p.1 != r) ?_ rfl (modNode_nodes_ne _ _ _) (by simp) ?_
      · apply WFp.toWF
        exact wfp_modNode_fields w.base.toP (fun m => ⟨rfl, rfl, rfl, rfl, rfl, Nat.le_refl _⟩)
      · intro n' x hn' hx
        rw [modNode_nodes_self _ hn] at hn'; cases hn'
        obtain ⟨f1, f2⟩ := w.free a n x hn hx
        refine ⟨?_, fun p hp => f2 p (mem_filter.1 hp).1⟩
        exact (filter_sublist.map _).nodup f1
    · rename_i hfree
      rcases hs n hn with h | h
      · exact absurd h hfree
      · rw [h]; exact w

/-! ### `remote_new_qubit_inreg` -/

theorem fiNode_regs_nums (s : Net) (n : Node) (r : Nat) : (fiNode s n r).regs.map (·.num) = n.regs.map (·.num) := by
  simp only [fiNode]
  exact modReg_nums n r _ (fun _ => rfl)

theorem addFreshIn_nodes {s : Net} {a : Nat} {n : Node} (r len : Nat) (hn : s.nodes[a]? = some n) (i : Nat) :
    (addFreshIn s a n r len).nodes[i]? = if i = a then some (fiNode s n r) else s.nodes[i]? := by
  rw [addFreshIn_eq r len hn]
  unfold fiNet
  simp only [getElem?_set]
  have : a < s.nodes.length := lt_length_of_getElem? hn
  by_cases h : a = i
  · subst h; simp [this]
  · have : ¬ i = a := fun e => h e.symm
    simp [h, this]

theorem addFreshIn_vqs (s : Net) (a : Nat) (n : Node) (r len : Nat) :
    (addFreshIn s a n r len).vqs = s.vqs ++ [fiVQ s a n] := rfl

/-- queue records survive a growth of the handle store -/
theorem wfx_grow {s : NetX} (w : WFX s) (b' : Net) (e' : List NodeX) (l : List VQ) (hv : b'.vqs = s.base.vqs ++ l)
    (hb : WF b') (hlen : e'.length = b'.nodes.length)
    (hfree : ∀ (i : Nat) (n : Node) (x : NodeX), b'.nodes[i]? = some n → e'[i]? = some x →
      (x.free.map (·.1)).Nodup ∧ ∀ p, p ∈ x.free → p.1 < n.nextReg ∧ ∀ r, r ∈ n.regs → r.num ≠ p.1)
    (hq : ∀ (i : Nat) (x : NodeX), e'[i]? = some x → ∃ x0, s.ext[i]? = some x0 ∧ ∀ k, x.q k = x0.q k) :
    WFX { base := b', ext := e' } := by
  refine { base := hb, len := hlen, free := hfree, queues := ?_ }
  intro i x kd so r g hx hr hg
  obtain ⟨x0, e0, hqq⟩ := hq i x hx
  rw [hqq] at hr
  obtain ⟨vq, e1, e2, e3⟩ := w.queues i x0 kd so r g e0 hr hg
  refine ⟨vq, ?_, e2, e3⟩
  rw [hv, getElem?_append_left (lt_length_of_getElem? e1)]; exact e1

theorem wfx_newInReg {s : NetX} (w : WFX s) (a r : Nat) : WFX (stepNewInReg s a r).st := by
  unfold stepNewInReg
  split
  · exact w
  · rename_i n hn
    have wn := w.base.toP.nodes a n hn
    cases hfind : (extOf s a).free.find? (fun p => p.1 == r) with
    | some p =>
      -- an empty client register
      simp only
      have hp1 : p.1 = r := by simpa using find?_some hfind
      have hpm := mem_of_find?_eq_some hfind
      split
      · exact w
      · split
        · exact w
        · rename_i hcap hmax
          simp only
          have hx : s.ext[a]? = some (extOf s a) := by
            have : a < s.ext.length := by rw [w.len]; exact lt_length_of_getElem? hn
            simp [extOf, getElem?_eq_getElem this]
          obtain ⟨f1, f2⟩ := w.free a n _ hn hx
          obtain ⟨g1, g2⟩ := f2 p hpm
          have w1 : WFp (some (a, r)) (adoptReg s.base a r p.2) :=
            wfp_adoptReg w.base.toP hn (hp1 ▸ g1) (fun r0 hr0 => hp1 ▸ g2 r0 hr0)
          have hn1 : (adoptReg s.base a r p.2).nodes[a]? = some (adNode r p.2 n) := by
            rw [adoptReg_eq]; exact modNode_nodes_self _ hn
          let rg : Reg := { num := r, max := p.2, toks := [] }
          have c : FiCtx (some (a, r)) (adoptReg s.base a r p.2) a (adNode r p.2 n) rg :=
            { w := w1, hn := hn1, hrg := by simp [adNode, rg], hE := Or.inr rfl,
              hcap := by simpa [adNode] using Nat.not_le.1 hcap, hmax := by simpa [rg] using Nat.not_le.1 hmax }
          have hwf : WF (addFreshIn (adoptReg s.base a r p.2) a n r 0) := (wfp_addFreshIn c).toWF
          have hnodes : ∀ i, (addFreshIn (adoptReg s.base a r p.2) a n r 0).nodes[i]? =
              if i = a then some (fiNode (adoptReg s.base a r p.2) (adNode r p.2 n) r) else s.base.nodes[i]? := by
            intro i
            have := addFreshIn_nodes (s := adoptReg s.base a r p.2) (n := adNode r p.2 n) r 0 hn1 i
            rw [show addFreshIn (adoptReg s.base a r p.2) a n r 0 = addFreshIn (adoptReg s.base a r p.2) a (adNode r p.2 n) r 0
              from rfl, this]
            split
            · rfl
            · rename_i hi; rw [adoptReg_eq]; exact modNode_nodes_ne _ _ _ i hi
          refine wfx_grow w _ _ [_] (addFreshIn_vqs _ _ _ _ _) hwf ?_ ?_ ?_
          · simp only [length_modify, w.len]
            have h1 := lt_length_of_getElem? hn
            have : (addFreshIn (adoptReg s.base a r p.2) a n r 0).nodes.length = s.base.nodes.length := by
              rw [show addFreshIn (adoptReg s.base a r p.2) a n r 0 = addFreshIn (adoptReg s.base a r p.2) a (adNode r p.2 n) r 0
                from rfl, addFreshIn_eq r 0 hn1]
              simp [fiNet, adoptReg_eq]
            exact this.symm
          · intro i n' x hn' hx'
            rw [hnodes] at hn'
            rw [ext_modify_get] at hx'
            by_cases hi : i = a
            · subst hi
              rw [if_pos rfl] at hn' hx'
              cases hn'
              rw [hx] at hx'; simp only [Option.map_some, Option.some.injEq] at hx'
              rw [← hx']
              refine ⟨(filter_sublist.map _).nodup f1, fun q hq => ?_⟩
              obtain ⟨hq1, hq2⟩ := mem_filter.1 hq
              obtain ⟨k1, k2⟩ := f2 q hq1
              refine ⟨k1, fun r0 hr0 => ?_⟩
              have : r0.num ∈ (fiNode (adoptReg s.base i r p.2) (adNode r p.2 n) r).regs.map (·.num) := mem_map.2 ⟨r0, hr0, rfl⟩
              rw [fiNode_regs_nums] at this
              simp only [adNode, map_append, map_cons, map_nil, mem_append, mem_singleton] at this
              rcases this with h | h
              · obtain ⟨r1, hr1, e1⟩ := mem_map.1 h
                rw [← e1]; exact k2 r1 hr1
              · rw [h]; intro e; simp [← e] at hq2
            · rw [if_neg hi] at hn'
              rw [if_neg (fun e => hi e.symm)] at hx'
              exact w.free i n' x hn' hx'
          · intro i x hx'
            rw [ext_modify_get] at hx'
            split at hx'
            · cases e : s.ext[i]? with
              | none => rw [e] at hx'; cases hx'
              | some x0 =>
                rw [e] at hx'; simp only [Option.map_some, Option.some.injEq] at hx'
                exact ⟨x0, rfl, fun k => by rw [← hx']; cases k <;> rfl⟩
            · exact ⟨x, hx', fun _ => rfl⟩
    | none =>
    cases hreg : n.reg? r with
    | none => exact w
    | some rg =>
      -- a register that holds qubits
      simp only
      obtain ⟨hrg, hrn⟩ := reg?_some_mem hreg
      split
      · exact w
      · split
        · exact w
        · rename_i hcap hmax
          simp only
          have c : FiCtx none s.base a n rg :=
            { w := w.base.toP, hn := hn, hrg := hrg, hE := Or.inl rfl, hcap := Nat.not_le.1 hcap, hmax := Nat.not_le.1 hmax }
          have hwf : WF (addFreshIn s.base a n r rg.toks.length) := by
            have := (wfp_addFreshIn c).toWF
            rw [hrn] at this; exact this
          have hnodes := addFreshIn_nodes (s := s.base) r rg.toks.length hn
          refine wfx_grow w _ _ [_] (addFreshIn_vqs _ _ _ _ _) hwf ?_ ?_ ?_
          · rw [w.len, addFreshIn_eq r _ hn]; simp [fiNet]
          · intro i n' x hn' hx'
            rw [hnodes] at hn'
            by_cases hi : i = a
            · subst hi
              rw [if_pos rfl] at hn'; cases hn'
              obtain ⟨f1, f2⟩ := w.free i n x hn hx'
              refine ⟨f1, fun q hq => ⟨(f2 q hq).1, fun r0 hr0 => ?_⟩⟩
              have : r0.num ∈ (fiNode s.base n r).regs.map (·.num) := mem_map.2 ⟨r0, hr0, rfl⟩
              rw [fiNode_regs_nums] at this
              obtain ⟨r1, hr1, e1⟩ := mem_map.1 this
              rw [← e1]; exact (f2 q hq).2 r1 hr1
            · rw [if_neg hi] at hn'
              exact w.free i n' x hn' hx'
          · intro i x hx'
            exact ⟨x, hx', fun _ => rfl⟩

/-! ### the NetQASM wrappers -/

theorem wfx_stepAdd {s : NetX} (w : WFX s) (b : Nat) (k : Kind) (q : QRec) (hg : q.ghost = none) :
    WFX (stepAdd s b k q).st := by
  unfold stepAdd
  split
  · exact w
  · exact wfx_enqueue w b k _ q (fun g h => by rw [hg] at h; cases h)

theorem wfx_stepNqOutcome {s : NetX} (w : WFX s) (a b app rapp ent : Nat) :
    WFX (stepNqOutcome s a b app rapp ent).st := by
  unfold stepNqOutcome
  split
  · exact w
  · split
    · exact w
    · exact wfx_enqueue w b .epr _ _ (fun g h => by cases h)

theorem wfx_stepNqSend {s : NetX} (w : WFX s) (k : Kind) (a num b app rapp : Nat) (ent : Option Nat) :
    WFX (stepNqSend s k a num b app rapp ent).st := by
  unfold stepNqSend
  split
  · exact w
  · split
    · exact w
    · rename_i h _
      have wb := wfx_base w (.send h b)
      split
      · rename_i s1 nn e heq
        have hs1 : (step s.base (.send h b)).1 = s1 := by rw [heq]
        rw [hs1] at wb
        refine wfx_enqueue wb b k rapp _ ?_
        intro g hg
        simp only at hg
        obtain ⟨n, vq, hn, hh, hv, hnum⟩ := getVirtualRef_some hg
        obtain ⟨vq', e1, _, e3, _⟩ := (wb.base.nodes b n hn).virtOK g hh
        rw [hv] at e1; cases e1
        exact ⟨vq, hv, e3, by simp [hnum]⟩
      · rename_i s1 e heq
        have hs1 : (step s.base (.send h b)).1 = s1 := by rw [heq]
        rw [hs1] at wb
        split
        · exact wb
        · exact wfx_enqueue wb b k rapp _ (fun g hg => by cases hg)
      · rename_i s1 r e _ _ heq
        have hs1 : (step s.base (.send h b)).1 = s1 := by rw [heq]
        rw [hs1] at wb
        exact wb

theorem wfx_stepGet {s : NetX} (w : WFX s) (b : Nat) (k : Kind) (sock : Nat) : WFX (stepGet s b k sock).st := by
  unfold stepGet
  split
  · exact w
  · split
    · exact w
    · exact wfx_dequeue w b k sock

/-- the invariant is preserved by every extended operation -/
theorem wfx_step' (s : NetX) (op : XOp) (w : WFX s) (hs : Sane s op) : WFX (stepX s op).st := by
  cases op with
  | base op => exact wfx_base w op
  | newReg a max => exact wfx_newReg w a max
  | delReg a r => exact wfx_delReg w a r hs
  | newInReg a r => exact wfx_newInReg w a r
  | getRef a num =>
    simp only [stepX]
    split <;> exact w
  | nqSend a num b app rapp => exact wfx_stepNqSend w _ _ _ _ _ _ _
  | nqSendEpr a num b app rapp ent =>
    cases num with
    | none => exact wfx_stepNqOutcome w _ _ _ _ _
    | some num => exact wfx_stepNqSend w _ _ _ _ _ _ _
  | addRecv b frm fs ts num => exact wfx_stepAdd w _ _ _ rfl
  | addEpr b frm fs ts num ent => exact wfx_stepAdd w _ _ _ rfl
  | getRecv b sock => exact wfx_stepGet w _ _ _
  | getEprRecv b sock => exact wfx_stepGet w _ _ _
  | obs o => exact w

end SqVerif.VNetX

import SqVerif.VNetEngineLemmas
import SqVerif.VNetRefineCases
/-
L2 ∘ L1 — L2 side of the composition (behind `Props/C01Engine.lean`): the engine calls a
step of the virtual-node model emits are all ACCEPTED by the register contract
(`Engine.Reg.step` lifted to the network, `labOp`), and move the contract registers exactly
as the step moves the ghost `toks` / `max` of the L2 registers (`lab_step`).
-/
set_option linter.unusedSimpArgs false
namespace SqVerif.VNetEng
open SqVerif.VNet

/-! ### single calls of the contract -/

theorem regCall_gate1 (x : LReg) (p : Nat) (hp : p < x.slots.length) : regCall x (.gate [p]) = some x := by
  have : (∀ q ∈ [p], q < x.active) ∧ [p].Nodup := by simp [Engine.Reg.active, hp]
  simp only [regCall, Engine.Reg.step]; rw [if_pos this]

theorem regCall_gate2 (x : LReg) (c t : Nat) (hc : c < x.slots.length) (ht : t < x.slots.length) (hne : c ≠ t) :
    regCall x (.gate [c, t]) = some x := by
  have : (∀ q ∈ [c, t], q < x.active) ∧ [c, t].Nodup := by simp [Engine.Reg.active, hc, ht, hne]
  simp only [regCall, Engine.Reg.step]; rw [if_pos this]

theorem regCall_measInplace (x : LReg) (p : Nat) (hp : p < x.slots.length) :
    regCall x (.measureInplace p) = some x := by
  have : ¬ p + 1 > x.active := by simp [Engine.Reg.active]; omega
  simp only [regCall, Engine.Reg.step]; rw [if_neg this]

theorem regCall_remove (x : LReg) (p : Nat) (hp : p < x.slots.length) :
    regCall x (.remove p) = some { x with slots := x.slots.eraseIdx p } := by
  have : ¬ p + 1 > x.active := by simp [Engine.Reg.active]; omega
  simp only [regCall, Engine.Reg.step]; rw [if_neg this]

theorem regCall_add (x : LReg) (t : Nat) (h : x.slots.length < x.max) :
    regCall x (.add [t]) = some { x with slots := x.slots ++ [t] } := by
  have : ¬ x.active + [t].length > x.max := by simp [Engine.Reg.active]; omega
  simp only [regCall, Engine.Reg.step]; rw [if_neg this]

theorem regCall_absorb (x : LReg) (ls : List Nat) (h : x.slots.length + ls.length ≤ x.max) :
    regCall x (.absorb ls) = some { x with slots := x.slots ++ ls } := by
  have : ¬ x.active + ls.length > x.max := by simp [Engine.Reg.active]; omega
  simp only [regCall, Engine.Reg.step]; rw [if_neg this]

/-- raise the limit by the size of the import, then absorb: accepted whenever the register
was within its limit before -/
theorem raiseThenL_ok (x : LReg) (ls : List Nat) (h : x.slots.length ≤ x.max) :
    raiseThenL x ls = some { max := x.max + ls.length, slots := x.slots ++ ls } := by
  have e1 : regCall x (.setMax (x.max + ls.length)) = some { x with max := x.max + ls.length } := rfl
  unfold raiseThenL
  rw [e1]
  simp only [Option.bind_some]
  rw [regCall_absorb _ ls (by show x.slots.length + ls.length ≤ x.max + ls.length; omega)]

theorem g1Call_spec (g : G1) (p : Nat) (hg : g.supported = true) : (g1Call g p).toSpec ([] : List Nat) = .gate [p] := by
  cases g <;> first | rfl | cases hg

/-! ### pointwise description of a contract state -/

/-- `L` holds exactly the registers `ρ`, nothing in flight, next label `nt` -/
structure LabM (ρ : Key → Option LReg) (nt : Nat) (L : LabSt) : Prop where
  regs : ∀ k, aget L.regs k = ρ k
  keys : (L.regs.map (·.1)).Nodup
  flight : L.flight = []
  next : L.next = nt

theorem LabAgree.toM {s : Net} {L : LabSt} (h : LabAgree s L) : LabM (regMap s) s.nextTok L :=
  ⟨h.regs, h.keys, h.flight, h.next⟩

theorem LabM.toAgree {s : Net} {L : LabSt} (h : LabM (regMap s) s.nextTok L) : LabAgree s L :=
  ⟨h.regs, h.keys, h.flight, h.next⟩

theorem LabM.congr {ρ ρ' : Key → Option LReg} {nt : Nat} {L : LabSt} (h : LabM ρ nt L) (e : ∀ k, ρ' k = ρ k) :
    LabM ρ' nt L :=
  ⟨fun k => (h.regs k).trans (e k).symm, h.keys, h.flight, h.next⟩

section labm
variable {ρ ρ' : Key → Option LReg} {nt : Nat} {L : LabSt}

theorem LabM.onReg (hL : LabM ρ nt L) {k : Key} {x x' : LReg} {c : Engine.SCall Nat} (hk : ρ k = some x)
    (hc : regCall x c = some x') (hρ : ∀ k', ρ' k' = if k' = k then some x' else ρ k') :
    ∃ L1, L.onReg k c = some L1 ∧ LabM ρ' nt L1 := by
  refine ⟨{ L with regs := aset L.regs k x' }, ?_, ?_, keys_aset_nodup _ _ _ hL.keys, hL.flight, hL.next⟩
  · simp only [LabSt.onReg, hL.regs k, hk, hc, Option.map_some]
  · intro k'
    show aget (aset L.regs k x') k' = _
    rw [aget_aset, hρ, hL.regs]

theorem LabM.newReg (hL : LabM ρ nt L) (n r : Nat)
    (hρ : ∀ k', ρ' k' = if k' = (n, r) then some { max := 10, slots := [] } else ρ k') :
    ∃ L1, labOp L (.newReg n r) = some L1 ∧ LabM ρ' nt L1 := by
  refine ⟨_, rfl, ?_, keys_aset_nodup _ _ _ hL.keys, hL.flight, hL.next⟩
  intro k'
  show aget (aset L.regs (n, r) _) k' = _
  rw [aget_aset, hρ, hL.regs]

theorem LabM.delReg (hL : LabM ρ nt L) (n r : Nat) {x : LReg} (hk : ρ (n, r) = some x)
    (hρ : ∀ k', ρ' k' = if k' = (n, r) then none else ρ k') :
    ∃ L1, labOp L (.delReg n r) = some L1 ∧ LabM ρ' nt L1 := by
  refine ⟨{ L with regs := adel L.regs (n, r) }, ?_, ?_, keys_adel_nodup _ _ hL.keys, hL.flight, hL.next⟩
  · simp only [labOp, hL.regs, hk]
  · intro k'
    show aget (adel L.regs (n, r)) k' = _
    rw [aget_adel, hρ, hL.regs]

theorem LabM.addFresh (hL : LabM ρ nt L) (n r : Nat) {x : LReg} (hk : ρ (n, r) = some x)
    (hlim : x.slots.length < x.max)
    (hρ : ∀ k', ρ' k' = if k' = (n, r) then some { x with slots := x.slots ++ [nt] } else ρ k') :
    ∃ L1, labOp L (.addFresh n r) = some L1 ∧ LabM ρ' (nt + 1) L1 := by
  obtain ⟨L1, h1, m1⟩ := hL.onReg hk (regCall_add x L.next hlim) (ρ' := ρ') (by rw [hL.next]; exact hρ)
  refine ⟨{ L1 with next := L.next + 1 }, by simp [labOp, h1], m1.regs, m1.keys, m1.flight, ?_⟩
  show L.next + 1 = nt + 1
  rw [hL.next]

theorem LabM.gate1 (hL : LabM ρ nt L) (g : G1) (n r p : Nat) {x : LReg} (hk : ρ (n, r) = some x)
    (hg : g.supported = true) (hp : p < x.slots.length) :
    ∃ L1, labOp L (.gate1 g n r p) = some L1 ∧ LabM ρ nt L1 := by
  obtain ⟨L1, h1, m1⟩ := hL.onReg (c := .gate [p]) hk (regCall_gate1 x p hp) (ρ' := ρ)
    (fun k' => by by_cases e : k' = (n, r) <;> simp [e, hk])
  exact ⟨L1, by simp only [labOp, g1Call_spec g p hg]; exact h1, m1⟩

theorem LabM.gate2 (hL : LabM ρ nt L) (g : G2) (n r c t : Nat) {x : LReg} (hk : ρ (n, r) = some x)
    (hc : c < x.slots.length) (ht : t < x.slots.length) (hne : c ≠ t) :
    ∃ L1, labOp L (.gate2 g n r c t) = some L1 ∧ LabM ρ nt L1 := by
  obtain ⟨L1, h1, m1⟩ := hL.onReg (c := .gate [c, t]) hk (regCall_gate2 x c t hc ht hne) (ρ' := ρ)
    (fun k' => by by_cases e : k' = (n, r) <;> simp [e, hk])
  exact ⟨L1, h1, m1⟩

theorem LabM.measInplace (hL : LabM ρ nt L) (n r p : Nat) (oc : Bool) {x : LReg} (hk : ρ (n, r) = some x)
    (hp : p < x.slots.length) :
    ∃ L1, labOp L (.measInplace n r p oc) = some L1 ∧ LabM ρ nt L1 := by
  obtain ⟨L1, h1, m1⟩ := hL.onReg (c := .measureInplace p) hk (regCall_measInplace x p hp) (ρ' := ρ)
    (fun k' => by by_cases e : k' = (n, r) <;> simp [e, hk])
  exact ⟨L1, h1, m1⟩

theorem LabM.remove (hL : LabM ρ nt L) (n r p : Nat) {x : LReg} (hk : ρ (n, r) = some x)
    (hp : p < x.slots.length)
    (hρ : ∀ k', ρ' k' = if k' = (n, r) then some { x with slots := x.slots.eraseIdx p } else ρ k') :
    ∃ L1, labOp L (.remove n r p) = some L1 ∧ LabM ρ' nt L1 :=
  hL.onReg (c := .remove p) hk (regCall_remove x p hp) hρ

/-- `local_merge_regs`: `[absorb n r1 r2, delReg n r2]` -/
theorem LabM.localMerge (hL : LabM ρ nt L) (n r1 r2 : Nat) {x1 x2 : LReg} (h1 : ρ (n, r1) = some x1)
    (h2 : ρ (n, r2) = some x2) (hne : r1 ≠ r2) (hlim : x1.slots.length ≤ x1.max)
    (hρ : ∀ k', ρ' k' = if k' = (n, r2) then none
      else if k' = (n, r1) then some { max := x1.max + x2.slots.length, slots := x1.slots ++ x2.slots } else ρ k') :
    ∃ L1, labOps L [.absorb n r1 r2, .delReg n r2] = some L1 ∧ LabM ρ' nt L1 := by
  let y : LReg := { max := x1.max + x2.slots.length, slots := x1.slots ++ x2.slots }
  let ρ1 : Key → Option LReg := fun k' => if k' = (n, r1) then some y else ρ k'
  have hkne : (n, r2) ≠ (n, r1) := fun e => hne (Prod.mk.inj e).2.symm
  have m1 : LabM ρ1 nt { L with regs := aset L.regs (n, r1) y } := by
    refine ⟨?_, keys_aset_nodup _ _ _ hL.keys, hL.flight, hL.next⟩
    intro k'
    show aget (aset L.regs (n, r1) y) k' = _
    rw [aget_aset, hL.regs]
  have e1 : labOp L (.absorb n r1 r2) = some { L with regs := aset L.regs (n, r1) y } := by
    simp only [labOp, hL.regs, h1, h2, raiseThenL_ok x1 x2.slots hlim, Option.map_some]; rfl
  obtain ⟨L2, e2, m2⟩ := m1.delReg n r2 (x := x2) (ρ' := ρ') (by show ρ1 (n, r2) = _; simp [ρ1, hkne, h2])
    (fun k' => by rw [hρ])
  exact ⟨L2, by simp only [labOps, e1, Option.bind_some, e2], m2⟩

/-- `remote_get_register_del` at the old simulator, `absorb_parts` at the new one:
`[exportDel sn sr, delReg sn sr, absorbParts n r sn sr]` -/
theorem LabM.pull (hL : LabM ρ nt L) (n r sn sr : Nat) {xd xs : LReg} (hd : ρ (n, r) = some xd)
    (hs : ρ (sn, sr) = some xs) (hne : (n, r) ≠ (sn, sr)) (hlim : xd.slots.length ≤ xd.max)
    (hρ : ∀ k', ρ' k' = if k' = (n, r) then some { max := xd.max + xs.slots.length, slots := xd.slots ++ xs.slots }
      else if k' = (sn, sr) then none else ρ k') :
    ∃ L1, labOps L [.exportDel sn sr, .delReg sn sr, .absorbParts n r sn sr] = some L1 ∧ LabM ρ' nt L1 := by
  let y : LReg := { max := xd.max + xs.slots.length, slots := xd.slots ++ xs.slots }
  let L1 : LabSt := { L with flight := aset L.flight (sn, sr) xs.slots }
  let L2 : LabSt := { L1 with regs := adel L.regs (sn, sr) }
  let L3 : LabSt := { L2 with regs := aset L2.regs (n, r) y, flight := adel L2.flight (sn, sr) }
  have e1 : labOp L (.exportDel sn sr) = some L1 := by simp only [labOp, hL.regs, hs]; rfl
  have e2 : labOp L1 (.delReg sn sr) = some L2 := by
    have : aget L1.regs (sn, sr) = some xs := by show aget L.regs (sn, sr) = _; rw [hL.regs, hs]
    simp only [labOp, this]; rfl
  have g1 : aget L2.regs (n, r) = some xd := by
    show aget (adel L.regs (sn, sr)) (n, r) = _
    rw [aget_adel, if_neg hne, hL.regs, hd]
  have g2 : aget L2.flight (sn, sr) = some xs.slots := by
    show aget (aset L.flight (sn, sr) xs.slots) (sn, sr) = _
    rw [aget_aset, if_pos rfl]
  have e3 : labOp L2 (.absorbParts n r sn sr) = some L3 := by
    simp only [labOp, g1, g2, raiseThenL_ok xd xs.slots hlim, Option.map_some]; rfl
  refine ⟨L3, by simp only [labOps, e1, e2, e3, Option.bind_some], ?_,
    keys_aset_nodup _ _ _ (keys_adel_nodup _ _ hL.keys), ?_, hL.next⟩
  · intro k'
    show aget (aset (adel L.regs (sn, sr)) (n, r) y) k' = _
    rw [aget_aset, aget_adel, hρ, hL.regs]
  · show adel (aset L.flight (sn, sr) xs.slots) (sn, sr) = []
    rw [hL.flight]
    simp [aset, adel]

end labm

/-! ### registers of the L2 state -/

theorem regMap_mk (s : Net) (n r : Nat) :
    regMap s (n, r) = ((s.nodes[n]?).bind fun nd => nd.reg? r).map toLab := rfl

theorem regMap_of {s : Net} {n r : Nat} {nd : Node} {rg : VNet.Reg} (hn : s.nodes[n]? = some nd)
    (hr : nd.reg? r = some rg) : regMap s (n, r) = some (toLab rg) := by
  simp [regMap, regAt, hn, hr]

theorem regMap_node {s : Net} {n : Nat} {nd : Node} (hn : s.nodes[n]? = some nd) (r : Nat) :
    regMap s (n, r) = (nd.reg? r).map toLab := by
  simp [regMap, regAt, hn]

theorem bind_map_regs (o : Option Node) (f : Node → Node) (hf : ∀ n, (f n).regs = n.regs) (r : Nat) :
    ((o.map f).bind fun nd => nd.reg? r) = o.bind fun nd => nd.reg? r := by
  cases o with
  | none => rfl
  | some n => simp [reg?_congr (hf n)]

theorem regMap_eq_of_regs {s s' : Net} (h : s'.nodes.map (·.regs) = s.nodes.map (·.regs)) (k : Key) :
    regMap s' k = regMap s k := by
  obtain ⟨n, r⟩ := k
  have hn : (s'.nodes[n]?).map (·.regs) = (s.nodes[n]?).map (·.regs) := by
    have := congrArg (fun l => l[n]?) h
    simpa [List.getElem?_map] using this
  rw [regMap_mk, regMap_mk]
  congr 1
  cases h1 : s'.nodes[n]? with
  | none =>
    cases h2 : s.nodes[n]? with
    | none => rfl
    | some b => rw [h1, h2] at hn; cases hn
  | some a =>
    cases h2 : s.nodes[n]? with
    | none => rw [h1, h2] at hn; cases hn
    | some b =>
      rw [h1, h2] at hn
      simp only [Option.map_some, Option.some.injEq] at hn
      simp only [Option.bind_some]
      exact reg?_congr hn r

/-- what a step has to satisfy: the contract accepts every emitted call, and afterwards holds
exactly the registers of the new L2 state -/
def LabStep (s : Net) (out : Net × Res × List EOp) : Prop :=
  ∀ L, LabAgree s L → ∃ L', labOps L out.2.2 = some L' ∧ LabAgree out.1 L'

theorem labStep_inert {s : Net} {res : Res} : LabStep s (s, res, []) := fun L hL => ⟨L, rfl, hL⟩

/-! ### `new` -/

theorem regMap_newNet {s : Net} {a : Nat} {na : Node} (hna : s.nodes[a]? = some na)
    (hfresh : ∀ r, r ∈ na.regs → r.num < na.nextReg) (k : Key) :
    regMap (newNet s a na) k =
      if k = (a, na.nextReg) then some { max := 10, slots := [s.nextTok] } else regMap s k := by
  obtain ⟨n, r⟩ := k
  rw [regMap_mk, newNet_nodes_get hna]
  by_cases e : n = a
  · subst e
    simp only [if_true, Option.bind_some]
    rw [newNodeF_reg? hfresh, regMap_node hna]
    by_cases e2 : r = na.nextReg
    · simp [e2, toLab]
    · simp [e2]
  · simp [e, regMap_mk]

theorem lab_new {s : Net} (hwf : WF s) {a : Nat} {na : Node} (hna : s.nodes[a]? = some na) {res : Res} :
    LabStep s (newNet s a na, res, [.newReg a na.nextReg, .addFresh a na.nextReg]) := by
  intro L hL
  have hfresh := (hwf.nodes _ _ hna).regNumsFresh
  let ρ1 : Key → Option LReg := fun k' => if k' = (a, na.nextReg) then some { max := 10, slots := [] } else regMap s k'
  obtain ⟨L1, e1, m1⟩ := hL.toM.newReg a na.nextReg (ρ' := ρ1) (fun _ => rfl)
  obtain ⟨L2, e2, m2⟩ := m1.addFresh a na.nextReg (x := { max := 10, slots := [] })
    (ρ' := regMap (newNet s a na)) (by simp [ρ1]) (by decide)
    (fun k' => by rw [regMap_newNet hna hfresh]; by_cases e : k' = (a, na.nextReg) <;> simp [e, ρ1])
  exact ⟨L2, by simp [labOps, e1, e2], ⟨m2.regs, m2.keys, m2.flight, m2.next⟩⟩

/-! ### gates and measurements through one handle -/

theorem lab_gate1 {s : Net} {h : Nat} {g : G1} {vq : VQ} {sq : SQ} {nd : Node} {rg : VNet.Reg}
    (i : HInfo s h vq sq nd rg) (hg : g.supported = true) {res : Res} :
    LabStep s (s, res, [.gate1 g vq.simNode sq.reg sq.pos]) := by
  intro L hL
  obtain ⟨L1, e1, m1⟩ := hL.toM.gate1 g _ _ _ (regMap_of i.hn i.hr) hg i.pos
  exact ⟨L1, by simp [labOps, e1], m1.toAgree⟩

theorem lab_measInplace {s : Net} {h : Nat} {oc : Bool} {vq : VQ} {sq : SQ} {nd : Node} {rg : VNet.Reg}
    (i : HInfo s h vq sq nd rg) {res : Res} :
    LabStep s (s, res, [.measInplace vq.simNode sq.reg sq.pos oc]) := by
  intro L hL
  obtain ⟨L1, e1, m1⟩ := hL.toM.measInplace _ _ _ oc (regMap_of i.hn i.hr) i.pos
  exact ⟨L1, by simp [labOps, e1], m1.toAgree⟩

theorem regMap_measNet {s : Net} {h : Nat} {vq : VQ} {sq : SQ} {nd : Node} {rg : VNet.Reg}
    (i : HInfo s h vq sq nd rg) (k : Key) :
    regMap (measNet s h vq sq nd rg) k =
      if k = (vq.simNode, sq.reg) then
        (if (rg.toks.eraseIdx sq.pos).isEmpty then none
         else some { max := rg.max, slots := rg.toks.eraseIdx sq.pos })
      else regMap s k := by
  obtain ⟨n, r⟩ := k
  obtain ⟨f, hf, hget⟩ := measNet_nodes_get (s := s) (h := h) (vq := vq) (sq := sq) (nd := nd) (rg := rg) n
  rw [regMap_mk, hget, bind_map_regs _ f hf]
  by_cases e : vq.simNode = n
  · subst e
    rw [if_pos rfl, i.hn]
    simp only [Option.map_some, Option.bind_some]
    rw [rmNode_reg?]
    by_cases e2 : r = sq.reg
    · subst e2
      by_cases e3 : (rg.toks.eraseIdx sq.pos).isEmpty <;> simp [e3, i.hr, toLab]
    · have : ¬ ((vq.simNode, r) = (vq.simNode, sq.reg)) := fun h => e2 (Prod.mk.inj h).2
      rw [if_neg this, regMap_node i.hn]
      by_cases e3 : (rg.toks.eraseIdx sq.pos).isEmpty <;> simp [e3, e2]
  · have : ¬ ((n, r) = (vq.simNode, sq.reg)) := fun h => e (Prod.mk.inj h).1.symm
    rw [if_neg e, if_neg this, regMap_mk]

theorem lab_measDestr {s : Net} {h : Nat} {oc : Bool} {vq : VQ} {sq : SQ} {nd : Node} {rg : VNet.Reg}
    (i : HInfo s h vq sq nd rg) {res : Res} :
    LabStep s (measNet s h vq sq nd rg, res,
      [.measInplace vq.simNode sq.reg sq.pos oc, .remove vq.simNode sq.reg sq.pos] ++
        (if (rg.toks.eraseIdx sq.pos).isEmpty then [.delReg vq.simNode sq.reg] else [])) := by
  intro L hL
  have hk := regMap_of i.hn i.hr
  let y : LReg := { max := rg.max, slots := rg.toks.eraseIdx sq.pos }
  let ρ1 : Key → Option LReg := fun k' => if k' = (vq.simNode, sq.reg) then some y else regMap s k'
  obtain ⟨L1, e1, m1⟩ := hL.toM.measInplace _ _ _ oc hk i.pos
  obtain ⟨L2, e2, m2⟩ := m1.remove _ _ _ hk i.pos (ρ' := ρ1) (fun _ => rfl)
  have hnt : (measNet s h vq sq nd rg).nextTok = s.nextTok := rfl
  by_cases hemp : (rg.toks.eraseIdx sq.pos).isEmpty
  · obtain ⟨L3, e3, m3⟩ := m2.delReg vq.simNode sq.reg (x := y) (ρ' := regMap (measNet s h vq sq nd rg))
      (by simp [ρ1])
      (fun k' => by
        rw [regMap_measNet i]
        by_cases e : k' = (vq.simNode, sq.reg) <;> simp [e, hemp, ρ1])
    refine ⟨L3, ?_, ⟨m3.regs, m3.keys, m3.flight, m3.next⟩⟩
    simp [hemp, labOps, e1, e2, e3]
  · have m2' : LabM (regMap (measNet s h vq sq nd rg)) s.nextTok L2 :=
      m2.congr (fun k' => by
        rw [regMap_measNet i]
        by_cases e : k' = (vq.simNode, sq.reg) <;> simp [e, hemp, ρ1, y])
    refine ⟨L2, ?_, ⟨m2'.regs, m2'.keys, m2'.flight, m2'.next⟩⟩
    simp [hemp, labOps, e1, e2]

/-! ### `send` -/

theorem lab_send {s : Net} {h b : Nat} {vq : VQ} {nb : Node} {res : Res} :
    LabStep s (sendNet s h b vq nb, res, []) := by
  intro L hL
  exact ⟨L, rfl, ⟨fun k => (hL.regs k).trans (regMap_eq_of_regs send_regs k).symm, hL.keys, hL.flight, hL.next⟩⟩

/-! ### two-qubit gates: the merges, then the gate -/

/-- the gate itself: both positions exist in the register and are different -/
theorem lab_gate2_last {s' : Net} {L : LabSt} (hL : LabAgree s' L) {hc ht oc ot n r c t tc tt : Nat}
    (dc : Den s' hc oc n r c tc) (dt : Den s' ht ot n r t tt) (hct : c ≠ t) (g : G2) :
    ∃ L1, labOp L (.gate2 g n r c t) = some L1 ∧ LabAgree s' L1 := by
  obtain ⟨nd, rg, hn, hr, hc'⟩ := dc.reg
  obtain ⟨nd', rg', hn', hr', ht'⟩ := dt.reg
  rw [hn] at hn'; cases hn'
  rw [hr] at hr'; cases hr'
  obtain ⟨L1, e1, m1⟩ := hL.toM.gate2 g n r c t (regMap_of hn hr)
    (List.getElem?_eq_some_iff.1 hc').1 (List.getElem?_eq_some_iff.1 ht').1 hct
  exact ⟨L1, e1, m1.toAgree⟩

theorem regMap_localMerge {s : Net} {n o1 o2 : Nat} {q1 q2 : SQ} {nd : Node} {r1 r2 : VNet.Reg}
    (hq1 : s.sqs[o1]? = some q1) (hq2 : s.sqs[o2]? = some q2) (hnd : s.nodes[n]? = some nd)
    (hne : q1.reg ≠ q2.reg) (hr1 : nd.reg? q1.reg = some r1) (hr2 : nd.reg? q2.reg = some r2) (k : Key) :
    regMap (localMerge s n o1 o2).1 k =
      if k = (n, q2.reg) then none
      else if k = (n, q1.reg) then some { max := r1.max + r2.toks.length, slots := r1.toks ++ r2.toks }
      else regMap s k := by
  rw [localMerge_eq hq1 hq2 hnd hne hr1 hr2]
  obtain ⟨n', r⟩ := k
  rw [regMap_mk]
  show (((s.nodes.modify n (lmNode q1 q2 r2))[n']?).bind fun nd => nd.reg? r).map toLab = _
  rw [getElem?_modify']
  by_cases e : n = n'
  · subst e
    rw [if_pos rfl, hnd]
    simp only [Option.map_some, Option.bind_some]
    rw [lmNode_reg?]
    by_cases e2 : r = q2.reg
    · simp [e2]
    · have h2 : ¬ ((n, r) = (n, q2.reg)) := fun h => e2 (Prod.mk.inj h).2
      rw [if_neg e2, if_neg h2]
      by_cases e1 : r = q1.reg
      · subst e1; simp [hr1, toLab]
      · have h1 : ¬ ((n, r) = (n, q1.reg)) := fun h => e1 (Prod.mk.inj h).2
        rw [if_neg e1, if_neg h1, regMap_node hnd]
  · have h2 : ¬ ((n', r) = (n, q2.reg)) := fun h => e (Prod.mk.inj h).1.symm
    have h1 : ¬ ((n', r) = (n, q1.reg)) := fun h => e (Prod.mk.inj h).1.symm
    rw [if_neg e, if_neg h2, if_neg h1, regMap_mk]

theorem regMap_pull {s : Net} {dst src o lr : Nat} {q : SQ} {sn dn : Node} {oldR locR : VNet.Reg}
    (P : Pull s dst src o lr q sn dn oldR locR) (k : Key) :
    regMap (mergeFrom s dst src o lr).1 k =
      if k = (dst, lr) then some { max := locR.max + oldR.toks.length, slots := locR.toks ++ oldR.toks }
      else if k = (src, q.reg) then none else regMap s k := by
  obtain ⟨_, _, f3, _⟩ := mergeFrom_frame P.hq P.hsn P.hdn P.hold P.hloc P.hne
  obtain ⟨n, r⟩ := k
  rw [regMap_mk, f3]
  by_cases e1 : n = dst
  · subst e1
    rw [if_pos rfl]
    simp only [Option.bind_some]
    have hreg : (dstAbsorb lr oldR s.sqs.length dn).reg? r
        = if r = lr then (dn.reg? r).map
            (fun x => { x with max := x.max + oldR.toks.length, toks := x.toks ++ oldR.toks })
          else dn.reg? r := by
      unfold dstAbsorb
      exact reg?_modReg _ _ _ _ (fun _ => rfl)
    rw [hreg]
    by_cases e2 : r = lr
    · subst e2; simp [P.hloc, toLab]
    · have h1 : ¬ ((n, r) = (n, lr)) := fun h => e2 (Prod.mk.inj h).2
      have h2 : ¬ ((n, r) = (src, q.reg)) := fun h => P.hne (Prod.mk.inj h).1.symm
      rw [if_neg e2, if_neg h1, if_neg h2, regMap_node P.hdn]
  · have h1 : ¬ ((n, r) = (dst, lr)) := fun h => e1 (Prod.mk.inj h).1
    rw [if_neg e1, if_neg h1]
    by_cases e2 : n = src
    · subst e2
      rw [if_pos rfl]
      simp only [Option.bind_some]
      unfold srcDrop
      rw [reg?_delReg]
      by_cases e3 : r = q.reg
      · simp [e3]
      · have h2 : ¬ ((n, r) = (n, q.reg)) := fun h => e3 (Prod.mk.inj h).2
        rw [if_neg e3, if_neg h2, regMap_node P.hsn]
        rfl
    · have h2 : ¬ ((n, r) = (src, q.reg)) := fun h => e2 (Prod.mk.inj h).1
      rw [if_neg e2, if_neg h2, regMap_mk]

/-- one pull (`remote_merge_from`), all three calls -/
theorem lab_pull {s : Net} {dst src o lr : Nat} {q : SQ} {sn dn : Node} {oldR locR : VNet.Reg}
    (P : Pull s dst src o lr q sn dn oldR locR) (hp : q.pos < oldR.toks.length)
    (hlim : locR.toks.length ≤ locR.max) {L : LabSt} (hL : LabAgree s L) :
    ∃ L1, labOps L (mergeFrom s dst src o lr).2.2 = some L1 ∧ LabAgree (mergeFrom s dst src o lr).1 L1 := by
  obtain ⟨_, f2, _, _⟩ := mergeFrom_frame P.hq P.hsn P.hdn P.hold P.hloc P.hne
  have hne : (dst, lr) ≠ (src, q.reg) := fun h => P.hne (Prod.mk.inj h).1.symm
  obtain ⟨L1, e1, m1⟩ := hL.toM.pull dst lr src q.reg (regMap_of P.hdn P.hloc) (regMap_of P.hsn P.hold) hne hlim
    (ρ' := regMap (mergeFrom s dst src o lr).1) (regMap_pull P)
  refine ⟨L1, ?_, ⟨m1.regs, m1.keys, m1.flight, m1.next.trans f2.symm⟩⟩
  rw [(P.ret hp).2]; exact e1

theorem regMap_addReg {s : Net} {a : Nat} {na : Node} (hna : s.nodes[a]? = some na)
    (hfresh : ∀ r, r ∈ na.regs → r.num < na.nextReg) (k : Key) :
    regMap (modNode s a addRegF) k =
      if k = (a, na.nextReg) then some { max := 10, slots := [] } else regMap s k := by
  obtain ⟨n, r⟩ := k
  rw [regMap_mk, modNode_get]
  by_cases e : a = n
  · subst e
    rw [if_pos rfl, hna]
    simp only [Option.map_some, Option.bind_some]
    by_cases e2 : r = na.nextReg
    · subst e2; simp [addReg_reg? hfresh, toLab]
    · have h1 : ¬ ((a, r) = (a, na.nextReg)) := fun h => e2 (Prod.mk.inj h).2
      rw [if_neg h1, regMap_node hna]
      congr 1
      unfold addRegF Node.reg?
      simp only [List.find?_append]
      have : ([{ num := na.nextReg, max := 10, toks := [] }] : List VNet.Reg).find? (fun x => x.num == r) = none := by
        have : ¬ (na.nextReg = r) := fun h => e2 h.symm
        simp [this]
      rw [this]; simp
  · have h1 : ¬ ((n, r) = (a, na.nextReg)) := fun h => e (Prod.mk.inj h).1.symm
    rw [if_neg e, if_neg h1, regMap_mk]

theorem lab_addReg {s : Net} {a : Nat} {na : Node} (hna : s.nodes[a]? = some na)
    (hfresh : ∀ r, r ∈ na.regs → r.num < na.nextReg) {L : LabSt} (hL : LabAgree s L) :
    ∃ L1, labOp L (.newReg a na.nextReg) = some L1 ∧ LabAgree (modNode s a addRegF) L1 := by
  obtain ⟨L1, e1, m1⟩ := hL.toM.newReg a na.nextReg (ρ' := regMap (modNode s a addRegF)) (regMap_addReg hna hfresh)
  exact ⟨L1, e1, ⟨m1.regs, m1.keys, m1.flight, m1.next⟩⟩

section gate2
variable {s : Net} {hc ht : Nat} {g : G2} {vc vt : VQ}
variable (hwf : WF s)
include hwf

theorem lab_caseA (hvc : s.vqs[hc]? = some vc) (hvt : s.vqs[ht]? = some vt)
    (hsame : vc.virtNode = vt.virtNode) (hac : vc.active = true) (hat : vt.active = true)
    (hne : hc ≠ ht) (hsim : vc.simNode = vt.simNode) : LabStep s (stepGate2 s hc ht g) := by
  have hhc := hwf.held_of_active hvc hac
  have hht := hwf.held_of_active hvt hat
  obtain ⟨vc', qc, ndc, rgc, ic⟩ := hwf.info_of_held hhc
  obtain ⟨vt', qt, ndt, rgt, it⟩ := hwf.info_of_held hht
  have e1 := ic.hv; rw [hvc] at e1; cases e1
  have e2 := it.hv; rw [hvt] at e2; cases e2
  have dc := ic.den
  have dt := it.den
  have htok : rgc.toks[qc.pos]'ic.pos ≠ rgt.toks[qt.pos]'it.pos := by
    intro e; exact hne (tokOf_inj hwf hhc hht dc.tokOf (e ▸ dt.tokOf))
  have hndt := it.hn; rw [← hsim, ic.hn] at hndt; cases hndt
  rw [stepGate2_unfold hvc hvt hsame hac hat]
  simp only [hsim, beq_self_eq_true, if_true]
  by_cases hreg : qc.reg = qt.reg
  · have hm : localMerge s vt.simNode vc.simObj vt.simObj = (s, []) :=
      localMerge_same ic.hs it.hs (hsim ▸ ic.hn) hreg
    rw [hm]
    rw [hsim, hreg] at dc
    obtain ⟨hg, hct⟩ := gate2Op_den (g := g) dc dt htok
    rw [hg]
    intro L hL
    obtain ⟨L1, e1, a1⟩ := lab_gate2_last hL dc dt hct g
    refine ⟨L1, ?_, a1⟩
    show labOps L ([] ++ [EOp.gate2 g vt.simNode qt.reg qc.pos qt.pos]) = some L1
    simp [labOps, e1]
  · have hnd : s.nodes[vt.simNode]? = some ndc := hsim ▸ ic.hn
    have nwf := hwf.nodes _ _ hnd
    have hsimOK : ∀ o, o ∈ ndc.sim → ∀ sq, s.sqs[o]? = some sq → sq.node = vt.simNode := by
      intro o ho sq hs
      obtain ⟨sq', hs', hnode, _⟩ := nwf.simOK o ho
      rw [hs] at hs'; cases hs'; exact hnode
    have hm := localMerge_eq ic.hs it.hs hnd hreg ic.hr it.hr
    have dc' : Den (localMerge s vt.simNode vc.simObj vt.simObj).1 hc vc.simObj vt.simNode qc.reg qc.pos _ :=
      localMerge_den_other ic.hs it.hs hnd hreg ic.hr it.hr hsimOK (hsim ▸ dc) (fun h => hreg h.2)
    have dt' := localMerge_den_moved ic.hs it.hs hnd hreg ic.hr it.hr dt it.insim
    obtain ⟨hg, hct⟩ := gate2Op_den (g := g) dc' dt' htok
    rw [hg]
    intro L hL
    obtain ⟨L1, e1, m1⟩ := hL.toM.localMerge vt.simNode qc.reg qt.reg (regMap_of hnd ic.hr) (regMap_of hnd it.hr)
      hreg (nwf.regsWithinMax _ (reg?_mem ic.hr))
      (ρ' := regMap (localMerge s vt.simNode vc.simObj vt.simObj).1)
      (regMap_localMerge ic.hs it.hs hnd hreg ic.hr it.hr)
    have hnt : (localMerge s vt.simNode vc.simObj vt.simObj).1.nextTok = s.nextTok := by rw [hm]
    have a1 : LabAgree (localMerge s vt.simNode vc.simObj vt.simObj).1 L1 :=
      ⟨m1.regs, m1.keys, m1.flight, m1.next.trans hnt.symm⟩
    obtain ⟨L2, e2, a2⟩ := lab_gate2_last a1 dc' dt' hct g
    refine ⟨L2, ?_, a2⟩
    show labOps L ((localMerge s vt.simNode vc.simObj vt.simObj).2 ++ [_]) = some L2
    have hops : (localMerge s vt.simNode vc.simObj vt.simObj).2
        = [.absorb vt.simNode qc.reg qt.reg, .delReg vt.simNode qt.reg] := by rw [hm]
    rw [hops, labOps_append, e1]
    simp [labOps, e2]

theorem lab_caseB1 (hvc : s.vqs[hc]? = some vc) (hvt : s.vqs[ht]? = some vt)
    (hsame : vc.virtNode = vt.virtNode) (hac : vc.active = true) (hat : vt.active = true)
    (hne : hc ≠ ht) (hsim : vc.simNode ≠ vt.simNode) (hloc : vc.simNode = vc.virtNode) :
    LabStep s (stepGate2 s hc ht g) := by
  have hhc := hwf.held_of_active hvc hac
  have hht := hwf.held_of_active hvt hat
  obtain ⟨vc', qc, ndc, rgc, ic⟩ := hwf.info_of_held hhc
  obtain ⟨vt', qt, ndt, rgt, it⟩ := hwf.info_of_held hht
  have e1 := ic.hv; rw [hvc] at e1; cases e1
  have e2 := it.hv; rw [hvt] at e2; cases e2
  have dc := ic.den
  have dt := it.den
  have htok : rgc.toks[qc.pos]'ic.pos ≠ rgt.toks[qt.pos]'it.pos := by
    intro e; exact hne (tokOf_inj hwf hhc hht dc.tokOf (e ▸ dt.tokOf))
  rw [stepGate2_unfold hvc hvt hsame hac hat]
  rw [if_neg (by simpa using hsim), if_pos (by simpa using hloc)]
  simp only [ic.hs]
  have P : Pull s vc.virtNode vt.simNode vt.simObj qc.reg qt ndt ndc rgt rgc :=
    ⟨it.hs, it.hn, hloc ▸ ic.hn, it.hr, ic.hr, fun e => hsim (hloc.trans e.symm)⟩
  have dc' := P.other dc (fun h => hsim h.1)
  have dt' := P.moved dt hht
  obtain ⟨r1, r2⟩ := P.ret it.pos
  rw [r1, setVQ_simObj_self dt']
  rw [hloc] at dc'
  obtain ⟨hg, hct⟩ := gate2Op_den (g := g) dc' dt' htok
  rw [hg]
  intro L hL
  obtain ⟨L1, e1, a1⟩ := lab_pull P it.pos ((hwf.nodes _ _ ic.hn).regsWithinMax _ (reg?_mem ic.hr)) hL
  obtain ⟨L2, e2, a2⟩ := lab_gate2_last a1 dc' dt' hct g
  refine ⟨L2, ?_, a2⟩
  show labOps L ((mergeFrom s vc.virtNode vt.simNode vt.simObj qc.reg).2.2 ++ [_]) = some L2
  rw [labOps_append, e1]
  simp [labOps, e2]

theorem lab_caseB2 (hvc : s.vqs[hc]? = some vc) (hvt : s.vqs[ht]? = some vt)
    (hsame : vc.virtNode = vt.virtNode) (hac : vc.active = true) (hat : vt.active = true)
    (hne : hc ≠ ht) (hsim : vc.simNode ≠ vt.simNode) (hnloc : vc.simNode ≠ vc.virtNode)
    (hloc : vt.simNode = vc.virtNode) :
    LabStep s (stepGate2 s hc ht g) := by
  have hhc := hwf.held_of_active hvc hac
  have hht := hwf.held_of_active hvt hat
  obtain ⟨vc', qc, ndc, rgc, ic⟩ := hwf.info_of_held hhc
  obtain ⟨vt', qt, ndt, rgt, it⟩ := hwf.info_of_held hht
  have e1 := ic.hv; rw [hvc] at e1; cases e1
  have e2 := it.hv; rw [hvt] at e2; cases e2
  have dc := ic.den
  have dt := it.den
  have htok : rgc.toks[qc.pos]'ic.pos ≠ rgt.toks[qt.pos]'it.pos := by
    intro e; exact hne (tokOf_inj hwf hhc hht dc.tokOf (e ▸ dt.tokOf))
  rw [stepGate2_unfold hvc hvt hsame hac hat]
  rw [if_neg (by simpa using hsim), if_neg (by simpa using hnloc), if_pos (by simpa using hloc)]
  simp only [it.hs]
  have P : Pull s vc.virtNode vc.simNode vc.simObj qt.reg qc ndc ndt rgc rgt :=
    ⟨ic.hs, ic.hn, hloc ▸ it.hn, ic.hr, it.hr, hnloc⟩
  have dt' := P.other dt (fun h => hsim h.1.symm)
  have dc' := P.moved dc hhc
  obtain ⟨r1, r2⟩ := P.ret ic.pos
  rw [r1, setVQ_simObj_self dc']
  rw [hloc] at dt'
  obtain ⟨hg, hct⟩ := gate2Op_den (g := g) dc' dt' htok
  rw [hg]
  intro L hL
  obtain ⟨L1, e1, a1⟩ := lab_pull P ic.pos ((hwf.nodes _ _ it.hn).regsWithinMax _ (reg?_mem it.hr)) hL
  obtain ⟨L2, e2, a2⟩ := lab_gate2_last a1 dc' dt' hct g
  refine ⟨L2, ?_, a2⟩
  show labOps L ((mergeFrom s vc.virtNode vc.simNode vc.simObj qt.reg).2.2 ++ [_]) = some L2
  rw [labOps_append, e1]
  simp [labOps, e2]

theorem lab_caseC (hvc : s.vqs[hc]? = some vc) (hvt : s.vqs[ht]? = some vt)
    (hsame : vc.virtNode = vt.virtNode) (hac : vc.active = true) (hat : vt.active = true)
    (hne : hc ≠ ht) (hsim : vc.simNode ≠ vt.simNode) (hnc : vc.simNode ≠ vc.virtNode)
    (hnt : vt.simNode ≠ vc.virtNode) {na : Node} (hna : s.nodes[vc.virtNode]? = some na)
    (hlt : na.numRegs < na.maxRegs) :
    LabStep s (stepGate2 s hc ht g) := by
  have hhc := hwf.held_of_active hvc hac
  have hht := hwf.held_of_active hvt hat
  obtain ⟨vc', qc, ndc, rgc, ic⟩ := hwf.info_of_held hhc
  obtain ⟨vt', qt, ndt, rgt, it⟩ := hwf.info_of_held hht
  have e1 := ic.hv; rw [hvc] at e1; cases e1
  have e2 := it.hv; rw [hvt] at e2; cases e2
  have dc := ic.den
  have dt := it.den
  have htok : rgc.toks[qc.pos]'ic.pos ≠ rgt.toks[qt.pos]'it.pos := by
    intro e; exact hne (tokOf_inj hwf hhc hht dc.tokOf (e ▸ dt.tokOf))
  rw [stepGate2_unfold hvc hvt hsame hac hat]
  rw [if_neg (by simpa using hsim), if_neg (by simpa using hnc), if_neg (by simpa using hnt)]
  rw [addRegister_eq hna hlt]
  simp only
  have nwfa := hwf.nodes _ _ hna
  have F0 : Frame s (modNode s vc.virtNode addRegF) := addReg_frame hna
  have hN0 : RegsNodup (modNode s vc.virtNode addRegF) :=
    addReg_regsNodup (fun j n hn => (hwf.nodes j n hn).regNumsNodup)
      (fun na' hna' => by rw [hna] at hna'; cases hna'; exact nwfa.regNumsFresh)
  have hdn0 : (modNode s vc.virtNode addRegF).nodes[vc.virtNode]? = some (addRegF na) := by
    rw [modNode_get, if_pos rfl, hna]; rfl
  have hsn0 : (modNode s vc.virtNode addRegF).nodes[vc.simNode]? = some ndc := by
    rw [modNode_get, if_neg (Ne.symm hnc)]; exact ic.hn
  have P1 : Pull (modNode s vc.virtNode addRegF) vc.virtNode vc.simNode vc.simObj na.nextReg qc ndc
      (addRegF na) rgc { num := na.nextReg, max := 10, toks := [] } :=
    ⟨ic.hs, hsn0, hdn0, ic.hr, addReg_reg? nwfa.regNumsFresh, hnc⟩
  have dc1 := P1.moved (addReg_den dc) (F0.allHeld ▸ hhc)
  have dt1 := P1.other (addReg_den dt) (fun h => hsim h.1.symm)
  obtain ⟨r1, r1'⟩ := P1.ret ic.pos
  have F1 := P1.frame (hN0 _ _ hsn0) (hN0 _ _ hdn0)
  have hN1 := P1.regsNodup hN0
  rw [r1, setVQ_simObj_self dc1]
  obtain ⟨nd1, rg1, hdn1, hloc1, _⟩ := dc1.reg
  obtain ⟨q2, sn2, oldR2, P2, hq2r, hq2p, hp2⟩ := Pull.of_den dt1 hdn1 hloc1 hnt
  have dc2 := P2.other dc1 (fun h => hnt h.1.symm)
  rw [← hq2r] at dt1
  have dt1' := dt1
  have dt2 := P2.moved dt1' ((F0.trans F1).allHeld ▸ hht)
  obtain ⟨r2, r2'⟩ := P2.ret (hq2p ▸ hp2)
  rw [r2, hq2p, setVQ_simObj_self dt2]
  obtain ⟨hg, hct⟩ := gate2Op_den (g := g) dc2 dt2 htok
  rw [hg]
  -- the contract
  intro L hL
  obtain ⟨L0, e0, a0⟩ := lab_addReg hna nwfa.regNumsFresh hL
  obtain ⟨L1, e1, a1⟩ := lab_pull P1 ic.pos (by show 0 ≤ 10; omega) a0
  have hrg1 : toLab rg1 = { max := 10 + rgc.toks.length, slots := [] ++ rgc.toks } := by
    have := (regMap_of hdn1 hloc1).symm.trans (regMap_pull P1 (vc.virtNode, na.nextReg))
    simpa using this
  have hlim1 : rg1.toks.length ≤ rg1.max := by
    have h1 : rg1.max = 10 + rgc.toks.length := congrArg Engine.Reg.max hrg1
    have h2 : rg1.toks = [] ++ rgc.toks := congrArg Engine.Reg.slots hrg1
    rw [h1, h2]; simp
  obtain ⟨L2, e2, a2⟩ := lab_pull P2 (hq2p ▸ hp2) hlim1 a1
  obtain ⟨L3, e3, a3⟩ := lab_gate2_last a2 dc2 dt2 hct g
  refine ⟨L3, ?_, a3⟩
  show labOps L ([EOp.newReg vc.virtNode na.nextReg] ++
    (mergeFrom (modNode s vc.virtNode addRegF) vc.virtNode vc.simNode vc.simObj na.nextReg).2.2 ++
    (mergeFrom (mergeFrom (modNode s vc.virtNode addRegF) vc.virtNode vc.simNode vc.simObj na.nextReg).1
      vc.virtNode vt.simNode vt.simObj na.nextReg).2.2 ++ [_]) = some L3
  rw [labOps_append, labOps_append, labOps_append]
  have e0' : labOps L [EOp.newReg vc.virtNode na.nextReg] = some L0 := by simp [labOps, e0]
  rw [e0']
  simp only [Option.bind_some]
  rw [e1]
  simp only [Option.bind_some]
  rw [e2]
  simp only [Option.bind_some, labOps]
  rw [e3]; rfl

theorem lab_gate2 (hc ht : Nat) (g : G2) : LabStep s (stepGate2 s hc ht g) := by
  rcases stepGate2_classify hwf hc ht g with h | h | h | h | h
  · rw [h.1]; exact labStep_inert
  · rw [h.1]; exact labStep_inert
  · rw [h.1]; exact labStep_inert
  · rw [h.1]; exact labStep_inert
  · obtain ⟨_, hne, vc, vt, hvc, hvt, hsame, hac, hat, hlim⟩ := h
    by_cases hsim : vc.simNode = vt.simNode
    · exact lab_caseA hwf hvc hvt hsame hac hat hne hsim
    · by_cases hloc : vc.simNode = vc.virtNode
      · exact lab_caseB1 hwf hvc hvt hsame hac hat hne hsim hloc
      · by_cases hloc' : vt.simNode = vc.virtNode
        · exact lab_caseB2 hwf hvc hvt hsame hac hat hne hsim hloc hloc'
        · obtain ⟨_, _, _, _, ic⟩ := hwf.info_of_held (hwf.held_of_active hvc hac)
          have e1 := ic.hv; rw [hvc] at e1; cases e1
          obtain ⟨na, hna, _⟩ := ic.home
          have hlt : na.numRegs < na.maxRegs := by
            apply Classical.byContradiction; intro h
            exact hlim ⟨hsim, hloc, hloc', na, hna, by omega⟩
          exact lab_caseC hwf hvc hvt hsame hac hat hne hsim hloc hloc' hna hlt

end gate2

/-! ### every step -/

theorem lab_step {s : Net} (hwf : WF s) (op : Op) : LabStep s (step s op) := by
  cases op with
  | gate2 hc ht g => exact lab_gate2 hwf hc ht g
  | new a =>
    rcases step_cases hwf (.new a) with hin | hout
    · intro L hL; exact ⟨L, by rw [hin.2]; rfl, by rw [hin.1]; exact hL⟩
    · generalize hst : step s (.new a) = out at hout
      cases hout with
      | new _ na hna hq hr => exact lab_new hwf hna
  | gate1 h g =>
    rcases step_cases hwf (.gate1 h g) with hin | hout
    · intro L hL; exact ⟨L, by rw [hin.2]; rfl, by rw [hin.1]; exact hL⟩
    · generalize hst : step s (.gate1 h g) = out at hout
      cases hout with
      | gate1 _ _ vq sq nd rg i hg => exact lab_gate1 i hg
  | send h b =>
    rcases step_cases hwf (.send h b) with hin | hout
    · intro L hL; exact ⟨L, by rw [hin.2]; rfl, by rw [hin.1]; exact hL⟩
    · generalize hst : step s (.send h b) = out at hout
      cases hout with
      | send _ _ vq nb hv ha hb hne hcap => exact lab_send
  | measure h ip oc =>
    rcases step_cases hwf (.measure h ip oc) with hin | hout
    · intro L hL; exact ⟨L, by rw [hin.2]; rfl, by rw [hin.1]; exact hL⟩
    · generalize hst : step s (.measure h ip oc) = out at hout
      cases hout with
      | measInplace _ _ vq sq nd rg i => exact lab_measInplace i
      | measDestr _ _ vq sq nd rg i => exact lab_measDestr i

end SqVerif.VNetEng

import SqVerif.VNetRefineStep
/-
L2 — `step_cases`: under `WF s` every step is either inert (state identical, no engine
call) or one of six explicitly described successful transitions.
-/
namespace SqVerif.VNet

/-- the successful (state- or engine-affecting) outcomes of a step -/
inductive StepOut (s : Net) : Op → Net × Res × List EOp → Prop where
  | new (a : Nat) (na : Node) (hna : s.nodes[a]? = some na) (hq : na.virt.length < na.maxQubits)
      (hr : na.numRegs < na.maxRegs) :
      StepOut s (.new a) (newNet s a na, .handle s.vqs.length, [.newReg a na.nextReg, .addFresh a na.nextReg])
  | gate1 (h : Nat) (g : G1) (vq : VQ) (sq : SQ) (nd : Node) (rg : Reg) (i : HInfo s h vq sq nd rg)
      (hg : g.supported = true) :
      StepOut s (.gate1 h g) (s, .unit, [.gate1 g vq.simNode sq.reg sq.pos])
  | gate2 (hc ht : Nat) (g : G2) (hne : hc ≠ ht) (hhc : hc ∈ allHeld s) (hht : ht ∈ allHeld s)
      (out : G2Out s hc ht g (stepGate2 s hc ht g)) :
      StepOut s (.gate2 hc ht g) (stepGate2 s hc ht g)
  | send (h b : Nat) (vq : VQ) (nb : Node) (hv : s.vqs[h]? = some vq) (ha : vq.active = true)
      (hb : s.nodes[b]? = some nb) (hne : b ≠ vq.virtNode) (hcap : nb.virt.length < nb.maxQubits) :
      StepOut s (.send h b) (sendNet s h b vq nb, .num (firstFree (virtNums s nb)), [])
  | measInplace (h : Nat) (oc : Bool) (vq : VQ) (sq : SQ) (nd : Node) (rg : Reg) (i : HInfo s h vq sq nd rg) :
      StepOut s (.measure h true oc) (s, .outcome oc, [.measInplace vq.simNode sq.reg sq.pos oc])
  | measDestr (h : Nat) (oc : Bool) (vq : VQ) (sq : SQ) (nd : Node) (rg : Reg) (i : HInfo s h vq sq nd rg) :
      StepOut s (.measure h false oc)
        (measNet s h vq sq nd rg, .outcome oc,
          [.measInplace vq.simNode sq.reg sq.pos oc, .remove vq.simNode sq.reg sq.pos] ++
            (if (rg.toks.eraseIdx sq.pos).isEmpty then [.delReg vq.simNode sq.reg] else []))

theorem step_cases {s : Net} (hwf : WF s) (op : Op) : Inert s op ∨ StepOut s op (step s op) := by
  unfold Inert
  cases op with
  | new a =>
    simp only [step]
    cases hna : s.nodes[a]? with
    | none => left; simp [stepNew, hna]
    | some na =>
      by_cases hq : na.virt.length < na.maxQubits
      · by_cases hr : na.numRegs < na.maxRegs
        · right; rw [stepNew_ok hna hq hr]; exact .new a na hna hq hr
        · left
          have h1 : ¬ na.virt.length ≥ na.maxQubits := by omega
          simp [stepNew, hna, h1, addRegister_limit hna (by omega : na.numRegs ≥ na.maxRegs)]
      · left
        have h1 : na.virt.length ≥ na.maxQubits := by omega
        simp [stepNew, hna, h1]
  | gate1 h g =>
    simp only [step]
    cases hv : s.vqs[h]? with
    | none => left; simp [stepGate1, hv]
    | some vq =>
      cases ha : vq.active with
      | false => left; simp [stepGate1, hv, ha]
      | true =>
        obtain ⟨vq', sq, nd, rg, i⟩ := hwf.info_of_held (hwf.held_of_active hv ha)
        have e := i.hv; rw [hv] at e; cases e
        cases hg : g.supported with
        | false => left; simp [stepGate1, hv, ha, i.hs, i.sact, hg]
        | true =>
          right
          have : stepGate1 s h g = (s, .unit, [.gate1 g vq.simNode sq.reg sq.pos]) := by
            simp [stepGate1, hv, ha, i.hs, i.sact, hg]
          rw [this]; exact .gate1 h g vq sq nd rg i hg
  | gate2 hc ht g =>
    simp only [step]
    rcases stepGate2_classify hwf hc ht g with h | h | h | h | h
    · left; rw [h.1]; exact ⟨rfl, rfl⟩
    · left; rw [h.1]; exact ⟨rfl, rfl⟩
    · left; rw [h.1]; exact ⟨rfl, rfl⟩
    · left; rw [h.1]; exact ⟨rfl, rfl⟩
    · right
      obtain ⟨out, hne, vc, vt, hvc, hvt, _, hac, hat, _⟩ := h
      exact .gate2 hc ht g hne (hwf.held_of_active hvc hac) (hwf.held_of_active hvt hat) out
  | send h b =>
    simp only [step]
    cases hv : s.vqs[h]? with
    | none => left; simp [stepSend, hv]
    | some vq =>
      cases ha : vq.active with
      | false => left; simp [stepSend, hv, ha]
      | true =>
        by_cases hb : b ≥ s.nodes.length
        · left; simp [stepSend, hv, ha, hb]
        · by_cases he : b = vq.virtNode
          · left
            have hbeq : (b == vq.virtNode) = true := by simp [he]
            simp only [stepSend, hv, ha, Bool.not_true, Bool.false_eq_true, if_false, hb, hbeq, if_true,
              and_self]
          · have hlt : b < s.nodes.length := by omega
            have hbeq : (b == vq.virtNode) = false := by simp [he]
            by_cases hcap : s.nodes[b].virt.length < s.nodes[b].maxQubits
            · right
              rw [stepSend_ok hv ha (List.getElem?_eq_getElem hlt) he hcap]
              exact .send h b vq _ hv ha (List.getElem?_eq_getElem hlt) he hcap
            · left
              have hge : s.nodes[b].virt.length ≥ s.nodes[b].maxQubits := by omega
              simp only [stepSend, hv, ha, Bool.not_true, Bool.false_eq_true, if_false, hb, hbeq, addQubitAt,
                List.getElem?_eq_getElem hlt, hge, if_true, and_self]
  | measure h ip oc =>
    simp only [step]
    cases hv : s.vqs[h]? with
    | none => left; simp [stepMeasure, hv]
    | some vq =>
      cases ha : vq.active with
      | false => left; simp [stepMeasure, hv, ha]
      | true =>
        obtain ⟨vq', sq, nd, rg, i⟩ := hwf.info_of_held (hwf.held_of_active hv ha)
        have e := i.hv; rw [hv] at e; cases e
        right
        cases ip with
        | true => rw [stepMeasure_inplace i]; exact .measInplace h oc vq sq nd rg i
        | false => rw [stepMeasure_destr i]; exact .measDestr h oc vq sq nd rg i

/-! ### who holds what after `send` / destructive `measure` -/

theorem send_allHeld_mem {s : Net} (hwf : WF s) {h b : Nat} {vq : VQ} {nb : Node}
    (hv : s.vqs[h]? = some vq) (ha : vq.active = true) (hne : b ≠ vq.virtNode) (x : Nat) :
    x ∈ allHeld (sendNet s h b vq nb) ↔ (x ∈ allHeld s ∧ x ≠ h) ∨ (x = s.vqs.length ∧ b < s.nodes.length) := by
  obtain ⟨_, _, _, _, i⟩ := hwf.info_of_held (hwf.held_of_active hv ha)
  have e := i.hv; rw [hv] at e; cases e
  obtain ⟨n0, hn0, hm0⟩ := i.home
  have hnodup := (hwf.nodes _ _ hn0).virtNodup
  constructor
  · intro hmem
    obtain ⟨j, n, hn, hm⟩ := mem_allHeld.1 hmem
    have hvirt := send_virt_get (s := s) (h := h) (b := b) (vq := vq) (nb := nb) hne j
    rw [hn] at hvirt
    simp only [Option.map_some] at hvirt
    by_cases e1 : j = vq.virtNode
    · rw [if_pos e1] at hvirt
      subst e1
      rw [hn0] at hvirt
      simp only [Option.map_some, Option.some.injEq] at hvirt
      rw [hvirt] at hm
      have := hnodup.mem_erase_iff.1 hm
      exact .inl ⟨mem_allHeld.2 ⟨_, n0, hn0, this.2⟩, this.1⟩
    · rw [if_neg e1] at hvirt
      cases hnb : s.nodes[j]? with
      | none => rw [hnb] at hvirt; by_cases e2 : j = b <;> simp [e2] at hvirt
      | some nj =>
        rw [hnb] at hvirt
        by_cases e2 : j = b
        · rw [if_pos e2] at hvirt
          simp only [Option.map_some, Option.some.injEq] at hvirt
          rw [hvirt] at hm
          rcases List.mem_append.1 hm with hm | hm
          · refine .inl ⟨mem_allHeld.2 ⟨j, nj, hnb, hm⟩, ?_⟩
            rintro rfl; exact e1 ((hwf.held_home hnb hm hv).symm)
          · right
            refine ⟨by simpa using hm, ?_⟩
            subst e2; exact (List.getElem?_eq_some_iff.1 hnb).1
        · rw [if_neg e2] at hvirt
          simp only [Option.map_some, Option.some.injEq] at hvirt
          rw [hvirt] at hm
          refine .inl ⟨mem_allHeld.2 ⟨j, nj, hnb, hm⟩, ?_⟩
          rintro rfl; exact e1 ((hwf.held_home hnb hm hv).symm)
  · rintro (⟨hx, hxh⟩ | ⟨rfl, hlt⟩)
    · obtain ⟨j, nj, hnj, hm⟩ := mem_allHeld.1 hx
      have hvirt := send_virt_get (s := s) (h := h) (b := b) (vq := vq) (nb := nb) hne j
      rw [hnj] at hvirt
      cases hn' : (sendNet s h b vq nb).nodes[j]? with
      | none =>
        rw [hn'] at hvirt; simp only [Option.map_some, Option.map_none] at hvirt
        split at hvirt
        · cases hvirt
        · split at hvirt <;> cases hvirt
      | some n' =>
        rw [hn'] at hvirt
        apply mem_allHeld.2
        refine ⟨j, n', hn', ?_⟩
        by_cases e1 : j = vq.virtNode
        · rw [if_pos e1] at hvirt
          simp only [Option.map_some, Option.some.injEq] at hvirt
          rw [hvirt]; exact (List.mem_erase_of_ne hxh).2 hm
        · rw [if_neg e1] at hvirt
          by_cases e2 : j = b
          · rw [if_pos e2] at hvirt
            simp only [Option.map_some, Option.some.injEq] at hvirt
            rw [hvirt]; exact List.mem_append_left _ hm
          · rw [if_neg e2] at hvirt
            simp only [Option.map_some, Option.some.injEq] at hvirt
            rw [hvirt]; exact hm
    · have hvirt := send_virt_get (s := s) (h := h) (b := b) (vq := vq) (nb := nb) hne b
      rw [if_neg hne, if_pos rfl, List.getElem?_eq_getElem hlt] at hvirt
      cases hn' : (sendNet s h b vq nb).nodes[b]? with
      | none => rw [hn'] at hvirt; simp at hvirt
      | some n' =>
        rw [hn'] at hvirt
        simp only [Option.map_some, Option.some.injEq] at hvirt
        apply mem_allHeld.2
        exact ⟨b, n', hn', by rw [hvirt]; simp⟩

theorem meas_allHeld_mem {s : Net} (hwf : WF s) {h : Nat} {vq : VQ} {sq : SQ} {nd : Node} {rg : Reg}
    (i : HInfo s h vq sq nd rg) (x : Nat) :
    x ∈ allHeld (measNet s h vq sq nd rg) ↔ x ∈ allHeld s ∧ x ≠ h := by
  obtain ⟨n0, hn0, hm0⟩ := i.home
  have hnodup := (hwf.nodes _ _ hn0).virtNodup
  constructor
  · intro hmem
    obtain ⟨j, n, hn, hm⟩ := mem_allHeld.1 hmem
    have hvirt := meas_virt_get (s := s) (h := h) (vq := vq) (sq := sq) (nd := nd) (rg := rg) j
    rw [hn] at hvirt
    simp only [Option.map_some] at hvirt
    by_cases e1 : j = vq.virtNode
    · rw [if_pos e1] at hvirt
      subst e1
      rw [hn0] at hvirt
      simp only [Option.map_some, Option.some.injEq] at hvirt
      rw [hvirt] at hm
      have := hnodup.mem_erase_iff.1 hm
      exact ⟨mem_allHeld.2 ⟨_, n0, hn0, this.2⟩, this.1⟩
    · rw [if_neg e1] at hvirt
      cases hnb : s.nodes[j]? with
      | none => rw [hnb] at hvirt; cases hvirt
      | some nj =>
        rw [hnb] at hvirt
        simp only [Option.map_some, Option.some.injEq] at hvirt
        rw [hvirt] at hm
        refine ⟨mem_allHeld.2 ⟨j, nj, hnb, hm⟩, ?_⟩
        rintro rfl; exact e1 ((hwf.held_home hnb hm i.hv).symm)
  · rintro ⟨hx, hxh⟩
    obtain ⟨j, nj, hnj, hm⟩ := mem_allHeld.1 hx
    have hvirt := meas_virt_get (s := s) (h := h) (vq := vq) (sq := sq) (nd := nd) (rg := rg) j
    rw [hnj] at hvirt
    cases hn' : (measNet s h vq sq nd rg).nodes[j]? with
    | none => rw [hn'] at hvirt; by_cases e1 : j = vq.virtNode <;> simp [e1] at hvirt
    | some n' =>
      rw [hn'] at hvirt
      apply mem_allHeld.2
      refine ⟨j, n', hn', ?_⟩
      by_cases e1 : j = vq.virtNode
      · rw [if_pos e1] at hvirt
        simp only [Option.map_some, Option.some.injEq] at hvirt
        rw [hvirt]; exact (List.mem_erase_of_ne hxh).2 hm
      · rw [if_neg e1] at hvirt
        simp only [Option.map_some, Option.some.injEq] at hvirt
        rw [hvirt]; exact hm

end SqVerif.VNet

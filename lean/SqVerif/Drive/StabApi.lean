import SqVerif.StabApi
import SqVerif.Drive.Stab
/- driver for the API part of the stabilizer model (`StabApi.lean`).  States and
   rows are encoded as in `Drive/Stab.lean` (`n | row row ...`, rows = bit strings
   of length 2n+1, `-` = no rows).  Arbitrary strings travel as their decimal code
   points joined by `,` (`e` = the empty string), so that blanks, tabs and
   newlines are compared literally.
   in : none                                 out: ok n | rows
        int n
        copy | n | rows
        graph n a-b c-d ...                  (`-` = no edge)
        strs <check 0/1> str str ...         out: ok n | rows  or ValueError:<kind>
        bools <check 0/1> bits bits ...      (rows of any length; `e` = empty row, `-` = no rows)
        flat bits                            (rank-1 data; `e` = empty)
        cube m m ...                         (m = rows joined by `/`; `E` = empty matrix, `e` = empty row)
        parse str                            out: some <bits> / none
        rowstr | w | row                     out: str
        tostr | n | rows                     out: str
        str | n | rows                       out: str
        len | n | rows                       out: n
        ppt ab cd                            out: 0..3
        std | n | rows                       out: ok n | rows
        arr <sf 0/1> <rp 0/1> | n | rows     out: arr n | rows   or  arrpiv n | rows ; p p ...
        symp | n | rows                      out: true / false
        mul | n1 | rows1 | n2 | rows2        out: ok n | rows
        sqx j | n | rows                     out: ok n | rows or ValueError
        sqz j | n | rows
        cbits | n | rows | <0/1/N...>        out: true / false / ValueError:<kind>   (`e` = empty list)
        cstr | n | rows | str
        assert <0/1/N...> k                  out: ok / ValueError:<kind>   (`e` = empty list) -/
namespace SqVerif.Drive.StabApi
open SqVerif.Stab SqVerif.Drive SqVerif.Drive.Stab

def decStr (tok : String) : Option String :=
  if tok == "e" then some "" else
  ((tok.splitOn ",").mapM (fun (d : String) => d.toNat?.map Char.ofNat)).map String.ofList

def encStr (s : String) : String :=
  if s.isEmpty then "e" else ",".intercalate (s.toList.map fun c => toString c.toNat)

def errName : Err → String
  | .parse => "parse" | .ragged => "ragged" | .rank => "rank" | .width => "width"
  | .notCommuting => "notCommuting" | .containsParse => "containsParse" | .notBool => "notBool"
  | .stabLen => "stabLen"

def okE : Except Err St → String
  | .ok s => "ok " ++ showSt s
  | .error e => "ValueError:" ++ errName e

def okB : Except Err Bool → String
  | .ok b => toString b
  | .error e => "ValueError:" ++ errName e

def bits? (tok : String) : Option (List Bool) :=
  if tok == "e" then some []
  else if tok.toList.any (fun c => c ≠ '0' ∧ c ≠ '1') then none
  else some (tok.toList.map (· == '1'))

def showBits (bs : List Bool) : String :=
  if bs.isEmpty then "e" else String.ofList (bs.map fun b => if b then '1' else '0')

def letter? (tok : String) : Option P1 :=
  match tok.toList with
  | [a, b] => if (a == '0' || a == '1') && (b == '0' || b == '1') then some (a == '1', b == '1') else none
  | _ => none

def mat? (tok : String) : Option (List (List Bool)) :=
  if tok == "E" then some [] else (tok.splitOn "/").mapM bits?

def optBit? : Char → Option (Option Bool)
  | '0' => some (some false) | '1' => some (some true) | 'N' => some none | _ => none

def showNats (l : List Nat) : String := if l.isEmpty then "-" else " ".intercalate (l.map toString)

def handle (line : String) : String :=
  match splitBar (words line) with
  | [["none"]] => okSt (some ofNone)
  | [["int", n]] =>
    match n.toNat? with
    | some n => okSt (some (ofInt n))
    | none => "bad-op"
  | [["copy"], n, rows] =>
    match parseSt n rows with
    | some s => okSt (some (ofState s))
    | none => "bad-op"
  | [("graph" :: n :: es)] =>
    match n.toNat?, (if es == ["-"] then some [] else es.mapM parsePair?) with
    | some n, some es => okSt (some (ofGraph n es))
    | _, _ => "bad-op"
  | [("strs" :: chk :: toks)] =>
    match toks.mapM decStr with
    | some strs => okE (ofStrings strs (chk == "1"))
    | none => "bad-op"
  | [("bools" :: chk :: toks)] =>
    match (if toks == ["-"] then some [] else toks.mapM bits?) with
    | some data => okE (ofBoolRows data (chk == "1"))
    | none => "bad-op"
  | [["flat", tok]] =>
    match bits? tok with
    | some data => okE (ofBoolFlat data)
    | none => "bad-op"
  | [("cube" :: toks)] =>
    match (if toks == ["-"] then some [] else toks.mapM mat?) with
    | some data => okE (ofBoolCube data)
    | none => "bad-op"
  | [["parse", tok]] =>
    match decStr tok with
    | some s => match strToOperator s with
      | some r => "some " ++ showBits r.flat
      | none => "none"
    | none => "bad-op"
  | [["rowstr"], [w], [row]] =>
    match w.toNat? with
    | some w => match parseRow w row with
      | some r => encStr (rowToString r)
      | none => "bad-op"
    | none => "bad-op"
  | [["tostr"], n, rows] =>
    match parseSt n rows with
    | some s => encStr (toStringSt s)
    | none => "bad-op"
  | [["str"], n, rows] =>
    match parseSt n rows with
    | some s => encStr (strSt s)
    | none => "bad-op"
  | [["len"], n, rows] =>
    match parseSt n rows with
    | some s => toString (numQubits s)
    | none => "bad-op"
  | [["ppt", a, b]] =>
    match letter? a, letter? b with
    | some a, some b => toString (pauliPhaseTracking a b)
    | _, _ => "bad-op"
  | [["std"], n, rows] =>
    match parseSt n rows with
    | some s => okSt (some (putInStandardForm s))
    | none => "bad-op"
  | [["arr", sf, rp], n, rows] =>
    match parseSt n rows with
    | some s =>
      match toArray s (sf == "1") (rp == "1") with
      | .arr rows => "arr " ++ showSt { n := s.n, rows := rows }
      | .arrPiv rows piv => "arrpiv " ++ showSt { n := s.n, rows := rows } ++ " ; " ++ showNats piv
    | none => "bad-op"
  | [["symp"], n, rows] =>
    match parseSt n rows with
    | some s => toString (checkSymplectic s)
    | none => "bad-op"
  | [["mul"], n1, r1, n2, r2] =>
    match parseSt n1 r1, parseSt n2 r2 with
    | some a, some b => okSt (some (mulSt a b))
    | _, _ => "bad-op"
  | [["sqx", j], n, rows] =>
    match j.toNat?, parseSt n rows with
    | some j, some s => okSt (sqrtMinIX j s)
    | _, _ => "bad-op"
  | [["sqz", j], n, rows] =>
    match j.toNat?, parseSt n rows with
    | some j, some s => okSt (sqrtIZ j s)
    | _, _ => "bad-op"
  | [["cbits"], n, rows, [tok]] =>
    match parseSt n rows, (if tok == "e" then some [] else tok.toList.mapM optBit?) with
    | some s, some stab => okB (containsBits s stab)
    | _, _ => "bad-op"
  | [["cstr"], n, rows, [tok]] =>
    match parseSt n rows, decStr tok with
    | some s, some str => okB (containsStr s str)
    | _, _ => "bad-op"
  | [["assert", tok, k]] =>
    match (if tok == "e" then some [] else tok.toList.mapM optBit?), k.toNat? with
    | some stab, some k =>
      match assertValidStabilizer stab k with
      | .ok () => "ok"
      | .error e => "ValueError:" ++ errName e
    | _, _ => "bad-op"
  | _ => "bad-op"

end SqVerif.Drive.StabApi

import SqVerif.JointLemmasEOp
import SqVerif.VNetRefineGate2
/-
C01 joint layer, part 7 — the ideal register and its coupling with the engines:
`Ideal.OK`, the effect of the token-addressed ideal operations on `IdealGroup` (same token-level
transformers as on the engines' side), the coupling `Coupled e I` (engine invariant, ideal
invariant, same tokens, `JointGroup e = IdealGroup I`) and its preservation by every emitted
engine call / block against the corresponding ideal operation (`cpl_*`), including agreement of
the measurement outcomes.
-/
set_option linter.unusedSimpArgs false
set_option linter.unusedVariables false
namespace SqVerif.Joint
open SqVerif.Stab SqVerif.Stab.Meas SqVerif.VNet SqVerif.VNetEng SqVerif.Engine

structure Ideal.OK (I : Ideal) : Prop where
  nodup : I.toks.Nodup
  size : I.toks.length = I.st.n
  reach : Reachable I.st

theorem Ideal.OK.valid {I : Ideal} (h : I.OK) : ValidMax I.st.n I.st.rows := C14.reachable_validMax _ h.reach

theorem ideal_empty_ok : Ideal.empty.OK := ⟨List.nodup_nil, rfl, Reachable.empty⟩

theorem Ideal.OK.facsOK {I : Ideal} (h : I.OK) : FacsOK [(I.toks, grp I.st)] :=
  ⟨fun F hF => by
    rw [List.mem_singleton] at hF; subst hF
    exact facOK_of_valid h.nodup h.size h.valid.toValid, by simpa using h.nodup⟩

theorem Ideal.OK.headOK {I : Ideal} (h : I.OK) : HeadOK I.toks (grp I.st) [] := h.facsOK.headOK

theorem idealGroup_iff' (toks : List Nat) (st : St) (t : TOp) :
    IdealGroup ⟨toks, st⟩ t ↔ ProdG [(toks, grp st)] t := idealGroup_iff ⟨toks, st⟩ t

/-! ### the ideal operations on the group -/

theorem ideal_new {I : Ideal} (h : I.OK) {x : Nat} (hx : x ∉ I.toks) :
    (I.new x).OK ∧ ∀ t, IdealGroup (I.new x) t ↔ TAdded (IdealGroup I) x t := by
  refine ⟨⟨?_, ?_, Reachable.tensor h.reach Reachable.zero1⟩, fun t => ?_⟩
  · show (I.toks ++ [x]).Nodup
    refine List.nodup_append.2 ⟨h.nodup, by simp, ?_⟩
    intro a ha b hb
    rw [List.mem_singleton] at hb; subst hb
    exact fun e => hx (e ▸ ha)
  · show (I.toks ++ [x]).length = (addQubit I.st).n
    rw [Engine.addQubit_n, List.length_append, h.size]; rfl
  · rw [show IdealGroup (I.new x) t ↔ ProdG [(I.toks ++ [x], grp (addQubit I.st))] t from idealGroup_iff' _ _ t]
    rw [stfac_add h.headOK h.valid.toCommuting h.valid.count hx (fun F hF => by cases hF) t]
    exact tadded_congr (fun t0 => (idealGroup_iff I t0).symm) x t

theorem ideal_gate1 {I : Ideal} (h : I.OK) (g : Gate1) {j x : Nat} (hj : I.toks[j]? = some x) :
    ∃ I', I.gate1 g x = some I' ∧ I'.OK ∧ I'.toks = I.toks ∧
      ∀ t, IdealGroup I' t ↔ ∃ t0, IdealGroup I t0 ∧ t ≈ₜ t0.conj1 g x := by
  have hjl : j < I.st.n := h.size ▸ (List.getElem?_eq_some_iff.1 hj).1
  have hg : applyGate1 g j I.st = some { I.st with rows := I.st.rows.map (g.row j) } := by
    unfold applyGate1; rw [if_pos hjl]
  refine ⟨⟨I.toks, { I.st with rows := I.st.rows.map (g.row j) }⟩, ?_, ⟨h.nodup, h.size, Reachable.gate1 g j h.reach hg⟩,
    rfl, fun t => ?_⟩
  · simp only [Ideal.gate1, pos_of_get I.toks x j h.nodup hj, hg, Option.map_some]
  · rw [idealGroup_iff', stfac_gate1 h.headOK h.valid.toCommuting hj hg t]
    constructor
    · rintro ⟨t0, h0, ht⟩; exact ⟨t0, (idealGroup_iff I t0).2 h0, ht⟩
    · rintro ⟨t0, h0, ht⟩; exact ⟨t0, (idealGroup_iff I t0).1 h0, ht⟩

theorem getElem?_inj_of_nodup {l : List Nat} (hn : l.Nodup) {i j x : Nat} (hi : l[i]? = some x) (hj : l[j]? = some x) :
    i = j := by
  have hil : i < l.length := (List.getElem?_eq_some_iff.1 hi).1
  exact (List.getElem?_inj hil hn).1 (hi.trans hj.symm)

theorem ideal_gate2 {I : Ideal} (h : I.OK) (g : Gate2) {jc jd c d : Nat} (hjc : I.toks[jc]? = some c)
    (hjd : I.toks[jd]? = some d) (hne : c ≠ d) :
    ∃ I', I.gate2 g c d = some I' ∧ I'.OK ∧ I'.toks = I.toks ∧
      ∀ t, IdealGroup I' t ↔ ∃ t0, IdealGroup I t0 ∧ t ≈ₜ t0.conj2 g c d := by
  have hjcl : jc < I.st.n := h.size ▸ (List.getElem?_eq_some_iff.1 hjc).1
  have hjdl : jd < I.st.n := h.size ▸ (List.getElem?_eq_some_iff.1 hjd).1
  have hjne : jc ≠ jd := by
    intro e; subst e
    rw [hjc] at hjd; cases hjd; exact hne rfl
  have hg : applyGate2 g jc jd I.st = some { I.st with rows := I.st.rows.map (g.row jc jd) } := by
    unfold applyGate2; rw [if_pos ⟨hjcl, hjdl, hjne⟩]
  refine ⟨⟨I.toks, { I.st with rows := I.st.rows.map (g.row jc jd) }⟩, ?_,
    ⟨h.nodup, h.size, Reachable.gate2 g jc jd h.reach hg⟩, rfl, fun t => ?_⟩
  · simp only [Ideal.gate2, pos_of_get I.toks c jc h.nodup hjc, pos_of_get I.toks d jd h.nodup hjd, hg, Option.map_some]
  · rw [idealGroup_iff', stfac_gate2 h.headOK h.valid.toCommuting hjc hjd hg t]
    constructor
    · rintro ⟨t0, h0, ht⟩; exact ⟨t0, (idealGroup_iff I t0).2 h0, ht⟩
    · rintro ⟨t0, h0, ht⟩; exact ⟨t0, (idealGroup_iff I t0).1 h0, ht⟩

theorem ideal_z {I : Ideal} (h : I.OK) {j x : Nat} (hj : I.toks[j]? = some x) (b : Bool) :
    IdealGroup I (TOp.z x b) ↔ InGroup I.st.n I.st.rows (zAt I.st.n j b) := by
  rw [idealGroup_iff]
  have := prodG_z (toks := I.toks) (G := grp I.st) b h.facsOK hj
  rw [h.size] at this
  exact this

theorem ideal_measure {I : Ideal} (h : I.OK) {j x : Nat} (hj : I.toks[j]? = some x) (ip coin : Bool) :
    ∃ o st', Stab.measure I.st j ip coin = some (o, st') ∧
      I.measure x ip coin = some (o, ⟨if ip then I.toks else I.toks.eraseIdx j, st'⟩) ∧
      Ideal.OK ⟨if ip then I.toks else I.toks.eraseIdx j, st'⟩ ∧
      ¬ InGroup I.st.n I.st.rows (zAt I.st.n j (!o)) ∧
      ∀ t, IdealGroup ⟨if ip then I.toks else I.toks.eraseIdx j, st'⟩ t ↔
        if ip then TCollapsed (IdealGroup I) x o t else TRestricted (TCollapsed (IdealGroup I) x o) x o t := by
  have hjt : j < I.toks.length := (List.getElem?_eq_some_iff.1 hj).1
  have hjl : j < I.st.n := h.size ▸ hjt
  obtain ⟨o, st', hm, hn⟩ := Engine.measure_some I.st j ip coin hjl
  refine ⟨o, st', hm, ?_, ⟨?_, ?_, Reachable.measure j ip coin o h.reach hm⟩,
    C14.measure_outcome_possible I.st j ip coin o st' h.valid hjl hm, fun t => ?_⟩
  · simp only [Ideal.measure, pos_of_get I.toks x j h.nodup hj, hm, Option.map_some]
  · cases ip
    · exact List.Nodup.eraseIdx _ h.nodup
    · exact h.nodup
  · cases ip
    · simp only [Bool.false_eq_true, if_false] at hn ⊢
      rw [hn, List.length_eraseIdx, if_pos hjt, h.size]
    · simp only [if_true] at hn ⊢
      rw [hn, h.size]
  · cases ip
    · simp only [Bool.false_eq_true, if_false]
      rw [idealGroup_iff', stfac_meas_destr h.headOK h.valid h.size hj hm t]
      exact trestricted_congr (tcollapsed_congr (fun t0 => (idealGroup_iff I t0).symm) x o) x o t
    · simp only [if_true]
      rw [idealGroup_iff', stfac_meas_inplace h.headOK h.valid h.size hj hm t]
      exact tcollapsed_congr (fun t0 => (idealGroup_iff I t0).symm) x o t

/-! ### the coupling -/

structure Coupled (e : EngSt) (I : Ideal) : Prop where
  inv : JInv e
  iok : I.OK
  toks : ∀ x, x ∈ I.toks ↔ x ∈ allSlots e.regs
  grp : ∀ t, JointGroup e t ↔ IdealGroup I t

theorem coupled_empty : Coupled EngSt.empty Ideal.empty := by
  refine ⟨jinv_empty, ideal_empty_ok, fun x => Iff.rfl, fun t => ?_⟩
  rw [idealGroup_iff]
  show t ≈ₜ TOp.one ↔ ProdG [([], grp Stab.empty)] t
  exact (prodG_nil_fac (rest := []) (grp_zero rfl rfl) t).symm

/-- the slot holding a token of the engines is a position of the ideal register -/
theorem Coupled.pos {e : EngSt} {I : Ideal} (h : Coupled e I) {k : Key} {en : LEng} {p x : Nat}
    (hk : aget e.regs k = some en) (hj : en.lab.slots[p]? = some x) : ∃ j : Nat, I.toks[j]? = some x := by
  have hx : x ∈ allSlots e.regs := mem_allSlots.2 ⟨_, mem_of_aget _ _ _ hk, List.mem_of_getElem? hj⟩
  exact List.mem_iff_getElem?.1 ((h.toks x).2 hx)

theorem cpl_same {e e' : EngSt} {I : Ideal} (h : Coupled e I) (hJ : JInv e')
    (hs : ∀ y, y ∈ allSlots e'.regs ↔ y ∈ allSlots e.regs) (hg : ∀ t, JointGroup e' t ↔ JointGroup e t) :
    Coupled e' I :=
  ⟨hJ, h.iok, fun x => (h.toks x).trans (hs x).symm, fun t => (hg t).trans (h.grp t)⟩

theorem cpl_gate1 {rc : Bool} {e e' : EngSt} {I : Ideal} {g : G1} {g' : Gate1} {n r p x : Nat} {en : LEng}
    (h : Coupled e I) (hg : g1Gate g = some g') (hk : aget e.regs (n, r) = some en)
    (hj : en.lab.slots[p]? = some x) (hop : applyEOp rc e (.gate1 g n r p) = some e') :
    ∃ I', I.gate1 g' x = some I' ∧ Coupled e' I' ∧ e'.next = e.next := by
  obtain ⟨hJ', hnx, hsl, hgrp⟩ := eop_gate1 h.inv hg hk hj hop
  obtain ⟨j, hjI⟩ := h.pos hk hj
  obtain ⟨I', hI, ok', htk, hgI⟩ := ideal_gate1 h.iok g' hjI
  refine ⟨I', hI, ⟨hJ', ok', fun y => by rw [htk, hsl]; exact h.toks y, fun t => ?_⟩, hnx⟩
  rw [hgrp, hgI]
  constructor
  · rintro ⟨t0, h0, ht⟩; exact ⟨t0, (h.grp t0).1 h0, ht⟩
  · rintro ⟨t0, h0, ht⟩; exact ⟨t0, (h.grp t0).2 h0, ht⟩

theorem cpl_gate2 {rc : Bool} {e e' : EngSt} {I : Ideal} {g : G2} {n r pc pt c d : Nat} {en : LEng}
    (h : Coupled e I) (hk : aget e.regs (n, r) = some en) (hjc : en.lab.slots[pc]? = some c)
    (hjd : en.lab.slots[pt]? = some d) (hne : pc ≠ pt) (hop : applyEOp rc e (.gate2 g n r pc pt) = some e') :
    ∃ I', I.gate2 (g2Gate g) c d = some I' ∧ Coupled e' I' ∧ e'.next = e.next := by
  obtain ⟨hJ', hnx, hsl, hgrp⟩ := eop_gate2 h.inv hk hjc hjd hop
  obtain ⟨jc, hjcI⟩ := h.pos hk hjc
  obtain ⟨jd, hjdI⟩ := h.pos hk hjd
  have hnd : en.lab.slots.Nodup :=
    nodup_of_flatMap _ e.regs h.inv.slots _ (mem_of_aget _ _ _ hk)
  have hcd : c ≠ d := by
    intro e0; subst e0
    exact hne (getElem?_inj_of_nodup hnd hjc hjd)
  obtain ⟨I', hI, ok', htk, hgI⟩ := ideal_gate2 h.iok (g2Gate g) hjcI hjdI hcd
  refine ⟨I', hI, ⟨hJ', ok', fun y => by rw [htk, hsl]; exact h.toks y, fun t => ?_⟩, hnx⟩
  rw [hgrp, hgI]
  constructor
  · rintro ⟨t0, h0, ht⟩; exact ⟨t0, (h.grp t0).1 h0, ht⟩
  · rintro ⟨t0, h0, ht⟩; exact ⟨t0, (h.grp t0).2 h0, ht⟩

/-- `remote_new_qubit`: a new register with one fresh qubit against `Ideal.new` -/
theorem cpl_new {rc : Bool} {e e' : EngSt} {I : Ideal} {n r : Nat} (h : Coupled e I)
    (hnone : aget e.regs (n, r) = none) (hop : runOps rc e [.newReg n r, .addFresh n r] = some e') :
    Coupled e' (I.new e.next) ∧ e'.next = e.next + 1 := by
  obtain ⟨e1, h1, hop⟩ := runOps_cons hop
  obtain ⟨e2, h2, hop⟩ := runOps_cons hop
  have := runOps_nil hop; subst this
  obtain ⟨hJ1, hn1, hs1, hg1, hk1⟩ := eop_newReg h.inv hnone h1
  obtain ⟨en', _, _, hJ2, hn2, hs2, hg2⟩ := eop_addFresh hJ1 hk1 h2
  have hx : e.next ∉ I.toks := fun hm => Nat.lt_irrefl _ (h.inv.fresh _ ((h.toks _).1 hm))
  obtain ⟨ok', hgI⟩ := ideal_new h.iok hx
  refine ⟨⟨hJ2, ok', fun y => ?_, fun t => ?_⟩, by rw [hn2, hn1]⟩
  · rw [hs2, hs1, hn1]
    show y ∈ I.toks ++ [e.next] ↔ _
    rw [List.mem_append, List.mem_singleton, h.toks y]
  · rw [hg2, hgI, hn1]
    exact tadded_congr (fun t0 => (hg1 t0).trans (h.grp t0)) e.next t

/-! ### register moves -/

/-- the register moves a two-qubit gate may emit, as blocks -/
inductive Moves : List EOp → Prop where
  | nil : Moves []
  | absorb (n r1 r2 : Nat) (rest : List EOp) : r1 ≠ r2 → Moves rest →
      Moves (.absorb n r1 r2 :: .delReg n r2 :: rest)
  | pull (n r sn sr : Nat) (rest : List EOp) : Moves rest →
      Moves (.exportDel sn sr :: .delReg sn sr :: .absorbParts n r sn sr :: rest)

theorem Moves.append {a b : List EOp} (ha : Moves a) (hb : Moves b) : Moves (a ++ b) := by
  induction ha with
  | nil => exact hb
  | absorb n r1 r2 rest hne _ ih => exact Moves.absorb n r1 r2 _ hne ih
  | pull n r sn sr rest _ ih => exact Moves.pull n r sn sr _ ih

theorem Moves.isMove {l : List EOp} (h : Moves l) : ∀ x, x ∈ l → x.isMove = true := by
  induction h with
  | nil => intro x hx; cases hx
  | absorb n r1 r2 rest _ _ ih =>
    intro x hx
    rcases List.mem_cons.1 hx with rfl | hx
    · rfl
    rcases List.mem_cons.1 hx with rfl | hx
    · rfl
    exact ih x hx
  | pull n r sn sr rest _ ih =>
    intro x hx
    rcases List.mem_cons.1 hx with rfl | hx
    · rfl
    rcases List.mem_cons.1 hx with rfl | hx
    · rfl
    rcases List.mem_cons.1 hx with rfl | hx
    · rfl
    exact ih x hx

/-- register moves change neither the invariant, nor the labels, nor the joint group -/
theorem moves_preserve {rc : Bool} {ops : List EOp} (hm : Moves ops) : ∀ {e e' : EngSt}, JInv e →
    runOps rc e ops = some e' →
    JInv e' ∧ e'.next = e.next ∧ (∀ y, y ∈ allSlots e'.regs ↔ y ∈ allSlots e.regs) ∧
      (∀ t, JointGroup e' t ↔ JointGroup e t) := by
  induction hm with
  | nil =>
    intro e e' hJ h
    have := runOps_nil h; subst this
    exact ⟨hJ, rfl, fun _ => Iff.rfl, fun _ => Iff.rfl⟩
  | absorb n r1 r2 rest hne _ ih =>
    intro e e' hJ h
    obtain ⟨ea, ha, h⟩ := runOps_cons h
    obtain ⟨eb, hb, h⟩ := runOps_cons h
    have hblk : runOps rc e [.absorb n r1 r2, .delReg n r2] = some eb := by simp [runOps, ha, hb]
    obtain ⟨hJ1, hn1, hs1, hg1⟩ := blk_absorb hJ hne hblk
    obtain ⟨hJ2, hn2, hs2, hg2⟩ := ih hJ1 h
    exact ⟨hJ2, hn2.trans hn1, fun y => (hs2 y).trans (hs1 y), fun t => (hg2 t).trans (hg1 t)⟩
  | pull n r sn sr rest _ ih =>
    intro e e' hJ h
    obtain ⟨ea, ha, h⟩ := runOps_cons h
    obtain ⟨eb, hb, h⟩ := runOps_cons h
    obtain ⟨ec, hc, h⟩ := runOps_cons h
    have hblk : runOps rc e [.exportDel sn sr, .delReg sn sr, .absorbParts n r sn sr] = some ec := by
      simp [runOps, ha, hb, hc]
    obtain ⟨hJ1, hn1, hs1, hg1⟩ := blk_pull hJ hblk
    obtain ⟨hJ2, hn2, hs2, hg2⟩ := ih hJ1 h
    exact ⟨hJ2, hn2.trans hn1, fun y => (hs2 y).trans (hs1 y), fun t => (hg2 t).trans (hg1 t)⟩

theorem cpl_moves {rc : Bool} {ops : List EOp} {e e' : EngSt} {I : Ideal} (hm : Moves ops) (h : Coupled e I)
    (hop : runOps rc e ops = some e') : Coupled e' I ∧ e'.next = e.next := by
  obtain ⟨hJ, hn, hs, hg⟩ := moves_preserve hm h.inv hop
  exact ⟨cpl_same h hJ hs hg, hn⟩

theorem cpl_newReg {rc : Bool} {e e' : EngSt} {I : Ideal} {n r : Nat} (h : Coupled e I)
    (hnone : aget e.regs (n, r) = none) (hop : applyEOp rc e (.newReg n r) = some e') :
    Coupled e' I ∧ e'.next = e.next := by
  obtain ⟨hJ1, hn1, hs1, hg1, _⟩ := eop_newReg h.inv hnone hop
  exact ⟨cpl_same h hJ1 hs1 hg1, hn1⟩

/-! ### measurements -/

/-- the engines' in-place measurement against the ideal one, same coin: same outcome, coupled after -/
theorem cpl_measInplace {rc : Bool} {e e' : EngSt} {I : Ideal} {n r p x : Nat} {oc : Bool} {en : LEng}
    (h : Coupled e I) (hk : aget e.regs (n, r) = some en) (hj : en.lab.slots[p]? = some x)
    (hop : applyEOp rc e (.measInplace n r p oc) = some e') :
    ∃ o I' j, engOutcome e (.measInplace n r p oc) = some o ∧ I.measure x true oc = some (o, I') ∧
      I.toks[j]? = some x ∧ ¬ InGroup I.st.n I.st.rows (zAt I.st.n j (!o)) ∧
      Coupled e' I' ∧ e'.next = e.next := by
  obtain ⟨o, en', hout, hm, hk', hs', hz', hJ', hnx, hsl, hgrp⟩ := eop_measInplace h.inv hk hj hop
  obtain ⟨j, hjI⟩ := h.pos hk hj
  obtain ⟨o2, st', hm2, hI, ok', hposs, hgI⟩ := ideal_measure h.iok hjI true oc
  have ok := h.inv.ok _ (mem_of_aget _ _ _ hk)
  have hpl : p < en.eng.st.n := by rw [ok.size]; exact (List.getElem?_eq_some_iff.1 hj).1
  have hjl : j < I.st.n := h.iok.size ▸ (List.getElem?_eq_some_iff.1 hjI).1
  have hzz : ∀ b, InGroup en.eng.st.n en.eng.st.rows (zAt en.eng.st.n p b) ↔
      InGroup I.st.n I.st.rows (zAt I.st.n j b) := fun b =>
    ((joint_z h.inv hk hj b).symm.trans (h.grp _)).trans (ideal_z h.iok hjI b)
  have ho : o = o2 := outcome_agree (leng_valid ok) h.iok.valid hpl hjl hzz hm hm2
  subst ho
  simp only [if_true] at hI ok' hgI
  refine ⟨o, ⟨I.toks, st'⟩, j, hout, hI, hjI, hposs, ⟨hJ', ok', fun y => by rw [hsl]; exact h.toks y, fun t => ?_⟩, hnx⟩
  rw [hgrp, hgI]
  exact tcollapsed_congr h.grp x o t

/-- the engines' destructive measurement (`measure_qubit_inplace`, `remove_qubit`, and
`registers.pop` if the register became empty) against ONE destructive ideal measurement -/
theorem cpl_measDestr {rc : Bool} {e e' : EngSt} {I : Ideal} {n r p x : Nat} {oc : Bool} {en : LEng}
    (h : Coupled e I) (hk : aget e.regs (n, r) = some en) (hj : en.lab.slots[p]? = some x)
    (hop : runOps rc e ([.measInplace n r p oc, .remove n r p] ++
      (if (en.lab.slots.eraseIdx p).isEmpty then [.delReg n r] else [])) = some e') :
    ∃ o I' j, engOutcome e (.measInplace n r p oc) = some o ∧ I.measure x false oc = some (o, I') ∧
      I.toks[j]? = some x ∧ ¬ InGroup I.st.n I.st.rows (zAt I.st.n j (!o)) ∧
      Coupled e' I' ∧ e'.next = e.next := by
  obtain ⟨e1, h1, hop⟩ := runOps_cons hop
  obtain ⟨e2, h2, hop⟩ := runOps_cons hop
  obtain ⟨o, en1, hout, hm, hk1, hs1, hz1, hJ1, hn1, hsl1, hg1⟩ := eop_measInplace h.inv hk hj h1
  have hj1 : en1.lab.slots[p]? = some x := by rw [hs1]; exact hj
  obtain ⟨en2, hk2, hs2, hJ2, hn2, hsl2, hg2⟩ := eop_remove hJ1 hk1 hj1 hz1 h2
  obtain ⟨j, hjI⟩ := h.pos hk hj
  obtain ⟨o2, st', hm2, hI, ok', hposs, hgI⟩ := ideal_measure h.iok hjI false oc
  have ok := h.inv.ok _ (mem_of_aget _ _ _ hk)
  have hpl : p < en.eng.st.n := by rw [ok.size]; exact (List.getElem?_eq_some_iff.1 hj).1
  have hjl : j < I.st.n := h.iok.size ▸ (List.getElem?_eq_some_iff.1 hjI).1
  have hzz : ∀ b, InGroup en.eng.st.n en.eng.st.rows (zAt en.eng.st.n p b) ↔
      InGroup I.st.n I.st.rows (zAt I.st.n j b) := fun b =>
    ((joint_z h.inv hk hj b).symm.trans (h.grp _)).trans (ideal_z h.iok hjI b)
  have ho : o = o2 := outcome_agree (leng_valid ok) h.iok.valid hpl hjl hzz hm hm2
  subst ho
  simp only [Bool.false_eq_true, if_false] at hI ok' hgI
  have hc2 : Coupled e2 ⟨I.toks.eraseIdx j, st'⟩ := by
    refine ⟨hJ2, ok', fun y => ?_, fun t => ?_⟩
    · rw [hsl2, hsl1, ← h.toks y]
      exact mem_eraseIdx_nodup I.toks j x y h.iok.nodup hjI
    · rw [hg2, hgI]
      exact trestricted_congr (fun t0 => (hg1 t0).trans (tcollapsed_congr h.grp x o t0)) x o t
  refine ⟨o, ⟨I.toks.eraseIdx j, st'⟩, j, hout, hI, hjI, hposs, ?_⟩
  by_cases hemp : (en.lab.slots.eraseIdx p).isEmpty = true
  · rw [if_pos hemp] at hop
    obtain ⟨e3, h3, hop⟩ := runOps_cons hop
    have := runOps_nil hop; subst this
    have hs2' : en2.lab.slots = [] := by
      rw [hs2, hs1]; exact List.isEmpty_iff.1 hemp
    obtain ⟨hJ3, hn3, hsl3, hg3⟩ := eop_delEmpty hJ2 hk2 hs2' h3
    exact ⟨cpl_same hc2 hJ3 hsl3 hg3, by rw [hn3, hn2, hn1]⟩
  · rw [if_neg hemp] at hop
    have := runOps_nil hop; subst this
    exact ⟨hc2, by rw [hn2, hn1]⟩

end SqVerif.Joint

import SqVerif.VNetSpec
/-
L2 — an executable, SOUND checker for the invariant `WF` (used only to discharge the `WF`
hypothesis on concrete example states by `decide`; the general fact "every reachable state
is WF" is property C02).
-/
namespace SqVerif.VNet

def virtOKB (s : Net) (i : Nat) (h : Nat) : Bool :=
  match s.vqs[h]? with
  | none => false
  | some vq => vq.active && vq.virtNode == i &&
    match s.nodes[vq.simNode]?, s.sqs[vq.simObj]? with
    | some sn, some sq => sn.sim.contains vq.simObj && sq.active && sq.node == vq.simNode
    | _, _ => false

def simOKB (s : Net) (i : Nat) (n : Node) (o : Nat) : Bool :=
  match s.sqs[o]? with
  | none => false
  | some sq => sq.node == i && sq.active && (n.reg? sq.reg).isSome

def nodeWFB (s : Net) (i : Nat) (n : Node) : Bool :=
  decide n.virt.Nodup && decide n.sim.Nodup && decide (virtNums s n).Nodup && decide (simNums s n).Nodup &&
  decide (n.numRegs = n.regs.length) && decide (n.regs.map (·.num)).Nodup &&
  n.regs.all (fun r => decide (r.num < n.nextReg)) && n.regs.all (fun r => decide (r.toks ≠ [])) &&
  n.regs.all (fun r => decide (r.toks.length ≤ r.max)) &&
  decide (n.virt.length ≤ n.maxQubits) && n.virt.all (virtOKB s i) && n.sim.all (simOKB s i n) &&
  n.regs.all (fun r => ((simsOfReg s n r.num).map (·.pos)).isPerm (List.range r.toks.length))

def wfB (s : Net) : Bool :=
  (List.range s.nodes.length).all (fun i => match s.nodes[i]? with
    | some n => nodeWFB s i n
    | none => true) &&
  decide ((allHeld s).filterMap fun h => (s.vqs[h]?).map (·.simObj)).Nodup &&
  (allSim s).all (fun o => (allHeld s).any (fun h => match s.vqs[h]? with
    | some vq => vq.simObj == o
    | none => false)) &&
  (List.range s.vqs.length).all (fun h => match s.vqs[h]? with
    | some vq => (allHeld s).contains h || !vq.active
    | none => true) &&
  decide (allToks s).Nodup && (allToks s).all (fun t => decide (t < s.nextTok))

theorem nodeWFB_sound {s : Net} {i : Nat} {n : Node} (h : nodeWFB s i n = true) : NodeWF s i n := by
  simp only [nodeWFB, Bool.and_eq_true, decide_eq_true_eq, List.all_eq_true] at h
  obtain ⟨⟨⟨⟨⟨⟨⟨⟨⟨⟨⟨⟨h1, h2⟩, h3⟩, h4⟩, h5⟩, h6⟩, h7⟩, h8⟩, h9⟩, h10⟩, h11⟩, h12⟩, h13⟩ := h
  refine ⟨h1, h2, h3, h4, h5, h6, h7, h8, h9, h10, ?_, ?_, ?_⟩
  · intro x hx
    have := h11 x hx
    unfold virtOKB at this
    split at this
    · cases this
    · rename_i vq hv
      simp only [Bool.and_eq_true, beq_iff_eq] at this
      obtain ⟨⟨ha, hvn⟩, hrest⟩ := this
      split at hrest
      · rename_i sn sq hsn hsq
        simp only [Bool.and_eq_true, beq_iff_eq, List.contains_iff_mem] at hrest
        exact ⟨vq, hv, ha, hvn, sn, sq, hsn, hrest.1.1, hsq, hrest.1.2, hrest.2⟩
      · cases hrest
  · intro o ho
    have := h12 o ho
    unfold simOKB at this
    split at this
    · cases this
    · rename_i sq hs
      simp only [Bool.and_eq_true, beq_iff_eq] at this
      obtain ⟨⟨h1', h2'⟩, h3'⟩ := this
      exact ⟨sq, hs, h1', h2', Option.isSome_iff_exists.1 h3'⟩
  · intro r hr
    exact List.isPerm_iff.1 (h13 r hr)

/-- soundness of the checker -/
theorem wfB_sound {s : Net} (h : wfB s = true) : WF s := by
  simp only [wfB, Bool.and_eq_true, decide_eq_true_eq, List.all_eq_true] at h
  obtain ⟨⟨⟨⟨⟨h1, h2⟩, h3⟩, h4⟩, h5⟩, h6⟩ := h
  refine ⟨?_, h2, ?_, ?_, h5, h6⟩
  · intro i n hn
    have hi : i < s.nodes.length := (List.getElem?_eq_some_iff.1 hn).1
    have := h1 i (List.mem_range.2 hi)
    rw [hn] at this
    exact nodeWFB_sound this
  · intro o ho
    have := h3 o ho
    obtain ⟨x, hx, hp⟩ := List.any_eq_true.1 this
    split at hp
    · rename_i vq hv
      exact ⟨x, vq, hx, hv, by simpa using hp⟩
    · cases hp
  · intro x vq hv hnh
    have hx : x < s.vqs.length := (List.getElem?_eq_some_iff.1 hv).1
    have := h4 x (List.mem_range.2 hx)
    rw [hv] at this
    simp only [Bool.or_eq_true, List.contains_iff_mem, Bool.not_eq_true'] at this
    rcases this with h' | h'
    · exact absurd h' hnh
    · exact h'

end SqVerif.VNet

import SqVerif.Drive.Stab
def main : IO Unit := SqVerif.Drive.loopStateless SqVerif.Drive.Stab.handle

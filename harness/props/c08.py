"""C08 -- entanglement generation delivers matched halves of one Bell pair per request
(simulaqron/netqasm_backend/executioner.py cmd_epr / cmd_epr_recv ...,
 simulaqron/virtual_node/virtual.py qubit_recv_epr FIFO).

Execution.  Every scenario is a small network (2-4 nodes) with EPR sockets on
several node pairs and a global list of entanglement requests (n = 1..4 pairs,
create-and-keep or measure-directly with each RandomBasis choice and arbitrary
probability parameters, both directions of a socket pair at once).  Each node
runs ONE netqasm-SDK program (recorded with DebugConnection: InitNewApp,
OpenEPRSocket..., Subroutine...) against the REAL NetQASMFactory /
SubroutineHandler / executioner on real virtual nodes (`simnet.NqNet`); every
host is a blocking host (next frame after the Done of the previous one), the
PB messages and timers of all nodes are interleaved by a scheduler (Fifo,
Random seeds, DelayInjection on the delivery of a half / on a poll, PCT).

Application histories.  2-3 applications run one after another (InitNewApp,
OpenEPRSocket..., subroutines, StopApp; a new host connection each) at the same
NetQASM servers of ONE network that is never restarted; later applications
re-use LOCAL EPR socket ids towards another remote socket id / another remote
node (and the mirrored case, both ids swapped between two socket pairs, the
identical pair again as control; a first application that only registers its
sockets).  Every application is judged by the oracle below; in addition every
`netqasm_add_epr_list` call must name a socket pair of a create request of the
running application, StopApp must be answered and leave no qubit / queue entry
behind, and the sequence numbers of a directed socket pair must be distinct
over ALL applications.  A failing history is shrunk to the minimal sequence of
applications (one request, one pair, FIFO).  A history is one run of the model
(`reset` once): tied when no half is kept before the last application (the
model has no StopApp), else judged by the oracle only.

Results that cannot be stored yet.  One host (creator or receiver side of a
create-and-keep request) still holds a qubit at the virtual address its
request names for the first pair, and frees it with a later subroutine that it
submits (k - 1/2) retry periods of virtual time after the result had to wait
(k = 1, 2, 3, 5; n = 1 or 2): the result becomes storable at the k-th look of
`_wait_to_handle_epr_responses`.  Ordinary oracle and tie; in addition no
result may be waiting to be stored when the network is idle, and a run that
does not end is reported as `counts:one-side-never-obtains-results` when the
hosts' arrays show that one side has its n results and the other has none.

Oracle (independent of the Lean model): on the ReturnArray contents of both
hosts -- exactly n results per request and side, the i-th results agree on
sequence number and create id, name each other's node, directionality 0 / 1,
purpose id = own socket, sequence numbers distinct per creator and socket
pair; for K the two physical qubits named by the results are the two
positions of ONE register of size 2 whose group is {II, XX, ZZ, -YY}
(products computed here); for M the outcome pair is possible for Phi+ in the
reported bases (table derived here from 4x4 matrices), the bases belong to the
requested RandomBasis set and nothing is left over; the weights handed to
random.choices are non-negative and sum to 256 whenever the reduced
parameters allow that.

Tie: the real order of `netqasm_add_epr_list` / `netqasm_get_epr_recv` calls
(incl. empty polls), the arguments of every `cmd_epr` / `cmd_epr_recv` /
`_get_new_create_id` and the arguments of `random.choices` are recorded from
outside (instance attributes, module attribute) and replayed on the Lean
driver `epr`; compared: create ids, both hosts' result arrays slice by slice
(goodness_time masked), empty polls, queue lengths, the weights, and the final
register/holder/group picture.
"""
import itertools
import json
import random

from .. import core

LEAN_TARGETS = ["SqVerif.Props.C08"]
PROPS_FILE = "SqVerif/Props/C08.lean"
DRIVE_TARGETS = ["SqVerif.Drive.Epr"]
TRUSTED = [
    "model Epr.lean hand-written from executioner.py:295-782 and virtual.py:586-669; tied by differential execution "
    "of SDK-generated programs on the real factory/executioner/virtual nodes (this check)",
    "netqasm 2.3.0 (third party): the Executor's bookkeeping of pending responses / result arrays and the SDK that "
    "generates the subroutines; its output arrays are what is compared",
    "simnet: fake reactor + PB over in-memory pipes, one schedulable event per PB message; scripted random/time",
    "Stab.lean (stabilizer model, C13/C14) for the state of the pair and the measure-directly outcomes",
]
ASSUMPTIONS = [
    "EPR sockets are matched (socket s at A names (B, t) iff socket t at B names (A, s)) and a request names the node "
    "its socket is bound to -- the SDK contract",
    "one host per node; it is blocking (the next message is sent after the Done of the previous one) except in the "
    "directed concurrent-create scenarios, where ONE host submits its 2-3 create subroutines (two or three "
    "sockets to one peer, towards two neighbours, or -- create-and-keep and measure-directly -- 2-3 requests on ONE "
    "socket pair) without waiting for the previous Done, so that several create "
    "requests are in flight at one node at once; all requests of such a scenario go in directions that do not cross. "
    "Requests pipelined on one socket pair are judged by the oracle only (pairs attributed to requests by create id, "
    "netqasm writes a finished pair to the first pending request of the socket); the model executes cmd_epr atomically",
    "the network configuration file lists the nodes in arbitrary (mostly non-alphabetical) order; node ids are the "
    "positions in the sorted list of names",
    "in the blocked-result scenarios the host of one side names, for the first pair of its request, a virtual address "
    "at which it still holds a qubit, and frees it with a later subroutine (raw NetQASM allows that; the SDK is used "
    "as the assembler with its address book-keeping overridden); the harness adds one wake-up timer of its own",
    "applications at one node run ONE AFTER ANOTHER (the next InitNewApp follows the StopApp of the previous one): the "
    "EPR socket table of a node is per NetQASM server, not per application, so two applications open at the same time "
    "at one node with the same local socket id are outside the contract.  Histories in which an application before "
    "the last one keeps halves (create-and-keep) are judged by the oracle only: the model `Epr` has no StopApp, the "
    "released halves would still occupy their physical qubit ids and registers there",
    "virtual nodes have capacity for the requested pairs (a refusal for lack of capacity is C11's subject; the leak it "
    "causes is reported under the key create-failure-leaks)",
    "error-free histories: the Lean theorems speak about runs of the model without an error result",
]

NAMES = ["Alice", "Bob", "Charlie", "David"]
RETRY_PERIOD = 0.1      # virtual seconds between two looks at the results that could not be stored yet
#                         (executioner._wait_to_handle_epr_responses)
OK_FIELDS = 10
RB_SETS = {"NONE": ["Z"], "XZ": ["X", "Z"], "XYZ": ["X", "Y", "Z"], "CHSH": ["ZPLUSX", "ZMINUSX"]}
BASIS_NAME = {0: "Z", 1: "X", 2: "Y", 3: "ZPLUSX", 4: "ZMINUSX"}


# --------------------------------------------------------------------------
# independent physics: Pauli products and the Phi+ outcome table
# --------------------------------------------------------------------------

def _pauli_mul(a, b):
    """product of signed Pauli strings given as (phase exponent of i, [letters]); letters I X Y Z"""
    tab = {("X", "Y"): (1, "Z"), ("Y", "Z"): (1, "X"), ("Z", "X"): (1, "Y"),
           ("Y", "X"): (3, "Z"), ("Z", "Y"): (3, "X"), ("X", "Z"): (3, "Y")}
    ph, out = a[0] + b[0], []
    for x, y in zip(a[1], b[1]):
        if x == "I":
            out.append(y)
        elif y == "I":
            out.append(x)
        elif x == y:
            out.append("I")
        else:
            p, l = tab[(x, y)]
            ph += p
            out.append(l)
    return (ph % 4, out)


def _row_to_pauli(bits):
    """a row bit string x_0..x_{n-1} z_0..z_{n-1} s of `_group` as a signed Hermitian Pauli string"""
    n = (len(bits) - 1) // 2
    letters = []
    for i in range(n):
        x, z = bits[i] == "1", bits[n + i] == "1"
        letters.append("Y" if x and z else "X" if x else "Z" if z else "I")
    return (2 if bits[2 * n] == "1" else 0, letters)


def group_of_rows(rows):
    """the set of elements generated by the rows, as strings like '-YY' (None if a phase is imaginary)"""
    ps = [_row_to_pauli(r) for r in rows]
    n = len(ps[0][1]) if ps else 0
    elems = []
    for sel in itertools.product([0, 1], repeat=len(ps)):
        acc = (0, ["I"] * n)
        for s, p in zip(sel, ps):
            if s:
                acc = _pauli_mul(acc, p)
        if acc[0] % 2:
            return None
        elems.append(("-" if acc[0] == 2 else "+") + "".join(acc[1]))
    return sorted(elems)


BELL_GROUP = sorted(["+II", "+XX", "+ZZ", "-YY"])


def _md_table():
    """allowed[(b1, b2)] = set of outcome pairs of non-zero probability when the halves of
    Phi+ = (|00> + |11>)/sqrt2 are measured in bases b1, b2 in {X, Y, Z}; from 4x4 matrices."""
    import numpy as np
    I2 = np.eye(2)
    P = {"X": np.array([[0, 1], [1, 0]], dtype=complex), "Y": np.array([[0, -1j], [1j, 0]], dtype=complex),
         "Z": np.array([[1, 0], [0, -1]], dtype=complex)}
    phi = np.array([1, 0, 0, 1], dtype=complex) / np.sqrt(2)
    out = {}
    for b1 in "XYZ":
        for b2 in "XYZ":
            ok = set()
            for o1 in (0, 1):
                for o2 in (0, 1):
                    pr1 = (I2 + (-1) ** o1 * P[b1]) / 2
                    pr2 = (I2 + (-1) ** o2 * P[b2]) / 2
                    v = np.kron(pr1, pr2) @ phi
                    if abs(np.vdot(v, v)) > 1e-9:
                        ok.add((o1, o2))
            out[(b1, b2)] = ok
    return out


# --------------------------------------------------------------------------
# scenarios
# --------------------------------------------------------------------------

def gen_scenario(rng, idx, thorough=False):
    """a scenario descriptor (plain JSON)"""
    nn = rng.choice([2, 2, 3, 3, 3, 4])
    nodes = rng.sample(NAMES, nn)
    pairs = [(a, b) for i, a in enumerate(nodes) for b in nodes[i + 1:]]
    rng.shuffle(pairs)
    nlinks = rng.choice([1, 1, 2, 2, 3])
    links, next_sock = [], {n: rng.choice([0, 0, 1]) for n in nodes}
    for k in range(nlinks):
        a, b = pairs[k % len(pairs)] if rng.random() < 0.7 else rng.choice(pairs)
        if rng.random() < 0.5:
            a, b = b, a
        s, t = next_sock[a], next_sock[b]
        next_sock[a] += rng.choice([1, 1, 2])
        next_sock[b] += rng.choice([1, 1, 3])
        links.append([a, s, b, t])
    reqs = []
    kcount = {n: 0 for n in nodes}
    nreq = rng.choice([1, 2, 2, 3, 3, 4, 5])
    for _ in range(nreq):
        li = rng.randrange(len(links))
        d = rng.randrange(2)
        n = rng.choice([1, 1, 2, 2, 3, 4])
        typ = rng.choice(["K", "M", "M"])
        a, _, b, _ = links[li]
        if typ == "K":
            if kcount[a] + n > 7 or kcount[b] + n > 7:
                typ = "M"
            else:
                kcount[a] += n
                kcount[b] += n
        r = {"link": li, "dir": d, "n": n, "typ": typ}
        if typ == "M":
            r["rbl"] = rng.choice(["NONE", "XZ", "XYZ", "XYZ"])
            r["rbr"] = rng.choice(["NONE", "XZ", "XYZ", "XYZ"])
            r["pl"] = _gen_probs(rng, r["rbl"])
            r["pr"] = _gen_probs(rng, r["rbr"])
        reqs.append(r)
    # also a request in the opposite direction of an existing one, to be issued at the same time
    if rng.random() < 0.5 and reqs:
        r0 = dict(rng.choice(reqs))
        r0["dir"] = 1 - r0["dir"]
        a, _, b, _ = links[r0["link"]]
        if r0["typ"] == "K" and (kcount[a] + r0["n"] > 7 or kcount[b] + r0["n"] > 7):
            pass
        else:
            if r0["typ"] == "K":
                kcount[a] += r0["n"]
                kcount[b] += r0["n"]
            reqs.append(r0)
    progs = make_programs(rng, nodes, links, reqs)
    kind = rng.choice(["fifo", "random", "random", "random", "delay", "delay", "pct"])
    sched = {"kind": kind, "seed": rng.randrange(1 << 30)}
    if kind == "delay":
        sched["what"] = rng.choice(["call:netqasm_add_epr_list", "call:netqasm_get_epr_recv", "call:add_qubit",
                                    "call:netqasm_send_epr_half", "answer"])
        sched["k"] = rng.randrange(6)
        sched["until"] = rng.choice([1, 3, 8, 20, 60])
        sched["timers"] = rng.random() < 0.5
    if kind == "pct":
        sched["depth"] = rng.choice([2, 3, 4])
    starts = {n: rng.choice([0, 0, 0, 3, 10, 40, 150]) for n in nodes}
    return {"id": idx, "nodes": nodes, "links": links, "reqs": reqs, "progs": progs, "sched": sched, "starts": starts,
            "rng": rng.randrange(1 << 30)}


def _gen_probs(rng, rb):
    if rb == "NONE":
        return [0, 0]
    c = rng.random()
    if rb == "XZ":
        p = rng.choice([0, 1, 128, 255, 256, rng.randrange(256), rng.randrange(256), 300, 511, -1])
        return [p, rng.choice([0, 0, 77])]
    # XYZ: mostly p1 + p2 <= 256 after reduction (a valid distribution), sometimes not
    if c < 0.75:
        p1 = rng.randrange(257)
        p2 = rng.randrange(257 - p1)
        if rng.random() < 0.15:
            p1 += 256
        return [p1 % 512, p2]
    return [rng.randrange(256), rng.randrange(256)]


def make_programs(rng, nodes, links, reqs):
    """per node: list of subroutines, each a list of ops ["c"|"r", request index].  The projection of the
    global request order is deadlock-free with SimulaQron's blocking recv_epr; moving a create earlier keeps it so."""
    progs = {}
    for n in nodes:
        ops = []
        for i, r in enumerate(reqs):
            a, _, b, _ = links[r["link"]]
            creator, receiver = (a, b) if r["dir"] == 0 else (b, a)
            if creator == n:
                ops.append(["c", i])
            elif receiver == n:
                ops.append(["r", i])
        # bubble creates earlier past receives of OTHER sockets' requests or of the other direction
        for _ in range(len(ops)):
            j = rng.randrange(1, len(ops)) if len(ops) > 1 else 0
            if j and ops[j][0] == "c" and ops[j - 1][0] == "r" and rng.random() < 0.6:
                ops[j - 1], ops[j] = ops[j], ops[j - 1]
        subs, cur = [], []
        for op in ops:
            cur.append(op)
            if rng.random() < 0.5:
                subs.append(cur)
                cur = []
        if cur:
            subs.append(cur)
        progs[n] = subs
    return progs


def sub_scenario(sc, keep, fifo):
    """the scenario reduced to the requests `keep` (indices), each node's program projected onto them; with
    fifo=True all hosts start at once under the FIFO schedule (for shrinking)"""
    keep = list(keep)
    new_index = {ri: k for k, ri in enumerate(keep)}
    link_ids = sorted({sc["reqs"][ri]["link"] for ri in keep})
    reqs = []
    for ri in keep:
        r = dict(sc["reqs"][ri])
        r["link"] = link_ids.index(r["link"])
        reqs.append(r)
    progs = {}
    for n in sc["nodes"]:
        subs = []
        for sub in sc["progs"].get(n, []):
            ops = [[k, new_index[ri]] for k, ri in sub if ri in new_index]
            if ops:
                subs.append(ops)
        progs[n] = subs
    out = {"id": "%s/reqs%s%s" % (sc["id"], keep, "/fifo" if fifo else ""), "nodes": sc["nodes"],
           "links": [sc["links"][i] for i in link_ids], "reqs": reqs, "progs": progs,
           "sched": {"kind": "fifo", "seed": 0} if fifo else sc["sched"],
           "starts": {n: 0 for n in sc["nodes"]} if fifo else sc["starts"], "rng": sc["rng"]}
    if sc.get("pipeline"):
        out["pipeline"] = list(sc["pipeline"])
        out["pipe_gap"] = 0 if fifo else sc.get("pipe_gap", 0)
    if sc.get("order"):
        out["order"] = list(sc["order"])
    if sc.get("block") and sc["block"]["req"] in new_index:
        out["block"] = dict(sc["block"], req=new_index[sc["block"]["req"]])
    return out


def shrink_candidates(sc):
    n = len(sc["reqs"])
    for i in range(n):
        yield sub_scenario(sc, [i], True)
    for i in range(n):
        for j in range(i + 1, n):
            yield sub_scenario(sc, [i, j], True)
    for i in range(n):
        for j in range(i + 1, n):
            yield sub_scenario(sc, [i, j], False)


# --------------------------------------------------------------------------
# running one scenario on the real code
# --------------------------------------------------------------------------

class Runner:
    def __init__(self):
        from .. import simnet as S
        self.S = S

    def build_programs(self, nq, sc, capacity_fill=None):
        """raw host messages per node: [InitNewApp, OpenEPRSocket..., Subroutine...] (StopApp/Signal cut off)"""
        from netqasm.sdk import EPRSocket, Qubit
        from netqasm.qlink_compat import RandomBasis
        import netqasm.sdk.builder as B
        from netqasm.sdk.build_epr import SerializedCreateRequestIndex as IX
        orig = B.serialize_request
        cur = {}

        def patched(tp, params):
            arr = orig(tp, params)
            pr = cur.get("probs")
            if pr is not None:
                (arr[IX.PROBABILITY_DIST_LOCAL1], arr[IX.PROBABILITY_DIST_LOCAL2],
                 arr[IX.PROBABILITY_DIST_REMOTE1], arr[IX.PROBABILITY_DIST_REMOTE2]) = pr
            return arr

        out = {}
        B.serialize_request = patched
        try:
            for n in sc["nodes"]:
                socks = {}
                for li, (a, s, b, t) in enumerate(sc["links"]):
                    if a == n:
                        socks[li] = EPRSocket(b, s, t)
                    elif b == n:
                        socks[li] = EPRSocket(a, t, s)
                subs = sc["progs"].get(n, [])
                fill = (capacity_fill or {}).get(n, 0)
                # `open_idle`: a node with sockets but no request still runs its application (InitNewApp,
                # OpenEPRSocket..., StopApp) -- the application histories need the registration alone
                if not subs and not fill and not (sc.get("open_idle") and socks):
                    out[n] = []
                    continue
                app = sc.get("app", 0)
                app = app.get(n, 0) if isinstance(app, dict) else app

                blk = sc.get("block") if (sc.get("block") or {}).get("node") == n else None
                if blk is not None and subs != [[[blk["side"], blk["req"]]]]:
                    raise core.MachineryError("scenario %r: the blocked node's program must be the one blocked request" % (sc.get("id"),))

                def fn(conn, subs=subs, socks=socks, fill=fill, blk=blk):
                    for _ in range(fill):
                        Qubit(conn)
                    if fill:
                        conn.flush()
                    if blk is not None:
                        # `block`: the host still holds a qubit at the virtual address the request names for its first
                        # pair (a host program in raw NetQASM is free to do that; the SDK serves as the assembler: its
                        # address book-keeping is told the address is free, nothing else).  Subroutine A allocates the
                        # qubit, B is the request, C (`qfree`) is submitted by the host while B is still waiting -- see
                        # `phase` for when.
                        old = Qubit(conn)
                        conn.flush()
                        conn.builder._mem_mgr.deactivate_qubit(old)
                    for sub in subs:
                        for kind, ri in sub:
                            r = sc["reqs"][ri]
                            e = socks[r["link"]]
                            if kind == "c":
                                if r["typ"] == "K":
                                    e.create_keep(number=r["n"])
                                else:
                                    cur["probs"] = list(r["pl"]) + list(r["pr"])
                                    try:
                                        e.create_measure(number=r["n"],
                                                         random_basis_local=RandomBasis[r["rbl"]] if r["rbl"] != "NONE" else None,
                                                         random_basis_remote=RandomBasis[r["rbr"]] if r["rbr"] != "NONE" else None)
                                    finally:
                                        cur["probs"] = None
                            else:
                                if r["typ"] == "K":
                                    e.recv_keep(number=r["n"])
                                else:
                                    e.recv_measure(number=r["n"])
                        conn.flush()
                    if blk is not None:
                        conn.builder._build_cmds_qfree(old.qubit_id)
                        conn.flush()
                msgs = nq.program(n, fn, epr_sockets=[socks[k] for k in sorted(socks)], app_id=app, max_qubits=16)
                from netqasm.backend.messages import deserialize_host_msg
                keep, tail = [], []
                for m in msgs:
                    nm = type(deserialize_host_msg(m)).__name__
                    (tail if nm in ("StopAppMessage", "SignalMessage") else keep).append(m)
                out[n] = (keep, [m for m in tail if type(deserialize_host_msg(m)).__name__ == "StopAppMessage"])
                if blk is not None:
                    if sum(1 for m in keep if _is_subroutine(m)) != 3:
                        raise core.MachineryError("scenario %r: blocked program is not [allocate, request, free]" % (sc.get("id"),))
                    out[n] = out[n] + ({"msg": len(keep) - 1, "k": blk["k"]},)
        finally:
            B.serialize_request = orig
        return out

    def weights_cases(self, thorough):
        """[(RandomBasis name, p1, p2, observation)] from the real `_sample_basis_choice` of a live executioner"""
        from netqasm.sdk.shared_memory import SharedMemoryManager
        from netqasm.qlink_compat import RandomBasis
        S = self.S
        SharedMemoryManager.reset_memories()
        nq = S.NqNet(["Alice", "Bob"], rng=random.Random(1))
        ex = nq.facs["Alice"].backend._executor
        seen = []

        def ch(population, weights=None, **kw):
            seen.append(([p.name for p in population], [int(w) for w in weights]))
            return [population[0]]
        nq._EX.random = S._RandomProxy(nq.rng, choices=ch)
        cases = []
        step = 1 if thorough else 3
        grid2 = sorted(set(range(-5, 530, step)) | {0, 1, 127, 128, 255, 256, 257, 511, 512, -1, -256})
        g3 = sorted(set(range(0, 300, 7 if thorough else 23)) | {0, 1, 128, 200, 255, 256, 257, 300, 511, -1})
        todo = [("NONE", 5, 9)] + [(rb, p, 13) for rb in ("XZ", "CHSH") for p in grid2] + \
               [("XYZ", p1, p2) for p1 in g3 for p2 in g3]
        for rb, p1, p2 in todo:
            del seen[:]
            try:
                b = ex._sample_basis_choice(random_basis_set=RandomBasis[rb], probability_dist_spec=[p1, p2])
                o = "fixed %s" % b.name if not seen else "choose %s %s" % (",".join(seen[0][0]), ",".join(map(str, seen[0][1])))
            except Exception as e:
                o = "err %s" % type(e).__name__
            cases.append((rb, p1, p2, o))
        nq.close()
        return cases

    def make_sched(self, sd):
        S = self.S
        k = sd["kind"]
        if k == "fifo":
            return S.FifoScheduler()
        if k == "random":
            return S.RandomScheduler(random.Random(sd["seed"]))
        if k == "pct":
            return S.PCTScheduler(random.Random(sd["seed"]), depth=sd.get("depth", 3), est_len=400)
        if k == "delay":
            what = sd["what"]
            return S.DelayInjection(lambda t: what in t, k=sd["k"], until_count=sd["until"],
                                    base=S.RandomScheduler(random.Random(sd["seed"])) if sd["seed"] % 2 else None,
                                    detail=True, timers_while_held=sd.get("timers", False))
        raise core.MachineryError("unknown scheduler %r" % (sd,))

    def run(self, sc, max_qubits=40, capacity_fill=None, stop_after=False):
        """execute ONE scenario on a fresh network; returns an observation dict (see the keys at the end of `phase`)"""
        se = self.open(sc["nodes"], config_order(sc), sc["rng"], max_qubits=max_qubits)
        try:
            return self.phase(se, sc, capacity_fill=capacity_fill, stop_after=stop_after)
        finally:
            se.nq.close()

    def open(self, nodes, order, seed, max_qubits=40):
        """a fresh long-lived network with the recording wrappers installed; `phase` runs one application per node
        on it (several calls = several applications one after another at the same NetQASM servers)"""
        S = self.S
        # netqasm keeps the executors' shared memories in a process-global table keyed by (node name, app id)
        from netqasm.sdk.shared_memory import SharedMemoryManager
        SharedMemoryManager.reset_memories()
        # the network configuration file lists the nodes in the order of the scenario (`order`, else `nodes`: a random
        # sample, a rotation, a reversed list ... -- in general NOT alphabetical); node ids are, by definition
        # (get_node_id_from_net_config, the SDK), the positions in the SORTED list of names whatever the file order
        nq = S.NqNet(order, max_qubits=max_qubits, rng=random.Random(seed))
        se = _Session()
        se.nq, se.nodes = nq, list(nodes)
        se.ids = {n: i for i, n in enumerate(sorted(nodes))}
        se.names = {i: n for n, i in se.ids.items()}
        se.new_logs()
        EX = nq._EX

        def my_choices(population, weights=None, **kw):
            se.choices_log.append(([getattr(p, "name", str(p)) for p in population], list(weights)))
            return nq.rng.choices(population, weights, **kw)
        EX.random = S._RandomProxy(nq.rng, choices=my_choices)

        for n in nodes:
            ex = nq.facs[n].backend._executor
            node = nq.nodes[n]

            def wrap_exec(n=n, ex=ex):
                o_create, o_recv, o_epr, o_erecv = ex._do_create_epr, ex._do_recv_epr, ex.cmd_epr, ex.cmd_epr_recv
                o_meas, o_newid, o_sample = ex._measure_epr_qubit, ex._get_new_create_id, ex._sample_basis_choice

                def sample(random_basis_set, probability_dist_spec):
                    k = len(se.choices_log)
                    b = o_sample(random_basis_set=random_basis_set, probability_dist_spec=probability_dist_spec)
                    from netqasm.qlink_compat import RandomBasis as _RB
                    rbn = random_basis_set.name if hasattr(random_basis_set, "name") else _RB(random_basis_set).name
                    se.sample_log.append((rbn,
                                          [int(x) for x in probability_dist_spec],
                                          se.choices_log[k] if len(se.choices_log) > k else None, b.name))
                    return b

                def do_create(**kw):
                    se.reqlog[n].append({"role": "c", "addr": kw["ent_results_array_address"], "remote": kw["remote_node_id"],
                                         "sock": kw["epr_socket_id"], "pairs": []})
                    return o_create(**kw)

                def do_recv(**kw):
                    se.reqlog[n].append({"role": "r", "addr": kw["ent_results_array_address"], "remote": kw["remote_node_id"],
                                         "sock": kw["epr_socket_id"], "pairs": []})
                    return o_recv(**kw)

                def new_id(remote_node_id):
                    c = o_newid(remote_node_id=remote_node_id)
                    se.ev.append(("newcreate", n, remote_node_id, c))
                    # _do_create_epr draws the id before its first yield: the request being started is the last one logged
                    # (with several requests in flight at this node, "the last one" is no longer right later on)
                    mine = [q for q in se.reqlog[n] if q["role"] == "c"]
                    if mine:
                        se.cidmap[(n, remote_node_id, c)] = mine[-1]
                        mine[-1].setdefault("cid", c)
                    return c

                def cmd_epr(**kw):
                    rec = {"cid": kw["create_id"], "remote": kw["remote_node_id"], "sock": kw["epr_socket_id"],
                           "rsock": kw["remote_epr_socket_id"], "qid": kw["qubit_id"],
                           "typ": kw["create_request"].type.name, "meas": [],
                           "req": se.cidmap.get((n, kw["remote_node_id"], kw["create_id"]), se.reqlog[n][-1]), "done": None}
                    se.curpair[n] = rec
                    se.allpairs[n].append(rec)
                    se.maxopen[n] = max(se.maxopen.get(n, 0), sum(1 for r in se.allpairs[n] if r["done"] is None))
                    d = o_epr(**kw)

                    def fin(x, rec=rec):
                        rec["done"] = "ok" if not hasattr(x, "getErrorMessage") else "fail"
                        return x
                    d.addBoth(fin)
                    return d

                def meas(**kw):
                    d = o_meas(**kw)
                    rec = se.curpair.get(n)

                    def got(x, rec=rec):
                        if rec is not None and isinstance(x, tuple):
                            rec["meas"].append((int(x[0]), x[1].name))
                        return x
                    d.addBoth(got)
                    return d

                def cmd_epr_recv(epr_socket_id, qubit_id=None):
                    se.currecv[n] = {"sock": epr_socket_id, "qid": qubit_id, "req": se.reqlog[n][-1]}
                    return o_erecv(epr_socket_id=epr_socket_id, qubit_id=qubit_id)
                ex._do_create_epr, ex._do_recv_epr, ex.cmd_epr, ex.cmd_epr_recv = do_create, do_recv, cmd_epr, cmd_epr_recv
                ex._measure_epr_qubit, ex._get_new_create_id, ex._sample_basis_choice = meas, new_id, sample
            wrap_exec()

            def wrap_node(n=n, node=node):
                o_add, o_get = node.remote_netqasm_add_epr_list, node.remote_netqasm_get_epr_recv

                def add(fromName, from_sock, to_sock, new_virt_num, rawEntInfo):
                    rec = se.curpair.get(fromName)
                    raw = list(rawEntInfo)
                    # several pairs in flight at the creator: the one this half belongs to, by its entanglement info
                    # (socket + create id: the pairs of ONE request are made one after the other)
                    mine = [r for r in se.allpairs.get(fromName, []) if r["done"] is None and r["sock"] == from_sock
                            and len(raw) > 1 and r["cid"] == raw[1]]
                    if len(mine) == 1:
                        rec = mine[0]
                    se.ev.append(("pair", fromName, n, from_sock, to_sock, rec, list(rawEntInfo)))
                    return o_add(fromName, from_sock, to_sock, new_virt_num, rawEntInfo)

                def get(to_sock):
                    r = o_get(to_sock)
                    rc = se.currecv.get(n)
                    se.ev.append(("recv", n, to_sock, dict(rc) if rc else None, None if not r else list(r[1])))
                    return r
                node.remote_netqasm_add_epr_list, node.remote_netqasm_get_epr_recv = add, get
            wrap_node()
        return se

    def phase(self, se, sc, capacity_fill=None, stop_after=False):
        """one application per node (InitNewApp, OpenEPRSocket..., Subroutine... on a NEW host connection each) on the
        open network `se`; with stop_after the applications are stopped (StopApp) once the observation is taken.
        The recording containers are fresh per call."""
        S = self.S
        nq, nodes, ids, names = se.nq, se.nodes, se.ids, se.names
        se.new_logs()
        ev, choices_log, curpair, reqlog, sample_log, maxopen = (se.ev, se.choices_log, se.curpair, se.reqlog,
                                                                 se.sample_log, se.maxopen)
        log0 = len(nq.pylog)
        progs = self.build_programs(nq, sc, capacity_fill)
        hosts = {}
        for n in nodes:
            if progs.get(n):
                p, t = nq.host(n)
                hosts[n] = {"p": p, "t": t, "msgs": progs[n][0], "stop": progs[n][1], "sent": 0, "seen": 0, "done": 0,
                            "start": sc["starts"].get(n, 0), "pipe": n in (sc.get("pipeline") or []), "next_at": 0,
                            "nsetup": sum(1 for m in progs[n][0] if not _is_subroutine(m)),
                            "hold": progs[n][2] if len(progs[n]) > 2 else None, "t_block": None}
        gap = sc.get("pipe_gap", 0)
        sched = self.make_sched(sc["sched"])
        steps, hang = 0, None
        t0 = nq.clock.seconds()
        order = sorted(hosts)
        while True:
            fed = False
            for n in order:
                h = hosts[n]
                v = h["t"].value()
                if len(v) != h["seen"]:
                    h["seen"] = len(v)
                    h["done"] = sum(1 for x in S.parse_replies(v) if x[0] == "MsgDoneMessage")
                # a pipelined host waits for the Done of its set-up messages only, then submits its subroutines
                # `gap` scheduler steps apart without waiting for the previous one to finish
                ready = h["done"] >= h["sent"] or (h["pipe"] and h["sent"] >= h["nsetup"] and h["done"] >= h["nsetup"]
                                                   and steps >= h["next_at"])
                hold = h["hold"]
                if hold is not None and h["sent"] == hold["msg"] and not ready:
                    # the blocked request (message hold.msg - 1) is running; its result cannot be stored while the old
                    # qubit sits at the virtual address (netqasm keeps it in Executor._pending_epr_responses and the
                    # executioner looks again every RETRY_PERIOD of virtual time).  The host submits the freeing
                    # subroutine (k - 1/2) periods after the result first had to wait: the k-th look is the first
                    # that can store it.  (The wake-up timer is the harness's own: virtual time is free.)
                    if h["t_block"] is None and nq.facs[n].backend._executor._pending_epr_responses:
                        h["t_block"] = nq.clock.seconds()
                        nq.clock.callLater((hold["k"] - 0.5) * RETRY_PERIOD, lambda: None)
                    ready = (h["t_block"] is not None and h["done"] >= h["sent"] - 1
                             and nq.clock.seconds() >= h["t_block"] + (hold["k"] - 0.5) * RETRY_PERIOD - 1e-9)
                    if ready:
                        h["released_at"] = nq.clock.seconds() - h["t_block"]
                if h["sent"] < len(h["msgs"]) and ready and steps >= h["start"]:
                    nq.feed(h["p"], S.frame(h["sent"], h["msgs"][h["sent"]]))
                    h["sent"] += 1
                    h["next_at"] = steps + gap
                    fed = True
            pend = nq.pending()
            tim = nq.timers() if nq.clock.calls else []
            if not pend and not tim:
                if fed:
                    continue
                waiting = [n for n in order if hosts[n]["sent"] < len(hosts[n]["msgs"]) and hosts[n]["done"] >= hosts[n]["sent"]]
                if waiting:     # only the start delay (or the gap of a pipelined host) keeps them back
                    steps = max(max(hosts[n]["start"], hosts[n]["next_at"]) for n in waiting)
                    continue
                break
            action = sched(nq, pend, tim)
            if action[0] == "t" and tim[0][0] - t0 > 40.0:     # recv_timeout is 10 virtual seconds
                hang = "virtual-time budget exhausted"
                break
            if action[0] == "d":
                nq.deliver(action[1])
            else:
                nq.fire_next_timer(action[1] if len(action) > 1 else 0)
            steps += 1
            if steps > 200000:
                hang = "step budget exhausted"
                break
        nq.flush_decrefs()
        replies = {n: S.parse_replies(hosts[n]["t"].value()) for n in hosts}
        snap = nq.snapshot()
        joint = nq.joint_state()
        inflight = {n: {"typ": r["typ"], "remote": names.get(r["remote"]), "sock": r["sock"]}
                    for n, r in curpair.items() if r["done"] is None}
        held = {n: {"waited": h["t_block"] is not None, "released": h.get("released_at"), "sent_all": h["sent"] >= len(h["msgs"])}
                for n, h in hosts.items() if h["hold"] is not None}
        obs = {"ids": ids, "names": names, "ev": ev, "inflight": inflight, "locks": nq.lock_flags(), "held": held,
               "pending_responses": {n: len(nq.facs[n].backend._executor._pending_epr_responses) for n in nodes},
               "samples": sample_log, "choices": choices_log, "reqlog": reqlog, "replies": replies, "maxopen": maxopen,
               "snap": snap, "joint": joint, "hang": hang, "steps": steps,
               "unfinished": [n for n in hosts if hosts[n]["done"] < len(hosts[n]["msgs"])],
               "errors": [(lv, lg, tx.split("\n")[0]) for (lv, lg, tx) in nq.pylog[log0:] if lv == "ERROR"],
               "locks_free": nq.all_locks_free()}
        if stop_after:
            nstop = {}
            for n in order:
                h = hosts[n]
                for m in h["stop"]:
                    nq.feed(h["p"], S.frame(h["sent"], m))
                    h["sent"] += 1
                    nstop[n] = nstop.get(n, 0) + 1
                    nq.settle()
            nq.flush_decrefs()
            obs["snap_after_stop"] = nq.snapshot()
            # (class name, msg id) of what each host received for its StopApp
            obs["stop_replies"] = {n: [x[:2] for x in S.parse_replies(hosts[n]["t"].value())[len(replies[n]):]] for n in hosts}
            obs["stops_sent"] = nstop
            obs["locks_free_after_stop"] = nq.all_locks_free()
        return obs


class _Session:
    """one open network and the containers the recording wrappers write to (fresh per application phase)"""

    def new_logs(self):
        self.ev = []            # the global event log for the tie
        self.choices_log = []
        self.curpair, self.currecv = {}, {}
        self.cidmap = {}                              # (node, remote node id, create id) -> request record
        self.allpairs = {n: [] for n in self.nodes}   # per node: every cmd_epr record
        self.maxopen = {}                             # per node: largest number of cmd_epr running at the same time
        self.reqlog = {n: [] for n in self.nodes}     # per node: request records in program order
        self.sample_log = []                          # (RandomBasis name, spec, what random.choices received or None, basis)


def config_order(sc):
    """the order in which the network configuration file lists the nodes of this scenario"""
    order = list(sc.get("order") or sc["nodes"])
    if sorted(order) != sorted(sc["nodes"]):
        raise core.MachineryError("scenario %r: `order` is not a permutation of `nodes`" % (sc.get("id"),))
    return order


def _is_subroutine(raw):
    from netqasm.backend.messages import deserialize_host_msg
    return type(deserialize_host_msg(raw)).__name__ == "SubroutineMessage"


# --------------------------------------------------------------------------
# oracle
# --------------------------------------------------------------------------

def arrays_of(replies):
    """address -> last returned values"""
    out = {}
    for name, _mid, values, addr, _reg in replies:
        if name == "ReturnArrayMessage":
            out[addr] = values
    return out


def slices(values):
    return [values[i:i + OK_FIELDS] for i in range(0, len(values), OK_FIELDS)]


def decode(sl):
    """a result slice as a dict (K or M layout)"""
    if sl[0] == 0:
        keys = ["type", "create_id", "qubit", "dir", "seq", "purpose", "remote", "goodness", "gtime", "bell"]
    else:
        keys = ["type", "create_id", "outcome", "basis", "dir", "seq", "purpose", "remote", "goodness", "bell"]
    return dict(zip(keys, sl))


def request_results(sc, obs):
    """for every request index: (creator slices or None, receiver slices or None), from the hosts' arrays and the
    order in which the node executed its create / recv instructions (program order)"""
    arr = {n: arrays_of(obs["replies"].get(n, [])) for n in sc["nodes"]}
    res = {}
    for n in sc["nodes"]:
        ops = [op for sub in sc["progs"].get(n, []) for op in sub]
        log = obs["reqlog"][n]
        for k, (kind, ri) in enumerate(ops):
            side = 0 if kind == "c" else 1
            res.setdefault(ri, [None, None])
            if k < len(log) and log[k]["role"] == kind:
                vals = arr[n].get(log[k]["addr"])
                if vals is not None:
                    res[ri][side] = vals
    return res


def same_socket_groups(sc):
    """lists of >= 2 request indices that ONE pipelined host creates on the same socket pair in the same direction"""
    pipe = set(sc.get("pipeline") or [])
    groups = {}
    for ri, r in enumerate(sc["reqs"]):
        a, _s, b, _t = sc["links"][r["link"]]
        if (a if r["dir"] == 0 else b) in pipe:
            groups.setdefault((r["link"], r["dir"]), []).append(ri)
    return [g for g in groups.values() if len(g) > 1]


def regroup_same_socket(sc, obs, rr, viol, notes):
    """Several create requests in flight on ONE socket pair.  Which result array a finished pair is written to is
    decided by netqasm's Executor (third party, trusted): the FIRST pending create request of that (remote node,
    socket), and at the receiver the pending receive, i.e. in order of completion / delivery, whichever request the
    pair was made for (a request with basis rotations is overtaken by one without).  So the arrays of such a group
    are judged as ONE pool per side, and a pair is attributed to the request whose create id it carries (create ids
    are drawn in program order, recorded from outside): every request must find exactly its n pairs on each side,
    in the order of creation; everything else (sequence numbers, node ids, directionality, bases, outcomes, the
    registers of the halves) is then judged by the ordinary clauses."""
    for g in same_socket_groups(sc):
        cids = {}
        for ri in g:
            r = sc["reqs"][ri]
            a, _s, b, _t = sc["links"][r["link"]]
            n = a if r["dir"] == 0 else b
            ops = [op for sub in sc["progs"].get(n, []) for op in sub]
            k = ops.index(["c", ri]) if ["c", ri] in ops else None
            log = obs["reqlog"][n]
            cids[ri] = log[k].get("cid") if k is not None and k < len(log) and log[k]["role"] == "c" else None
        if any(c is None for c in cids.values()) or len(set(cids.values())) != len(g):
            continue
        if any(rr.get(ri, [None, None])[side] is None or len(rr[ri][side]) != OK_FIELDS * sc["reqs"][ri]["n"]
               or any(v is None for v in rr[ri][side]) for ri in g for side in (0, 1)):
            continue        # the count clauses of the oracle speak
        new = {ri: [None, None] for ri in g}
        ok = True
        for side in (0, 1):
            by = {ri: [] for ri in g}
            for ri in g:
                for sl in slices(rr[ri][side]):
                    owner = [rj for rj in g if cids[rj] == sl[1]]
                    if owner:
                        by[owner[0]].append(sl)
                    else:
                        ok = False
            if not ok or any(len(by[ri]) != sc["reqs"][ri]["n"] for ri in g):
                viol("counts:same-socket-group",
                     "requests %s pipelined on one socket pair (create ids %s): the %s results carry create ids %s" % (
                         g, [cids[ri] for ri in g], "creator" if side == 0 else "receiver",
                         [sl[1] for ri in g for sl in slices(rr[ri][side])]))
                ok = False
                break
            for ri in g:
                new[ri][side] = [v for sl in by[ri] for v in sl]
        if not ok:
            continue
        if any(new[ri] != rr[ri] for ri in g):
            notes["same-socket-results-out-of-request-order"] = notes.get("same-socket-results-out-of-request-order", 0) + 1
        for ri in g:
            rr[ri] = new[ri]


def oracle(sc, obs, table, viol, notes, acc=None):
    """judge one execution; viol(key, what).  `acc` (application histories): dict collecting the sequence numbers per
    directed socket pair over the applications of one long-lived network"""
    ids = obs["ids"]
    # every half / outcome record is handed to the receiving node for the socket pair its request names: the
    # (creator, socket, receiver, socket) of each `netqasm_add_epr_list` call is a directed socket pair on which the
    # programs of this execution have a create request
    named = set()
    for r in sc["reqs"]:
        a, s, b, t = sc["links"][r["link"]]
        named.add((a, s, b, t) if r["dir"] == 0 else (b, t, a, s))
    for e in obs["ev"]:
        if e[0] == "pair" and (e[1], e[3], e[2], e[4]) not in named:
            viol("delivery:wrong-socket-pair",
                 "a half / outcome record created at %s:%s was delivered to %s:%s; the create requests of this application "
                 "name the socket pairs %s" % (e[1], e[3], e[2], e[4],
                                               sorted("%s:%d -> %s:%d" % x for x in named)))
            break
    if obs["hang"]:
        fl, lk = obs["inflight"], obs["locks"]
        # wait-for cycle of create-and-keep requests (the sender holds its own node lock while add_qubit waits,
        # without time-out, for the receiver's): length 2 = crossing requests, longer = cyclic requests; one
        # root cause (open finding, same as C04's crossing/cyclic sends)
        cyc = None
        for a in sorted(fl):
            path, x = [], a
            while x in fl and fl[x]["typ"] == "K" and lk.get(x, {}).get("node") and x not in path:
                path.append(x)
                x = fl[x]["remote"]
            if x in path and len(path) - path.index(x) >= 2:
                cyc = path[path.index(x):]
                break
        if cyc:
            viol("crossing-sends-deadlock", "create_keep requests %s at the same time form a wait-for cycle: every "
                 "send_epr_half holds its own node lock and waits for the next node's (%s)" % (
                     " , ".join("%s -> %s" % (c, fl[c]["remote"]) for c in cyc), obs["hang"]))
        else:
            # one side of a request has its n results, the other side never obtains them (no wait-for cycle; the
            # hosts' arrays say who has what): named by what the property says, not by the symptom
            one_sided = None
            try:
                rr = request_results(sc, obs)
            except Exception:
                rr = {}
            for ri, r in enumerate(sc["reqs"]):
                cv, rv = rr.get(ri, [None, None])
                full = [v is not None and len(v) == OK_FIELDS * r["n"] and not any(x is None for x in v) for v in (cv, rv)]
                if full[0] != full[1]:
                    a, s_, b, t_ = sc["links"][r["link"]]
                    if r["dir"] == 1:
                        a, s_, b, t_ = b, t_, a, s_
                    have, lack = (("creator " + a, "receiver " + b) if full[0] else ("receiver " + b, "creator " + a))
                    seqs = [decode(sl)["seq"] for sl in slices(cv if full[0] else rv)]
                    one_sided = ("request %d (%s %s:%d -> %s:%d, n=%d): the %s obtained its %d result(s) (sequence numbers %s), "
                                 "the %s never obtains any (%s; results waiting to be stored per node %s%s)" % (
                                     ri, r["typ"], a, s_, b, t_, r["n"], have, r["n"], seqs, lack, obs["hang"],
                                     obs.get("pending_responses"),
                                     "; the host freed the virtual address the result waits for %.2f virtual seconds after the "
                                     "result was ready" % [h["released"] for h in obs.get("held", {}).values()][0]
                                     if any(h.get("released") is not None for h in obs.get("held", {}).values()) else ""))
                    break
            if one_sided:
                viol("counts:one-side-never-obtains-results", one_sided)
            else:
                viol("hang", "scenario did not finish: %s; in flight %s" % (obs["hang"], fl))
        return
    failed = []
    for n, rep in sorted(obs["replies"].items()):
        if any(x[0] == "ErrorMessage" for x in rep):
            err = "; ".join(e[2] for e in obs["errors"] if "(%s)" % n in e[1])[:300]
            ops = [op for sub in sc["progs"].get(n, []) for op in sub]
            typs = sorted({sc["reqs"][ri]["typ"] for _, ri in ops})
            if "rotation_X" in err:
                failed.append((0, "md-request-fails", "measure-directly request at %s fails: %s" % (n, err)))
            elif "TIMEOUT" in err:
                failed.append((1, "recv-timeout", "receiver %s timed out: %s" % (n, err)))
            else:
                failed.append((0, "request-fails:" + "".join(typs), "request at %s fails: %s" % (n, err)))
    if failed:
        # a receiver's time-out behind a failed creator is a consequence, not a second defect
        first = min(f[0] for f in failed)
        for rank, key, what in failed:
            if rank == first:
                viol(key, what)
        return
    if obs["unfinished"] and not obs["hang"]:
        viol("host-stuck", "no Done for every message at %s" % obs["unfinished"])
    if not obs["locks_free"]:
        viol("locks-held", "a lock is still held when the network is idle")
    if any(obs.get("pending_responses", {}).values()):
        viol("result-pending-at-quiescence", "the network is idle and entanglement results are still waiting to be stored: %s"
             % {n: k for n, k in obs["pending_responses"].items() if k})
    for n, h in obs.get("held", {}).items():
        if not h["waited"]:
            notes["blocked-request-did-not-wait"] = notes.get("blocked-request-did-not-wait", 0) + 1
    rr = request_results(sc, obs)
    regroup_same_socket(sc, obs, rr, viol, notes)
    snap, joint = obs["snap"], obs["joint"]
    where = {}       # (node, virt num) -> (register index in joint, position)
    for gi, g in enumerate(joint):
        for pos, h in enumerate(g["holders"]):
            if h is not None:
                where[tuple(h)] = (gi, pos)
        if g["anomalies"]:
            viol("register-anomaly", "register %s/%s: %s" % (g["node"], g["reg"], g["anomalies"]))
    seqs = {}        # (creator, s, receiver, t) -> list of seq
    per_sock = {}    # (node, sock) -> list of (dir, seq)
    expected_qubits = {n: 0 for n in sc["nodes"]}
    used_regs = set()
    for ri, r in enumerate(sc["reqs"]):
        a, s, b, t = sc["links"][r["link"]]
        if r["dir"] == 1:
            a, s, b, t = b, t, a, s
        cvals, rvals = rr.get(ri, [None, None])
        tag = "request %d (%s %s:%d -> %s:%d, n=%d)" % (ri, r["typ"], a, s, b, t, r["n"])
        for side, vals in (("creator", cvals), ("receiver", rvals)):
            if vals is None:
                viol("counts:no-results", "%s: the %s obtained no result array" % (tag, side))
            elif len(vals) != OK_FIELDS * r["n"] or any(v is None for v in vals):
                viol("counts:wrong-number", "%s: the %s obtained %d entries instead of %d" % (
                    tag, side, len(vals), OK_FIELDS * r["n"]))
        if cvals is None or rvals is None or len(cvals) != OK_FIELDS * r["n"] or len(rvals) != OK_FIELDS * r["n"]:
            continue
        if r["typ"] == "K":
            expected_qubits[a] += r["n"]
            expected_qubits[b] += r["n"]
        for i, (cs, rs) in enumerate(zip(slices(cvals), slices(rvals))):
            c, q = decode(cs), decode(rs)
            ptag = "%s pair %d" % (tag, i)
            want_type = 0 if r["typ"] == "K" else 1
            if c["type"] != want_type or q["type"] != want_type:
                viol("info:type", "%s: result types %s/%s" % (ptag, c["type"], q["type"]))
                continue
            if c["seq"] != q["seq"]:
                viol("info:seq-mismatch", "%s: sequence numbers %d / %d" % (ptag, c["seq"], q["seq"]))
            if c["create_id"] != q["create_id"]:
                viol("info:create-id-mismatch", "%s: create ids %d / %d" % (ptag, c["create_id"], q["create_id"]))
            if c["remote"] != ids[b] or q["remote"] != ids[a]:
                viol("info:remote-node", "%s: remote node ids %d / %d, expected %d / %d" % (
                    ptag, c["remote"], q["remote"], ids[b], ids[a]))
            if c["dir"] != 0 or q["dir"] != 1:
                viol("info:directionality", "%s: directionality %d / %d" % (ptag, c["dir"], q["dir"]))
            if c["purpose"] != s or q["purpose"] != t:
                viol("info:purpose", "%s: purpose ids %d / %d, sockets %d / %d" % (ptag, c["purpose"], q["purpose"], s, t))
            if c["bell"] != 0 or q["bell"] != 0 or c["goodness"] != q["goodness"]:
                viol("info:bell-state", "%s: bell state / goodness %s %s" % (ptag, cs, rs))
            seqs.setdefault((a, s, b, t), []).append(c["seq"])
            per_sock.setdefault((a, s), []).append((0, c["seq"]))
            per_sock.setdefault((b, t), []).append((1, q["seq"]))
            if r["typ"] == "K":
                ha = snap[a]["qubitList"].get(str(c["qubit"]))
                hb = snap[b]["qubitList"].get(str(q["qubit"]))
                if ha is None or hb is None:
                    viol("halves:no-qubit", "%s: physical ids %s / %s denote %s / %s" % (ptag, c["qubit"], q["qubit"], ha, hb))
                    continue
                wa, wb = where.get(tuple(ha)), where.get(tuple(hb))
                if wa is None or wb is None:
                    viol("halves:no-register", "%s: halves %s %s are in no register" % (ptag, ha, hb))
                    continue
                g = joint[wa[0]]
                if wa[0] != wb[0] or wa[1] == wb[1]:
                    viol("halves:not-one-pair", "%s: halves %s %s are at %s / %s" % (ptag, ha, hb, wa, wb))
                    continue
                if wa[0] in used_regs:
                    viol("halves:register-shared", "%s: register used by two pairs" % ptag)
                used_regs.add(wa[0])
                if g["n"] != 2:
                    viol("halves:register-size", "%s: the halves share a register with %d qubits" % (ptag, g["n"]))
                    continue
                grp = group_of_rows(g["state"])
                if grp != BELL_GROUP:
                    viol("halves:not-phi-plus", "%s: group of the two halves is %s" % (ptag, grp))
            else:
                b1, b2 = BASIS_NAME.get(c["basis"]), BASIS_NAME.get(q["basis"])
                if b1 not in RB_SETS[r["rbl"]] or b2 not in RB_SETS[r["rbr"]]:
                    viol("md:basis-outside-set", "%s: bases %s / %s for %s / %s" % (ptag, b1, b2, r["rbl"], r["rbr"]))
                if c["outcome"] not in (0, 1) or q["outcome"] not in (0, 1):
                    viol("md:outcome-range", "%s: outcomes %s / %s" % (ptag, c["outcome"], q["outcome"]))
                elif (b1, b2) in table and (c["outcome"], q["outcome"]) not in table[(b1, b2)]:
                    viol("md:impossible-outcomes", "%s: outcomes %d / %d in bases %s / %s" % (
                        ptag, c["outcome"], q["outcome"], b1, b2))
    for key, l in seqs.items():
        if len(set(l)) != len(l):
            viol("info:seq-repeated", "sequence numbers %s of pairs created at %s:%d for %s:%d repeat" % ((l,) + key))
        if acc is not None:
            acc.setdefault(key, []).extend(l)
    for key, l in per_sock.items():
        if len(set(l)) != len(l):
            viol("info:seq-repeated-at-socket", "(directionality, sequence number) %s repeat at %s:%d" % ((l,) + key))
        both = {x[1] for x in l if x[0] == 0} & {x[1] for x in l if x[0] == 1}
        if both:
            notes["seq-shared-across-directions"] = notes.get("seq-shared-across-directions", 0) + 1
    if not any(v for v in obs["replies"].values() if any(x[0] == "ErrorMessage" for x in v)) and not obs["hang"]:
        for n in sc["nodes"]:
            have = len(snap[n]["virt"])
            if have != expected_qubits[n]:
                viol("leftover-qubits", "%s holds %d qubits, %d halves were delivered to it" % (n, have, expected_qubits[n]))
            if any(v for v in snap[n]["recv_epr"].values()):
                viol("leftover-queue", "%s: undelivered entries %s" % (n, snap[n]["recv_epr"]))
    # weights handed to random.choices
    for pop, w in obs["choices"]:
        if sum(w) != 256:
            viol("weights:sum", "weights %s for %s do not sum to 256" % (w, pop))
        if any(x < 0 for x in w):
            notes["negative-weight"] = notes.get("negative-weight", 0) + 1


# --------------------------------------------------------------------------
# tie: replay the recorded history on the Lean driver
# --------------------------------------------------------------------------

def mask(sl):
    sl = list(sl)
    if sl and sl[0] == 0:
        sl[8] = 0
    return " ".join(str(int(x)) for x in sl)


def tie_lines(sc, obs, first=True, last=True):
    """(lines, expectations) for one error-free execution; expectation = (text or None, what).  An application history
    is one model run: `reset` before its first application only, the final picture after its last one only."""
    ids = obs["ids"]
    lines, exp = (["reset"], [("ok", "reset")]) if first else ([], [])
    arr = {n: arrays_of(obs["replies"].get(n, [])) for n in sc["nodes"]}
    for e in obs["ev"]:
        if e[0] == "newcreate":
            _, n, remote, c = e
            lines.append("newcreate %d %d" % (ids[n], remote))
            exp.append(("cid %d" % c, "create id at %s" % n))
        elif e[0] == "pair":
            _, frm, to, fs, ts, rec, raw = e
            if rec is None:
                return None
            req = rec["req"]
            k = len(req["pairs"])
            req["pairs"].append(1)
            vals = arr[frm].get(req["addr"])
            want = mask(vals[k * OK_FIELDS:(k + 1) * OK_FIELDS]) if vals and len(vals) >= (k + 1) * OK_FIELDS else None
            base = "pair %d %d %d %d %s %d %d" % (ids[frm], rec["remote"], rec["sock"], rec["rsock"], rec["typ"],
                                                  rec["cid"], rec["qid"])
            if rec["typ"] == "M":
                if len(rec["meas"]) != 2:
                    return None
                (o1, b1), (o2, b2) = rec["meas"]
                base += " %s %s %d %d" % (b1, b2, o1, o2)
            lines.append(base)
            exp.append(("created " + want if want is not None else None, "creator result %d of %s" % (k, frm)))
        elif e[0] == "recv":
            _, n, sock, rc, raw = e
            if rc is None:
                return None
            lines.append("recv %d %d %d" % (ids[n], sock, rc["qid"] if rc["qid"] is not None else 0))
            if raw is None:
                exp.append(("nothing", "empty poll at %s:%d" % (n, sock)))
            else:
                req = rc["req"]
                k = len(req["pairs"])
                req["pairs"].append(1)
                vals = arr[n].get(req["addr"])
                want = mask(vals[k * OK_FIELDS:(k + 1) * OK_FIELDS]) if vals and len(vals) >= (k + 1) * OK_FIELDS else None
                exp.append(("got " + want if want is not None else None, "receiver result %d of %s" % (k, n)))
    # what _sample_basis_choice handed to random.choices
    for rb, spec, ch, basis in obs["samples"]:
        lines.append("sample %s %d %d" % (rb, spec[0], spec[1]))
        if ch is None:
            exp.append(("fixed %s" % basis, "basis without a draw"))
        else:
            exp.append(("choose %s %s" % (",".join(ch[0]), ",".join(str(int(w)) for w in ch[1])), "weights of random.choices"))
    # queues and the final picture
    for n in sc["nodes"]:
        for s, ln in obs["snap"][n]["recv_epr"].items():
            lines.append("queue %d %s" % (ids[n], s))
            exp.append((str(ln), "queue length %s:%s" % (n, s)))
    if last:
        lines.append("state %d" % len(sc["nodes"]))
        exp.append((impl_state(obs), "registers, holders and groups"))
    return lines, exp


def impl_state(obs):
    """the implementation's registers in the driver's `state` format"""
    ids, snap = obs["ids"], obs["snap"]
    phys = {}
    for n in snap:
        for q, h in snap[n]["qubitList"].items():
            if h is not None:
                phys.setdefault(tuple(h), []).append("%d:%s" % (ids[n], q))
    regs = []
    for g in obs["joint"]:
        hs = []
        for h in g["holders"]:
            p = phys.get(tuple(h)) if h is not None else None
            hs.append("&".join(sorted(p)) if p else "?")
        grp = group_of_rows(g["state"]) if g["n"] == 2 else None
        regs.append("+".join(sorted(hs)) + "=" + (",".join(grp) if grp else "/".join(g["state"])))
    return ";".join(sorted(regs)) if regs else "-"


# --------------------------------------------------------------------------
# the check
# --------------------------------------------------------------------------

def run(ctx):
    core.scratch_repo()
    res = core.Result()
    res.rule = ("random scenarios: 2-4 nodes, 1-3 matched socket pairs, 1-6 requests of 1-4 pairs (K / M with RandomBasis "
                "NONE/XZ/XYZ and arbitrary probability parameters), opposite directions at once, one SDK program per "
                "node split into 1..k subroutines, start offsets, schedulers Fifo / Random / DelayInjection / PCT, config "
                "file listing the nodes in random order; pipelined hosts (2-3 sockets, 2 neighbours, 2-3 K or M requests "
                "on ONE socket pair); create-and-keep results that cannot be stored when the pair is ready (creator / receiver "
                "host frees the virtual address k = 1, 2, 3, 5 retry periods later, n = 1..2); application histories (2-3 applications one after another on one long-lived network, "
                "EPR socket ids re-used towards other remote ids / nodes, K and M, n = 1..2, Fifo / Random / DelayInjection); plus "
                "the fixed corpus (one K, one M per basis set, both directions, receiver at capacity) and the exhaustive "
                "weight / basis-set / outcome tables; non-trivial = at least one request completed; distinct by descriptor")
    table = _md_table()
    runner = Runner()
    lines, exp = [], []
    notes = {}
    nkey = {}

    def judge(sc, obs, tag):
        bad = []
        oracle(sc, obs, table, lambda k, w: bad.append((k, w)), notes)
        return bad

    def execute(sc, **kw):
        try:
            return runner.run(sc, **kw)
        except core.MachineryError:
            raise
        except Exception as e:   # the harness loop itself must not crash on a misbehaving implementation
            import traceback
            return {"crash": "%s: %s" % (type(e).__name__, e), "tb": traceback.format_exc()[-1500:]}

    def one(sc, kind):
        obs = execute(sc)
        if "crash" in obs:
            res.violation("harness-crash:" + obs["crash"].split(":")[0], "executing the scenario raised %s" % obs["crash"],
                          {"scenario": sc, "traceback": obs["tb"]})
            res.case(sc, nontrivial=False)
            return
        bad = judge(sc, obs, kind)
        res.count(kind)
        res.count("sched:" + sc["sched"]["kind"])
        for r in sc["reqs"]:
            res.count("req:%s" % r["typ"] + (":%s/%s" % (r["rbl"], r["rbr"]) if r["typ"] == "M" else ""))
            res.count("pairs", r["n"])
        res.count("empty-polls", sum(1 for e in obs["ev"] if e[0] == "recv" and e[4] is None))
        res.case({k: sc[k] for k in ("nodes", "order", "links", "reqs", "progs", "sched", "starts", "pipeline", "pipe_gap", "block")
                  if k in sc}, nontrivial=True)
        for n_, h_ in (obs.get("held") or {}).items():
            res.count("blocked:%s-side:k=%d:%s" % ("creator" if sc["block"]["side"] == "c" else "receiver", sc["block"]["k"],
                                                   "result-waited" if h_["waited"] else "result-did-not-wait"))
        res.count("config-file-order:" + ("alphabetical" if config_order(sc) == sorted(sc["nodes"]) else "not-alphabetical"))
        if sc.get("pipeline"):
            # how many pairs were being created at one node at the same time (the point of these scenarios)
            res.count("concurrent:max-pairs-in-flight-at-one-node=%d" % max(list(obs["maxopen"].values()) + [0]))
        if bad:
            seen = set()
            for key, what in bad:
                if key in seen:
                    continue
                seen.add(key)
                rep = {"scenario": sc, "what": what}
                # shrink: one or two of the requests, under FIFO if possible, failing the same way
                nkey[key] = nkey.get(key, 0) + 1
                cands = shrink_candidates(sc) if nkey[key] <= 3 and (len(sc["reqs"]) > 1 or sc["sched"]["kind"] != "fifo") else []
                for s1 in cands:
                    o1 = execute(s1)
                    if "crash" in o1:
                        continue
                    if any(k == key for k, _ in judge(s1, o1, "shrink")):
                        rep = {"scenario": s1, "what": what, "shrunk_from": sc["id"]}
                        break
                res.violation(key, what, rep)
            return
        if same_socket_groups(sc):
            # oracle only: the model `Epr` executes cmd_epr atomically at the delivery of the half (`pair` line), so the
            # order in which several cmd_epr in flight on ONE socket pair read the sequence counter (before the send)
            # and netqasm's attribution of finished pairs to the first pending request are not events of the model
            res.count("concurrent:same-socket-pair:oracle-only")
            return
        if ctx.lean_ok:
            t = tie_lines(sc, obs)
            if t is None:
                res.notes.append("scenario %s: instrumentation incomplete, not tied" % sc["id"])
            else:
                base = len(lines)
                lines.extend(t[0])
                exp.extend((w, what, sc, base) for (w, what) in t[1])

    def execute_history(h):
        try:
            return run_history(runner, h)
        except core.MachineryError:
            raise
        except Exception as e:
            import traceback
            return {"crash": "%s: %s" % (type(e).__name__, e), "tb": traceback.format_exc()[-1500:]}

    def one_history(h, kind):
        obslist = execute_history(h)
        if isinstance(obslist, dict):
            res.violation("harness-crash:" + obslist["crash"].split(":")[0], "executing the application history raised %s"
                          % obslist["crash"], {"history": h, "traceback": obslist["tb"]})
            res.case(h, nontrivial=False)
            return
        bad = judge_history(h, obslist, table, notes)
        res.count(kind)
        res.count("history:%d-applications" % len(h["apps"]))
        res.count("history:shape:%s" % h.get("shape"))
        res.count("history:app-ids:" + ("all-0" if all(ph.get("app", 0) == 0 for ph in h["apps"]) else "several"))
        for ph in h["apps"]:
            res.count("sched:" + ph["sched"]["kind"])
            for r in ph["reqs"]:
                res.count("req:%s" % r["typ"] + (":%s/%s" % (r["rbl"], r["rbr"]) if r["typ"] == "M" else ""))
                res.count("pairs", r["n"])
        res.case({k: h[k] for k in ("nodes", "order", "apps")}, nontrivial=any(ph["reqs"] for ph in h["apps"]))
        if bad:
            seen = set()
            for key, what in bad:
                if key in seen:
                    continue
                seen.add(key)
                rep = {"history": h, "what": what}
                # shrink to the minimal sequence of applications (and requests) failing the same way
                nkey[key] = nkey.get(key, 0) + 1
                if nkey[key] <= 3:
                    for h1 in itertools.islice(shrink_history_candidates(h), 100):
                        o1 = execute_history(h1)
                        if isinstance(o1, dict):
                            continue
                        b1 = [w for k1, w in judge_history(h1, o1, table, {}) if k1 == key]
                        if b1:
                            rep = {"history": h1, "what": b1[0], "shrunk_from": h["id"]}
                            what = b1[0]
                            break
                res.violation(key, what, rep)
            return
        if ctx.lean_ok:
            t = history_tie(h, obslist)
            if t is None:
                # oracle only: the model has no StopApp (halves kept by an earlier application stay in its registers)
                res.count("history:kept-halves-before-last-application:oracle-only")
            else:
                res.count("history:tied")
                base = len(lines)
                lines.extend(t[0])
                exp.extend((w, what, h, base) for (w, what) in t[1])

    # ---- replay of a recorded failing input
    if getattr(ctx, "replay", None):
        inp = ctx.replay.get("input", {})
        if inp.get("history"):
            one_history(inp["history"], "replay")
            finish_tie(ctx, res, lines, exp, table)
            return res
        sc = inp.get("scenario")
        if sc:
            if inp.get("capacity"):
                capacity_case(runner, res, sc, inp["capacity"])
            else:
                one(sc, "replay")
        finish_tie(ctx, res, lines, exp, table)
        return res

    # ---- fixed corpus
    for sc in corpus():
        one(sc, "corpus")
    # ---- receiver at capacity (F13; C11's subject, keyed separately)
    capacity_case(runner, res, capacity_scenario(), {"max_qubits": 3, "fill": {"Bob": 3}})
    # ---- several create requests in flight at ONE node at once (one host, non-crossing directions)
    for sc in concurrent_scenarios(ctx.rng, ctx.scale(2, 12)):
        one(sc, "concurrent")
    # ---- results that cannot be stored when the pair is ready (the virtual address is freed k retry periods later)
    for sc in blocked_scenarios(ctx.rng, ctx.scale(3, 20)):
        one(sc, "blocked")
    # ---- random scenarios
    nsc = ctx.scale(600, 9000)
    for i in range(nsc):
        one(gen_scenario(ctx.rng, i, ctx.thorough), "random")
    # ---- several applications one after another at the same nodes of one long-lived network, EPR socket ids re-used
    for h in history_scenarios(ctx.rng, ctx.scale(1, 6)):
        one_history(h, "history")
    if res.dist.get("history"):
        res.notes.append("application histories: %d run, %d tied as one run of the model `Epr`, %d judged by the oracle only "
                         "(an application before the last one keeps halves; the model has no StopApp)" % (
                             res.dist["history"], res.dist.get("history:tied", 0),
                             res.dist.get("history:kept-halves-before-last-application:oracle-only", 0)))
    # ---- exhaustive tables against the model
    if ctx.lean_ok:
        table_queries(runner, lines, exp, table, ctx.thorough)
    finish_tie(ctx, res, lines, exp, table)
    for k, v in sorted(notes.items()):
        if k == "seq-shared-across-directions":
            res.notes.append("%d socket(s) carried pairs of both directions with the SAME sequence number (the counter is "
                             "per creator; such results differ in the directionality flag only)" % v)
        if k == "same-socket-results-out-of-request-order":
            res.notes.append("%d execution(s) with requests pipelined on one socket pair returned the pairs in arrays of "
                             "other requests of that socket (netqasm: first pending request first); judged per create id" % v)
        if k == "negative-weight":
            res.notes.append("%d call(s) of random.choices received a negative weight (p1 + p2 > 256 after the %% 256 "
                             "reduction; host-controlled input; theorems basis_weights, basis_weights_three_negative)" % v)
        res.count("note:" + k, v)
    return res


def finish_tie(ctx, res, lines, exp, table):
    if not (ctx.lean_ok and lines):
        return
    out = core.lean_run("epr", lines)
    broken = set()
    md_seen = {}
    for i, (got, (want, what, sc, base)) in enumerate(zip(out, exp)):
        res.traces += 1
        if isinstance(what, tuple) and what[0] == "md":
            # the model's outcome table against the matrices
            try:
                o1, o2 = (int(x) for x in got.split())
            except ValueError:
                res.tie_break("Epr model: measure-directly table", lines[i], got, "two outcomes")
                continue
            md_seen.setdefault((what[1], what[2]), set()).add((o1, o2))
            continue
        if want is None:
            continue
        sid = id(sc)
        if got != want and sid not in broken:
            broken.add(sid)
            res.tie_break("Epr model vs executioner/virtual node: %s" % (what,),
                          {"scenario": sc, "line": lines[i], "history": lines[base:i + 1][-12:]}, got, want)
    for k, seen in md_seen.items():
        if seen != table[k]:
            res.tie_break("Epr model: measure-directly outcomes in bases %s/%s vs Phi+ computed with matrices" % k,
                          "md %s %s *" % k, sorted(seen), sorted(table[k]))


def table_queries(runner, lines, exp, table, thorough):
    """finite tables.  (1) the model's measure-directly outcomes for all bases and coins, judged against the
    4x4-matrix table of this module (tag "md"); (2) the REAL `_sample_basis_choice` / `_get_probability_weights`
    on a grid of specs (every p for two choices, a grid incl. all boundaries for three), what it hands to
    random.choices compared with the model's `sample`."""
    sc = {"id": "tables"}
    base = len(lines)
    for b1 in "XYZ":
        for b2 in "XYZ":
            for c1 in (0, 1):
                for c2 in (0, 1):
                    lines.append("md %s %s %d %d" % (b1, b2, c1, c2))
                    exp.append((None, ("md", b1, b2), sc, base))
    for rb, p1, p2, seen in runner.weights_cases(thorough):
        lines.append("sample %s %d %d" % (rb, p1, p2))
        exp.append((seen, "real _sample_basis_choice(%s, [%d, %d])" % (rb, p1, p2), {"id": "weights %s %d %d" % (rb, p1, p2)}, base))


def corpus():
    def sc(idx, nodes, links, reqs, progs, sched=None, starts=None, order=None):
        d = {"id": "corpus%d" % idx, "nodes": nodes, "links": links, "reqs": reqs, "progs": progs,
             "sched": sched or {"kind": "fifo", "seed": 0}, "starts": starts or {n: 0 for n in nodes}, "rng": 11 + idx}
        if order:
            d["order"] = order
        return d
    out = []
    ab = [["Alice", 0, "Bob", 0]]
    out.append(sc(0, ["Alice", "Bob"], ab, [{"link": 0, "dir": 0, "n": 1, "typ": "K"}],
                  {"Alice": [[["c", 0]]], "Bob": [[["r", 0]]]}))
    out.append(sc(1, ["Alice", "Bob"], ab, [{"link": 0, "dir": 0, "n": 4, "typ": "K"}],
                  {"Alice": [[["c", 0]]], "Bob": [[["r", 0]]]}, starts={"Alice": 0, "Bob": 120}))
    k = 2
    for rbl in ("NONE", "XZ", "XYZ"):
        for rbr in ("NONE", "XZ", "XYZ"):
            pl = [0, 0] if rbl == "NONE" else [128, 0] if rbl == "XZ" else [85, 85]
            pr = [0, 0] if rbr == "NONE" else [128, 0] if rbr == "XZ" else [85, 85]
            out.append(sc(k, ["Alice", "Bob"], ab,
                          [{"link": 0, "dir": 0, "n": 4, "typ": "M", "rbl": rbl, "rbr": rbr, "pl": pl, "pr": pr}],
                          {"Alice": [[["c", 0]]], "Bob": [[["r", 0]]]}))
            k += 1
    # forced equal bases (probability 256/0): XX, YY, ZZ on several pairs
    for p in ([256 % 512, 0], [0, 256], [0, 0]):
        out.append(sc(k, ["Alice", "Bob"], ab,
                      [{"link": 0, "dir": 0, "n": 4, "typ": "M", "rbl": "XYZ", "rbr": "XYZ", "pl": [255, 1] if p == [256, 0] else p,
                        "pr": [255, 1] if p == [256, 0] else p}],
                      {"Alice": [[["c", 0]]], "Bob": [[["r", 0]]]}))
        k += 1
    # both directions at once on one socket pair, K and M
    for typ in ("K", "M"):
        r = {"link": 0, "n": 2, "typ": typ}
        if typ == "M":
            r.update({"rbl": "XYZ", "rbr": "XZ", "pl": [100, 100], "pr": [128, 0]})
        out.append(sc(k, ["Alice", "Bob"], ab, [dict(r, dir=0), dict(r, dir=1)],
                      {"Alice": [[["c", 0], ["r", 1]]], "Bob": [[["c", 1], ["r", 0]]]},
                      sched={"kind": "random", "seed": 5}))
        k += 1
    # the same, create-and-keep, both hosts starting at once under FIFO: the two send_epr_half cross (finding F8)
    out.append(sc(k, ["Alice", "Bob"], ab, [{"link": 0, "dir": 0, "n": 1, "typ": "K"}, {"link": 0, "dir": 1, "n": 1, "typ": "K"}],
                  {"Alice": [[["c", 0], ["r", 1]]], "Bob": [[["c", 1], ["r", 0]]]}))
    k += 1
    # three nodes, two socket pairs into one node, receiver starts late
    out.append(sc(k, ["Alice", "Bob", "Charlie"], [["Alice", 0, "Bob", 0], ["Charlie", 2, "Bob", 1]],
                  [{"link": 0, "dir": 0, "n": 2, "typ": "K"}, {"link": 1, "dir": 0, "n": 3, "typ": "K"},
                   {"link": 0, "dir": 1, "n": 1, "typ": "K"}],
                  {"Alice": [[["c", 0]], [["r", 2]]], "Charlie": [[["c", 1]]], "Bob": [[["r", 0], ["r", 1]], [["c", 2]]]},
                  sched={"kind": "pct", "seed": 3, "depth": 3}, starts={"Alice": 0, "Bob": 60, "Charlie": 5}))
    k += 1
    # the configuration file lists the nodes in NON-alphabetical order (node ids stay the positions in the sorted
    # list): every ordered pair of a 3-node network listed as Charlie, Alice, Bob / Bob, Charlie, Alice / reversed,
    # K and M, and a 2-node network listed as Bob, Alice
    abc = ["Alice", "Bob", "Charlie"]
    for order in (["Charlie", "Alice", "Bob"], ["Bob", "Charlie", "Alice"], ["Charlie", "Bob", "Alice"]):
        for a in abc:
            for b in abc:
                if a == b:
                    continue
                typ = "K" if (abc.index(a) + abc.index(b) + len(out)) % 2 else "M"
                r = {"link": 0, "dir": 0, "n": 2, "typ": typ}
                if typ == "M":
                    r.update({"rbl": "XZ", "rbr": "XYZ", "pl": [128, 0], "pr": [85, 85]})
                out.append(sc(k, list(abc), [[a, 0, b, 1]], [r], {a: [[["c", 0]]], b: [[["r", 0]]]}, order=order))
                k += 1
    for typ in ("K", "M"):
        r = {"link": 0, "dir": 1, "n": 1, "typ": typ}
        if typ == "M":
            r.update({"rbl": "NONE", "rbr": "XZ", "pl": [0, 0], "pr": [128, 0]})
        out.append(sc(k, ["Alice", "Bob"], ab, [r], {"Bob": [[["c", 0]]], "Alice": [[["r", 0]]]}, order=["Bob", "Alice"]))
        k += 1
    return out


def concurrent_scenarios(rng, rounds):
    """ONE host has two or three create-and-keep requests in flight at its node at the same time: it submits one
    subroutine per request without waiting for the Done of the previous one -- on two / three sockets to the same
    peer, and towards two different neighbours (3 nodes).  The peers are ordinary blocking hosts with the matching
    receives.  Every request goes from the pipelined host outwards, so no two requests cross (the crossing deadlock
    and the capacity leak are known findings with their own scenarios).  Judged by the ordinary oracle."""
    shapes = []

    def shape(name, nodes, links, reqs):
        creator = nodes[0]
        progs = {n: [] for n in nodes}
        for i, r in enumerate(reqs):
            a, _, b, _ = links[r["link"]]
            c, rcv = (a, b) if r["dir"] == 0 else (b, a)
            assert c == creator and rcv != creator
            progs[c].append([["c", i]])
            progs[rcv].append([["r", i]])
        shapes.append((name, nodes, links, [dict(r, typ=r.get("typ", "K")) for r in reqs], progs))

    def md(n, rbl="XZ", rbr="XYZ"):
        return {"link": 0, "dir": 0, "n": n, "typ": "M", "rbl": rbl, "rbr": rbr,
                "pl": {"NONE": [0, 0], "XZ": [128, 0], "XYZ": [85, 85]}[rbl],
                "pr": {"NONE": [0, 0], "XZ": [128, 0], "XYZ": [85, 85]}[rbr]}

    for names in (["Alice", "Bob", "Charlie"], ["Charlie", "Alice", "Bob"], ["Bob", "Charlie", "Alice"]):
        a, b, c = names
        # two sockets to the same peer
        shape("2-sockets", [a, b], [[a, 0, b, 0], [a, 1, b, 1]], [{"link": 0, "dir": 0, "n": 1}, {"link": 1, "dir": 0, "n": 1}])
        shape("2-sockets-n2", [a, b], [[a, 0, b, 2], [b, 0, a, 3]], [{"link": 0, "dir": 0, "n": 2}, {"link": 1, "dir": 1, "n": 2}])
        # three sockets to the same peer
        shape("3-sockets", [a, b], [[a, 0, b, 0], [a, 1, b, 1], [b, 2, a, 2]],
              [{"link": 0, "dir": 0, "n": 1}, {"link": 1, "dir": 0, "n": 2}, {"link": 2, "dir": 1, "n": 1}])
        # towards two different neighbours
        shape("2-neighbours", [a, b, c], [[a, 0, b, 0], [a, 1, c, 0]], [{"link": 0, "dir": 0, "n": 1}, {"link": 1, "dir": 0, "n": 1}])
        shape("2-neighbours-n2", [a, b, c], [[b, 1, a, 0], [a, 1, c, 2]], [{"link": 0, "dir": 1, "n": 2}, {"link": 1, "dir": 0, "n": 2}])
        # two sockets to one neighbour and one to the other
        shape("3-mixed", [a, b, c], [[a, 0, b, 0], [a, 1, c, 0], [a, 2, b, 1]],
              [{"link": 0, "dir": 0, "n": 1}, {"link": 1, "dir": 0, "n": 2}, {"link": 2, "dir": 0, "n": 1}])
        # two / three requests pipelined on ONE socket pair (the sequence-number counter of that pair is read and
        # advanced by several cmd_epr in flight at once): measure-directly and create-and-keep, n = 1..2 each.  Which
        # of the receiver's (blocking, consecutive) receives obtains which pair is decided by the order of delivery
        # (FIFO per socket), see `regroup_same_socket`.
        shape("same-socket-MM", [a, b], [[a, 0, b, 0]], [md(1), md(1, "NONE", "NONE")])
        shape("same-socket-MM-n2", [a, b], [[a, 1, b, 0]], [md(2, "XYZ", "XZ"), md(1)])
        shape("same-socket-MMM", [a, b], [[a, 0, b, 2]], [md(1), md(2), md(1, "XYZ", "NONE")])
        shape("same-socket-KK", [a, b], [[a, 0, b, 0]], [{"link": 0, "dir": 0, "n": 1}, {"link": 0, "dir": 0, "n": 1}])
        shape("same-socket-KK-n2", [a, b], [[b, 1, a, 0]], [{"link": 0, "dir": 1, "n": 2}, {"link": 0, "dir": 1, "n": 2}])
    out = []
    k = 0
    for rnd in range(rounds):
        for (name, nodes, links, reqs, progs) in shapes:
            scheds = [{"kind": "fifo", "seed": 0}] if rnd == 0 else []
            scheds.append({"kind": "random", "seed": rng.randrange(1 << 30)})
            scheds.append({"kind": "delay", "seed": rng.randrange(1 << 30),
                           "what": rng.choice(["call:netqasm_send_epr_half", "call:add_qubit", "call:netqasm_add_epr_list",
                                               "call:new_qubit", "call:cnot_onto", "answer"]),
                           "k": rng.randrange(8), "until": rng.choice([1, 3, 8, 20, 60]), "timers": rng.random() < 0.5})
            if rng.random() < 0.34:
                scheds.append({"kind": "pct", "seed": rng.randrange(1 << 30), "depth": rng.choice([2, 3, 4])})
            for sd in scheds:
                fifo = sd["kind"] == "fifo"
                out.append({"id": "concurrent%d:%s:%s" % (k, name, sd["kind"]), "nodes": list(nodes),
                            "links": [list(l) for l in links], "reqs": [dict(r) for r in reqs],
                            "progs": {n: [[list(op) for op in sub] for sub in subs] for n, subs in progs.items()},
                            "sched": sd, "starts": {n: 0 if fifo else rng.choice([0, 0, 0, 3, 10, 40]) for n in nodes},
                            "pipeline": [nodes[0]], "pipe_gap": 0 if fifo else rng.choice([0, 0, 1, 2, 5, 12]),
                            "rng": rng.randrange(1 << 30)})
                k += 1
    return out


def blocked_scenarios(rng, rounds):
    """A create-and-keep result that cannot be stored when the pair is ready: the host of one side (creator or
    receiver) still holds a qubit at the virtual address its request names for the first pair and frees it with a LATER
    subroutine, submitted (k - 1/2) retry periods of virtual time after the result had to wait, k = 1, 2, 3, 5 -- so the
    result becomes storable at the k-th look.  No other entanglement result arrives at that node meanwhile (n = 1), or
    the second pair of the same request does (n = 2).  The other side is an ordinary blocking host.  Judged by the
    ordinary oracle (both sides obtain n matching results, the halves are one Phi+ pair, nothing left over, nothing
    pending when the network is idle) and tied like any other scenario."""
    out = []
    idx = 0
    for rnd in range(rounds):
        for side in ("c", "r"):
            for k in (1, 2, 3, 5):
                names = rng.sample(NAMES[:3], 3)
                a, b = names[0], names[1]
                nodes = [a, b] if rng.random() < 0.6 else list(names)
                n = 1 if (idx + rnd) % 3 else 2
                s, t = rng.choice([0, 0, 1, 2]), rng.choice([0, 0, 1, 3])
                d = rng.randrange(2)
                links = [[a, s, b, t]]
                creator, receiver = (a, b) if d == 0 else (b, a)
                blocked = creator if side == "c" else receiver
                fifo = rnd == 0 and idx % 2 == 0
                sd = {"kind": "fifo", "seed": 0} if fifo else {"kind": "random", "seed": rng.randrange(1 << 30)}
                sc = {"id": "blocked%d:%s:k=%d" % (idx, "creator" if side == "c" else "receiver", k), "nodes": nodes,
                      "order": rng.sample(nodes, len(nodes)), "links": links,
                      "reqs": [{"link": 0, "dir": d, "n": n, "typ": "K"}],
                      "progs": {m: ([[["c", 0]]] if m == creator else [[["r", 0]]] if m == receiver else []) for m in nodes},
                      "sched": sd, "starts": {m: 0 if fifo else rng.choice([0, 0, 3, 10, 40]) for m in nodes},
                      "block": {"node": blocked, "side": side, "req": 0, "k": k}, "rng": rng.randrange(1 << 30)}
                out.append(sc)
                idx += 1
    return out


# --------------------------------------------------------------------------
# application histories: several applications one after another on ONE long-lived network
# --------------------------------------------------------------------------

def seq_programs(nodes, links, reqs):
    """per node one subroutine per request, in the global request order (no create is moved before an earlier
    receive, so requests of one application never cross)"""
    progs = {n: [] for n in nodes}
    for i, r in enumerate(reqs):
        a, _, b, _ = links[r["link"]]
        c, rcv = (a, b) if r["dir"] == 0 else (b, a)
        progs[c].append([["c", i]])
        progs[rcv].append([["r", i]])
    return progs


def phase_scenario(hist, k):
    """application k of a history as an ordinary scenario descriptor (what `Runner.phase` and `oracle` take)"""
    ph = hist["apps"][k]
    return {"id": "%s/app%d" % (hist["id"], k), "nodes": hist["nodes"], "links": ph["links"], "reqs": ph["reqs"],
            "progs": ph["progs"], "sched": ph["sched"], "starts": ph.get("starts") or {n: 0 for n in hist["nodes"]},
            "app": ph.get("app", 0), "open_idle": True, "rng": hist["rng"]}


def history_scenarios(rng, rounds):
    """Histories of 2-3 applications at the same NetQASM servers of one network that is never restarted.  Every
    application: InitNewApp, OpenEPRSocket for each of its sockets, its create / receive subroutines (create-and-keep
    and measure-directly, n = 1..2, both directions of every socket pair, one after the other), StopApp -- each on a
    new host connection.  Later applications open EPR sockets whose LOCAL ids were used before, towards a different
    remote socket id / a different remote node; the mirrored case (same remote id, other local id); both ids swapped
    between two socket pairs; and the control (identical ids again: the sequence numbers go on).  Some first
    applications only register their sockets and stop."""
    shapes = []
    for names in (["Alice", "Bob", "Charlie"], ["Charlie", "Alice", "Bob"], ["Bob", "Charlie", "Alice"]):
        a, b, c = names
        shapes += [
            ("local-reused:other-remote-id", [a, b], [[[a, 0, b, 0]], [[a, 0, b, 1]]]),
            ("local-reused:other-remote-id:idle-first", [a, b], [[[a, 0, b, 0]], [[a, 0, b, 1]]]),
            ("local-reused:other-remote-node", [a, b, c], [[[a, 0, b, 0]], [[a, 0, c, 0]]]),
            ("local-reused:other-node-and-id", [a, b, c], [[[a, 1, b, 0]], [[c, 2, a, 1]]]),
            ("remote-reused:other-local-id", [a, b], [[[a, 0, b, 0]], [[a, 1, b, 0]]]),
            ("reopened-identical", [a, b], [[[a, 0, b, 0]], [[a, 0, b, 0]]]),
            ("reopened-identical-3", [a, b], [[[b, 1, a, 2]], [[b, 1, a, 2]], [[b, 1, a, 2]]]),
            ("swapped", [a, b], [[[a, 0, b, 0], [a, 1, b, 1]], [[a, 0, b, 1], [a, 1, b, 0]]]),
            ("there-and-back", [a, b], [[[a, 0, b, 0]], [[a, 0, b, 1]], [[a, 0, b, 0]]]),
            ("rotating-peers", [a, b, c], [[[a, 0, b, 0]], [[a, 0, c, 0]], [[b, 0, c, 0]]]),
            ("two-peers-then-crossed", [a, b, c], [[[a, 0, b, 0], [a, 1, c, 0]], [[a, 0, c, 0], [a, 1, b, 0]]]),
        ]

    def request(link, d, typ):
        r = {"link": link, "dir": d, "n": rng.choice([1, 1, 2]), "typ": typ}
        if typ == "M":
            r["rbl"] = rng.choice(["NONE", "XZ", "XYZ"])
            r["rbr"] = rng.choice(["NONE", "XZ", "XYZ"])
            r["pl"] = {"NONE": [0, 0], "XZ": [128, 0], "XYZ": [85, 85]}[r["rbl"]]
            r["pr"] = {"NONE": [0, 0], "XZ": [128, 0], "XYZ": [85, 85]}[r["rbr"]]
        return r

    out = []
    k = 0
    for rnd in range(rounds):
        for si, (name, nodes, phases) in enumerate(shapes):
            kinds = ["fifo"] if rnd == 0 and si < len(shapes) // 3 else []
            kinds.append(rng.choice(["random", "delay"]))
            for kind in kinds:
                # all applications use id 0 (what the SDK does in a fresh host process), or count up, or differ per node
                appmode = rng.choice(["zero", "zero", "count", "mixed"])
                early_m = rng.random() < 0.5        # no kept qubits before the last application: the history is tied
                apps = []
                for pi, links in enumerate(phases):
                    last = pi == len(phases) - 1
                    reqs = []
                    if not (name.endswith("idle-first") and pi == 0):
                        for li in range(len(links)):
                            dirs = [0, 1] if rng.random() < 0.7 else [rng.randrange(2)]
                            rng.shuffle(dirs)
                            for d in dirs:
                                reqs.append(request(li, d, "M" if (early_m and not last) else rng.choice(["K", "M"])))
                        rng.shuffle(reqs)
                    if kind == "fifo":
                        sd = {"kind": "fifo", "seed": 0}
                    elif kind == "random":
                        sd = {"kind": "random", "seed": rng.randrange(1 << 30)}
                    else:
                        sd = {"kind": "delay", "seed": rng.randrange(1 << 30),
                              "what": rng.choice(["call:netqasm_send_epr_half", "call:netqasm_add_epr_list",
                                                  "call:netqasm_get_epr_recv", "call:add_qubit", "answer"]),
                              "k": rng.randrange(6), "until": rng.choice([1, 3, 8, 20]), "timers": rng.random() < 0.5}
                    app = 0 if appmode == "zero" else pi if appmode == "count" else \
                        {n: rng.choice([0, pi, pi + 1]) for n in nodes}
                    apps.append({"app": app, "links": [list(l) for l in links], "reqs": reqs,
                                 "progs": seq_programs(nodes, links, reqs), "sched": sd,
                                 "starts": {n: 0 if kind == "fifo" else rng.choice([0, 0, 3, 10, 40]) for n in nodes}})
                order = list(nodes)
                rng.shuffle(order)
                out.append({"id": "history%d:%s:%s" % (k, name, kind), "shape": name, "nodes": list(nodes), "order": order,
                            "apps": apps, "rng": rng.randrange(1 << 30)})
                k += 1
    return out


def run_history(runner, hist):
    """the applications of `hist` one after another on one network; one observation per application that ran (the
    history ends at the first application that hangs or is answered with an error)"""
    se = runner.open(hist["nodes"], config_order(hist), hist["rng"])
    out = []
    try:
        for k in range(len(hist["apps"])):
            obs = runner.phase(se, phase_scenario(hist, k), stop_after=True)
            out.append(obs)
            if obs["hang"] or any(x[0] == "ErrorMessage" for rep in obs["replies"].values() for x in rep):
                break
    finally:
        se.nq.close()
    return out


def judge_history(hist, obslist, table, notes):
    """[(key, what)]: every application by the ordinary oracle, then what its StopApp leaves behind, then the sequence
    numbers of each directed socket pair over ALL applications"""
    bad, acc = [], {}
    for k, obs in enumerate(obslist):
        sc = phase_scenario(hist, k)
        mine = []
        oracle(sc, obs, table, lambda key, w: mine.append((key, "application %d of %d: %s" % (k + 1, len(hist["apps"]), w))),
               notes, acc)
        if not mine:
            tag = "application %d of %d" % (k + 1, len(hist["apps"]))
            for n, rep in sorted(obs["stop_replies"].items()):
                want = obs["stops_sent"].get(n, 0)
                if [x[0] for x in rep].count("MsgDoneMessage") != want or any(x[0] == "ErrorMessage" for x in rep):
                    mine.append(("history:stop-not-answered", "%s: StopApp at %s answered with %s" % (tag, n, rep)))
            after = obs["snap_after_stop"]
            for n in hist["nodes"]:
                if after[n]["virt"] or after[n].get("qubitList"):
                    mine.append(("history:qubits-left-after-stop", "%s: after StopApp %s still holds %d qubit(s), "
                                 "qubitList %s" % (tag, n, len(after[n]["virt"]), sorted(after[n].get("qubitList", {})))))
                if any(v for v in after[n]["recv_epr"].values()):
                    mine.append(("history:queue-left-after-stop", "%s: after StopApp %s has undelivered entries %s" % (
                        tag, n, after[n]["recv_epr"])))
            if not obs["locks_free_after_stop"]:
                mine.append(("history:locks-held-after-stop", "%s: a lock is held after StopApp" % tag))
        bad += mine
        if mine:
            break
    for key, l in sorted(acc.items()):
        if len(set(l)) != len(l):
            bad.append(("info:seq-repeated-across-applications",
                        "sequence numbers %s of the pairs created at %s:%d for %s:%d over the applications of one "
                        "network repeat" % ((l,) + key)))
    return bad


def sub_history(hist, picks, n1=False):
    """the history reduced to the applications picks = [(application index, request indices to keep)] (no request:
    the application only registers its sockets and stops), all under FIFO, all hosts starting at once; with n1 every
    request asks for ONE pair"""
    apps = []
    for j, keep in picks:
        ph = hist["apps"][j]
        new_index = {ri: k for k, ri in enumerate(keep)}
        progs = {}
        for n in hist["nodes"]:
            subs = []
            for sub in ph["progs"].get(n, []):
                ops = [[kind, new_index[ri]] for kind, ri in sub if ri in new_index]
                if ops:
                    subs.append(ops)
            progs[n] = subs
        apps.append({"app": ph.get("app", 0), "links": ph["links"],
                     "reqs": [dict(ph["reqs"][ri], n=1) if n1 else dict(ph["reqs"][ri]) for ri in keep],
                     "progs": progs, "sched": {"kind": "fifo", "seed": 0}, "starts": {n: 0 for n in hist["nodes"]}})
    return {"id": "%s/apps%s%s/fifo" % (hist["id"], [[j, list(keep)] for j, keep in picks], "/n=1" if n1 else ""),
            "shape": hist.get("shape"),
            "nodes": hist["nodes"], "order": config_order(hist), "apps": apps, "rng": hist["rng"]}


def shrink_history_candidates(hist):
    """smallest first: one application with one request; two applications, the earlier one only registering its
    sockets; two applications with one request each; three applications; everything under FIFO -- each first with
    one pair per request, then with the original numbers"""
    for picks in _shrink_picks(hist):
        if any(hist["apps"][j]["reqs"][i]["n"] > 1 for j, keep in picks for i in keep):
            yield sub_history(hist, picks, n1=True)
        yield sub_history(hist, picks)


def _shrink_picks(hist):
    na = len(hist["apps"])
    nr = [len(ph["reqs"]) for ph in hist["apps"]]
    for j in range(na):
        for i in range(nr[j]):
            yield [(j, [i])]
    for j in range(na):
        for k in range(j + 1, na):
            for i in range(nr[k]):
                yield [(j, []), (k, [i])]
    for j in range(na):
        for k in range(j + 1, na):
            for h in range(nr[j]):
                for i in range(nr[k]):
                    yield [(j, [h]), (k, [i])]
    if na > 2:
        for i in range(nr[-1]):
            yield [(j, []) for j in range(na - 1)] + [(na - 1, [i])]
        for i in range(nr[-1]):
            yield [(j, list(range(nr[j]))) for j in range(na - 1)] + [(na - 1, [i])]
    yield [(j, list(range(nr[j]))) for j in range(na)]


def history_tie(hist, obslist):
    """(lines, expectations) of the whole history as ONE run of the model `Epr` (its counters and queues live as long
    as the network, like the class attributes and node tables they mirror), or None where the line protocol cannot
    express it: the model has no StopApp, so halves kept by an EARLIER application would still occupy their physical
    qubit ids and registers there"""
    if any(r["typ"] == "K" for ph in hist["apps"][:-1] for r in ph["reqs"]):
        return None
    lines, exp = [], []
    for k, obs in enumerate(obslist):
        t = tie_lines(phase_scenario(hist, k), obs, first=(k == 0), last=(k == len(obslist) - 1))
        if t is None:
            return None
        lines += t[0]
        exp += t[1]
    return lines, exp


def capacity_scenario():
    return {"id": "capacity", "nodes": ["Alice", "Bob"], "links": [["Alice", 0, "Bob", 0]],
            "reqs": [{"link": 0, "dir": 0, "n": 1, "typ": "K"}],
            "progs": {"Alice": [[["c", 0]]], "Bob": []}, "sched": {"kind": "fifo", "seed": 0},
            "starts": {"Alice": 30, "Bob": 0}, "rng": 5}


def capacity_case(runner, res, sc, cap):
    """create_keep towards a node that is full: a refusal is legitimate, but it must not leave qubits behind"""
    try:
        obs = runner.run(sc, max_qubits=cap["max_qubits"], capacity_fill=cap["fill"], stop_after=True)
    except Exception as e:
        res.violation("harness-crash:" + type(e).__name__, "capacity scenario raised %s" % e, {"scenario": sc, "capacity": cap})
        return
    res.count("capacity")
    res.case({"capacity": cap, "reqs": sc["reqs"]}, nontrivial=True)
    a = "Alice"
    refused = any(x[0] == "ErrorMessage" for x in obs["replies"].get(a, []))
    after = obs["snap_after_stop"][a]
    if refused and (after["virt"] or after["qubitList"]):
        res.violation("create-failure-leaks",
                      "create_keep towards a full receiver fails and the creator keeps %d qubits (qubitList %s) even after "
                      "StopApp" % (len(after["virt"]), sorted(after["qubitList"])),
                      {"scenario": sc, "capacity": cap, "creator_after_stop": {"virt": len(after["virt"]),
                                                                               "qubitList": after["qubitList"]}})
    elif not refused:
        # enough room after all, or the implementation queued the request: the pair must then be fine
        res.notes.append("capacity scenario: the request was not refused")


def search(ctx, res, broken):
    res.notes.append("targeted search = the oracle over every generated scenario and schedule; no failing input beyond "
                     "those reported")

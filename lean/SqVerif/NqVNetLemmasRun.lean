import SqVerif.NqVNetLemmasStep
import SqVerif.NqExecLift
/-
L5 over L2 — histories: the joint machine keeps the node of the interpreter model and node `i`
of the network coupled through every history (`joint_preserves`, to be lifted by
`NqExec.runMsgs_inv`), and its interpreter half IS the concrete machine of C09/C11
(`proj_runMsgs`: same replies, same operations, same final state — for ALL messages, the
entanglement instructions included).
-/
namespace SqVerif.NqVNet

open SqVerif.NqExec
open SqVerif.VNet (WF)

variable {F : List Nat} {ext : Nat}

/-! ### the driver along a list of events -/

theorem driveEv_stuck {i p : Nat} {d : Drv} {x : Disc} (hd : d.disc = some x) (e : NEv) : driveEv i p d e = d := by
  unfold driveEv; rw [hd]

theorem drive_fold (i p : Nat) : ∀ (es : List NEv) (n n' : NqExec.Node) (d : Drv), WF d.net →
    (d.disc = none → Coupled i n d) → (d.disc ≠ some .noHandle ∧ d.disc ≠ some .other) →
    nodeEvs n es = some n' →
    WF (es.foldl (driveEv i p) d).net ∧
    ((es.foldl (driveEv i p) d).disc = none → Coupled i n' (es.foldl (driveEv i p) d)) ∧
    ((es.foldl (driveEv i p) d).disc ≠ some .noHandle ∧ (es.foldl (driveEv i p) d).disc ≠ some .other) ∧
    (es.foldl (driveEv i p) d).sched = d.sched
  | [], n, n', d, hwf, hc, hk, hev => by
    simp only [nodeEvs, Option.some.injEq] at hev
    subst hev
    exact ⟨hwf, hc, hk, rfl⟩
  | e :: es, n, n', d, hwf, hc, hk, hev => by
    simp only [nodeEvs] at hev
    cases hne : nodeEv n e with
    | none => rw [hne] at hev; cases hev
    | some n1 =>
      rw [hne] at hev
      simp only [Option.bind] at hev
      simp only [List.foldl_cons]
      cases hd : d.disc with
      | some x =>
        rw [driveEv_stuck hd]
        exact drive_fold i p es n1 n' d hwf (fun h => by rw [hd] at h; cases h) hk hev
      | none =>
        obtain ⟨g1, g2, g3, g4⟩ := good_ev (p := p) hwf hd (hc hd) hne
        obtain ⟨r1, r2, r3, r4⟩ := drive_fold i p es n1 n' _ g1 g2 g3 hev
        exact ⟨r1, r2, r3, r4.trans g4⟩

/-! ### the invariant of the joint machine -/

/-- the C11 invariant of the interpreter half, the C02 invariant of the network half, and — as long as no
disagreement was recorded — the coupling of the two nodes; the driver never loses a handle and never sees
an outcome outside the named ones -/
def JInv (F : List Nat) (ext i : Nat) (j : JSt) : Prop :=
  Inv F ext j.c ∧ WF j.d.net ∧ (j.d.disc = none → Coupled i (core j.c.node) j.d) ∧
  (j.d.disc ≠ some .noHandle ∧ j.d.disc ≠ some .other)

theorem joint_preserves (i p : Nat) : Preserves (joint i p) (JInv F ext i) (fun _ => True) := by
  intro j req env ⟨h1, h2, h3, h4⟩
  refine ⟨?_, fun _ _ => trivial⟩
  obtain ⟨e1, e2, e3⟩ := envStep_good (i := i) h2 h3
  obtain ⟨r1, r2, r3, _⟩ := drive_fold i p (evsOf j.c req (j.c.q req env)) (core j.c.node) (core (j.c.q req env).st.node)
    (envStep i j.d) e1 e2 (by rw [e3]; exact h4) (node_trace h1 req env)
  exact ⟨h1.q req env, r1, r2, r3⟩

/-! ### the interpreter half of the joint machine is the concrete machine -/

section proj
variable {σ τ : Type} (B1 : Backend σ) (B2 : Backend τ) (f : σ → τ)

/-- `B2` on the image of a state does what `B1` does, on every request -/
def Projects : Prop := ∀ c req env,
  (B2.q (f c) req env).st = f (B1.q c req env).st ∧ (B2.q (f c) req env).env = (B1.q c req env).env ∧
  (B2.q (f c) req env).ops = (B1.q c req env).ops ∧ (B2.q (f c) req env).res = (B1.q c req env).res

variable {B1 B2 f}

abbrev T : σ → Prop := fun _ => True

theorem Projects.simulates (hp : Projects B1 B2 f) : Simulates B1 B2 f (T (σ := σ)) :=
  fun c req env _ _ => ⟨trivial, hp c req env⟩

theorem proj_eprLoop (hp : Projects B1 B2 f) (mk : Option Int → QReq) (qarr : Option (List (Option Int))) (entA : Int) :
    ∀ (n i : Nat) (s : St σ) (env : Env) (ops : List TOp),
      SimStep f (T (σ := σ)) (eprLoop B1 mk qarr entA n i s env ops) (eprLoop B2 mk qarr entA n i (mapSt f s) env ops)
  | 0, _, s, env, ops => ⟨trivial, rfl, rfl, rfl, rfl, rfl⟩
  | n + 1, i, s, env, ops => by
    unfold eprLoop
    obtain ⟨h2, h3, h4, h5⟩ := hp s.q (mk (pairAddr qarr i)) env
    have hq : (mapSt f s).q = f s.q := rfl
    have hcl : (mapSt f s).cl = s.cl := rfl
    simp only [hq, hcl, h2, h3, h4, h5]
    generalize B1.q s.q (mk (pairAddr qarr i)) env = o
    cases o.res with
    | ok val =>
      dsimp only
      cases o.env.infos with
      | nil => exact ⟨trivial, rfl, rfl, rfl, rfl, rfl⟩
      | cons info rest =>
        dsimp only
        split
        · exact ⟨trivial, rfl, rfl, rfl, rfl, rfl⟩
        · cases arrSetSlice s.cl entA (i * okFields) info with
          | none => exact ⟨trivial, rfl, rfl, rfl, rfl, rfl⟩
          | some cl' => exact proj_eprLoop hp mk qarr entA n (i + 1) { s with q := o.st, cl := cl' } _ _
    | err => exact ⟨trivial, rfl, rfl, rfl, rfl, rfl⟩
    | errPending => exact ⟨trivial, rfl, rfl, rfl, rfl, rfl⟩
    | blocked => exact ⟨trivial, rfl, rfl, rfl, rfl, rfl⟩
    | envShort => exact ⟨trivial, rfl, rfl, rfl, rfl, rfl⟩
    | unmodelled => exact ⟨trivial, rfl, rfl, rfl, rfl, rfl⟩

theorem proj_eprDone (key : Bool × Int × Int) {o1 : StepOut σ} {o2 : StepOut τ} (h : SimStep f (T (σ := σ)) o1 o2) :
    SimStep f (T (σ := σ)) (eprDone key o1) (eprDone key o2) := by
  obtain ⟨_, h2, h3, h4, h5, h6⟩ := h
  unfold eprDone
  rw [h6]
  split
  · exact ⟨trivial, h2, h3, h4, h5, h6⟩
  · exact ⟨trivial, by simp [mapSt, h2], h3, h4, h5, rfl⟩

theorem proj_instrStep (hp : Projects B1 B2 f) (s : St σ) (env : Env) (i : Instr) :
    SimStep f (T (σ := σ)) (instrStep B1 s env i) (instrStep B2 (mapSt f s) env i) := by
  by_cases hv : i.vanilla = true
  · exact sim_instrStep hp.simulates trivial env i hv
  · have hcl : (mapSt f s).cl = s.cl := rfl
    have hso : (mapSt f s).socks = s.socks := rfl
    have hpe : (mapSt f s).peers = s.peers := rfl
    have hbr : (mapSt f s).broken = s.broken := rfl
    have hst : (mapSt f s).stale = s.stale := rfl
    cases i <;> (try (simp [Instr.vanilla] at hv)) <;> simp only [instrStep, hcl, hso, hpe, hbr, hst] <;>
      (repeat' split) <;>
      first
      | exact ⟨trivial, rfl, rfl, rfl, rfl, rfl⟩
      | exact proj_eprDone _ (proj_eprLoop hp _ _ _ _ _ _ _ _)

theorem proj_runProg (hp : Projects B1 B2 f) (prog : List Instr) :
    ∀ (fuel pc : Nat) (s : St σ) (env : Env) (rs : List Reply) (ops : List TOp),
      SimRun (f := f) (I := T (σ := σ)) (runProg B1 prog fuel pc s env rs ops) (runProg B2 prog fuel pc (mapSt f s) env rs ops)
  | 0, _, s, env, rs, ops => ⟨trivial, rfl, rfl, rfl, rfl, rfl⟩
  | fuel + 1, pc, s, env, rs, ops => by
    unfold runProg
    cases hi : prog[pc]? with
    | none => exact ⟨trivial, rfl, rfl, rfl, rfl, rfl⟩
    | some i =>
      obtain ⟨_, h2, h3, h4, h5, h6⟩ := proj_instrStep hp s env i
      dsimp only
      rw [h2, h3, h4, h5, h6]
      split
      · exact proj_runProg hp prog fuel _ _ _ _ _
      · exact proj_runProg hp prog fuel _ _ _ _ _
      · exact ⟨trivial, rfl, rfl, rfl, rfl, rfl⟩
      · exact ⟨trivial, rfl, rfl, rfl, rfl, rfl⟩
      · exact ⟨trivial, rfl, rfl, rfl, rfl, rfl⟩

theorem proj_fromQ (hp : Projects B1 B2 f) (s s0 : St σ) (req : QReq) (env : Env)
    (okSt1 : St σ → St σ) (okSt2 : St τ → St τ) (hok : ∀ x, okSt2 (mapSt f x) = mapSt f (okSt1 x)) (rs : List Reply) :
    SimRun (f := f) (I := T (σ := σ)) (fromQ s0 (B1.q s.q req env) okSt1 rs) (fromQ (mapSt f s0) (B2.q (f s.q) req env) okSt2 rs) := by
  obtain ⟨h2, h3, h4, h5⟩ := hp s.q req env
  unfold fromQ
  rw [h5]
  split
  · refine ⟨trivial, ?_, h3, rfl, h4, rfl⟩
    rw [h2]; exact hok { s0 with q := (B1.q s.q req env).st }
  · exact ⟨trivial, by simp [mapSt, h2], h3, rfl, h4, rfl⟩
  · exact ⟨trivial, by simp [mapSt, h2], h3, rfl, h4, rfl⟩
  · exact ⟨trivial, by simp [mapSt, h2], h3, rfl, h4, rfl⟩
  · exact ⟨trivial, by simp [mapSt, h2], h3, rfl, h4, rfl⟩

theorem proj_runMsg (hp : Projects B1 B2 f) (fuel : Nat) (s : St σ) (env : Env) (m : Msg) :
    SimRun (f := f) (I := T (σ := σ)) (runMsg B1 fuel s env m) (runMsg B2 fuel (mapSt f s) env m) := by
  have happ : (mapSt f s).app = s.app := rfl
  cases m with
  | init app maxq =>
    simp only [runMsg, happ]
    split
    · exact ⟨trivial, rfl, rfl, rfl, rfl, rfl⟩
    · exact proj_fromQ hp s s (.initApp maxq) env (fun s' => { s' with app := some app, cl := Cl.empty })
        (fun s' => { s' with app := some app, cl := Cl.empty }) (fun _ => rfl) [.done]
  | openEpr sock => exact ⟨trivial, rfl, rfl, rfl, rfl, rfl⟩
  | sub app prog =>
    simp only [runMsg, happ]
    split
    · exact ⟨trivial, rfl, rfl, rfl, rfl, rfl⟩
    · obtain ⟨g1, g2, g3, g4, g5, g6⟩ := proj_runProg hp prog fuel 0 s env [] []
      rw [g6]
      split <;> first | exact ⟨g1, g2, g3, by simp [g4], g5, rfl⟩ | exact ⟨g1, g2, g3, by simp [g4], g5, g6⟩
  | stop app =>
    simp only [runMsg, happ]
    split
    · exact ⟨trivial, rfl, rfl, rfl, rfl, rfl⟩
    · exact proj_fromQ hp s { s with app := none, cl := Cl.empty } .stopApp env (fun s' => s') (fun s' => s')
        (fun _ => rfl) [.done]
  | arrive sock sender =>
    simp only [runMsg]
    exact proj_fromQ hp s s (.arrive sock sender) env (fun s' => s') (fun s' => s') (fun _ => rfl) []

/-- equal runs, for every history -/
theorem proj_runMsgs (hp : Projects B1 B2 f) (fuel : Nat) :
    ∀ (ms : List Msg) (s : St σ) (env : Env) (rss : List (List Reply)) (ops : List TOp),
      SimRun (f := f) (I := T (σ := σ)) (runMsgs B1 fuel s env ms rss ops).1 (runMsgs B2 fuel (mapSt f s) env ms rss ops).1 ∧
      (runMsgs B2 fuel (mapSt f s) env ms rss ops).2 = (runMsgs B1 fuel s env ms rss ops).2
  | [], s, env, rss, ops => ⟨⟨trivial, rfl, rfl, rfl, rfl, rfl⟩, rfl⟩
  | m :: ms, s, env, rss, ops => by
    obtain ⟨_, g2, g3, g4, g5, g6⟩ := proj_runMsg hp fuel s env m
    unfold runMsgs
    dsimp only
    rw [g2, g3, g4, g5, g6]
    split
    · exact proj_runMsgs hp fuel ms _ _ _ _
    · exact ⟨⟨trivial, rfl, rfl, rfl, rfl, rfl⟩, rfl⟩

end proj

/-- the interpreter half of the joint machine is `CQ` -/
theorem joint_projects (i p : Nat) : Projects (joint i p) concrete JSt.c := fun _ _ _ => ⟨rfl, rfl, rfl, rfl⟩

/-- a state of the interpreter with the network behind its node -/
def withNet (s : St CQ) (d : Drv) : St JSt :=
  { app := s.app, socks := s.socks, peers := s.peers, stale := s.stale, broken := s.broken, cl := s.cl, q := ⟨s.q, d⟩ }

theorem mapSt_withNet (s : St CQ) (d : Drv) : mapSt JSt.c (withNet s d) = s := rfl

end SqVerif.NqVNet

import SqVerif.Config
import SqVerif.Drive.Util
/- driver for the configuration model (stateful: one constructor object + the scripted OS probe).
   `-` stands for Python's `None` everywhere.
   in : `new`
        | `env busy P*` | `env only P*`            (the ports the bind probe finds busy / the only free ones)
        | `addnode NAME NET H1 P1 H2 P2 H3 P3 NB`   (NB: `-` | `[]` | `A,B`)
        | `rmnode NAME NET` | `rmnet NET` | `reset` | `reload`
        | `addnet NET NAMES TOPO`                   (NAMES: `[]` | `A,B`; TOPO: `-` | `{}` | `A:B+C;B:;C:A`)
        | `ids NET`
        | `load JSON-TOKENS`                        (fresh constructor from a hand-made file; state kept if it raises)
   out: edits -> `<outcome> <nets> used=<sorted sockets> rt=<same|diff|err>`
          nets = `NAME{A=h:p/h:p/h:p,B=...}{~ | A:B+C,B:}` joined by `|`, everything keyed sorted
          outcome = ok | inUse | noPort | keyError | loadError
        ids   -> `app:A=0,B=1,Nobody=!#-1=!,0=A,1=B,2=! qnodeos:... vnode:...` | `KeyError`
        `env` -> `ok`;  anything else -> `bad-op` -/
namespace SqVerif.Drive.Config
open SqVerif.Config SqVerif.Drive

inductive Env
  | busy (l : List Nat)
  | only (l : List Nat)

def Env.osFree : Env → Port → Bool
  | .busy l, p => !l.contains p
  | .only l, p => l.contains p

structure St where
  cfg : Cfg
  env : Env

def St.init : St := ⟨Cfg.empty, .busy []⟩

def sockStr (s : Sock) : String := s.1 ++ ":" ++ toString s.2

def nodeStr (e : Name × Node) : String :=
  e.1 ++ "=" ++ sockStr e.2.app ++ "/" ++ sockStr e.2.qnodeos ++ "/" ++ sockStr e.2.vnode

def byKey {β : Type} (l : List (String × β)) : List (String × β) := sortBy (fun a b => a.1 < b.1) l

def topoStr : Option Topology → String
  | none => "~"
  | some t => ",".intercalate ((byKey t).map fun e => e.1 ++ ":" ++ "+".intercalate e.2)

def netStr (e : Name × Net) : String :=
  e.1 ++ "{" ++ ",".intercalate ((byKey e.2.nodes).map nodeStr) ++ "}{" ++ topoStr e.2.topology ++ "}"

def netsStr (nets : List (Name × Net)) : String := "|".intercalate ((byKey nets).map netStr)

def usedStr (u : List Sock) : String := ",".intercalate (sortBy (· < ·) (u.map sockStr))

def outcomeStr : Outcome → String
  | .ok => "ok" | .inUse => "inUse" | .noPort => "noPort" | .keyError => "keyError" | .loadError => "loadError"

def rtStr (c : Cfg) : String :=
  match load (toJson c.networks) with
  | none => "err"
  | some c' => if c'.networks = c.networks then "same" else "diff"

def obs (o : Outcome) (c : Cfg) : String :=
  outcomeStr o ++ " " ++ netsStr c.networks ++ " used=" ++ usedStr c.used ++ " rt=" ++ rtStr c

def opt (s : String) : Option String := if s == "-" then none else some s

def optNat? (s : String) : Option (Option Nat) :=
  if s == "-" then some none else match s.toNat? with | some n => some (some n) | none => none

def nameList (s : String) : List String := if s == "[]" then [] else s.splitOn ","

def parseTopo (s : String) : Option (Option Topology) :=
  if s == "-" then some none
  else if s == "{}" then some (some [])
  else
    (s.splitOn ";").mapM (fun (ent : String) =>
      match ent.splitOn ":" with
      | [k, v] => some (k, if v == "" then [] else v.splitOn "+")
      | _ => none) |>.map some

def roleStr : Role → String
  | .app => "app" | .qnodeos => "qnodeos" | .vnode => "vnode"

def idsFor (hd : List (Name × Sock)) : String :=
  let ns := keys hd
  let sorted := sortBy (· < ·) ns
  let showId (x : Name) : String := x ++ "=" ++ (match nodeId strLt ns x with | some i => toString i | none => "!")
  let showName (i : Int) : String := toString i ++ "=" ++ (match nodeName strLt ns i with | some x => x | none => "!")
  let idPart := ",".intercalate ((sorted ++ ["Nobody"]).map showId)
  let namePart := ",".intercalate (((List.range (ns.length + 2)).map fun (k : Nat) => (k : Int) - 1).map showName)
  idPart ++ "#" ++ namePart

def idsStr (c : Cfg) (net : Option Name) : String :=
  match hostDict c net .app, hostDict c net .qnodeos, hostDict c net .vnode with
  | some a, some q, some v =>
    "app:" ++ idsFor a ++ " qnodeos:" ++ idsFor q ++ " vnode:" ++ idsFor v
  | _, _, _ => "KeyError"

/-! a JSON value as prefix tokens: `z` null, `n12` number, `sTEXT` string, `aK` array of the next K
values, `oK` object of the next K (`kKEY`, value) pairs -/
mutual
def pVal : Nat → List String → Option (Json × List String)
  | 0, _ => none
  | _, [] => none
  | f + 1, t :: ts =>
    if t == "z" then some (.null, ts)
    else
      let body := (t.drop 1).toString
      if t.startsWith "n" then body.toNat?.map fun n => (.num n, ts)
      else if t.startsWith "s" then some (.str body, ts)
      else if t.startsWith "a" then
        match body.toNat? with
        | some k => (pVals f k ts).map fun r => (.arr r.1, r.2)
        | none => none
      else if t.startsWith "o" then
        match body.toNat? with
        | some k => (pPairs f k ts).map fun r => (.obj r.1, r.2)
        | none => none
      else none
def pVals : Nat → Nat → List String → Option (List Json × List String)
  | 0, _, _ => none
  | _, 0, ts => some ([], ts)
  | f + 1, k + 1, ts =>
    match pVal f ts with
    | some (v, ts') => (pVals f k ts').map fun r => (v :: r.1, r.2)
    | none => none
def pPairs : Nat → Nat → List String → Option (List (String × Json) × List String)
  | 0, _, _ => none
  | _, 0, ts => some ([], ts)
  | _, _ + 1, [] => none
  | f + 1, k + 1, t :: ts =>
    if t.startsWith "k" then
      match pVal f ts with
      | some (v, ts') => (pPairs f k ts').map fun r => (((t.drop 1).toString, v) :: r.1, r.2)
      | none => none
    else none
end

def parseJson (ts : List String) : Option Json :=
  match pVal (2 * ts.length + 2) ts with
  | some (j, []) => some j
  | _ => none

def step (s : St) (line : String) : St × String :=
  let edit (r : Cfg × Outcome) : St × String := ({ s with cfg := r.1 }, obs r.2 r.1)
  match words line with
  | ["new"] => (St.init, obs .ok Cfg.empty)
  | "env" :: kind :: ps =>
    match ps.mapM String.toNat? with
    | none => (s, "bad-op")
    | some l =>
      if kind == "busy" then ({ s with env := .busy l }, "ok")
      else if kind == "only" then ({ s with env := .only l }, "ok")
      else (s, "bad-op")
  | ["addnode", name, net, h1, p1, h2, p2, h3, p3, nb] =>
    match optNat? p1, optNat? p2, optNat? p3 with
    | some p1, some p2, some p3 =>
      let nb := if nb == "-" then none else some (nameList nb)
      edit (SqVerif.Config.step s.env.osFree s.cfg
        (.addNode name (opt net) ⟨(opt h1, p1), (opt h2, p2), (opt h3, p3)⟩ nb))
    | _, _, _ => (s, "bad-op")
  | ["rmnode", name, net] => edit (SqVerif.Config.step s.env.osFree s.cfg (.removeNode name (opt net)))
  | ["rmnet", net] => edit (SqVerif.Config.step s.env.osFree s.cfg (.removeNetwork (opt net)))
  | ["reset"] => edit (SqVerif.Config.step s.env.osFree s.cfg .reset)
  | ["reload"] => edit (SqVerif.Config.step s.env.osFree s.cfg .reload)
  | ["addnet", net, names, topo] =>
    match parseTopo topo with
    | some t => edit (SqVerif.Config.step s.env.osFree s.cfg (.addNetwork (nameList names) (opt net) t))
    | none => (s, "bad-op")
  | "load" :: ts =>
    match parseJson ts with
    | none => (s, "bad-op")
    | some j =>
      match load j with
      | some c => edit (c, .ok)
      | none => edit (s.cfg, .loadError)
  | ["ids", net] => (s, idsStr s.cfg (opt net))
  | _ => (s, "bad-op")

end SqVerif.Drive.Config

from ._main import MainEngine, NotYetMeasuredError  # noqa: F401

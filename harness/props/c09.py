"""C09 — NetQASM subroutines execute with reference semantics on the right qubits
(simulaqron/netqasm_backend/executioner.py, qnodeos.py, factory.py `qubitList`; netqasm 2.3.0 `Executor`).

Cases: random well-formed text subroutines (<= 30 instructions, <= 4 virtual addresses, branches on measured
values, loops with bounded counters, arrays, re-allocation of freed addresses), several subroutines per
application (registers, arrays and the unit module persist), several applications in sequence on the same node,
plus a malformed stream (one faulty instruction per subroutine: undefined register, unallocated / doubly
allocated / out-of-range address, T, rotations, bad array index, modulus 0, control = target, node at capacity).
40% of the cases run on a node whose REGISTER limit (1-3) is below its qubit capacity: a qalloc is then refused by
the register limit (quantumError) as well as by the qubit limit (noQubitError), anywhere in an application; the next
subroutines re-allocate the refused address (after a qfree, or after a merge freed a register) and StopApp follows.
Each subroutine is assembled by netqasm from text, framed and fed to the REAL NetQASMProtocol /
SubroutineHandler / executioner on real virtual nodes (harness/simnet.NqNet, via harness/nqcase.Runner).

Oracle (independent of the Lean model): harness/nqcase.RefApp, a token-level reference interpreter in Python over
ONE ideal register (NumPy state vector), run on the very instruction objects QNodeOS deserialises, given the
reported outcomes: the reply messages must be equal, every reported outcome must have non-zero probability, the
operation trace observed at `executioner.call_method` must hit the same qubits (tokens), and after every message
the joint state of the node's registers (snapshot generator matrices, reordered to token order) must stabilise
the reference vector.  The reference knows the node's two limits: qubits held, and simulation registers in use
(one per new qubit, two merged for good by a two-qubit gate across them, gone with their last qubit); a qalloc is
an error exactly when the address is bad / taken or one of the limits is reached, and a refused qalloc leaves the
address free (the generator works from the reference's allocation state, not from the unit module under test).

Tie: the same messages (instruction list rendered from the deserialised subroutine — harness/nqcase.render_instr —
plus the observed outcomes) go to the Lean driver `nqexec`; replies, token-level operation trace, unit module,
used physical ids, qubitList -> tokens, held count, registers and arrays are compared verbatim per message.
The model's node has a qubit capacity and no register limit: a plain qalloc refused by the register limit is shown
to the driver as an instruction that raises without effect (nqcase.Runner._tie_prog), so the tie demands exact
roll-back of the real code on that and every later message; a refusal inside a loop takes the rest of the case out
of the tie (oracle only; counted as `tie:messages-oracle-only`).

Gen: harness/gen/dispatch.py regenerates lean/SqVerif/Gen/Dispatch.lean from the AST (SIMULAQRON_OPS,
ROTATION_AXIS, the remote_* methods of virtualQubit / simulatedQubit, the apply_* methods of the engines);
`dispatch_complete` is re-checked by `decide`."""
import random

from .. import core
from .. import nqcase
from ..gen import dispatch

LEAN_TARGETS = ["SqVerif.Props.C09"]
PROPS_FILE = "SqVerif/Props/C09.lean"
DRIVE_TARGETS = ["SqVerif.Drive.NqExec"]
TRUSTED = [
    "model NqExec.lean hand-written from netqasm 2.3.0 backend/executor.py (classical semantics, unit module, "
    "_get_unused_physical_qubit) and simulaqron/netqasm_backend/executioner.py:125-271,784-809, qnodeos.py, "
    "factory.py:177-181; tied by differential execution on every run (this check)",
    "the virtual node under the executioner is abstract in the model (fresh tokens, capacity, drop on destructive "
    "measurement); what each operation does to the quantum state is L2/L0's business (C01, C13, C14) and is "
    "checked here only by the oracle",
    "harness/nqcase.render_instr: netqasm instruction objects (deserialised from the bytes actually sent) -> "
    "driver syntax; netqasm's assembler / (de)serialiser are third-party",
    "harness/nqcase.Runner: wrapper around the module attribute executioner.call_method (operation trace, outcomes), "
    "token = order of appearance of virtual-qubit objects at the node; harness/simnet (fake reactor, PB over iosim)",
    "Gen/Dispatch.lean regenerated from executioner.py / virtual.py / quantum.py / *_simulator.py by "
    "harness/gen/dispatch.py (Python ast); translator validated by the observed refusals/acceptances of every "
    "gate instruction in the oracle",
    "harness/stabutil NumPy reference (gate matrices, check_generators) shared with C13/C14",
]
ASSUMPTIONS = [
    "one application at a time per node (applications in sequence); a second InitNewApp while one is active, and "
    "messages for an inactive application, are outside the model (explicit `unmodelled`)",
    "stabilizer backend (the only one installable here): T and rotations are the unsupported instructions",
    "netqasm's Executor is third-party: Python list indexing makes virtual address -1 an alias of the last slot "
    "of the unit module; the model mirrors it, the oracle stream does not use negative addresses",
    "returned values stay within int32 (the wire format); programs are generated terminating (the real executor "
    "has no step bound), the model's fuel is 100000 instructions; the harness stops the real executor after "
    "50 x the instructions the reference needs for the subroutine (1000..20000) / 20 s per message (nqcase.Runner) and "
    "reports `nonterminating-subroutine` when the reference interpreter, given the reported outcomes, ended in at most "
    "half as many; a branch on a register nothing ever wrote is not generated (netqasm compares None)",
    "measure-directly / remote-state-preparation entanglement requests and wait_* instructions are not modelled "
    "(C08's domain)",
    "the node's register limit is not in the Lean model (NqExec.Node has `cap` only): refusals by it are judged by "
    "the reference interpreter (which counts registers) and enter the tie as an observed failing instruction",
]

G1S = ["x", "y", "z", "h", "k", "s"]
FAULTS = ["undef-reg", "unalloc-gate", "double-alloc", "free-unalloc", "addr-range", "t", "rot", "load-undef",
          "idx-range", "mod-zero", "blt-undef", "same-qubit", "no-array", "unalloc-meas", "store-undef"]


def gen(ctx):
    tab = dispatch.generate(core.REPO, core.LEAN_DIR)
    ctx.dispatch_table = tab
    return {"obligations": 1, "file": dispatch.OUT, "ops": tab["ops"], "missing": tab["missing"]}


# --------------------------------------------------------------------------
# program generator
# --------------------------------------------------------------------------

class ProgGen:
    """text subroutines over the tracked state (allocated addresses, defined registers, arrays)"""

    def __init__(self, rng, maxq):
        self.rng, self.maxq = rng, maxq
        self.nlabel = 0
        self.retry = None      # address whose qalloc the NODE refused last (qubit or register limit), still free

    def sync(self, um, regs, arrays):
        self.alloc = set(i for i, p in enumerate(um) if p is not None)
        self.defined = set(r for r in regs if r[0] in "RM" and int(r[1:]) < 10)
        self.arrays = {a: list(v) for a, v in arrays.items()}

    def label(self):
        self.nlabel += 1
        return "L%d" % self.nlabel

    def areg(self, a):
        k = self.rng.randrange(4)
        return ["set Q%d %d" % (k, a)], "Q%d" % k

    def stmt(self, depth):
        """-> list of text lines (possibly empty)"""
        rng = self.rng
        free = [a for a in range(self.maxq) if a not in self.alloc]
        al = sorted(self.alloc)
        kinds = ["set", "set"]
        if free and depth == 0:
            kinds += ["qalloc"] * 4
        if al:
            kinds += ["g1"] * 5 + ["meas"] * 3 + ["init"]
            kinds += ["refree"] if depth > 0 else ["qfree"] * 2
        if len(al) >= 2:
            kinds += ["g2"] * 4
        if len(self.defined) >= 2:
            kinds += ["arith"] * 2
        if self.defined:
            kinds += ["ret", "ret", "store"]
        if depth == 0:
            kinds += ["array"]
        if self.arrays:
            kinds += ["retarr", "load", "undef", "lea"]
        if depth < 2:
            kinds += ["if"] * 2 + ["loop"]
        k = rng.choice(kinds)
        if k == "set":
            r = "R%d" % rng.randrange(8)
            self.defined.add(r)
            return ["set %s %d" % (r, rng.randrange(6))]
        if k == "qalloc":
            a = rng.choice(free)
            pre, q = self.areg(a)
            self.alloc.add(a)
            return pre + ["qalloc " + q] + (["init " + q] if rng.random() < 0.7 else [])
        if k == "g1":
            pre, q = self.areg(rng.choice(al))
            return pre + ["%s %s" % (rng.choice(G1S), q)]
        if k == "init":
            pre, q = self.areg(rng.choice(al))
            return pre + ["init " + q]
        if k == "g2":
            a, b = rng.sample(al, 2)
            return ["set Q0 %d" % a, "set Q1 %d" % b, "%s Q0 Q1" % rng.choice(["cnot", "cphase"])]
        if k == "meas":
            pre, q = self.areg(rng.choice(al))
            m = "M%d" % rng.randrange(6)
            self.defined.add(m)
            return pre + ["meas %s %s" % (q, m)]
        if k == "qfree":
            a = rng.choice(al)
            pre, q = self.areg(a)
            self.alloc.discard(a)
            return pre + ["qfree " + q]
        if k == "refree":
            pre, q = self.areg(rng.choice(al))
            return pre + ["qfree " + q, "qalloc " + q, "init " + q]
        if k == "arith":
            a, b = rng.choice(sorted(self.defined)), rng.choice(sorted(self.defined))
            o = "R%d" % rng.randrange(8)
            op = rng.choice(["add", "sub", "addm", "subm"])
            self.defined.add(o)
            if op in ("add", "sub"):
                return ["%s %s %s %s" % (op, o, a, b)]
            return ["set R9 %d" % rng.randrange(1, 5), "%s %s %s %s R9" % (op, o, a, b)]
        if k == "ret":
            return ["ret_reg " + rng.choice(sorted(self.defined))]
        if k == "array":
            a, n = rng.randrange(3), rng.randrange(1, 5)
            self.arrays[a] = [None] * n
            return ["set R8 %d" % n, "array R8 @%d" % a]
        if k == "store":
            if not self.arrays:
                return []
            a = rng.choice(sorted(self.arrays))
            j = rng.randrange(len(self.arrays[a]))
            self.arrays[a][j] = 0
            return ["set R8 %d" % j, "store %s @%d[R8]" % (rng.choice(sorted(self.defined)), a)]
        if k == "load":
            cands = [(a, j) for a, v in self.arrays.items() for j, x in enumerate(v) if x is not None]
            if not cands:
                return []
            a, j = rng.choice(cands)
            r = "R%d" % rng.randrange(8)
            self.defined.add(r)
            return ["set R8 %d" % j, "load %s @%d[R8]" % (r, a)]
        if k == "undef":
            a = rng.choice(sorted(self.arrays))
            j = rng.randrange(len(self.arrays[a]))
            self.arrays[a][j] = None
            return ["set R8 %d" % j, "undef @%d[R8]" % a]
        if k == "lea":
            r = "R%d" % rng.randrange(8)
            self.defined.add(r)
            return ["lea %s @%d" % (r, rng.choice(sorted(self.arrays)))]
        if k == "retarr":
            return ["ret_arr @%d" % rng.choice(sorted(self.arrays))]
        if k == "if":
            lab = self.label()
            ds = sorted(self.defined)
            ms = [d for d in ds if d[0] == "M"]
            if ms and rng.random() < 0.7:
                head = "%s %s %s" % (rng.choice(["bez", "bnz"]), rng.choice(ms), lab)
            elif len(ds) >= 1:
                head = "%s %s %s %s" % (rng.choice(["beq", "bne", "blt", "bge"]), rng.choice(ds), rng.choice(ds), lab)
            else:
                return []
            return [head] + self.block(depth + 1, rng.randrange(1, 4)) + [lab + ":"]
        if k == "loop":
            lab = self.label()
            c = "R%d" % (10 + depth)
            body = self.block(depth + 1, rng.randrange(1, 3))
            return ["set %s 0" % c, lab + ":"] + body + ["set R13 1", "add %s %s R13" % (c, c),
                                                        "set R14 %d" % rng.randrange(1, 4), "blt %s R14 %s" % (c, lab)]
        return []

    def block(self, depth, n):
        """a block that leaves the allocation state as it found it; what it defines is forgotten afterwards
        (it may or may not execute); arrays are only created at depth 0"""
        keep_def = set(self.defined)
        keep_arr = {a: list(v) for a, v in self.arrays.items()}
        out = []
        for _ in range(n):
            out += self.stmt(depth)
        self.defined = keep_def
        self.arrays = {a: [x if (x is not None and y is not None) else None for x, y in zip(v, self.arrays[a])]
                       for a, v in keep_arr.items()}
        return out

    def fault(self, kind):
        rng = self.rng
        free = [a for a in range(self.maxq) if a not in self.alloc]
        al = sorted(self.alloc)
        if kind == "undef-reg":
            return ["ret_reg R15"]
        if kind == "unalloc-gate" and free:
            return ["set Q0 %d" % rng.choice(free), "%s Q0" % rng.choice(G1S)]
        if kind == "unalloc-meas" and free:
            return ["set Q0 %d" % rng.choice(free), "meas Q0 M7"]
        if kind == "double-alloc" and al:
            return ["set Q0 %d" % rng.choice(al), "qalloc Q0"]
        if kind == "free-unalloc" and free:
            return ["set Q0 %d" % rng.choice(free), "qfree Q0"]
        if kind == "addr-range":
            return ["set Q0 %d" % (self.maxq + rng.randrange(3)), rng.choice(["qalloc Q0", "h Q0", "qfree Q0", "meas Q0 M7"])]
        if kind == "t" and al:
            return ["set Q0 %d" % rng.choice(al), "t Q0"]
        if kind == "rot" and al:
            return ["set Q0 %d" % rng.choice(al), "%s Q0 %d %d" % (rng.choice(["rot_x", "rot_y", "rot_z"]),
                                                                  rng.randrange(1, 8), rng.randrange(1, 4))]
        if kind == "load-undef":
            return ["set R8 2", "array R8 @3", "set R8 1", "load R0 @3[R8]"]
        if kind == "idx-range":
            return ["set R8 2", "array R8 @3", "set R8 %d" % rng.randrange(2, 5), "set R0 1", "store R0 @3[R8]"]
        if kind == "mod-zero":
            return ["set R0 1", "set R9 0", "addm R0 R0 R0 R9"]
        if kind == "blt-undef":
            return ["set R0 1", "blt R0 R15 0"]
        if kind == "same-qubit" and al:
            a = rng.choice(al)
            return ["set Q0 %d" % a, "set Q1 %d" % a, "%s Q0 Q1" % rng.choice(["cnot", "cphase"])]
        if kind == "no-array":
            return ["ret_arr @7"]
        if kind == "store-undef":
            return ["set R8 1", "array R8 @3", "set R8 0", "store R15 @3[R8]"]
        return None

    def retry_lines(self):
        """re-allocation of the address the node refused: must work as soon as the node has room again (a slot is
        freed first most of the time; whether that also frees a register depends on the merges so far)"""
        rng = self.rng
        a, self.retry = self.retry, None
        if a is None or a in self.alloc or a >= self.maxq or rng.random() < 0.35:
            return []
        lines = []
        al = sorted(self.alloc)
        if al and rng.random() < 0.75:
            v = rng.choice(al)
            self.alloc.discard(v)
            lines += ["set Q2 %d" % v, "qfree Q2"]
        self.alloc.add(a)
        return lines + ["set Q3 %d" % a, "qalloc Q3"] + (["init Q3"] if rng.random() < 0.5 else [])

    def subroutine(self, fault=None, budget=None):
        rng = self.rng
        budget = budget or rng.randrange(3, 12)
        lines = self.retry_lines()
        where = rng.randrange(budget) if fault else -1
        for i in range(budget):
            if i == where:
                f = self.fault(fault)
                if f:
                    lines += f
                    break           # everything behind a faulty instruction is dead code
            lines += self.stmt(0)
            if sum(1 for ln in lines if not ln.endswith(":")) > 26:
                break
        return "\n".join(lines)


# --------------------------------------------------------------------------
# one case = one fresh network, several applications in sequence
# --------------------------------------------------------------------------

def current_state(runner, node):
    ex = runner.executor(node)
    app = runner.app[node]
    um = runner.unit_module(node) or []
    arrays = dict(ex._app_arrays[app]._arrays) if app is not None and app in ex._app_arrays else {}
    return um, runner.registers_defined(node), arrays


def exc_suffix(rec):
    """:<exception class> of the failure the protocol logged for this message, if any"""
    import re
    for e in rec["errors"]:
        m = re.search(r"<class '([\w.]+)'>", e)
        if m:
            return ":" + m.group(1).rsplit(".", 1)[-1]
    return ""


def execute(case, gen_rng=None, res=None, candidate=False):
    """Run a case on the real code and judge it.  case = {seed, cap, msgs: [...]}; with gen_rng the messages are
    generated on the fly (adapting to the observed allocation state) from case["plan"] and recorded into
    case["msgs"].  -> (violations [(key, what, index of message)], runner)
    The real executor has no step bound: nqcase.Runner stops a subroutine after 50 x the instructions the reference
    needs for it (`limit_for`: nqcase.preflight on a copy of the reference state, before the run; 1000..20000) and
    after nqcase.WALL_LIMIT seconds; `stopped` below turns that into `nonterminating-subroutine` when the reference,
    given the reported outcomes, ended long before, and into `program-diverges` (no verdict on the code: the
    program does not end in the reference either) otherwise.  The case ends there.
    candidate=True (a shrinking candidate, lines were deleted): a subroutine the pre-flight cannot finish is not
    sent at all -- raises nqcase.ProgramDiverges."""
    node = "Alice"
    regs = case.get("regs")               # register limit of the node (None: out of reach)
    runner = nqcase.Runner(["Alice", "Bob"], case["cap"], random.Random(case["seed"]), max_regs=regs)
    ref = nqcase.Reference()
    free_regs = (lambda: regs - ref.registers()) if regs is not None else None
    viol = []
    refapp = None
    held = lambda: len(ref.tokens)        # noqa: E731
    msgs = case["msgs"] if gen_rng is None else []
    plan = list(case.get("plan", [])) if gen_rng is not None else None
    pg = None
    idx = -1

    def next_msg():
        if gen_rng is None:
            return msgs[idx] if idx < len(msgs) else None
        if not plan:
            return None
        step = plan.pop(0)
        if step[0] == "sub":
            # allocation state as the REFERENCE has it (an address whose qalloc was refused is free)
            _um, rdef, arrs = current_state(runner, node)
            pg.sync([refapp.qmap.get(a) for a in range(pg.maxq)], rdef, arrs)
            m = ["sub", step[1], pg.subroutine(fault=step[2])]
        else:
            m = list(step)
        msgs.append(m)
        return m

    def stopped(rec):
        """the harness had to stop the real execution of this message: record the verdict"""
        if not rec["aborted"]:
            return False
        try:
            key, what = nqcase.judge_abort(refapp, rec)
        except nqcase.ProgramDiverges as e:
            key, what = "program-diverges", "the harness stopped the real executor (%s) and cannot judge: %s" % (rec["aborted"], e)
        viol.append((key, what, idx))
        return True

    def limit_for(prog):
        if refapp is None or prog is None:
            return nqcase.INSN_FLOOR
        est = nqcase.preflight(refapp, prog, case["cap"], regs)
        if est is None and candidate:
            raise nqcase.ProgramDiverges("the reference is still running after %d instructions" % nqcase.PREFLIGHT_FUEL)
        return nqcase.insn_limit_for(nqcase.PREFLIGHT_FUEL if est is None else est)

    while True:
        idx += 1
        m = next_msg()
        if m is None:
            break
        kind = m[0]
        if kind == "init":
            rec = runner.send(node, "init", app=m[1], maxq=m[2])
            if stopped(rec):
                break
            refapp = nqcase.RefApp(ref, m[2], lambda: case["cap"] - held(), free_regs)
            if gen_rng is not None:
                pg = ProgGen(gen_rng, m[2])
            if [r[0] for r in rec["replies"]] != ["MsgDoneMessage"]:
                viol.append(("init-reply" + exc_suffix(rec), "InitNewApp(app %d) answered %s" % (m[1], [r[0] for r in rec["replies"]]), idx))
                break
        elif kind == "stop":
            rec = runner.send(node, "stop", app=m[1])
            if stopped(rec):
                break
            try:
                want_ops = refapp.stop(list(rec["outs"]))
            except nqcase.Impossible as e:
                viol.append(("impossible-outcome", "stop: %s" % e, idx))
                break
            except nqcase.RefError:
                want_ops = None
            got = [nqcase.show_op(o) for o in rec["ops"]]
            if [r[0] for r in rec["replies"]] != ["MsgDoneMessage"]:
                viol.append(("stop-reply" + exc_suffix(rec), "StopApp(app %d) answered %s" % (m[1], [r[0] for r in rec["replies"]]), idx))
                break
            if want_ops is None or sorted(got) != sorted(nqcase.show_op(o) for o in want_ops):
                viol.append(("wrong-qubit", "stop measured %s, the application held %s" % (got, want_ops), idx))
                break
            bad = nqcase.compare_state(runner, node, ref)
            if bad:
                viol.append(("state-mismatch", "after stop: %s" % bad, idx))
                break
            refapp = None
        elif kind == "sub":
            rec = runner.send(node, "sub", app=m[1], body=m[2], insn_limit=limit_for)
            if stopped(rec):
                break
            if not rec["quiescent"]:
                viol.append(("hang", "the node did not become quiescent", idx))
                break
            outs = list(rec["outs"])
            try:
                want_replies, want_ops, err, at = refapp.run(rec["prog"], outs)
            except nqcase.Impossible as e:
                viol.append(("impossible-outcome", str(e), idx))
                break
            got_replies = [nqcase.show_reply(r) for r in rec["replies"]]
            got_ops = [nqcase.show_op(o) for o in rec["ops"]]
            if refapp.starved:
                # not an error of the program: the reference needs an outcome here and the node reported none
                j = nqcase.first_divergence(got_ops[:len(want_ops)], [nqcase.show_op(o) for o in want_ops])
                viol.append(("missing-measurement", "`%s` (line %d) measures a qubit in the reference, but the node "
                             "reported only %d outcome(s) for this subroutine; operations %s, reference up to there %s%s"
                             % (nqcase.render_instr(rec["prog"][at]), at, len(rec["outs"]), got_ops,
                                [nqcase.show_op(o) for o in want_ops],
                                "" if j is None else " (traces part at operation #%d)" % j), idx))
                break
            if res is not None:
                res.count("sub:error" if err else "sub:ok")
            if err and rec["prog"][at].mnemonic == "qalloc":
                a = refapp.regs.get(nqcase._reg(rec["prog"][at].reg))
                if a is not None and 0 <= a < refapp.maxq and a not in refapp.qmap:     # refused by the node
                    why = "qubit-limit" if case["cap"] - held() <= 0 else "register-limit"
                    if res is not None:
                        res.count("qalloc-refused:" + why)
                    if pg is not None:
                        pg.retry = a
            line = runner.failing_line(rec) if "err" in got_replies else None
            if line is not None and line < len(rec["prog"]) and (not err or at != line):
                mn = rec["prog"][line].mnemonic
                viol.append(("refused:" + mn, "`%s` (line %d) is answered with an ErrorMessage; the reference "
                             "executes it" % (nqcase.render_instr(rec["prog"][line]), line), idx))
                break
            if err and "err" not in got_replies:
                mn = rec["prog"][at].mnemonic
                viol.append(("accepted:" + mn, "`%s` (line %d) must be refused but the subroutine completed"
                             % (nqcase.render_instr(rec["prog"][at]), at), idx))
                break
            if got_replies != want_replies:
                viol.append(("replies", "replies %s, reference %s" % (got_replies, want_replies), idx))
                break
            if got_ops != [nqcase.show_op(o) for o in want_ops]:
                viol.append(("wrong-qubit", "operations %s, reference %s" % (got_ops, [nqcase.show_op(o) for o in want_ops]), idx))
                break
            if outs:
                viol.append(("replies", "%d reported outcomes the reference never asked for" % len(outs), idx))
                break
            bad = nqcase.compare_state(runner, node, ref)
            if bad:
                viol.append(("state-mismatch", bad, idx))
                break
        else:
            raise ValueError(m)
    if gen_rng is not None:
        case["msgs"] = msgs
    return viol, runner


def branches_read_written_registers(case):
    """every register a branch instruction reads is written by some earlier line of the same application (text
    order).  The generator guarantees more (ProgGen.defined); a shrinking candidate that lost the writing line would
    leave the space the oracle speaks about: netqasm (third-party) compares the None of an undefined register with
    ==/!= instead of raising, so `bnz M0 L` on an undefined M0 jumps -- for ever, if L is behind."""
    written = set()
    for m in case["msgs"]:
        if m[0] == "init":
            written = set()
        if m[0] != "sub":
            continue
        for ln in m[2].split("\n"):
            w = ln.split()
            if not w:
                continue
            if w[0] in ("bez", "bnz") and w[1] not in written:
                return False
            if w[0] in ("beq", "bne") and not (w[1] in written and w[2] in written):
                return False          # blt / bge on None raise in netqasm: refused, as the reference demands
            if w[0] in ("set", "add", "sub", "addm", "subm", "load", "lea"):
                written.add(w[1])
            elif w[0] == "meas":
                written.add(w[2])
    return True


def shrink(case, key):
    """smallest case (fewer messages, then fewer lines in the last subroutine) that still shows `key`.
    Deleting lines makes programs that do not terminate (a loop without its counter): such a candidate is
    recognised by the reference's pre-flight and never sent to the real executor (`execute(candidate=True)`).
    Candidates whose branches read a register nothing wrote are skipped (`branches_read_written_registers`)."""
    def shows(c):
        if not branches_read_written_registers(c):
            return False
        try:
            v, _ = execute(c, candidate=True)
        except Exception:
            return False
        return any(k == key for k, _w, _i in v)

    best = dict(case)
    v, _ = execute(best)
    cut = [i for k, _w, i in v if k == key]
    if cut:
        best["msgs"] = best["msgs"][:cut[0] + 1]
    changed = True
    while changed:
        changed = False
        for i in range(len(best["msgs"]) - 1):
            if best["msgs"][i][0] != "sub":
                continue
            c = dict(best, msgs=best["msgs"][:i] + best["msgs"][i + 1:])
            if shows(c):
                best, changed = c, True
                break
    for mi in range(len(best["msgs"]) - 1, -1, -1):       # fewer lines in every remaining subroutine, last first
        cur = best["msgs"][mi]
        if cur[0] != "sub":
            continue
        lines = cur[2].split("\n")
        i = 0
        while i < len(lines):
            cand = lines[:i] + lines[i + 1:]
            c = dict(best, msgs=best["msgs"][:mi] + [["sub", cur[1], "\n".join(cand)]] + best["msgs"][mi + 1:])
            if cand and shows(c):
                lines = cand
            else:
                i += 1
        best["msgs"] = best["msgs"][:mi] + [["sub", cur[1], "\n".join(lines)]] + best["msgs"][mi + 1:]
    best.pop("plan", None)
    return best


def plan_for(rng, thorough, tight=False):
    """[init app maxq | sub app fault | stop app] for 1-3 applications in sequence; `tight` (node with a small
    register limit): more subroutines per application, so that refused allocations are followed by further work"""
    plan = []
    napps = rng.randrange(1, 4)
    app = rng.randrange(3)
    for _ in range(napps):
        maxq = rng.randrange(2, 5)
        plan.append(("init", app, maxq))
        for _ in range(rng.randrange(2, 6) if tight else rng.randrange(1, 5)):
            fault = rng.choice(FAULTS) if rng.random() < 0.3 else None
            plan.append(("sub", app, fault))
        plan.append(("stop", app))
        app = app if rng.random() < 0.4 else app + 1
    return plan


FIXED = [
    # every supported gate once, on the right one of two qubits; S and K included
    {"seed": 1, "cap": 4, "msgs": [["init", 0, 2],
                                   ["sub", 0, "set Q0 0\nqalloc Q0\ninit Q0\nset Q1 1\nqalloc Q1\ninit Q1\nh Q0\ns Q0\n"
                                              "k Q1\nx Q1\ny Q0\nz Q1\ncnot Q0 Q1\ncphase Q1 Q0\nmeas Q0 M0\nmeas Q1 M1\n"
                                              "ret_reg M0\nret_reg M1"],
                                   ["stop", 0]]},
    {"seed": 2, "cap": 4, "msgs": [["init", 0, 1], ["sub", 0, "set Q0 0\nqalloc Q0\ninit Q0\ns Q0"], ["stop", 0]]},
    {"seed": 3, "cap": 4, "msgs": [["init", 0, 1], ["sub", 0, "set Q0 0\nqalloc Q0\ninit Q0\nt Q0"],
                                   ["sub", 0, "set Q0 0\nrot_x Q0 1 1"], ["sub", 0, "set Q0 0\nh Q0\nmeas Q0 M0\nret_reg M0"],
                                   ["stop", 0]]},
    # re-allocation of a freed address, physical ids reused, several applications
    {"seed": 4, "cap": 3, "msgs": [["init", 5, 3],
                                   ["sub", 5, "set Q0 2\nqalloc Q0\nset Q1 0\nqalloc Q1\nx Q1\nqfree Q0\nset Q2 1\nqalloc Q2\n"
                                              "h Q2\ncnot Q2 Q1\nmeas Q1 M0\nret_reg M0"],
                                   ["sub", 5, "set Q0 0\nqfree Q0\nqalloc Q0\ninit Q0\nmeas Q0 M1\nret_reg M1"],
                                   ["stop", 5], ["init", 5, 2],
                                   ["sub", 5, "set Q0 1\nqalloc Q0\ninit Q0\nx Q0\nmeas Q0 M0\nret_reg M0"], ["stop", 5]]},
    # node smaller than the unit module: the third qalloc is refused, the application goes on and stops cleanly
    {"seed": 5, "cap": 2, "msgs": [["init", 0, 4],
                                   ["sub", 0, "set Q0 1\nqalloc Q0\nset Q0 2\nqalloc Q0\nset Q0 0\nqalloc Q0"],
                                   ["sub", 0, "set Q0 1\nx Q0\nmeas Q0 M0\nret_reg M0"], ["stop", 0],
                                   ["init", 1, 2], ["sub", 1, "set Q0 0\nqalloc Q0\nset Q1 1\nqalloc Q1"], ["stop", 1]]},
    # register limit 1 below the qubit capacity: the second qalloc is refused by the REGISTER limit; the address is
    # allocated once the first qubit is gone, the application stops cleanly, the next one starts from scratch
    {"seed": 7, "cap": 3, "regs": 1, "msgs": [["init", 0, 3],
                                              ["sub", 0, "set Q0 0\nqalloc Q0\nset Q0 1\nqalloc Q0"],
                                              ["sub", 0, "set Q0 1\nh Q0"],
                                              ["sub", 0, "set Q0 0\nqfree Q0\nset Q0 1\nqalloc Q0\ninit Q0\nx Q0\nmeas Q0 M0\nret_reg M0"],
                                              ["stop", 0],
                                              ["init", 1, 2], ["sub", 1, "set Q0 1\nqalloc Q0\nset Q1 0\nqalloc Q1"], ["stop", 1]]},
    # register limit 2: refused, then room is made by MERGING two registers (cnot), not by freeing; a qubit freed
    # out of a merged register does not give its register back; refused again at the end, stop with the refusal last
    {"seed": 8, "cap": 4, "regs": 2, "msgs": [["init", 0, 4],
                                              ["sub", 0, "set Q0 0\nqalloc Q0\nset Q1 1\nqalloc Q1\nset Q2 2\nqalloc Q2"],
                                              ["sub", 0, "set Q0 0\nset Q1 1\nh Q0\ncnot Q0 Q1\nset Q2 2\nqalloc Q2\nx Q2"],
                                              ["sub", 0, "set Q0 0\nqfree Q0\nset Q3 3\nqalloc Q3"],
                                              ["sub", 0, "set Q2 2\nqfree Q2\nset Q3 3\nqalloc Q3\nset Q0 0\nqalloc Q0"],
                                              ["stop", 0]]},
]

# netqasm's own quirk (negative address = alias of the last slot): tie only, not judged by the reference
TIE_ONLY = [
    {"seed": 6, "cap": 4, "msgs": [["init", 0, 3],
                                   ["sub", 0, "set R0 0\nset R1 1\nsub Q0 R0 R1\nqalloc Q0\ninit Q0\nx Q0\nset Q1 2\n"
                                              "meas Q1 M0\nret_reg M0\nret_reg Q0"],
                                   ["stop", 0]]},
]


def run(ctx):
    core.scratch_repo()
    res = core.Result()
    res.rule = ("one case = fresh 2-node network, 1-3 applications in sequence on one node, 1-4 text subroutines each "
                "(3-11 statements, <= ~30 instructions, <= 4 virtual addresses, nested if/loop blocks, arrays, "
                "free/re-alloc), 30% of the subroutines carry one faulty instruction; node capacity 2-5 vs unit "
                "module 2-4; 40% of the cases on a node with register limit 1-3 below its qubit capacity (qalloc "
                "refused by the register limit anywhere in an application, then further subroutines incl. "
                "re-allocation of the refused address, and StopApp; the reference counts registers = merge classes); "
                "the Lean model's node has no register limit: a plain qalloc refused by it is shown to the driver as "
                "an instruction that raises without effect (so the tie demands exact roll-back from then on), cases "
                "where that is not possible (refusal inside a loop) leave the tie at that message and are judged "
                "by the oracle only; non-trivial = at least one quantum operation executed; distinct by message list")
    rng = ctx.rng
    all_lines = []
    seen_keys = {}

    def handle(case, viol, runner, judged=True):
        nops = sum(1 for n in runner.names for (_l, w, _d) in runner.lines[n] if "| new:" in w or " g1:" in w or " meas:" in w)
        res.case({k: case[k] for k in ("cap", "regs", "msgs") if k in case}, nontrivial=nops > 0)
        res.count("cases")
        if case.get("regs") is not None:
            res.count("cases:register-limit")
        res.count("tie:refusal-shown-as-failing-instruction", runner.substituted)
        res.count("tie:messages-oracle-only", sum(runner.untied.values()))
        res.count("messages", len(case["msgs"]))
        if judged:
            for key, what, _i in viol:
                if key not in seen_keys:
                    seen_keys[key] = (case, what)
        if not viol:
            for n in runner.names:
                all_lines.extend(runner.lines[n])
        else:
            # the model follows the repaired code: compare only up to (not including) the offending message
            cut = min(i for _k, _w, i in viol)
            ln = runner.lines["Alice"]
            all_lines.extend(ln[:1 + cut])

    if ctx.replay:
        case = ctx.replay["input"]
        viol, runner = execute(case)
        handle(case, viol, runner)
    else:
        for case in FIXED:
            case = dict(case)
            viol, runner = execute(case, res=res)
            handle(case, viol, runner)
        for case in TIE_ONLY:
            case = dict(case)
            viol, runner = execute(case)
            handle(case, [], runner, judged=False)
        n = ctx.scale(1000, 15000)
        for _ in range(n):
            case = {"seed": rng.randrange(1 << 30), "cap": rng.choice([2, 3, 4, 4, 5]), "msgs": []}
            if rng.random() < 0.4:
                case["regs"] = rng.randrange(1, min(3, case["cap"] - 1) + 1)
            case["plan"] = plan_for(rng, ctx.thorough, tight="regs" in case)
            viol, runner = execute(case, gen_rng=random.Random(rng.randrange(1 << 30)), res=res)
            case.pop("plan", None)
            handle(case, viol, runner)

    for key, (case, what) in sorted(seen_keys.items()):
        small = shrink(case, key)
        v, _ = execute(small)
        w = [x for k, x, _i in v if k == key]
        res.violation(key, w[0] if w else what, small)

    if ctx.lean_ok and all_lines:
        out = core.lean_run("nqexec", [l for l, _w, _d in all_lines])
        for got, (line, want, desc) in zip(out, all_lines):
            res.traces += 1
            if got != want:
                res.tie_break("NqExec model vs QNodeOS/executioner", {"line": line, **desc}, got, want)
                if len(res.tie_breaks) > 20:
                    break
    return res


def search(ctx, res, broken):
    res.notes.append("targeted search = the reference-interpreter oracle over all generated cases (every gate of the "
                     "supported set is exercised by the fixed cases); no further failing input")

/- GENERATED on every run by harness/gen/dispatch.py from simulaqron/netqasm_backend/executioner.py, simulaqron/virtual_node/virtual.py, simulaqron/virtual_node/quantum.py and the three
   *_simulator.py — do not edit.  Facts read off the Python AST; the obligations over them are in Props/C09.lean. -/
namespace SqVerif.Gen.Dispatch

/-- `SIMULAQRON_OPS`: netqasm instruction class ↦ method name called on the virtual qubit -/
def simulaqronOps : List (String × String) := [
  ("GateXInstruction", "apply_X"),
  ("GateYInstruction", "apply_Y"),
  ("GateZInstruction", "apply_Z"),
  ("GateHInstruction", "apply_H"),
  ("GateSInstruction", "apply_S"),
  ("GateKInstruction", "apply_K"),
  ("GateTInstruction", "apply_T"),
  ("CnotInstruction", "cnot_onto"),
  ("CphaseInstruction", "cphase_onto")
]

/-- `ROTATION_AXIS`: rotation instruction class ↦ axis (`none`: not an integer triple) -/
def rotationAxis : List (String × Option (Int × Int × Int)) := [
  ("RotXInstruction", some (1, 0, 0)),
  ("RotYInstruction", some (0, 1, 0)),
  ("RotZInstruction", some (0, 0, 1))
]

/-- the `remote_*` methods of `virtualQubit` -/
def virtualQubitMethods : List String := ["remote_apply_X", "remote_apply_Y", "remote_apply_Z", "remote_apply_H", "remote_apply_K", "remote_apply_S", "remote_apply_T", "remote_apply_rotation", "remote_measure", "remote_cnot_onto", "remote_cphase_onto", "remote_get_number", "remote_get_virt_num", "remote_get_virtNode", "remote_get_simNode", "remote_get_qubit", "remote_get_register_RI"]

/-- for a `remote_*` method of `virtualQubit`: the names it passes to `_single_gate` / `_two_qubit_gate` -/
def virtualQubitForwards : List (String × List String) := [
  ("remote_apply_X", ["apply_X"]),
  ("remote_apply_Y", ["apply_Y"]),
  ("remote_apply_Z", ["apply_Z"]),
  ("remote_apply_H", ["apply_H"]),
  ("remote_apply_K", ["apply_K"]),
  ("remote_apply_S", ["apply_S"]),
  ("remote_apply_T", ["apply_T"]),
  ("remote_apply_rotation", ["apply_rotation"]),
  ("remote_cnot_onto", ["cnot_onto"]),
  ("remote_cphase_onto", ["cphase_onto"])
]

/-- the `remote_*` methods of `simulatedQubit` -/
def simulatedQubitMethods : List String := ["remote_lock", "remote_unlock", "remote_isLocked", "remote_isActive", "remote_apply_X", "remote_apply_K", "remote_apply_S", "remote_apply_Y", "remote_apply_Z", "remote_apply_H", "remote_apply_T", "remote_apply_rotation", "remote_measure_inplace", "remote_measure", "remote_cnot_onto", "remote_cphase_onto", "remote_get_sim_number", "remote_get_number", "remote_get_register", "remote_get_register_RI", "remote_get_numbers", "remote_get_qubit", "remote_get_details"]

/-- for a `remote_*` method of `simulatedQubit`: the methods it calls on `self.register` -/
def simulatedQubitCalls : List (String × List String) := [
  ("remote_apply_X", ["apply_X"]),
  ("remote_apply_K", ["apply_K"]),
  ("remote_apply_S", ["apply_S"]),
  ("remote_apply_Y", ["apply_Y"]),
  ("remote_apply_Z", ["apply_Z"]),
  ("remote_apply_H", ["apply_H"]),
  ("remote_apply_T", ["apply_T"]),
  ("remote_apply_rotation", ["apply_rotation"]),
  ("remote_measure_inplace", ["measure_qubit_inplace"]),
  ("remote_measure", ["measure_qubit"]),
  ("remote_cnot_onto", ["apply_CNOT"]),
  ("remote_cphase_onto", ["apply_CPHASE"]),
  ("remote_get_register_RI", ["get_register_RI"]),
  ("remote_get_qubit", ["get_qubits_RI"])
]

/-- `m ↦ remote_m` for every method name the tables above mention (Perspective Broker prefixes the name) -/
def remoteName : List (String × String) := [
  ("apply_H", "remote_apply_H"),
  ("apply_K", "remote_apply_K"),
  ("apply_S", "remote_apply_S"),
  ("apply_T", "remote_apply_T"),
  ("apply_X", "remote_apply_X"),
  ("apply_Y", "remote_apply_Y"),
  ("apply_Z", "remote_apply_Z"),
  ("apply_rotation", "remote_apply_rotation"),
  ("cnot_onto", "remote_cnot_onto"),
  ("cphase_onto", "remote_cphase_onto")
]

structure Engine where
  name : String
  /-- `apply_*` methods the class defines -/
  defines : List String
  /-- those whose body is just `raise SimUnsupportedError(...)` -/
  refuses : List String

def engines : List Engine := [
  { name := "stabilizerEngine",
    defines := ["apply_H", "apply_K", "apply_S", "apply_X", "apply_Z", "apply_Y", "apply_T", "apply_rotation", "apply_CNOT", "apply_CPHASE", "apply_onequbit_gate", "apply_twoqubit_gate"],
    refuses := ["apply_T", "apply_rotation", "apply_onequbit_gate", "apply_twoqubit_gate"] },
  { name := "qutipEngine",
    defines := ["apply_H", "apply_K", "apply_S", "apply_X", "apply_Z", "apply_Y", "apply_T", "apply_rotation", "apply_CNOT", "apply_CPHASE", "apply_onequbit_gate", "apply_twoqubit_gate"],
    refuses := [] },
  { name := "projectQEngine",
    defines := ["apply_H", "apply_K", "apply_S", "apply_X", "apply_Z", "apply_Y", "apply_T", "apply_rotation", "apply_CNOT", "apply_CPHASE", "apply_onequbit_gate", "apply_twoqubit_gate"],
    refuses := [] }
]

end SqVerif.Gen.Dispatch

import SqVerif.VNetXLemmasSpec
/-
C02 (extension) — the conservation / bookkeeping invariant of C02 carried over to the
client-visible methods of `virtual.py` that the base model does not have: client-made registers,
`remote_new_qubit_inreg`, `remote_get_virtual_ref`, the NetQASM send wrappers with their per-socket
receive queues, the polls, and the observers (model `SqVerif.VNetX`, a layer on top of `VNet`).

`WFX s` = `WF` of the base network ∧ one extension record per node ∧ the empty client registers
of a node are distinct, were numbered by this node and are not in its table ∧ every queued record
made by a send carries the virtual number of the handle that send created AT THIS NODE.

What is NOT an invariant, and why.  "Every queued record's number names a handle held at the node"
is false: the application can measure or send the qubit on before it polls, and the freed number can
be given to the next arrival; the poll then hands out that OTHER qubit (`stale_record_alias`).  What
holds is `get_recv_delivers`: while the delivered handle is still held, the poll returns exactly it.

A client call `remote_delete_register` of a register that still holds qubits is carried out by
the code and breaks C02's invariant (`delReg_populated_breaks_wf`); it is excluded by `Sane`.

`remote_new_qubit_inreg` is modelled AFTER the repair of the defect "a register the node has deleted
in the meantime is accepted" (branch fix-inreg-stale-register).
-/
namespace SqVerif.C02
open SqVerif.VNet SqVerif.VNetX

/-! ### (1) the invariant -/

/-- every operation of the program is sane in the state it is issued in -/
def SaneRun : NetX → List XOp → Prop
  | _, [] => True
  | s, op :: ops => Sane s op ∧ SaneRun (stepX s op).st ops

/-- TX.1 the initial extended network is well-formed -/
theorem wfx_init (caps : List (Nat × Nat)) : WFX (initX caps) := VNetX.wfx_init caps

/-- TX.2 every extended operation — base operation (by `C02.wf_step`), register made or deleted by a
client, qubit created in a given register, NetQASM send / poll, observer; successful or refused —
leads from a well-formed state to a well-formed state -/
theorem wfx_step (s : NetX) (op : XOp) (w : WFX s) (hs : Sane s op) : WFX (stepX s op).st :=
  wfx_step' s op w hs

/-- TX.3 … hence every state a sane program visits -/
theorem wfx_run : ∀ (ops : List XOp) (s : NetX), WFX s → SaneRun s ops → WFX (runX s ops).1
  | [], _, w, _ => w
  | op :: ops, s, w, hs => by
    simp only [runX]
    exact wfx_run ops _ (wfx_step s op w hs.1) hs.2

/-- every operation other than `delReg` is sane -/
theorem sane_of_not_delReg (s : NetX) (op : XOp) (h : ∀ a r, op ≠ .delReg a r) : Sane s op := by
  cases op <;> first | trivial | exact absurd rfl (h _ _)

/-- the state of the counterexample: a client register with one qubit in it -/
def exDel : NetX := (runX (initX [(2, 2)]) [.newReg 0 10, .newInReg 0 0]).1

/-- TX.4 the precondition `Sane` is necessary: deleting a register that holds a qubit (the code does
it) leaves a simulated qubit without a register -/
theorem delReg_populated_breaks_wf : WFX exDel ∧ ¬ WFX (stepX exDel (.delReg 0 0)).st := by
  refine ⟨wfx_run _ _ (wfx_init _) ⟨trivial, trivial, trivial⟩, fun w => ?_⟩
  have hn : (stepX exDel (.delReg 0 0)).st.base.nodes[0]? =
      some { maxQubits := 2, maxRegs := 2, numRegs := 0, nextReg := 1, regs := [], virt := [0], sim := [0] } := by decide
  obtain ⟨sq, e1, _, _, r, e2⟩ := (w.base.nodes 0 _ hn).simOK 0 (by decide)
  simp [Node.reg?] at e2

/-- TX.5 the register budget (Python's `maxRegs`) of a node is constant: `newReg` moves one unit from
the base node to the free list, `delReg` / `newInReg` move it back -/
theorem budget_step (s : NetX) (op : XOp) (w : WFX s) (i : Nat) : budget (stepX s op).st i = budget s i := by
  have hl := w.lenOK
  cases op with
  | base op => exact budget_base w op i
  | newReg a max =>
    simp only [stepX, stepNewReg]
    split
    · rfl
    · rename_i n hn
      split
      · rfl
      · rename_i hlt
        have ha := WFP.lt_length_of_getElem? hn
        unfold budget
        simp only [modNode_get]
        rw [extOf_modify' s a _ _ i hl ha]
        by_cases hi : a = i
        · subst hi
          simp only [if_true, hn, Option.map_some, List.length_append, List.length_cons, List.length_nil]
          omega
        · rw [if_neg hi, if_neg (fun e => hi e.symm)]
  | delReg a r =>
    simp only [stepX, stepDelReg]
    split
    · rfl
    · rename_i n hn
      have ha := WFP.lt_length_of_getElem? hn
      split
      · rename_i hany
        unfold budget
        simp only [modNode_get]
        rw [extOf_modify' s a _ _ i hl ha]
        by_cases hi : a = i
        · subst hi
          simp only [if_true, hn, Option.map_some]
          have hx : s.ext[a]? = some (extOf s a) := by
            have : a < s.ext.length := by rw [hl]; exact ha
            simp [extOf, List.getElem?_eq_getElem this]
          obtain ⟨f1, _⟩ := w.free a n _ hn hx
          have := filter_ne_length f1 hany
          omega
        · rw [if_neg hi, if_neg (fun e => hi e.symm)]
      · split
        · -- (not sane) a populated register: the budget of the base node is what it was
          unfold budget
          simp only [modNode_get]
          by_cases hi : a = i
          · subst hi; simp [hn, Node.delReg]; rfl
          · rw [if_neg hi]; rfl
        · rfl
  | newInReg a r =>
    cases hn : s.base.nodes[a]? with
    | none => simp only [stepX, stepNewInReg, hn]; rfl
    | some n =>
      have ha := WFP.lt_length_of_getElem? hn
      simp only [stepX]
      unfold stepNewInReg
      simp only [hn]
      cases hfind : (extOf s a).free.find? (fun p => p.1 == r) with
      | some p =>
        simp only
        split
        · rfl
        · split
          · rfl
          · have hn1 : (adoptReg s.base a r p.2).nodes[a]? = some (adNode r p.2 n) := by
              rw [adoptReg_eq]; exact modNode_nodes_self _ hn
            have hnodes := addFreshIn_nodes (s := adoptReg s.base a r p.2) (n := adNode r p.2 n) r 0 hn1
            have hsame : addFreshIn (adoptReg s.base a r p.2) a n r 0 =
                addFreshIn (adoptReg s.base a r p.2) a (adNode r p.2 n) r 0 := rfl
            have hany : (extOf s a).free.any (fun p => p.1 == r) = true := by
              rw [List.any_eq_true]
              exact ⟨p, List.mem_of_find?_eq_some hfind, by simpa using List.find?_some hfind⟩
            have hx : s.ext[a]? = some (extOf s a) := by
              have : a < s.ext.length := by rw [hl]; exact ha
              simp [extOf, List.getElem?_eq_getElem this]
            obtain ⟨f1, _⟩ := w.free a n _ hn hx
            have hlen := filter_ne_length f1 hany
            unfold budget
            simp only [hsame, hnodes]
            rw [extOf_modify' s a _ _ i hl ha]
            by_cases hi : i = a
            · subst hi
              simp only [if_true, hn]
              have : (fiNode (adoptReg s.base i r p.2) (adNode r p.2 n) r).maxRegs = n.maxRegs + 1 := rfl
              rw [this]; omega
            · rw [if_neg hi, if_neg hi, adoptReg_eq, modNode_nodes_ne _ _ _ i hi]
      | none =>
        cases hreg : n.reg? r with
        | none => rfl
        | some rg =>
          simp only
          split
          · rfl
          · split
            · rfl
            · have hnodes := addFreshIn_nodes (s := s.base) r rg.toks.length hn
              unfold budget
              simp only [hnodes]
              by_cases hi : i = a
              · subst hi; simp only [if_true, hn]; rfl
              · rw [if_neg hi]; rfl
  | getRef a num => simp only [stepX]; split <;> rfl
  | nqSend a num b app rapp =>
    simp only [stepX]
    cases hn : s.base.nodes[a]? with
    | none => simp only [stepNqSend, hn]; rfl
    | some n =>
      cases e : getVirtualRef s.base a num with
      | none => simp only [stepNqSend, hn, e]; rfl
      | some h =>
        rcases stepNqSend_spec w .recv b app rapp none e with ⟨nn, _, h2⟩ | ⟨_, h2⟩
        · rw [h2, budget_enqueue]; exact budget_base w _ i
        · rw [h2]; rfl
  | nqSendEpr a num b app rapp ent =>
    cases num with
    | none =>
      simp only [stepX, stepNqOutcome]
      split
      · rfl
      · split
        · rfl
        · exact budget_enqueue _ _ _ _ _ _
    | some num =>
      simp only [stepX]
      cases hn : s.base.nodes[a]? with
      | none => simp only [stepNqSend, hn]; rfl
      | some n =>
        cases e : getVirtualRef s.base a num with
        | none => simp only [stepNqSend, hn, e]; rfl
        | some h =>
          rcases stepNqSend_spec w .epr b app rapp (some ent) e with ⟨nn, _, h2⟩ | ⟨_, h2⟩
          · rw [h2, budget_enqueue]; exact budget_base w _ i
          · rw [h2]; rfl
  | addRecv b frm fs ts num =>
    simp only [stepX, stepAdd]
    split
    · rfl
    · exact budget_enqueue _ _ _ _ _ _
  | addEpr b frm fs ts num ent =>
    simp only [stepX, stepAdd]
    split
    · rfl
    · exact budget_enqueue _ _ _ _ _ _
  | getRecv b sock =>
    simp only [stepX, stepGet]
    split
    · rfl
    · split
      · rfl
      · exact budget_dequeue _ _ _ _ _
  | getEprRecv b sock =>
    simp only [stepX, stepGet]
    split
    · rfl
    · split
      · rfl
      · exact budget_dequeue _ _ _ _ _
  | obs o => rfl

/-! ### (2) the queues are FIFO lists -/

/-- TX.6 per (node, dictionary, socket), for ANY program (any interleaving of base operations, sends,
polls on this and other sockets, client-made records): the records that were in the queue followed
by the records appended during the run are exactly the records popped during the run followed by
the records left — so records leave in the order they came, each exactly once -/
theorem queue_fifo (s : NetX) (hl : s.ext.length = s.base.nodes.length) (ops : List XOp) (i : Nat) (k : Kind) (sock : Nat) :
    queueOf s i k sock ++ appended i k sock (runX s ops).2.2 =
      popped i k sock (runX s ops).2.2 ++ queueOf (runX s ops).1 i k sock :=
  fifo_run ops s hl i k sock

/-- TX.6' from the initial network: appended = popped ++ still queued -/
theorem queue_fifo_init (caps : List (Nat × Nat)) (ops : List XOp) (i : Nat) (k : Kind) (sock : Nat) :
    appended i k sock (runX (initX caps) ops).2.2 =
      popped i k sock (runX (initX caps) ops).2.2 ++ queueOf (runX (initX caps) ops).1 i k sock := by
  have := fifo_run ops (initX caps) (lenOK_init caps) i k sock
  have h0 : queueOf (initX caps) i k sock = [] := by
    unfold queueOf extOf initX
    simp only [List.getElem?_map]
    cases caps[i]? <;> cases k <;> rfl
  rw [h0, List.nil_append] at this
  exact this

/-- TX.6'' what has been popped is a prefix of what has been appended -/
theorem popped_prefix (caps : List (Nat × Nat)) (ops : List XOp) (i : Nat) (k : Kind) (sock : Nat) :
    popped i k sock (runX (initX caps) ops).2.2 <+: appended i k sock (runX (initX caps) ops).2.2 :=
  ⟨_, (queue_fifo_init caps ops i k sock).symm⟩

/-! ### (3) the NetQASM send = send + exactly one append -/

/-- TX.7 `remote_netqasm_send_qubit(num, b, app, rapp)` with `num` naming the held handle `h`: if
the `remote_send_qubit(h, b)` it makes returns the new virtual number `nn`, the state is the state
after that send plus EXACTLY ONE record appended at the receiver's socket `rapp`, carrying the sender,
both socket ids and `nn`, and that record names the handle the send created; the caller gets None -/
theorem netqasm_send_is_send_plus_enqueue (s : NetX) (w : WFX s) (a num b app rapp h nn : Nat)
    (e : getVirtualRef s.base a num = some h) (hr : (step s.base (.send h b)).2.1 = .num nn) :
    let q : QRec := { frm := a, fromSock := app, toSock := rapp, num := some nn, ent := none,
                      ghost := some s.base.vqs.length }
    (stepX s (.nqSend a num b app rapp)).st = enqueue { s with base := (step s.base (.send h b)).1 } b .recv rapp q ∧
    (stepX s (.nqSend a num b app rapp)).res = .res .none ∧
    (stepX s (.nqSend a num b app rapp)).eops = (step s.base (.send h b)).2.2 ∧
    (stepX s (.nqSend a num b app rapp)).qev = [.app b .recv rapp q] ∧
    queueOf (stepX s (.nqSend a num b app rapp)).st b .recv rapp = queueOf s b .recv rapp ++ [q] := by
  obtain ⟨vq, hv, hact, _, _⟩ := getVirtualRef_active w.base e
  have hg := send_ghost w.base hv hact hr
  rcases stepNqSend_spec w .recv b app rapp none e with ⟨nn', h1, h2⟩ | ⟨h1, _⟩
  · rw [hr] at h1; cases h1
    simp only [stepX]
    rw [h2, hg]
    refine ⟨rfl, rfl, rfl, rfl, ?_⟩
    obtain ⟨_, _, hb, _⟩ | ⟨_, _, h3⟩ := send_of_ref w.base e b
    · have hbl : b < ({ s with base := (step s.base (.send h b)).1 } : NetX).ext.length := by
        show b < s.ext.length
        rw [w.len]; exact hb
      rw [queueOf_enqueue hbl]; simp; rfl
    · rcases h3 with ⟨h4, _⟩ | ⟨h4, _⟩ | ⟨h4, _⟩ <;> rw [h4] at hr <;> cases hr
  · exact absurd hr (h1 nn)

/-- TX.7' the same for `remote_netqasm_send_epr_half(num, b, app, rapp, ent)` with a qubit: one
record in the receiver's EPR dictionary, carrying the entanglement information as well -/
theorem netqasm_send_epr_half_is_send_plus_enqueue (s : NetX) (w : WFX s) (a num b app rapp ent h nn : Nat)
    (e : getVirtualRef s.base a num = some h) (hr : (step s.base (.send h b)).2.1 = .num nn) :
    let q : QRec := { frm := a, fromSock := app, toSock := rapp, num := some nn, ent := some ent,
                      ghost := some s.base.vqs.length }
    (stepX s (.nqSendEpr a (some num) b app rapp ent)).st =
      enqueue { s with base := (step s.base (.send h b)).1 } b .epr rapp q ∧
    (stepX s (.nqSendEpr a (some num) b app rapp ent)).res = .res .none ∧
    (stepX s (.nqSendEpr a (some num) b app rapp ent)).qev = [.app b .epr rapp q] := by
  obtain ⟨vq, hv, hact, _, _⟩ := getVirtualRef_active w.base e
  have hg := send_ghost w.base hv hact hr
  rcases stepNqSend_spec w .epr b app rapp (some ent) e with ⟨nn', h1, h2⟩ | ⟨h1, _⟩
  · rw [hr] at h1; cases h1
    simp only [stepX]
    rw [h2, hg]
    exact ⟨rfl, rfl, rfl⟩
  · exact absurd hr (h1 nn)

/-- TX.8 atomicity including the queues: if the send inside the wrapper is refused (receiver full:
noQubitError; unknown node: virtNetError) or is a self-send, NOTHING is appended, the whole extended
state is unchanged, and the caller gets the send's error.  (In a well-formed network these are all
the other outcomes: see TX.9.) -/
theorem netqasm_send_failed_atomic (s : NetX) (w : WFX s) (k : Kind) (a num b app rapp h : Nat) (ent : Option Nat)
    (e : getVirtualRef s.base a num = some h) (hr : ∀ nn, (step s.base (.send h b)).2.1 ≠ .num nn) :
    stepNqSend s k a num b app rapp ent = fail s (.res (step s.base (.send h b)).2.1) ∧
    (stepNqSend s k a num b app rapp ent).st = s ∧ (stepNqSend s k a num b app rapp ent).qev = [] ∧
    (stepNqSend s k a num b app rapp ent).eops = [] := by
  rcases stepNqSend_spec w k b app rapp ent e with ⟨nn, h1, _⟩ | ⟨_, h2⟩
  · exact absurd h1 (hr nn)
  · rw [h2]; exact ⟨rfl, rfl, rfl, rfl⟩

/-- TX.8' population: a NetQASM send that went through moves exactly one qubit from the sender to
the receiver (by `C02.send_population`); a refused one moves nothing (TX.8) -/
theorem netqasm_send_population (s : NetX) (w : WFX s) (a num b app rapp h nn : Nat)
    (e : getVirtualRef s.base a num = some h) (hr : (step s.base (.send h b)).2.1 = .num nn) :
    a ≠ b ∧ held (stepX s (.nqSend a num b app rapp)).st.base a + 1 = held s.base a ∧
    held (stepX s (.nqSend a num b app rapp)).st.base b = held s.base b + 1 ∧
    ∀ i, i ≠ a → i ≠ b → held (stepX s (.nqSend a num b app rapp)).st.base i = held s.base i := by
  obtain ⟨n, _, hn, hh, _, _⟩ := getVirtualRef_some e
  have hheld : h ∈ heldAt s.base a := WFP.mem_heldAt.2 ⟨n, hn, hh⟩
  have hst := (netqasm_send_is_send_plus_enqueue s w a num b app rapp h nn e hr).1
  have hb : (stepX s (.nqSend a num b app rapp)).st.base = (step s.base (.send h b)).1 := by rw [hst]; rfl
  rw [hb]
  exact send_population s.base a h b nn w.base hheld hr

/-- TX.9 the outcomes of the inner send, for the handle `remote_get_virtual_ref` found: a number, or
a refusal that left the base state untouched.  It is never the do-nothing `None` of an inactive
handle, so the wrapper's SECOND test of the target name (virtual.py:526 / 607, made AFTER the send)
never decides anything when a qubit is sent: an unknown target has already been refused by the send
itself, before anything changed. -/
theorem netqasm_send_outcomes (s : NetX) (w : WFX s) (a num b h : Nat) (e : getVirtualRef s.base a num = some h) :
    (∃ nn, (step s.base (.send h b)).2.1 = .num nn ∧ b < s.base.nodes.length ∧ b ≠ a) ∨
    ((step s.base (.send h b)).1 = s.base ∧
      (((step s.base (.send h b)).2.1 = .err .virtNet ∧ s.base.nodes.length ≤ b) ∨
       ((step s.base (.send h b)).2.1 = .selfSend ∧ b = a) ∨
       ((step s.base (.send h b)).2.1 = .err .noQubit ∧ b < s.base.nodes.length ∧ b ≠ a))) := by
  rcases send_of_ref w.base e b with h1 | ⟨h1, _, h3⟩
  · exact Or.inl h1
  · exact Or.inr ⟨h1, h3⟩

/-- TX.10 a number no held qubit carries: the wrapper fails before it does anything
(`remote_send_qubit(None, ..)` raises AttributeError) -/
theorem netqasm_send_unknown_number (s : NetX) (k : Kind) (a num b app rapp : Nat) (ent : Option Nat)
    (e : getVirtualRef s.base a num = none) :
    (stepNqSend s k a num b app rapp ent).st = s ∧ (stepNqSend s k a num b app rapp ent).qev = [] ∧
    ((stepNqSend s k a num b app rapp ent).res = .attrError ∨ (stepNqSend s k a num b app rapp ent).res = .res .badCall) := by
  unfold stepNqSend
  cases s.base.nodes[a]? with
  | none => exact ⟨rfl, rfl, Or.inr rfl⟩
  | some n => simp only [e]; exact ⟨rfl, rfl, Or.inl rfl⟩

/-- TX.11 the measure-directly form `remote_netqasm_send_epr_half(None, ..)`: here the test of the
target name IS live; an unknown target changes nothing, a known one (possibly the node itself) gets
exactly one record without a qubit -/
theorem netqasm_send_outcome_only (s : NetX) (hl : s.ext.length = s.base.nodes.length) (a b app rapp ent : Nat) (n : Node)
    (hn : s.base.nodes[a]? = some n) :
    (s.base.nodes.length ≤ b → stepX s (.nqSendEpr a none b app rapp ent) = fail s (.res (.err .virtNet))) ∧
    (b < s.base.nodes.length →
      (stepX s (.nqSendEpr a none b app rapp ent)).st.base = s.base ∧
      (stepX s (.nqSendEpr a none b app rapp ent)).res = .res .none ∧
      queueOf (stepX s (.nqSendEpr a none b app rapp ent)).st b .epr rapp = queueOf s b .epr rapp ++
        [{ frm := a, fromSock := app, toSock := rapp, num := none, ent := some ent, ghost := none }]) := by
  refine ⟨fun hb => ?_, fun hb => ?_⟩
  · simp [stepX, stepNqOutcome, hn, hb]
  · simp only [stepX, stepNqOutcome, hn, ge_iff_le, Nat.not_le.2 hb, if_false]
    refine ⟨by first | rfl | trivial, by first | rfl | trivial, ?_⟩
    rw [queueOf_enqueue (by rw [hl]; exact hb)]; simp

/-! ### (4) observers are inert -/

/-- TX.12 `remote_get_number`, `get_virt_num`, `get_virtNode`, `get_simNode`, `get_register_RI`,
`remote_get_register`, `remote_check_connections`, `remote_isLocked`: no state change, no engine
call, no queue event, through any handle (held, stale or unknown) -/
theorem observers_inert (s : NetX) (o : Obs) :
    (stepX s (.obs o)).st = s ∧ (stepX s (.obs o)).eops = [] ∧ (stepX s (.obs o)).qev = [] := ⟨rfl, rfl, rfl⟩

/-- TX.13 `remote_get_virtual_ref`: no state change; it returns a handle held at that node under that
number, and — the numbers of the held handles being distinct (C02) — THE handle with that number -/
theorem get_virtual_ref_inert (s : NetX) (a num : Nat) :
    (stepX s (.getRef a num)).st = s ∧ (stepX s (.getRef a num)).eops = [] ∧ (stepX s (.getRef a num)).qev = [] := by
  simp only [stepX]; split <;> exact ⟨rfl, rfl, rfl⟩

theorem get_virtual_ref_spec (s : NetX) (w : WFX s) (a num : Nat) (n : Node) (hn : s.base.nodes[a]? = some n) :
    (∀ h, (stepX s (.getRef a num)).res = .ref (some h) ↔
      h ∈ n.virt ∧ ∃ vq, s.base.vqs[h]? = some vq ∧ vq.num = num) ∧
    ((stepX s (.getRef a num)).res = .ref none ↔ ∀ h vq, h ∈ n.virt → s.base.vqs[h]? = some vq → vq.num ≠ num) := by
  simp only [stepX, hn, fail]
  refine ⟨fun h => ⟨fun e => ?_, fun ⟨hh, vq, hv, hnum⟩ => ?_⟩, ⟨fun e => ?_, fun hall => ?_⟩⟩
  · simp only [XRes.ref.injEq] at e
    obtain ⟨n', vq, hn', hh, hv, hnum⟩ := getVirtualRef_some e
    rw [hn] at hn'; cases hn'
    exact ⟨hh, vq, hv, hnum⟩
  · rw [getVirtualRef_eq hn (w.base.toP.nodes a n hn).virtNumsInj hh hv hnum]
  · simp only [XRes.ref.injEq] at e
    exact getVirtualRef_none hn e
  · cases e : getVirtualRef s.base a num with
    | none => rfl
    | some h =>
      obtain ⟨n', vq, hn', hh, hv, hnum⟩ := getVirtualRef_some e
      rw [hn] at hn'; cases hn'
      exact absurd hnum (hall h vq hh hv)

/-! ### (5) `remote_new_qubit_inreg`: exact success condition, refusal classes, population -/

/-- TX.14 a qubit is created in register `r` of node `a` iff `r` is in the node's table, the node
holds fewer than `maxQubits` qubits and the register holds fewer than ITS limit -/
theorem new_inreg_ok_iff (s : NetX) (a r : Nat) (n : Node) (hn : s.base.nodes[a]? = some n) :
    (∃ h, (stepX s (.newInReg a r)).res = .res (.handle h)) ↔
      ∃ len max, regSlot s a r = some (len, max) ∧ n.virt.length < n.maxQubits ∧ len < max := by
  simp only [stepX]
  rcases stepNewInReg_cases s a r n hn with ⟨h1, h2⟩ | ⟨len, max, h1, h2, h3⟩ | ⟨len, max, h1, h2, h3, h4, _⟩
  · rw [h2, h1]; simp [fail]
  · rw [h3, h1]
    constructor
    · rintro ⟨h, e⟩; simp [fail] at e
    · rintro ⟨l, m, e, c1, c2⟩
      simp only [Option.some.injEq, Prod.mk.injEq] at e
      obtain ⟨rfl, rfl⟩ := e
      rcases h2 with h2 | h2 <;> omega
  · rw [h1]
    exact ⟨fun _ => ⟨len, max, rfl, h2, h3⟩, fun _ => ⟨_, h4⟩⟩

/-- TX.15 the refusals: quantumError iff the register is not (any more) in the node's table —
deleted, emptied by a measurement, absorbed by a two-qubit gate — and noQubitError iff it is there
but the node or the register is full; a refused call changes nothing -/
theorem new_inreg_refusals (s : NetX) (a r : Nat) (n : Node) (hn : s.base.nodes[a]? = some n) :
    ((stepX s (.newInReg a r)).res = .res (.err .quantum) ↔ regSlot s a r = none) ∧
    ((stepX s (.newInReg a r)).res = .res (.err .noQubit) ↔
      ∃ len max, regSlot s a r = some (len, max) ∧ (n.maxQubits ≤ n.virt.length ∨ max ≤ len)) ∧
    ((∀ h, (stepX s (.newInReg a r)).res ≠ .res (.handle h)) →
      (stepX s (.newInReg a r)).st = s ∧ (stepX s (.newInReg a r)).eops = [] ∧ (stepX s (.newInReg a r)).qev = []) := by
  simp only [stepX]
  rcases stepNewInReg_cases s a r n hn with ⟨h1, h2⟩ | ⟨len, max, h1, h2, h3⟩ | ⟨len, max, h1, h2, h3, h4, _⟩
  · rw [h2, h1]; simp [fail]
  · rw [h3, h1]
    refine ⟨by simp [fail], ⟨fun _ => ⟨len, max, rfl, h2⟩, fun _ => rfl⟩, fun _ => ⟨rfl, rfl, rfl⟩⟩
  · rw [h1, h4]
    refine ⟨by simp, ⟨fun e => (by cases e), ?_⟩, fun hc => absurd rfl (hc _)⟩
    rintro ⟨l, m, e, c⟩
    simp only [Option.some.injEq, Prod.mk.injEq] at e
    obtain ⟨rfl, rfl⟩ := e
    rcases c with c | c <;> omega

/-- TX.16 population: a successful creation adds exactly one qubit, at that node, last in its list;
it is the handle returned -/
theorem new_inreg_population (s : NetX) (a r h : Nat) (hr : (stepX s (.newInReg a r)).res = .res (.handle h)) :
    h = s.base.vqs.length ∧
    heldAt (stepX s (.newInReg a r)).st.base a = heldAt s.base a ++ [h] ∧
    held (stepX s (.newInReg a r)).st.base a = held s.base a + 1 ∧
    ∀ i, i ≠ a → held (stepX s (.newInReg a r)).st.base i = held s.base i := by
  simp only [stepX] at hr ⊢
  cases hn : s.base.nodes[a]? with
  | none => simp [stepNewInReg, hn, fail] at hr
  | some n =>
    rcases stepNewInReg_cases s a r n hn with ⟨_, h2⟩ | ⟨_, _, _, _, h3⟩ | ⟨len, max, _, _, _, h4, _, _, h5, n', h6, h7⟩
    · rw [h2] at hr; simp [fail] at hr
    · rw [h3] at hr; simp [fail] at hr
    · rw [h4] at hr
      simp only [XRes.res.injEq, Res.handle.injEq] at hr
      subst hr
      have e1 : heldAt (stepNewInReg s a r).st.base a = heldAt s.base a ++ [s.base.vqs.length] := by
        simp [WFP.heldAt_def, h6, h7, hn]
      refine ⟨rfl, e1, ?_, fun i hi => ?_⟩
      · simp [held, e1]
      · simp [held, WFP.heldAt_def, h5 i hi]

/-! ### (6) polls -/

/-- TX.17 a poll of an empty or unknown socket returns None and changes nothing -/
theorem get_recv_empty (s : NetX) (b sock : Nat) (k : Kind) (h : queueOf s b k sock = []) :
    (stepGet s b k sock).st = s ∧ (stepGet s b k sock).eops = [] ∧ (stepGet s b k sock).qev = [] ∧
    ((stepGet s b k sock).res = .ref none ∨ (stepGet s b k sock).res = .res .badCall) := by
  unfold stepGet
  cases s.base.nodes[b]? with
  | none => exact ⟨rfl, rfl, rfl, Or.inr rfl⟩
  | some n => simp only [h]; exact ⟨rfl, rfl, rfl, Or.inl rfl⟩

/-- TX.18 a poll of a non-empty socket removes exactly the head, touches nothing else, and returns
what `remote_get_virtual_ref` makes of the recorded number (plus the entanglement info) -/
theorem get_recv_pops_head (s : NetX) (hl : s.ext.length = s.base.nodes.length) (b sock : Nat) (k : Kind) (n : Node)
    (q : QRec) (rest : List QRec) (hn : s.base.nodes[b]? = some n) (h : queueOf s b k sock = q :: rest) :
    (stepGet s b k sock).st.base = s.base ∧ queueOf (stepGet s b k sock).st b k sock = rest ∧
    (∀ i k' so, (i, k', so) ≠ (b, k, sock) → queueOf (stepGet s b k sock).st i k' so = queueOf s i k' so) ∧
    (stepGet s b k sock).qev = [.pop b k sock q] ∧
    (stepGet s b k sock).res = (match k with
      | .recv => .ref (refOf s.base b q.num)
      | .epr => .eprRef (refOf s.base b q.num) q.ent) := by
  have hb : b < s.ext.length := by rw [hl]; exact WFP.lt_length_of_getElem? hn
  unfold stepGet
  simp only [hn, h]
  refine ⟨by first | rfl | trivial, ?_, ?_, by first | rfl | trivial, by cases k <;> rfl⟩
  · rw [queueOf_dequeue hb]; simp [h]
  · intro i k' so hne
    rw [queueOf_dequeue hb]
    have : ¬ (i = b ∧ k' = k ∧ so = sock) := fun e => hne (by rw [e.1, e.2.1, e.2.2])
    rw [if_neg this]

/-- TX.19 while the qubit a send delivered is still held at the receiver, the poll of its record
hands out exactly that qubit (the handle the send created) -/
theorem get_recv_delivers (s : NetX) (w : WFX s) (b sock g : Nat) (k : Kind) (q : QRec) (rest : List QRec)
    (h : queueOf s b k sock = q :: rest) (hg : q.ghost = some g) (hheld : g ∈ heldAt s.base b) :
    (stepGet s b k sock).res = (match k with
      | .recv => .ref (some g)
      | .epr => .eprRef (some g) q.ent) := by
  obtain ⟨n, hn, _⟩ := WFP.mem_heldAt.1 hheld
  have := (get_recv_pops_head s w.len b sock k n q rest hn h).2.2.2.2
  rw [this, refOf_delivered w h hg hheld]

/-- the program of the aliasing example: a qubit is sent to node 1 through the NetQASM wrapper, the
application at node 1 measures it (having obtained it otherwise) BEFORE polling, a new qubit is
created at node 1 and gets the freed virtual number 0, then the socket is polled -/
def exAlias : List XOp :=
  [.base (.new 0), .nqSend 0 0 1 0 1, .base (.measure 1 false true), .base (.new 1), .getRecv 1 1]

/-- TX.20 a record can go stale, and a stale record can alias: the poll hands out handle 2 (the qubit
created later), not handle 1 (the qubit that was sent and has been measured) -/
theorem stale_record_alias :
    (runX (initX [(2, 5), (2, 5)]) exAlias).2.1 =
      [.res (.handle 0), .res .none, .res (.outcome true), .res (.handle 2), .ref (some 2)] := by decide

/-! ### non-vacuity -/

/-- a program that uses everything: two client registers (one with limit 1), qubits created in them,
a merge across them, NetQASM sends on two sockets, a measure-directly record, polls, observers -/
def exOpsX : List XOp :=
  [.newReg 0 10, .newReg 0 1, .newInReg 0 0, .newInReg 0 0, .newInReg 0 1, .newInReg 0 1,
   .base (.gate2 0 2 .CNOT), .newInReg 0 1,
   .nqSend 0 0 1 7 1, .nqSendEpr 0 (some 1) 1 7 1 42, .nqSendEpr 0 none 1 7 1 9, .nqSend 0 2 1 7 2,
   .obs (.number 4), .getRecv 1 1, .getEprRecv 1 1, .getEprRecv 1 1, .getRecv 1 2, .getRecv 1 2]

def exStateX : NetX := (runX (initX [(4, 3), (4, 3)]) exOpsX).1

example : SaneRun (initX [(4, 3), (4, 3)]) exOpsX := by
  refine ⟨trivial, trivial, trivial, trivial, trivial, trivial, trivial, trivial, trivial, trivial, trivial, trivial, trivial,
    trivial, trivial, trivial, trivial, trivial, trivial⟩
example : WFX exStateX := wfx_run _ _ (wfx_init _) (by
  refine ⟨trivial, trivial, trivial, trivial, trivial, trivial, trivial, trivial, trivial, trivial, trivial, trivial, trivial,
    trivial, trivial, trivial, trivial, trivial, trivial⟩)
/-- the results: register 1 (limit 1) refuses its second qubit; after the merge the register 1 is
gone and a further creation in it is refused with quantumError; the polls return the delivered
handles in order, then the measure-directly record without a qubit, then None -/
example : (runX (initX [(4, 3), (4, 3)]) exOpsX).2.1 =
    [.reg 0, .reg 1, .res (.handle 0), .res (.handle 1), .res (.handle 2), .res (.err .noQubit),
     .res .unit, .res (.err .quantum),
     .res .none, .res .none, .res .none, .res .none,
     .res (.num 1), .ref (some 3), .eprRef (some 4) (some 42), .eprRef none (some 9), .ref (some 5), .ref none] := by decide
/-- the register budget of node 0 is 3 throughout -/
example : budget (initX [(4, 3), (4, 3)]) 0 = 3 ∧ budget exStateX 0 = 3 := by decide
/-- instances of the hypotheses of TX.7 / TX.19 -/
example : getVirtualRef exDel.base 0 0 = some 0 ∧ (step exDel.base (.send 0 1)).2.1 = .err .virtNet := by decide

end SqVerif.C02

"""C12 -- the configured topology decides who may create entanglement with whom
(simulaqron/netqasm_backend/factory.py `is_adjacent`, executioner.py `cmd_epr`,
general/host_config.py `get_node_id_from_net_config`, toolbox/manage_nodes.py
for how the topology reaches the factory).

Every case is (node names in config order, topology or None, issuer, remote
node id).  The REAL NetQASMFactory / SubroutineHandler / executioner (NqNet in
harness/simnet.py) receive a one-pair `create_keep` request recorded from the
netqasm SDK; when the issuer was not refused the peer runs the matching
`recv_keep`.  Observed from outside: ErrorMessage vs entanglement information
in the host's replies, the error text in the NetQASM log, the number of
`cmd_new` calls (the method is wrapped from outside), and the qubit counts
(virtual, simulated, registers, factory qubitList, receive queues) of ALL
nodes before and after.

The node names of a case are in the order of the configuration FILE (a random sample of the pool, in general not
alphabetical); node ids are the positions in the SORTED list of names.

Real start-up path (`StartedBench`, `started_cases`): config files with two or three networks over the same
nodes ("default" fully connected and "lab" restricted, the other way round, a file without any "default" network,
random ones); the QNodeOS of every node is started by the REAL `simulaqron.start.start_qnodeos.main(name,
network_name, log_level)` on the fake reactor, its connect attempt is wired to the node's virtual node and the
NetQASMFactory is taken from the reactor's listen table; then `factory.topology` (= the topology of ITS network in
the file), `is_adjacent` and every (issuer, remote id) request are judged exactly as in the main stage.

Remote node ids are register values, i.e. SIGNED 32-bit integers (`set R0 -3` is valid NetQASM): besides 0..n the
boundary-id stage sends -n-1 .. n+1 and the register limits, as create-and-keep and as measure-directly requests
(`boundary_ids`, `Bench.refusals`: the out-of-range requests of one issuer are consecutive subroutines of one
application, each judged on its own).  The same ids are what `search` tries first.

Oracle (independent of the Lean model): allowed iff the remote id is known (0 <= id < n, the index in the sorted
names), names another node, and the topology is None or lists that node for the
issuer; after a refusal nothing changed anywhere.
Tie: `guard` / `exec` / `adj` / `ids` lines of the Lean driver `adjacency`
(model `Adjacency.lean`; `exec` runs the statement list regenerated from
executioner.py by harness/gen/epr_guards.py)."""
import itertools
import os
import random
import time

from .. import core
from ..gen import epr_guards

LEAN_TARGETS = ["SqVerif.Props.C12"]
PROPS_FILE = "SqVerif/Props/C12.lean"
DRIVE_TARGETS = ["SqVerif.Drive.Adjacency"]
TRUSTED = [
    "model Adjacency.lean hand-written from factory.py:216-243, host_config.py:52-58, executioner.py:391-414; tied by "
    "differential execution (this check)",
    "harness/gen/epr_guards.py: statement skeleton of cmd_epr / _do_create_epr read off the Python AST (guards recognised "
    "by exact shape, everything else that is not a logger call or a call-free local assignment is `unrecog`); validated "
    "per run: error kind, remote node and number of cmd_new calls of every real execution equal `exec` on the skeleton",
    "harness/simnet.py NqNet: real NetQASMFactory/SubroutineHandler/executioner on real virtual nodes over in-memory "
    "Perspective Broker; host messages recorded from netqasm's DebugConnection",
    "netqasm 2.3.0 (Executor, message (de)serialisation, SDK) executed, not modelled",
    "real start-up stage: start_qnodeos.main runs in-process on twisted's MemoryReactorClock (reactor.run() returns at "
    "once), `signal` and `SubroutineHandler` of start_qnodeos.py replaced from outside (no handlers installed; per-node "
    "executioner classes), its one connect attempt wired by the harness to the node's virtual node",
]
ASSUMPTIONS = [
    "node names are distinct strings (keys of the JSON object `nodes`); the topology is null or a JSON object of lists",
    "the request reaches cmd_epr through netqasm's create_epr instruction (`_do_create_epr`, the only caller)",
    "requests of one pair, create-and-keep and measure-directly (both executed); the model does not distinguish the "
    "request type: the guard runs before the type is looked at",
    "remote node ids are values of a NetQASM register: integers in [-2^31, 2^31-1] (what the binary encoding can carry; "
    "the harness checks on the encoded subroutine that the id it judges is the id that was sent)",
]

POOL = ["Alice", "Bob", "Charlie", "David", "Eve", "Zed", "alice", "bob", "n1", "n10", "n2", "Q", "x", "Mallory"]
STRANGERS = ["Nobody", "ghost", "Z9"]      # names that are never nodes
REMOTE_ALIAS = "__remote__"


# --------------------------------------------------------------------------
# gen
# --------------------------------------------------------------------------

def gen(ctx):
    tab = epr_guards.generate(core.REPO, core.LEAN_DIR)
    ctx.epr_table = tab
    return {"obligations": 0, "file": epr_guards.OUT,      # the obligations over the table are theorems of Props/C12.lean
            "cmd_epr": [k for k, _, _ in (tab["cmd_epr"] or [])],
            "do_create_epr": [k for k, _, _ in (tab["caller"] or [])],
            "cmd_epr_callers": tab["cmd_epr_callers"]}


# --------------------------------------------------------------------------
# the property, judged directly
# --------------------------------------------------------------------------

def oracle_allowed(names, topology, issuer, rid):
    """(allowed, remote name or None, class of the request)"""
    ordered = sorted(names)
    if not 0 <= rid < len(ordered):
        return False, None, "unknown-id"
    remote = ordered[rid]
    if remote == issuer:
        return False, remote, "self"
    if topology is None:
        return True, remote, "no-topology"
    if issuer not in topology:
        return False, remote, "issuer-absent"
    if remote in topology[issuer]:
        return True, remote, "neighbour"
    return False, remote, "non-neighbour"


def topo_token(topology):
    if topology is None:
        return "none"
    if not topology:
        return "{}"
    return ";".join("%s:%s" % (k, ",".join(v)) for k, v in topology.items())


# --------------------------------------------------------------------------
# running the real code
# --------------------------------------------------------------------------

class Bench:
    """one live NqNet (one topology) that serves requests one after the other,
    each as its own application; rebuilt when a request leaves it dirty"""

    def __init__(self, names, topology, seed):
        from .. import simnet as S
        from netqasm.sdk.shared_memory import SharedMemoryManager
        self.S = S
        # netqasm keeps the host<->QNodeOS shared memories in a process-global table (one process per node in a
        # real deployment); a new network in this process starts from an empty table
        SharedMemoryManager.reset_memories()
        self.names, self.topology = list(names), topology
        self.nq = S.NqNet(self.names, topology=topology, max_qubits=6, rng=random.Random(seed))
        self.next_app = 0
        _wrap_cmd_new(self.nq._EX)

    # -- observation ---------------------------------------------------------
    def counts(self):
        snap = self.nq.snapshot()
        return {n: {"virt": len(v["virt"]), "sim": len(v["sim"]), "numRegs": v["numRegs"], "regs": len(v["regs"]),
                    "qubitList": len(v["qubitList"]), "recv": sum(v["recv"].values()),
                    "recv_epr": sum(v["recv_epr"].values())}
                for n, v in snap.items()}

    def error_kinds(self, start):
        kinds = []
        for lvl, _lg, text in self.nq.pylog[start:]:
            if lvl != "ERROR":
                continue
            if "Unknown node with ID" in text:
                kinds.append("unknownNode")
            elif "from node to itself" in text:
                kinds.append("sameNode")
            elif "is not adjacent" in text:
                kinds.append("notAdjacent")
            else:
                kinds.append("?:" + text.split("\n")[0][:80])
        return kinds

    def _settler(self, flag, typ):
        """`settle()` for one request.  Create-and-keep requests of the main stage: simnet's default budget of virtual
        time.  The requests of the boundary-id stage: 60 s of virtual time (no time-out of the code is longer), and 5 s
        once a settle of the same request ran out of budget -- a timer that re-arms for ever, e.g. the poll for an EPR
        response that will never come, which only a changed implementation leaves behind; `flag["stuck"]` tells the
        caller to retire the network after the request (every later settle would burn its whole budget)."""
        nq = self.nq
        if typ == "K":
            def settle():
                if not nq.settle():
                    flag["stuck"] = True
            return settle
        budget = [60.0]

        def settle():
            if not nq.settle(max_virtual_time=budget[0]):
                flag["stuck"] = True
                budget[0] = 5.0
        return settle

    # -- one request ---------------------------------------------------------
    def request(self, issuer, rid, typ="K"):
        """typ "K" = create-and-keep, "M" = measure-directly (both halves measured in Z by the creator's node)"""
        S, nq = self.S, self.nq
        from netqasm.sdk import EPRSocket, Qubit
        from netqasm.sdk.connection import DebugConnection
        from netqasm.backend.messages import deserialize_host_msg
        app = self.next_app
        self.next_app += 1
        ids = {n: i for i, n in enumerate(sorted(self.names))}
        obs = {"app": app, "typ": typ}
        settle = self._settler(obs, typ)
        before = self.counts()
        log0 = len(nq.pylog)
        new0 = len(_CMD_NEW_CALLS)

        def kinds(msgs):
            return [type(deserialize_host_msg(m)).__name__ for m in msgs]

        # issuer: create_keep towards the raw node id `rid` (the SDK refuses unknown names and the node itself, so
        # the id is smuggled in under an alias), then -- second subroutine -- allocate one local qubit
        DebugConnection.node_ids = dict(ids)
        DebugConnection.node_ids[REMOTE_ALIAS] = rid
        sock = EPRSocket(REMOTE_ALIAS)

        def prog(conn):
            if typ == "K":
                sock.create_keep(1)
            else:
                sock.create_measure(1)
            conn.flush()
            Qubit(conn)
            conn.flush()
        msgs, mk = _recorded(("create", app, rid, typ), [rid],
                             lambda: S.program(issuer, prog, epr_sockets=[sock], app_id=app))
        subs = [m for m, k in zip(msgs, mk) if k == "SubroutineMessage"]
        if mk[:2] != ["InitNewAppMessage", "OpenEPRSocketMessage"] or len(subs) != 2 or "StopAppMessage" not in mk:
            raise core.MachineryError("unexpected SDK message sequence %r" % (mk,))
        stop = msgs[mk.index("StopAppMessage")]
        pi, ti = nq.host(issuer)
        for i, m in enumerate([msgs[0], msgs[1], subs[0]]):
            nq.feed(pi, S.frame(i, m))
            settle()
        rep = S.parse_replies(ti.value())
        obs["issuer_replies"] = [r[0] for r in rep]
        obs["error"] = any(r[0] == "ErrorMessage" for r in rep)
        obs["unparsed"] = any(r[0] == "UNPARSED" for r in rep)
        obs["done"] = [r[1] for r in rep if r[0] == "MsgDoneMessage"]
        # entanglement information: the ent_info array written back (10 slots for create-keep, OK type, non-zero)
        arrays = [r[2] for r in rep if r[0] == "ReturnArrayMessage"]
        obs["ent_info"] = any(len(a) == 10 and any(x for x in a) for a in arrays)
        info = [a for a in arrays if len(a) == 10 and any(x for x in a)]
        mid = self.counts()
        # who received something?
        gained = [n for n in self.names if n != issuer and
                  (mid[n]["recv_epr"] > before[n]["recv_epr"] or mid[n]["virt"] > before[n]["virt"])]
        if mid[issuer]["virt"] - before[issuer]["virt"] >= 2 or mid[issuer]["recv_epr"] > before[issuer]["recv_epr"]:
            gained.append(issuer)
        obs["receivers"] = gained
        peer = None
        if not obs["error"] and 0 <= rid < len(self.names) and sorted(self.names)[rid] != issuer:
            peer = sorted(self.names)[rid]
            DebugConnection.node_ids = dict(ids)
            psock = EPRSocket(issuer)

            def pprog(conn):
                if typ == "K":
                    psock.recv_keep(1)
                else:
                    psock.recv_measure(1)
                conn.flush()
            pm, pk = _recorded(("recv", app, ids[issuer], typ), [],
                               lambda: S.program(peer, pprog, epr_sockets=[psock], app_id=app))
            pp, tp = nq.host(peer)
            k = 0
            for m, kind in zip(pm, pk):
                if kind in ("InitNewAppMessage", "OpenEPRSocketMessage", "SubroutineMessage"):
                    nq.feed(pp, S.frame(k, m))
                    settle()
                    k += 1
            prep = S.parse_replies(tp.value())
            obs["peer_error"] = any(r[0] == "ErrorMessage" for r in prep)
            obs["peer_ent_info"] = any(r[0] == "ReturnArrayMessage" and len(r[2]) == 10 and any(r[2]) for r in prep)
            pinfo = [r[2] for r in prep if r[0] == "ReturnArrayMessage" and len(r[2]) == 10 and any(r[2])]
            if typ == "M":
                # measure-directly record: [type, create id, outcome, basis, ...] at both ends
                obs["md"] = [(a[2], a[3]) for a in info[:1]] + [(a[2], a[3]) for a in pinfo[:1]]
            pstop = pm[pk.index("StopAppMessage")]
        after = self.counts()
        obs["before"], obs["after"] = before, after
        obs["cmd_new"] = len(_CMD_NEW_CALLS) - new0
        obs["err_kinds"] = self.error_kinds(log0)
        obs["bell"] = self._bell(issuer, peer) if peer and not obs["error"] else None
        obs["reactor_stopped"] = nq.reactor_stopped
        # can the application go on?  second subroutine: one local qubit
        if peer is not None:
            pi, ti = nq.host(issuer)       # replies go to the most recent connection of a node
        t0 = len(ti.value())
        nq.feed(pi, S.frame(3, subs[1]))
        settle()
        rep2 = S.parse_replies(ti.value()[t0:])
        c2 = self.counts()
        obs["followup_ok"] = (not any(r[0] == "ErrorMessage" for r in rep2)
                              and any(r[0] == "MsgDoneMessage" for r in rep2)
                              and c2[issuer]["virt"] == after[issuer]["virt"] + 1
                              and c2[issuer]["qubitList"] == after[issuer]["qubitList"] + 1)
        # stop the application(s): everything is released
        nq.feed(pi, S.frame(4, stop))
        settle()
        if peer is not None:
            pp, tp = nq.host(peer)
            nq.feed(pp, S.frame(3, pstop))
            settle()
        fin = self.counts()
        obs["clean_after_stop"] = all(v["virt"] == 0 and v["sim"] == 0 and v["qubitList"] == 0 and v["numRegs"] == 0
                                      for v in fin.values()) and nq.all_locks_free()
        obs["final"] = fin
        return obs

    # -- several requests that must all be refused, in ONE application ----------
    def refusals(self, issuer, items):
        """One application of `issuer` sends one request per (remote node id, type) of `items`, each in its own
        subroutine (one EPR socket per distinct id); every one of them is expected to be refused.  Then the
        application allocates a local qubit and stops.  One observation per executed item, in the shape of
        `request`; the sequence ends early at the first item that was not refused without a trace (`dirty`: later
        requests of this application would not be judged from a clean state -- the caller rebuilds the network)."""
        S, nq = self.S, self.nq
        from netqasm.sdk import EPRSocket, Qubit
        from netqasm.sdk.connection import DebugConnection
        app = self.next_app
        self.next_app += 1
        items = [(int(r), t) for r, t in items]
        ids = {n: i for i, n in enumerate(sorted(self.names))}
        distinct = list(dict.fromkeys(r for r, _ in items))
        DebugConnection.node_ids = dict(ids)
        socks = {}
        for k, r in enumerate(distinct):
            alias = "%s%d" % (REMOTE_ALIAS, k)
            DebugConnection.node_ids[alias] = r
            socks[r] = EPRSocket(alias, k, k)

        def prog(conn):
            for r, t in items:
                if t == "K":
                    socks[r].create_keep(1)
                else:
                    socks[r].create_measure(1)
                conn.flush()
            Qubit(conn)
            conn.flush()
        msgs, mk = _recorded(("refusals", app, tuple(items)), [r for r, _ in items],
                             lambda: S.program(issuer, prog, epr_sockets=[socks[r] for r in distinct], app_id=app,
                                               max_qubits=len(items) + 2))
        subs = [m for m, k in zip(msgs, mk) if k == "SubroutineMessage"]
        nopen = mk.count("OpenEPRSocketMessage")
        if mk[:1 + nopen] != ["InitNewAppMessage"] + ["OpenEPRSocketMessage"] * nopen or nopen != len(distinct) \
                or len(subs) != len(items) + 1 or "StopAppMessage" not in mk:
            raise core.MachineryError("unexpected SDK message sequence %r" % (mk,))
        stop = msgs[mk.index("StopAppMessage")]
        pi, ti = nq.host(issuer)
        mid = 0
        stuck = {}
        settle = self._settler(stuck, "M")
        for m in msgs[:1 + nopen]:
            nq.feed(pi, S.frame(mid, m))
            settle()
            mid += 1
        if [r[0] for r in S.parse_replies(ti.value())] != ["MsgDoneMessage"] * (1 + nopen):
            raise core.MachineryError("InitNewApp / OpenEPRSocket of the application were not all answered with Done")
        out = []
        after = self.counts()
        for (rid, typ), sub in zip(items, subs):
            before = after
            t0, log0, new0 = len(ti.value()), len(nq.pylog), len(_CMD_NEW_CALLS)
            nq.feed(pi, S.frame(mid, sub))
            settle()
            rep = S.parse_replies(ti.value()[t0:])
            after = self.counts()
            arrays = [r[2] for r in rep if r[0] == "ReturnArrayMessage"]
            obs = {"app": app, "typ": typ, "in_sequence": len(out),
                   "issuer_replies": [r[0] for r in rep],
                   "error": any(r[0] == "ErrorMessage" for r in rep),
                   "unparsed": any(r[0] == "UNPARSED" for r in rep),
                   "done": [r[1] for r in rep if r[0] == "MsgDoneMessage"],
                   "ent_info": any(len(a) == 10 and any(x for x in a) for a in arrays),
                   "before": before, "after": after,
                   "cmd_new": len(_CMD_NEW_CALLS) - new0, "err_kinds": self.error_kinds(log0), "bell": None,
                   "reactor_stopped": nq.reactor_stopped, "followup_ok": True, "clean_after_stop": True}
            obs["receivers"] = [n for n in self.names if after[n]["recv_epr"] > before[n]["recv_epr"]
                                or after[n]["virt"] > before[n]["virt"]]
            # answered at all: the error and the completion of THIS message, nothing else
            obs["answered"] = obs["done"] == [mid]
            mid += 1
            obs["stuck"] = bool(stuck.get("stuck"))
            obs["dirty"] = not (obs["error"] and obs["answered"] and not obs["ent_info"] and not obs["unparsed"]
                                and before == after and obs["cmd_new"] == 0 and not obs["receivers"]
                                and not nq.reactor_stopped and not obs["stuck"])
            out.append(obs)
            if obs["dirty"]:
                return out
        # can the application go on after all these refusals?  one local qubit, then stop: everything is released
        t0 = len(ti.value())
        nq.feed(pi, S.frame(mid, subs[-1]))
        settle()
        rep2 = S.parse_replies(ti.value()[t0:])
        c2 = self.counts()
        last = out[-1] if out else {}
        last["followup_ok"] = (not any(r[0] == "ErrorMessage" for r in rep2)
                               and any(r[0] == "MsgDoneMessage" for r in rep2)
                               and c2[issuer]["virt"] == after[issuer]["virt"] + 1
                               and c2[issuer]["qubitList"] == after[issuer]["qubitList"] + 1)
        nq.feed(pi, S.frame(mid + 1, stop))
        settle()
        fin = self.counts()
        last["clean_after_stop"] = all(v["virt"] == 0 and v["sim"] == 0 and v["qubitList"] == 0 and v["numRegs"] == 0
                                       for v in fin.values()) and nq.all_locks_free()
        last["final"] = fin
        return out

    def _bell(self, a, b):
        """True iff some register holds exactly two qubits, one held by a and one by b, in the state |Phi+>"""
        try:
            for reg in self.nq.joint_state():
                hs = reg.get("holders") or []
                if reg.get("n") == 2 and len(hs) == 2 and all(h is not None for h in hs) \
                        and sorted(h[0] for h in hs) == sorted([a, b]):
                    return _is_phi_plus(reg["state"])
        except Exception as e:      # observation helper only
            return "error:" + type(e).__name__
        return False


class StartFailure(Exception):
    pass


class _SigStub:
    """`signal` inside start_qnodeos.py: the real start-up path must not install handlers in the checking process"""
    import signal as _s
    SIGTERM, SIGINT = _s.SIGTERM, _s.SIGINT

    @staticmethod
    def signal(*a):
        return None


class StartedBench(Bench):
    """Bench whose QNodeOS factories come from the REAL start-up path: for every node
    `simulaqron.start.start_qnodeos.main(name, network_name, log_level)` runs on the fake reactor (reads the config
    file, builds the NetQASMFactory, connects to the node's virtual node, and on success listens); the connect attempt
    it issues is wired to the node's virtual node of the NqNet, and the factory is taken from the reactor's listen
    table.  The config file holds several networks; `network_name` is the one the nodes are started in.

    networks = {network name: {"nodes": [names in file order], "topology": ...}} in file order (the started one is
    written first by simnet)."""

    def __init__(self, names, network_name, networks, seed):
        import sys
        from .. import simnet as S
        from netqasm.sdk.shared_memory import SharedMemoryManager
        self.S = S
        SharedMemoryManager.reset_memories()
        self.names, self.topology = list(names), networks[network_name]["topology"]
        self.network_name, self.networks = network_name, networks
        extra = {k: v for k, v in networks.items() if k != network_name}
        self.nq = nq = S.NqNet(self.names, topology=self.topology, max_qubits=6, rng=random.Random(seed),
                               network_name=network_name, extra_networks=extra)
        self.next_app = 0
        _wrap_cmd_new(nq._EX)
        import simulaqron.start          # noqa: F401  (the package rebinds the names to main(): take the module)
        SQ = sys.modules["simulaqron.start.start_qnodeos"]
        R = nq.clock
        if SQ.reactor is not R:
            raise core.MachineryError("start_qnodeos.py holds a real reactor")
        SQ.signal = _SigStub
        handler0 = SQ.SubroutineHandler
        vport = {n: nq.nodes[n].myID.port for n in self.names}
        self.direct = dict(nq.facs)
        try:
            for n in self.names:
                # per-node handler/executioner classes (class-level counters are per process in a deployment)
                SQ.SubroutineHandler = type(nq.facs[n].backend)
                nserv, ncli = len(R.tcpServers), len(R.tcpClients)
                try:
                    SQ.main(n, network_name, "WARNING")
                except Exception as e:
                    raise StartFailure("start_qnodeos.main(%r, %r) raised %s: %s" % (n, network_name, type(e).__name__, e))
                R.hasStopped = False           # MemoryReactor.run() returns at once and marks the reactor stopped
                fresh = list(R.tcpClients[ncli:])
                del R.tcpClients[ncli:]
                del R.connectors[ncli:]
                if len(fresh) != 1:
                    raise StartFailure("start_qnodeos.main(%r, %r) issued %d connect attempts" % (n, network_name, len(fresh)))
                _host, port, cfac = fresh[0][:3]
                if port != vport[n]:
                    raise StartFailure("QNodeOS of %s in network %r connects to port %s, its virtual node listens on %s" % (
                        n, network_name, port, vport[n]))
                tag = "qnos:%s" % n
                nq._wire(n, cfac, "%s->%s" % (tag, n), "%s<-%s" % (tag, n), tag)
                mine = nq._pipes[-2:]
                while any(p.nreal for p in mine):
                    for p in mine:
                        if p.nreal:
                            nq.deliver(p.cid)
                served = R.tcpServers[nserv:]
                if len(served) != 1 or getattr(served[0][1], "name", None) != n:
                    raise StartFailure("QNodeOS of %s did not start listening after its virtual node accepted (%d servers)" % (
                        n, len(served)))
                qport = nq.qnodeos_net.hostDict[n].port
                if served[0][0] != qport:
                    raise StartFailure("QNodeOS of %s in network %r listens on port %s, configured %s" % (
                        n, network_name, served[0][0], qport))
                nq.facs[n] = served[0][1]
        finally:
            SQ.SubroutineHandler = handler0
            del R.tcpServers[:]


def _is_phi_plus(rows):
    """rows = generator matrix of a 2-qubit stabilizer state as bit strings `x1 x2 z1 z2 s` (Y = x and z set,
    Hermitian): the group is {II, XX, ZZ, -YY}"""
    letters = {(0, 0): "I", (1, 0): "X", (0, 1): "Z", (1, 1): "Y"}
    gens = set()
    for r in rows:
        bits = [int(c) for c in r.strip()]
        if len(bits) != 5:
            return False
        gens.add((bits[4], letters[(bits[0], bits[2])] + letters[(bits[1], bits[3])]))
    return len(gens) == 2 and gens <= {(0, "XX"), (0, "ZZ"), (1, "YY")}


_CMD_NEW_CALLS = []

# The raw host messages of an SDK program depend only on the application id, the remote node id(s), the socket ids and
# the request type -- not on the names of the nodes or the topology -- so each distinct program is recorded from the
# netqasm SDK once per run and the bytes are reused (VERIF_C12_NOCACHE=1: record every time and compare).
_PROGRAMS = {}


def _recorded(key, rids, record):
    """(raw messages, message kinds) of the SDK program `record()`; the remote node ids the create_epr instructions
    of the program will find in their registers must be exactly `rids` (the binary encoding holds signed 32-bit
    values and wraps silently: an id the encoder cannot represent must not be judged as if it had been sent)"""
    from netqasm.backend.messages import deserialize_host_msg
    hit = _PROGRAMS.get(key)
    if hit is not None and not os.environ.get("VERIF_C12_NOCACHE"):
        return hit
    msgs = [bytes(m) for m in record()]
    mk = [type(deserialize_host_msg(m)).__name__ for m in msgs]
    if hit is not None and hit != (msgs, mk):
        raise core.MachineryError("SDK program %r is not a function of its key" % (key,))
    sent = _encoded_remote_ids(msgs, mk)
    if sent != list(rids):
        raise core.MachineryError("SDK program %r: create_epr towards node ids %r encoded, %r wanted" % (key, sent, rids))
    _PROGRAMS[key] = (msgs, mk)
    return msgs, mk


def _encoded_remote_ids(msgs, mk):
    """the value of the remote-node-id register at every create_epr of the recorded subroutines (straight-line SDK
    code: the last `set` of that register)"""
    from netqasm.backend.messages import deserialize_host_msg
    from netqasm.lang.parsing import deserialize
    out = []
    for m, k in zip(msgs, mk):
        if k != "SubroutineMessage":
            continue
        regs = {}
        for ins in deserialize(deserialize_host_msg(m).subroutine).instructions:
            nm = type(ins).__name__
            if nm == "SetInstruction":
                regs[str(ins.reg)] = ins.imm.value
            elif nm == "CreateEPRInstruction":
                out.append(regs.get(str(ins.operands[0])))
    return out


INT32_MIN, INT32_MAX = -2 ** 31, 2 ** 31 - 1


def _wrap_cmd_new(EX):
    cls = EX.VanillaSimulaQronExecutioner
    if getattr(cls.cmd_new, "_c12_wrapped", False):
        return
    orig = cls.cmd_new

    def cmd_new(self, *a, **k):
        _CMD_NEW_CALLS.append((self.name, a, tuple(sorted(k.items()))))
        return orig(self, *a, **k)
    cmd_new._c12_wrapped = True
    cls.cmd_new = cmd_new


# --------------------------------------------------------------------------
# case generation
# --------------------------------------------------------------------------

def all_topologies(names):
    """None plus every dict: each node absent or mapped to any subset of the nodes (self included)"""
    yield None
    subsets = [list(c) for k in range(len(names) + 1) for c in itertools.combinations(names, k)]
    per_node = [[None] + subsets for _ in names]
    for choice in itertools.product(*per_node):
        yield {n: list(ns) for n, ns in zip(names, choice) if ns is not None}


def random_topology(rng, names):
    if rng.random() < 0.08:
        return None
    topo = {}
    order = list(names)
    rng.shuffle(order)
    for n in order:
        if rng.random() < 0.25:
            continue                                   # node absent from the topology
        ns = [m for m in names if m != n and rng.random() < 0.45]
        if rng.random() < 0.2:
            ns.append(n)                               # self-loop listed
        if rng.random() < 0.12:
            ns.append(rng.choice(STRANGERS))           # a neighbour that is no node
        rng.shuffle(ns)
        topo[n] = ns
    if rng.random() < 0.2:
        topo[rng.choice(STRANGERS)] = [rng.choice(names)]   # a key that is no node
    return topo


def started_cases(rng, nrandom):
    """(names in file order, name of the network the nodes are started in, {network: {"nodes", "topology"}}):
    config files with two or three networks over the same nodes whose topologies differ"""
    abc = ["Alice", "Bob", "Charlie"]
    lab = {"Alice": ["Bob"], "Bob": ["Alice", "Charlie"], "Charlie": ["Alice"]}       # directed: Alice -/-> Charlie
    ring2 = {"Bob": ["Alice"], "Alice": ["Bob"]}
    out = [
        # nodes started in "lab" (restricted) while "default" is fully connected, and the other way round
        (abc, "lab", {"lab": {"nodes": abc, "topology": lab}, "default": {"nodes": abc, "topology": None}}),
        (abc, "lab", {"lab": {"nodes": abc, "topology": None}, "default": {"nodes": abc, "topology": lab}}),
        # started in "default", another network in the file is restricted differently
        (["Charlie", "Alice", "Bob"], "default",
         {"default": {"nodes": ["Charlie", "Alice", "Bob"], "topology": lab}, "lab": {"nodes": abc, "topology": {}}}),
        # no network called "default" in the file at all
        (["Bob", "Alice"], "lab", {"lab": {"nodes": ["Bob", "Alice"], "topology": ring2},
                                   "office": {"nodes": ["Alice", "Bob"], "topology": {"Alice": []}}}),
    ]
    for _ in range(nrandom):
        n = rng.choice([2, 3, 3, 4])
        names = pick_names(rng, n)
        netnames = rng.sample(["default", "default", "lab", "net2", "Zeta"], rng.choice([2, 2, 3]))
        netnames = list(dict.fromkeys(netnames))
        if len(netnames) < 2:
            netnames.append("lab2")
        nets = {}
        for k, nn in enumerate(netnames):
            order = list(names)
            if k:
                rng.shuffle(order)
            topo = random_topology(rng, names) if rng.random() < 0.8 else None
            if k and topo == nets[netnames[0]]["topology"]:
                topo = None if topo is not None else {names[0]: []}
            nets[nn] = {"nodes": order, "topology": topo}
        started = netnames[0]
        # simnet writes the started network first; node order of the started network = names
        out.append((names, started, nets))
    return out


def pick_names(rng, n):
    names = rng.sample(POOL, n)
    return names


# --------------------------------------------------------------------------
# run
# --------------------------------------------------------------------------

P_FULL3 = float(os.environ.get("VERIF_C12_PFULL", "0.03"))      # quick tier, dict topologies over 3 nodes
P_THIN3 = float(os.environ.get("VERIF_C12_PTHIN", "0.5"))
LARGE_IDS = [INT32_MIN, -(2 ** 16) + 1, 2 ** 16 + 1, INT32_MAX]     # the limits of a register, and +-2^16 + 1


def boundary_ids(n):
    """the signed id range around both boundaries of `0 <= id < n`, then large magnitudes: -n-1 .. n+1 (ids -n .. -1
    are the positions Python counts from the end of a list), the register limits +-2^31 (the largest magnitudes the
    NetQASM encoding can carry) and two ids that equal a valid id modulo 2^16"""
    return list(range(-n - 1, n + 2)) + LARGE_IDS


def id_class(rid, n):
    if -n <= rid < 0:
        return "negative-wraps-to-a-node"
    if rid < 0:
        return "negative-large" if rid < -n - 1 else "negative-below-minus-n"
    return "first-too-large" if rid == n else "too-large" if rid <= n + 250 else "positive-large"


def boundary_items(n, done_keep, mode, brng, complete=False):
    """[(remote id, type)] of the out-of-range ids of `boundary_ids(n)`.
    mode "full": every id of -n-1 .. n+1 with create-and-keep and with measure-directly (minus the create-and-keep
    requests the main stage has already made, `done_keep`), every large id with one type, alternating along the list
    from a drawn start (`complete`: both types);
    mode "thin": every id of -n-1 .. n+1 once, the type drawn per id, plus one negative and one positive large id"""
    out = []
    small = [r for r in range(-n - 1, n + 2) if not 0 <= r < n]
    if mode == "full":
        for rid in small:
            out += [(rid, t) for t in "KM" if not (t == "K" and rid in done_keep)]
        flip = brng.randrange(2)
        for i, rid in enumerate(LARGE_IDS):
            out += [(rid, t) for t in "KM"] if complete else [(rid, "KM"[(i + flip) % 2])]
    else:
        out = [(rid, "M" if rid in done_keep else brng.choice("KM")) for rid in small]
        out += [(brng.choice(LARGE_IDS[:2]), brng.choice("KM")), (brng.choice(LARGE_IDS[2:]), brng.choice("KM"))]
    return out


def judge(res, case, obs, exp_allowed, exp_remote, cls):
    """the property on one real execution"""
    names, issuer = case["names"], case["issuer"]
    before, after = obs["before"], obs["after"]
    changed = {n: (before[n], after[n]) for n in names if before[n] != after[n]}
    rep = {**case, "class": cls, "observed": {k: obs[k] for k in ("issuer_replies", "error", "ent_info", "receivers",
                                                                 "cmd_new", "err_kinds", "bell", "peer_error", "md",
                                                                 "answered")
                                              if k in obs}, "changed": changed}
    if obs["unparsed"]:
        res.violation("reply-unparsable", "host replies of the issuer do not parse", rep)
    if exp_allowed:
        if obs["error"] or obs.get("peer_error"):
            res.violation("allowed-but-refused:" + cls,
                          "%s -> id %d (%s) is allowed by the topology but the request failed (%s)" % (
                              issuer, case["rid"], exp_remote, obs["err_kinds"] or "ErrorMessage"), rep)
            return
        if obs.get("typ") == "M":
            # measure-directly: two qubits created and measured by the issuer's node, nothing left anywhere, both
            # hosts hold a record, and the two Z outcomes of |Phi+> agree
            md = obs.get("md") or []
            ok = (obs["ent_info"] and obs.get("peer_ent_info") and obs["cmd_new"] == 2
                  and obs["receivers"] == [exp_remote]
                  and all(after[n] == before[n] for n in names)
                  and len(md) == 2 and md[0] == md[1] and md[0][0] in (0, 1))
            if not ok:
                res.violation("allowed-no-pair:" + cls,
                              "%s -> %s (measure directly) allowed and not refused, but not: one pair created, measured, "
                              "one record with equal outcomes at exactly these two nodes, no qubit left" % (
                                  issuer, exp_remote), rep)
            return
        ok = (obs["ent_info"] and obs.get("peer_ent_info")
              and after[issuer]["virt"] == before[issuer]["virt"] + 1
              and after[exp_remote]["virt"] == before[exp_remote]["virt"] + 1
              and after[issuer]["qubitList"] == before[issuer]["qubitList"] + 1
              and after[exp_remote]["qubitList"] == before[exp_remote]["qubitList"] + 1
              and sum(v["sim"] for v in after.values()) == sum(v["sim"] for v in before.values()) + 2
              and all(after[n] == before[n] for n in names if n not in (issuer, exp_remote))
              and obs["bell"] is True)
        if not ok:
            res.violation("allowed-no-pair:" + cls,
                          "%s -> %s allowed and not refused, but no entangled pair shared by exactly these two nodes" % (
                              issuer, exp_remote), rep)
    else:
        if not obs["error"]:
            res.violation("forbidden-not-refused:" + cls,
                          "%s -> id %d must be refused (%s) but no error reached the host%s" % (
                              issuer, case["rid"], cls, "; entanglement created" if obs["ent_info"] else ""), rep)
        elif obs["ent_info"]:
            res.violation("refused-with-ent-info:" + cls, "error and entanglement information for the same request", rep)
        if changed or obs["cmd_new"]:
            res.violation("refused-but-created:" + cls,
                          "%s -> id %d refused (%s) but qubit state changed at %s (cmd_new calls: %d)" % (
                              issuer, case["rid"], cls, sorted(changed), obs["cmd_new"]), rep)
        if obs["error"] and obs.get("answered") is False:
            res.violation("refused-not-completed:" + cls,
                          "%s -> id %d refused (%s) but the message was not completed with exactly one Done carrying "
                          "its id (%r)" % (issuer, case["rid"], cls, obs["issuer_replies"]), rep)


def impl_lines(case, obs):
    """canonical observations of the implementation for the `guard` and `exec` lines"""
    if obs["error"]:
        ks = obs["err_kinds"]
        kind = ks[0] if len(ks) == 1 else "?"
        return "err " + kind, "raised %s created=%d" % (kind, obs["cmd_new"])
    rc = obs["receivers"]
    r = rc[0] if len(rc) == 1 else "?" + ",".join(rc)
    return "proceed " + r, "done %s created=%d" % (r, obs["cmd_new"])


def same(model, impl):
    """`?` in the implementation's observation = error text not recognised: compare the decision only"""
    if "?" in impl:
        return model.split(" ")[0] == impl.split(" ")[0]
    return model == impl


def run(ctx):
    core.scratch_repo()
    res = core.Result()
    rng = ctx.rng
    res.rule = ("exhaustive: every topology over 1..3 nodes (None, or each node absent / mapped to any subset of the "
                "nodes incl. itself: 4 + 26 + 730) x every issuer x every remote id 0..n (n = unknown; thorough: one "
                "more unknown id); random: topologies over 4-5 nodes (absent nodes, asymmetric lists, self-loops, "
                "stranger names as keys and neighbours) x all ordered pairs + self + two unknown ids; one "
                "real network per topology, one application per request (create-and-keep); boundary-id stage (remote "
                "ids are register values, signed 32 bit): every issuer x every id of -n-1..n+1 x {create-and-keep, "
                "measure-directly} + the ids -2^31, -2^16+1, 2^16+1, 2^31-1, on every topology over 1-2 nodes, every "
                "random and every started topology and, over 3 nodes, on None, {}, the complete graph and a drawn %g of "
                "the dicts (thorough: all); on a drawn %g of the other 3-node dicts one issuer sends every out-of-range "
                "id of -n-1..n+1, one negative and one positive large id and one measure-directly request to a node; the "
                "out-of-range requests of one issuer are consecutive subroutines of ONE application (one socket per id), "
                "judged one by one; plus config files with 2-3 networks of different " % (P_FULL3, P_THIN3) +
                "topologies whose nodes are started through the real start_qnodeos.main(name, network) (4 fixed + random); "
                "node names in random (non-alphabetical) file order; non-trivial = a topology is configured and "
                "the id is known; distinct by (names, topology, issuer, id)")
    lines, expect = [], []

    def q(line, want, case, loose=False):
        lines.append(line)
        expect.append((want, case, loose))

    seen_followup_bad, seen_unclean = [], []
    stopped, spent, cpu0 = [0], [0.0], time.process_time()
    # choices of the boundary-id stage come from their own stream (the cases of the main stage do not depend on them)
    brng = random.Random("C12-boundary-%d" % ctx.seed)

    def do_topology(names, topology, fresh_each=False, started=None, boundary="full"):
        """started = (network name, networks): the factories come from the real start-up path (StartedBench);
        boundary = "full": every issuer x the whole signed id range around the boundaries x both request types;
        "thin": one issuer, every boundary id with one of the two types; None: main stage only"""
        seed = rng.randrange(2 ** 31)
        extra = {"network": started[0], "networks": started[1]} if started else {}

        def mk_bench(names, topology, seed):
            return StartedBench(names, started[0], started[1], seed) if started else Bench(names, topology, seed)
        try:
            bench = mk_bench(names, topology, seed)
        except StartFailure as e:
            res.violation("start-path:qnodeos-not-up", "network %r of %s: %s" % (started[0], sorted(started[1]), e),
                          {"names": names, "topology": topology, **extra})
            res.case({"names": names, "topology": topology, **extra}, nontrivial=True)
            return
        tok = topo_token(topology)
        n = len(names)
        ordered = sorted(names)
        res.count("config-file-order:" + ("alphabetical" if list(names) == ordered else "not-alphabetical"))
        # -- unit level: is_adjacent and the node ids, straight from the factory
        from simulaqron.general.host_config import get_node_id_from_net_config
        by_id = sorted(names, key=lambda x: get_node_id_from_net_config(bench.nq.qnodeos_net, x))
        if by_id != ordered or sorted(get_node_id_from_net_config(bench.nq.qnodeos_net, x) for x in names) != list(range(n)):
            res.violation("node-id-not-sorted-index", "node ids are not the positions in the sorted names", {"names": names})
        q("ids " + ",".join(names), ",".join(by_id), {"names": names, "what": "node ids"})
        for me in names:
            fac = bench.nq.facs[me]
            if fac.topology != topology:
                res.violation("topology-not-loaded", "factory.topology of %s differs from the topology configured for its "
                              "network%s" % (me, " %r" % started[0] if started else ""),
                              {"names": names, "topology": topology, "loaded": fac.topology, "me": me, **extra})
            for other in names + STRANGERS[:1]:
                got = bool(fac.is_adjacent(other))
                want = topology is None or other in topology.get(me, [])
                if got != want:
                    res.violation("is_adjacent-wrong", "is_adjacent(%s) at %s = %s" % (other, me, got),
                                  {"names": names, "topology": topology, "me": me, "other": other, **extra})
                q("adj %s | %s | %s" % (tok, me, other), "true" if got else "false",
                  {"names": names, "topology": topology, "me": me, "other": other})
                res.count("is_adjacent")
        # -- requests through the real executioner
        rids = list(range(n)) + [n]                        # every node id, and the first unknown one
        if n >= 4 or ctx.thorough:
            rids.append(n + rng.choice([1, 2, 7, 250]))    # a further unknown id

        def account(issuer, rid, typ, obs, sequence=None):
            """judge one real execution, queue its model lines, count it; True iff it raised no violation"""
            case = {"names": names, "topology": topology, "issuer": issuer, "rid": rid, **extra}
            if typ != "K":
                case["typ"] = typ
            if sequence is not None:
                case["sequence"] = [list(x) for x in sequence]
            exp_allowed, exp_remote, cls = oracle_allowed(names, topology, issuer, rid)
            nv = len(res.violations)
            judge(res, case, obs, exp_allowed, exp_remote, cls)
            g, e = impl_lines(case, obs)
            q("guard %s | %s | %s | %d" % (",".join(names), tok, issuer, rid), g, case)
            q("exec %s | %s | %s | %d" % (",".join(names), tok, issuer, rid), e, case, loose=True)
            res.case(case, nontrivial=topology is not None and 0 <= rid < n)
            res.count(cls)
            res.count("n=%d" % n)
            if typ != "K":
                res.count("measure-directly")
            if cls == "unknown-id":
                res.count("unknown-id:" + id_class(rid, n))
            if obs["reactor_stopped"]:
                stopped[0] += 1
            if not obs["followup_ok"]:
                seen_followup_bad.append(case)
            if not obs["clean_after_stop"]:
                seen_unclean.append((case, obs["final"]))
            return len(res.violations) == nv

        for issuer in names:
            for rid in rids:
                if fresh_each and bench.next_app > 0:
                    bench = mk_bench(names, topology, seed)
                obs = bench.request(issuer, rid)
                account(issuer, rid, "K", obs)
                if not obs["clean_after_stop"]:
                    bench = mk_bench(names, topology, seed)      # do not let leftovers leak into the next request

        tb = time.process_time()
        # -- the signed id range around the boundaries (ids are register values: signed 32 bit), both request types
        for issuer in (names if boundary == "full" else [brng.choice(names)] if boundary == "thin" else []):
            items = boundary_items(n, rids, boundary, brng, complete=ctx.thorough)
            k = 0
            while k < len(items):
                if fresh_each and bench.next_app > 0:
                    bench = mk_bench(names, topology, seed)
                batch = bench.refusals(issuer, items[k:])
                for (rid, typ), obs in zip(items[k:], batch):
                    if not obs["dirty"]:
                        account(issuer, rid, typ, obs)
                        continue
                    # not refused without a trace: the same request on its own as the first request in a fresh network
                    # (the replay of a violation is then one request); if it is clean there, the failure needs the
                    # earlier refused requests of the same application
                    bench.nq.close()
                    bench = mk_bench(names, topology, seed)
                    if account(issuer, rid, typ, bench.request(issuer, rid, typ)):
                        if account(issuer, rid, typ, obs, sequence=items[k:k + obs["in_sequence"] + 1]):
                            res.count("in-sequence:not-refused-without-a-trace-but-no-violation")
                    bench.nq.close()
                    bench = mk_bench(names, topology, seed)
                k += len(batch)
                if batch and not batch[-1]["clean_after_stop"]:
                    bench.nq.close()
                    bench = mk_bench(names, topology, seed)
            # every id that names a node, as a measure-directly request
            for rid in (range(n) if boundary == "full" else [brng.randrange(n)]):
                if fresh_each and bench.next_app > 0:
                    bench = mk_bench(names, topology, seed)
                obs = bench.request(issuer, rid, "M")
                account(issuer, rid, "M", obs)
                if not obs["clean_after_stop"] or obs.get("stuck"):
                    bench.nq.close()
                    bench = mk_bench(names, topology, seed)
        spent[0] += time.process_time() - tb
        bench.nq.close()

    # ---- replay of a recorded failing input
    if ctx.replay and isinstance(ctx.replay.get("input"), dict) and "names" in ctx.replay["input"]:
        c = ctx.replay["input"]
        try:
            bench = StartedBench(c["names"], c["network"], c["networks"], 1) if c.get("networks") else \
                Bench(c["names"], c.get("topology"), 1)
        except StartFailure as e:
            res.violation("start-path:qnodeos-not-up", str(e), c)
            res.case(c)
            return res
        if "issuer" in c:
            exp_allowed, exp_remote, cls = oracle_allowed(c["names"], c["topology"], c["issuer"], c["rid"])
            if c.get("sequence"):       # the request as the last one of several refused requests of one application
                obs = bench.refusals(c["issuer"], [tuple(x) for x in c["sequence"]])[-1]
            else:
                obs = bench.request(c["issuer"], c["rid"], c.get("typ", "K"))
            case = {k: c[k] for k in ("names", "topology", "issuer", "rid", "typ", "sequence", "network", "networks")
                    if k in c}
            judge(res, case, obs, exp_allowed, exp_remote, cls)
        elif "loaded" in c:
            fac = bench.nq.facs[c["me"]]
            if fac.topology != c["topology"]:
                res.violation("topology-not-loaded", "factory.topology of %s differs from the topology configured for its "
                              "network" % c["me"], dict(c, loaded=fac.topology))
            case = c
        elif "me" in c:
            got = bool(bench.nq.facs[c["me"]].is_adjacent(c["other"]))
            if got != (c["topology"] is None or c["other"] in c["topology"].get(c["me"], [])):
                res.violation("is_adjacent-wrong", "is_adjacent(%s) at %s = %s" % (c["other"], c["me"], got), c)
            case = c
        else:
            from simulaqron.general.host_config import get_node_id_from_net_config
            ids = [get_node_id_from_net_config(bench.nq.qnodeos_net, x) for x in c["names"]]
            if ids != [sorted(c["names"]).index(x) for x in c["names"]]:
                res.violation("node-id-not-sorted-index", "node ids are not the positions in the sorted names", c)
            case = c
        res.case(case)
        return res

    # ---- exhaustive small networks
    full3 = ctx.thorough or os.environ.get("VERIF_C12_SAMPLE", "") == ""
    for n in (1, 2, 3):
        names = pick_names(rng, n)
        topos = list(all_topologies(names))
        if n == 3 and not full3:
            # debugging aid only (VERIF_C12_SAMPLE=k): k of the 729 dicts plus None
            topos = [None] + rng.sample(topos[1:], min(int(os.environ["VERIF_C12_SAMPLE"]), len(topos) - 1))
        for t in topos:
            # the boundary-id stage: complete on every topology over 1-2 nodes, and over 3 nodes on None, the empty
            # dict, the complete graph and a drawn share of the 729 dicts (thorough: all of them); on the others one
            # issuer sends every out-of-range boundary id once
            if ctx.thorough or n < 3 or not t or all(set(t.get(x, [])) == set(names) - {x} for x in names):
                mode = "full"
            else:
                mode = "full" if brng.random() < P_FULL3 else "thin" if brng.random() < P_THIN3 else None
            do_topology(names, t, boundary=mode)
            res.count("boundary-stage:%s" % mode)
        res.count("topologies-n%d" % n, len(topos))
    res.exhaustive = full3

    # ---- random larger networks
    for _ in range(ctx.scale(14, 160)):
        n = rng.choice([4, 5, 5])
        names = pick_names(rng, n)
        do_topology(names, random_topology(rng, names), fresh_each=ctx.thorough and rng.random() < 0.2)
        res.count("topologies-random")

    # ---- the real start-up path: several networks in one file, the nodes started in one of them
    for names, net_name, networks in started_cases(rng, ctx.scale(5, 60)):
        do_topology(names, networks[net_name]["topology"], started=(net_name, networks))
        res.count("started-through-start_qnodeos.main")
        res.count("started-in:" + ("default" if net_name == "default" else "other-network")
                  + ("" if "default" in networks else ":no-default-network-in-file"))

    if seen_followup_bad:
        res.notes.append("after %d request(s) the same application could not allocate a local qubit afterwards; first: %r"
                         % (len(seen_followup_bad), seen_followup_bad[0]))
    if seen_unclean:
        res.notes.append("after %d request(s) StopApp did not leave all nodes empty; first: %r"
                         % (len(seen_unclean), seen_unclean[0]))
    res.notes.append("boundary-id stage (signed ids, measure-directly): %.1f s of %.1f s CPU time of the cases" % (
        spent[0], time.process_time() - cpu0))
    res.notes.append("reactor.stop() seen after %d request(s) (a refusal sends ErrorMessage + Done and does not stop the node)"
                     % stopped[0])

    # ---- tie
    if ctx.lean_ok and lines:
        out = core.lean_run("adjacency", lines)
        for line, got, (want, case, loose) in zip(lines, out, expect):
            res.traces += 1
            g = got
            if loose:       # `exec`: the model also reports whether unrecognised statements ran after the creation
                g = got.split(" unrecog=")[0]
                if got.startswith("raised") and not got.endswith("unrecog=false"):
                    res.tie_break("statement skeleton: an unrecognised statement runs before a refusal", case, got, want)
                    continue
            if not same(g, want):
                res.tie_break("Adjacency model vs real factory/executioner on `%s`" % line.split(" ")[0], case, got, want)
    return res


def search(ctx, res, broken):
    """Targeted search, run when a proof obligation or the model/implementation correspondence broke and no case of
    `run` showed a failing input.  The oracle (`judge`) on single requests, each the only request of its application:
    (1) FIRST the boundary ids (`boundary_ids`: -n-1 .. n+1, then -2^31, -2^16+1, 2^16+1, 2^31-1) x create-and-keep
        and measure-directly x every issuer, over 2..5 nodes in non-alphabetical file order, with no topology, the
        complete graph and a directed ring (a mis-resolved id shows only if the node it resolves to is allowed);
    (2) then ids drawn from the whole register range (uniform, around multiples of n and of powers of two, small
        negatives) on random topologies.
    Stops at the end of the first network with a failing input."""
    core.scratch_repo()
    rng = random.Random("C12-search-%d" % ctx.seed)
    tried = [0, 0]

    def sweep(names, topology, requests, stage):
        """requests = [(issuer, id, type)]; True iff a failing input was found"""
        nv = len(res.violations)
        seed = rng.randrange(2 ** 31)
        bench = Bench(names, topology, seed)
        for issuer, rid, typ in requests:
            case = {"names": names, "topology": topology, "issuer": issuer, "rid": rid}
            if typ != "K":
                case["typ"] = typ
            exp_allowed, exp_remote, cls = oracle_allowed(names, topology, issuer, rid)
            obs = bench.request(issuer, rid, typ)
            judge(res, case, obs, exp_allowed, exp_remote, cls)
            res.case(case, nontrivial=topology is not None and 0 <= rid < len(names))
            res.count("search:" + cls)
            tried[stage] += 1
            if not obs["clean_after_stop"] or len(res.violations) > nv:
                bench.nq.close()
                bench = Bench(names, topology, seed)
        bench.nq.close()
        return len(res.violations) > nv

    def done(found):
        res.notes.append("targeted search: %d boundary-id requests (ids -n-1..n+1 and the register limits, both request "
                         "types, every issuer, 2-5 nodes, no topology / complete graph / directed ring), then %d requests "
                         "with ids drawn from the whole register range on random topologies: %s" % (
                             tried[0], tried[1], "failing input found" if found else "no failing input"))

    # (1) the boundary ids
    for n in (2, 3, 4, 5):
        names = pick_names(rng, n)
        if names == sorted(names):
            names = names[::-1]
        ring = {a: [names[(i + 1) % n]] for i, a in enumerate(names)}
        complete = {a: [b for b in names if b != a] for a in names}
        for topology in (None, complete, ring):
            reqs = [(issuer, rid, typ) for rid in boundary_ids(n) for typ in "KM" for issuer in names]
            if sweep(names, topology, reqs, 0):
                return done(True)
    # (2) the whole register range
    for _ in range(ctx.scale(30, 200)):
        n = rng.choice([2, 3, 4, 5])
        names = pick_names(rng, n)
        topology = rng.choice([None, random_topology(rng, names), {a: [b for b in names if b != a] for a in names}])
        reqs = []
        for issuer in names:
            for _k in range(6):
                kind = rng.randrange(5)
                if kind == 0:
                    rid = rng.randint(INT32_MIN, INT32_MAX)
                elif kind == 1:
                    rid = rng.choice([-1, 1]) * rng.randrange(0, 40) * n + rng.randrange(-1, n + 1)
                elif kind == 2:
                    rid = rng.choice([-1, 1]) * 2 ** rng.choice([7, 8, 15, 16, 24, 30]) + rng.randrange(-n - 1, n + 2)
                elif kind == 3:
                    rid = -rng.randrange(1, 3 * n + 2)
                else:
                    rid = rng.randrange(0, 3 * n + 2)
                reqs.append((issuer, max(INT32_MIN, min(INT32_MAX, rid)), rng.choice("KM")))
        if sweep(names, topology, reqs, 1):
            return done(True)
    return done(False)

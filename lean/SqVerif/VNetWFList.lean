import SqVerif.VNetSpec
/-
L2 — generic list lemmas used by the well-formedness proofs (C02 / C07).
Core Lean only.
-/
namespace SqVerif.VNet.WFP

open List

/-- `filterMap` over a duplicate-free list is duplicate-free iff the partial map is injective on it -/
theorem nodup_filterMap_iff {α β} (f : α → Option β) {l : List α} (hl : l.Nodup) :
    (l.filterMap f).Nodup ↔ ∀ a ∈ l, ∀ b ∈ l, ∀ x, f a = some x → f b = some x → a = b := by
  induction l with
  | nil => simp
  | cons a l ih =>
    rw [nodup_cons] at hl
    have ih := ih hl.2
    cases hfa : f a with
    | none =>
      rw [filterMap_cons_none hfa, ih]
      constructor
      · intro h x hx y hy v hxv hyv
        rcases mem_cons.1 hx with rfl | hx
        · rw [hfa] at hxv; cases hxv
        · rcases mem_cons.1 hy with rfl | hy
          · rw [hfa] at hyv; cases hyv
          · exact h x hx y hy v hxv hyv
      · intro h x hx y hy v hxv hyv
        exact h x (mem_cons_of_mem _ hx) y (mem_cons_of_mem _ hy) v hxv hyv
    | some v =>
      rw [filterMap_cons_some hfa, nodup_cons, ih]
      constructor
      · rintro ⟨hv, h⟩ x hx y hy w hxw hyw
        rcases mem_cons.1 hx with rfl | hx
        · rcases mem_cons.1 hy with rfl | hy
          · rfl
          · exfalso; apply hv
            rw [hfa] at hxw; cases hxw
            exact mem_filterMap.2 ⟨y, hy, hyw⟩
        · rcases mem_cons.1 hy with hya | hy
          · exfalso; apply hv
            rw [hya, hfa] at hyw; cases hyw
            exact mem_filterMap.2 ⟨x, hx, hxw⟩
          · exact h x hx y hy w hxw hyw
      · intro h
        refine ⟨?_, fun x hx y hy w hxw hyw => h x (mem_cons_of_mem _ hx) y (mem_cons_of_mem _ hy) w hxw hyw⟩
        intro hv
        obtain ⟨y, hy, hyv⟩ := mem_filterMap.1 hv
        have := h a (mem_cons_self) y (mem_cons_of_mem _ hy) v hfa hyv
        subst this
        exact hl.1 hy

/-- a list is a permutation of `range k` iff it is duplicate-free with exactly the members `< k` -/
theorem perm_range_iff {l : List Nat} {k : Nat} :
    l.Perm (List.range k) ↔ l.Nodup ∧ ∀ p, p ∈ l ↔ p < k := by
  constructor
  · intro h
    refine ⟨h.nodup_iff.2 nodup_range, fun p => ?_⟩
    rw [h.mem_iff, mem_range]
  · rintro ⟨hn, hm⟩
    rw [perm_ext_iff_of_nodup hn nodup_range]
    intro a; rw [hm, mem_range]

/-- pigeonhole: a duplicate-free list contained in another list is not longer -/
theorem nodup_subset_length_le {α} [DecidableEq α] :
    ∀ {l m : List α}, l.Nodup → (∀ a ∈ l, a ∈ m) → l.length ≤ m.length
  | [], _, _, _ => by simp
  | a :: l, m, hl, hs => by
    rw [nodup_cons] at hl
    have ham : a ∈ m := hs a mem_cons_self
    have : l.length ≤ (m.erase a).length := by
      apply nodup_subset_length_le hl.2
      intro b hb
      have hne : b ≠ a := fun h => hl.1 (h ▸ hb)
      exact (mem_erase_of_ne hne).2 (hs b (mem_cons_of_mem _ hb))
    rw [length_erase_of_mem ham] at this
    have : 0 < m.length := length_pos_of_mem ham
    simp only [length_cons]; omega

/-- `get_virtual_id` / `get_sim_id` return an unused id -/
theorem firstFree_not_mem (used : List Nat) : firstFree used ∉ used := by
  unfold firstFree
  cases h : (List.range (used.length + 1)).find? (fun j => !used.contains j) with
  | some j =>
    have := find?_some h
    simpa using this
  | none =>
    exfalso
    rw [find?_eq_none] at h
    have : (List.range (used.length + 1)).length ≤ used.length := by
      apply nodup_subset_length_le nodup_range
      intro a ha
      have := h a ha
      simpa using this
    simp only [length_range] at this; omega

/-- `modify` with a function that fixes the entry is the identity -/
theorem modify_eq_of_fix {α} (l : List α) (i : Nat) (f : α → α)
    (h : ∀ a, l[i]? = some a → f a = a) : l.modify i f = l := by
  apply ext_getElem?
  intro j
  rw [getElem?_modify]
  cases hj : l[j]? with
  | none => rfl
  | some a =>
    by_cases hij : i = j
    · subst hij; simp [h a hj]
    · simp [hij]

theorem mem_flatMap_getElem? {α β} {l : List α} {f : α → List β} {b : β} :
    b ∈ l.flatMap f ↔ ∃ (i : Nat) (a : α), l[i]? = some a ∧ b ∈ f a := by
  rw [mem_flatMap]
  constructor
  · rintro ⟨a, ha, hb⟩
    obtain ⟨i, hi⟩ := mem_iff_getElem?.1 ha
    exact ⟨i, a, hi, hb⟩
  · rintro ⟨i, a, hi, hb⟩
    exact ⟨a, mem_iff_getElem?.2 ⟨i, hi⟩, hb⟩

/-- `flatMap` over a list of duplicate-free, pairwise disjoint lists (indexed form) -/
theorem nodup_flatMap_getElem? {α β} {l : List α} {f : α → List β} :
    (l.flatMap f).Nodup ↔ (∀ (i : Nat) (a : α), l[i]? = some a → (f a).Nodup) ∧
      ∀ (i j : Nat) (a b : α) (x : β), l[i]? = some a → l[j]? = some b → x ∈ f a → x ∈ f b → i = j := by
  induction l with
  | nil => simp
  | cons c l ih =>
    rw [flatMap_cons, nodup_append, ih]
    constructor
    · rintro ⟨hc, ⟨h1, h2⟩, h3⟩
      refine ⟨?_, ?_⟩
      · intro i a hi
        cases i with
        | zero => simp at hi; subst hi; exact hc
        | succ i => exact h1 i a (by simpa using hi)
      · intro i j a b x hi hj ha hb
        cases i with
        | zero =>
          simp at hi; subst hi
          cases j with
          | zero => rfl
          | succ j =>
            exfalso
            simp at hj
            exact h3 x ha x (mem_flatMap_getElem?.2 ⟨j, b, hj, hb⟩) rfl
        | succ i =>
          simp at hi
          cases j with
          | zero =>
            exfalso
            simp at hj; subst hj
            exact h3 x hb x (mem_flatMap_getElem?.2 ⟨i, a, hi, ha⟩) rfl
          | succ j =>
            simp at hj
            rw [h2 i j a b x hi hj ha hb]
    · rintro ⟨h1, h2⟩
      refine ⟨h1 0 c (by simp), ⟨fun i a hi => h1 (i+1) a (by simpa using hi), ?_⟩, ?_⟩
      · intro i j a b x hi hj ha hb
        have := h2 (i+1) (j+1) a b x (by simpa using hi) (by simpa using hj) ha hb
        omega
      · intro x hx y hy hxy
        subst hxy
        obtain ⟨j, b, hj, hb⟩ := mem_flatMap_getElem?.1 hy
        have := h2 0 (j+1) c b x (by simp) (by simpa using hj) hx hb
        omega

end SqVerif.VNet.WFP

"""AST translator for C09: the instruction -> method dispatch chain

  simulaqron/netqasm_backend/executioner.py   SIMULAQRON_OPS, ROTATION_AXIS (class VanillaSimulaQronExecutioner)
  simulaqron/virtual_node/virtual.py          class virtualQubit: the remote_* methods and, for each, the
                                              method name it forwards to the simulated qubit
                                              (`self._single_gate("m")` / `self._two_qubit_gate(t, "m")`)
  simulaqron/virtual_node/quantum.py          class simulatedQubit: the remote_* methods and the engine methods
                                              each calls on `self.register`
  simulaqron/virtual_node/{stabilizer,qutip,project_q}_simulator.py
                                              the apply_* methods each engine class defines, and those whose
                                              body is nothing but `raise SimUnsupportedError(...)`

-> lean/SqVerif/Gen/Dispatch.lean.  `dispatch_complete` / `unsupported_refused_at_source` in Props/C09.lean are
re-checked against the regenerated tables by `decide` on every run.  A table entry the translator cannot read
becomes the string "<unrecognised>", which no obligation accepts.

Pure stdlib.  `generate(repo, lean_dir)` rewrites the Lean file only if its text changed."""
import ast
import os

OUT = "SqVerif/Gen/Dispatch.lean"
SRC_EXEC = "simulaqron/netqasm_backend/executioner.py"
SRC_VIRTUAL = "simulaqron/virtual_node/virtual.py"
SRC_QUANTUM = "simulaqron/virtual_node/quantum.py"
ENGINES = [("stabilizerEngine", "simulaqron/virtual_node/stabilizer_simulator.py"),
           ("qutipEngine", "simulaqron/virtual_node/qutip_simulator.py"),
           ("projectQEngine", "simulaqron/virtual_node/project_q_simulator.py")]
BAD = "<unrecognised>"
# the vanilla instructions C09 calls supported on the stabilizer backend
SUPPORTED = ["GateXInstruction", "GateYInstruction", "GateZInstruction", "GateHInstruction", "GateKInstruction",
             "GateSInstruction", "CnotInstruction", "CphaseInstruction"]


def _class(tree, name):
    return next((n for n in tree.body if isinstance(n, ast.ClassDef) and n.name == name), None)


def _methods(cls):
    return [n for n in cls.body if isinstance(n, (ast.FunctionDef, ast.AsyncFunctionDef))] if cls else []


def _without_docstring(body):
    if body and isinstance(body[0], ast.Expr) and isinstance(body[0].value, ast.Constant) \
            and isinstance(body[0].value.value, str):
        return body[1:]
    return body


def _class_dict(cls, name):
    """the Dict literal assigned to `name` in the class body, or None"""
    for n in (cls.body if cls else []):
        if isinstance(n, ast.Assign) and len(n.targets) == 1 and isinstance(n.targets[0], ast.Name) \
                and n.targets[0].id == name and isinstance(n.value, ast.Dict):
            return n.value
    return None


def _last_attr(node):
    return node.attr if isinstance(node, ast.Attribute) else (node.id if isinstance(node, ast.Name) else BAD)


def _is_self_attr(node, attr):
    return (isinstance(node, ast.Attribute) and isinstance(node.value, ast.Name) and node.value.id == "self"
            and node.attr == attr)


def extract(read):
    """read(relpath) -> source text"""
    tab = {}
    ex = _class(ast.parse(read(SRC_EXEC)), "VanillaSimulaQronExecutioner")
    ops = []
    d = _class_dict(ex, "SIMULAQRON_OPS")
    for k, v in zip(d.keys, d.values) if d else []:
        ops.append((_last_attr(k), v.value if isinstance(v, ast.Constant) and isinstance(v.value, str) else BAD))
    tab["ops"] = ops
    axes = []
    d = _class_dict(ex, "ROTATION_AXIS")
    for k, v in zip(d.keys, d.values) if d else []:
        ok = isinstance(v, ast.Tuple) and len(v.elts) == 3 and all(
            isinstance(e, ast.Constant) and isinstance(e.value, int) for e in v.elts)
        axes.append((_last_attr(k), tuple(e.value for e in v.elts) if ok else None))
    tab["axes"] = axes

    vq = _class(ast.parse(read(SRC_VIRTUAL)), "virtualQubit")
    vmeth, vfwd = [], []
    for fn in _methods(vq):
        if not fn.name.startswith("remote_"):
            continue
        vmeth.append(fn.name)
        fw = []
        for n in ast.walk(fn):
            if isinstance(n, ast.Call) and _is_self_attr(n.func, "_single_gate") and n.args:
                a = n.args[0]
                fw.append(a.value if isinstance(a, ast.Constant) and isinstance(a.value, str) else BAD)
            if isinstance(n, ast.Call) and _is_self_attr(n.func, "_two_qubit_gate") and len(n.args) >= 2:
                a = n.args[1]
                fw.append(a.value if isinstance(a, ast.Constant) and isinstance(a.value, str) else BAD)
        if fw:
            vfwd.append((fn.name, fw))
    tab["virt_methods"], tab["virt_forwards"] = vmeth, vfwd

    sq = _class(ast.parse(read(SRC_QUANTUM)), "simulatedQubit")
    smeth, scalls = [], []
    for fn in _methods(sq):
        if not fn.name.startswith("remote_"):
            continue
        smeth.append(fn.name)
        cs = []
        for n in ast.walk(fn):
            if isinstance(n, ast.Call) and isinstance(n.func, ast.Attribute) and _is_self_attr(n.func.value, "register"):
                cs.append(n.func.attr)
        if cs:
            scalls.append((fn.name, cs))
    tab["sim_methods"], tab["sim_calls"] = smeth, scalls

    engines = []
    for cname, path in ENGINES:
        try:
            cls = _class(ast.parse(read(path)), cname)
        except OSError:
            cls = None
        defined, refuses = [], []
        for fn in _methods(cls):
            if not fn.name.startswith("apply_"):
                continue
            defined.append(fn.name)
            body = _without_docstring(fn.body)
            if len(body) == 1 and isinstance(body[0], ast.Raise) and isinstance(body[0].exc, ast.Call) \
                    and _last_attr(body[0].exc.func) == "SimUnsupportedError":
                refuses.append(fn.name)
        engines.append((cname, defined, refuses))
    tab["engines"] = engines

    # what the Lean obligation will say, computed here as well for the evidence file
    missing = []
    opd = dict(ops)
    fwd = dict(vfwd)
    calls = dict(scalls)
    stab = next((e for e in engines if e[0] == "stabilizerEngine"), ("", [], []))
    for c in SUPPORTED:
        m = opd.get(c)
        if m is None:
            missing.append("%s: not in SIMULAQRON_OPS" % c)
            continue
        if "remote_" + m not in vmeth:
            missing.append("%s: virtualQubit.remote_%s" % (c, m))
            continue
        for m2 in fwd.get("remote_" + m, [BAD]):
            if "remote_" + m2 not in smeth:
                missing.append("%s: simulatedQubit.remote_%s" % (c, m2))
                continue
            for e in calls.get("remote_" + m2, [BAD]):
                if e not in stab[1]:
                    missing.append("%s: stabilizerEngine.%s" % (c, e))
                elif e in stab[2]:
                    missing.append("%s: stabilizerEngine.%s refuses" % (c, e))
    tab["missing"] = missing
    return tab


def _s(x):
    return '"%s"' % x


def _sl(xs):
    return "[" + ", ".join(_s(x) for x in xs) + "]"


def render(tab):
    out = []
    w = out.append
    w("/- GENERATED on every run by harness/gen/dispatch.py from %s, %s, %s and the three" % (SRC_EXEC, SRC_VIRTUAL, SRC_QUANTUM))
    w("   *_simulator.py — do not edit.  Facts read off the Python AST; the obligations over them are in Props/C09.lean. -/")
    w("namespace SqVerif.Gen.Dispatch")
    w("")
    w("/-- `SIMULAQRON_OPS`: netqasm instruction class ↦ method name called on the virtual qubit -/")
    w("def simulaqronOps : List (String × String) := [")
    w(",\n".join("  (%s, %s)" % (_s(k), _s(v)) for k, v in tab["ops"]))
    w("]")
    w("")
    w("/-- `ROTATION_AXIS`: rotation instruction class ↦ axis (`none`: not an integer triple) -/")
    w("def rotationAxis : List (String × Option (Int × Int × Int)) := [")
    w(",\n".join("  (%s, %s)" % (_s(k), "none" if v is None else "some (%d, %d, %d)" % v) for k, v in tab["axes"]))
    w("]")
    w("")
    w("/-- the `remote_*` methods of `virtualQubit` -/")
    w("def virtualQubitMethods : List String := %s" % _sl(tab["virt_methods"]))
    w("")
    w("/-- for a `remote_*` method of `virtualQubit`: the names it passes to `_single_gate` / `_two_qubit_gate` -/")
    w("def virtualQubitForwards : List (String × List String) := [")
    w(",\n".join("  (%s, %s)" % (_s(k), _sl(v)) for k, v in tab["virt_forwards"]))
    w("]")
    w("")
    w("/-- the `remote_*` methods of `simulatedQubit` -/")
    w("def simulatedQubitMethods : List String := %s" % _sl(tab["sim_methods"]))
    w("")
    w("/-- for a `remote_*` method of `simulatedQubit`: the methods it calls on `self.register` -/")
    w("def simulatedQubitCalls : List (String × List String) := [")
    w(",\n".join("  (%s, %s)" % (_s(k), _sl(v)) for k, v in tab["sim_calls"]))
    w("]")
    w("")
    names = sorted({v for _k, v in tab["ops"]} | {x for _k, vs in tab["virt_forwards"] for x in vs})
    w("/-- `m ↦ remote_m` for every method name the tables above mention (Perspective Broker prefixes the name) -/")
    w("def remoteName : List (String × String) := [")
    w(",\n".join("  (%s, %s)" % (_s(n), _s("remote_" + n)) for n in names))
    w("]")
    w("")
    w("structure Engine where")
    w("  name : String")
    w("  /-- `apply_*` methods the class defines -/")
    w("  defines : List String")
    w("  /-- those whose body is just `raise SimUnsupportedError(...)` -/")
    w("  refuses : List String")
    w("")
    w("def engines : List Engine := [")
    w(",\n".join("  { name := %s,\n    defines := %s,\n    refuses := %s }" % (_s(n), _sl(d), _sl(r))
                 for n, d, r in tab["engines"]))
    w("]")
    w("")
    w("end SqVerif.Gen.Dispatch")
    return "\n".join(out) + "\n"


def generate(repo, lean_dir):
    def read(rel):
        with open(os.path.join(repo, rel)) as f:
            return f.read()
    tab = extract(read)
    text = render(tab)
    path = os.path.join(lean_dir, OUT)
    os.makedirs(os.path.dirname(path), exist_ok=True)
    old = None
    if os.path.exists(path):
        with open(path) as f:
            old = f.read()
    if old != text:
        tmp = path + ".tmp%d" % os.getpid()
        with open(tmp, "w") as f:
            f.write(text)
        os.replace(tmp, path)
    tab["changed"] = old != text
    return tab


if __name__ == "__main__":
    import json
    import sys
    here = os.path.dirname(os.path.dirname(os.path.dirname(os.path.abspath(__file__))))
    t = generate(sys.argv[1] if len(sys.argv) > 1 else "/repo", os.path.join(here, "lean"))
    print(json.dumps(t, indent=1))
